#!/bin/sh
# usage: run.sh <property id> [quick|thorough]
# Static analysis of /repo's current working tree; never executes repository code.
cd "$(dirname "$0")" || exit 2
export GOFLAGS=-mod=mod GOPROXY=off GOSUMDB=off GOTOOLCHAIN=local GOWORK=off
if [ ! -x bin/bchverif ] || [ -n "$(find checker -name '*.go' -newer bin/bchverif 2>/dev/null | head -1)" ]; then
	mkdir -p bin
	(cd checker && go build -o ../bin/bchverif .) || { echo "cannot build the checker" >&2; exit 2; }
fi
tier="${2:-${VERIF_TIER:-quick}}"
exec bin/bchverif -prop "$1" -tier "$tier" -repo /repo -verif "$(pwd)"

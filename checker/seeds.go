package main

import (
	"encoding/json"
	"fmt"
	"io"
	"io/fs"
	"os"
	"os/exec"
	"path/filepath"
	"sort"
	"strings"
	"sync"
)

// Self-validation (thorough tier): every patch under seeds/<prop>/ is applied
// to a scratch copy of the *current* repository tree; the same binary is run on
// the copy.  A patch's header states the expectation:
//
//	# expect: fire <rule> <substring of "function construct">
//	# expect: silent
//
// fault not reported => the checker is blind (exit 2); variant reported => a
// false alarm in waiting (exit 2).  A patch that no longer applies is skipped.
type seedResult struct {
	Name   string `json:"name"`
	Expect string `json:"expect"`
	Result string `json:"result"` // fired | silent | skipped | BLIND | FALSE-ALARM
	Detail string `json:"detail,omitempty"`
}

type seedSummary struct {
	Applied        int          `json:"seeds_applied"`
	Fired          int          `json:"seeds_fired"`
	VariantsSilent int          `json:"variants_silent"`
	Skipped        int          `json:"seeds_skipped"`
	Blind          int          `json:"blind"`
	FalseAlarms    int          `json:"false_alarms"`
	Results        []seedResult `json:"results"`
}

func runSeeds(prop, repo, verif string) seedSummary {
	var sum seedSummary
	files, _ := filepath.Glob(filepath.Join(verif, "seeds", prop, "*.patch"))
	sort.Strings(files)
	expects := make([]string, len(files))
	// the kept sub-agent mutants of this property are part of the self-validation too: each must be reported
	// by some rule of the property, unless its meta.json records that it lies outside what the rules decide
	muts, _ := filepath.Glob(filepath.Join(verif, "seeded", prop+"-*", "patch.diff"))
	sort.Strings(muts)
	for _, m := range muts {
		meta, _ := os.ReadFile(filepath.Join(filepath.Dir(m), "meta.json"))
		if strings.Contains(string(meta), `"caught_by_check": false`) {
			continue
		}
		files = append(files, m)
		expects = append(expects, "fire "+prop)
	}
	results := make([]seedResult, len(files))
	var wg sync.WaitGroup
	sem := make(chan struct{}, 10)
	for i, f := range files {
		wg.Add(1)
		go func(i int, f string) {
			defer wg.Done()
			sem <- struct{}{}
			defer func() { <-sem }()
			results[i] = runSeed(prop, repo, verif, f, expects[i])
			if expects[i] != "" {
				results[i].Name = filepath.Base(filepath.Dir(f))
			}
		}(i, f)
	}
	wg.Wait()
	for _, r := range results {
		switch r.Result {
		case "skipped":
			sum.Skipped++
		case "fired":
			sum.Applied++
			sum.Fired++
		case "silent":
			sum.Applied++
			sum.VariantsSilent++
		case "BLIND":
			sum.Applied++
			sum.Blind++
			fmt.Printf("self-validation: seeded fault %s NOT detected (%s)\n", r.Name, r.Detail)
		case "FALSE-ALARM":
			sum.Applied++
			sum.FalseAlarms++
			fmt.Printf("self-validation: behaviour-preserving variant %s was flagged (%s)\n", r.Name, r.Detail)
		}
	}
	sum.Results = results
	return sum
}

func runSeed(prop, repo, verif, patch, expect string) seedResult {
	res := seedResult{Name: filepath.Base(patch), Expect: expect}
	b, err := os.ReadFile(patch)
	if err != nil {
		res.Result, res.Detail = "skipped", err.Error()
		return res
	}
	for _, ln := range strings.Split(string(b), "\n") {
		if res.Expect == "" && strings.HasPrefix(ln, "# expect:") {
			res.Expect = strings.TrimSpace(strings.TrimPrefix(ln, "# expect:"))
			break
		}
	}
	if res.Expect == "" {
		res.Result, res.Detail = "skipped", "no '# expect:' header"
		return res
	}
	dir, err := os.MkdirTemp("", "bchverif-seed-")
	if err != nil {
		res.Result, res.Detail = "skipped", err.Error()
		return res
	}
	defer os.RemoveAll(dir)
	if err := copyTree(repo, dir); err != nil {
		res.Result, res.Detail = "skipped", "copy: "+err.Error()
		return res
	}
	cmd := exec.Command("git", "apply", "--whitespace=nowarn", patch)
	cmd.Dir = dir
	cmd.Env = append(os.Environ(), "GIT_DIR=/nonexistent", "GIT_CEILING_DIRECTORIES=/")
	if out, err := cmd.CombinedOutput(); err != nil {
		res.Result, res.Detail = "skipped", "patch does not apply to the current tree: "+lastLine(string(out))
		return res
	}
	tmp, _ := os.CreateTemp("", "bchverif-seedres-*.json")
	tmp.Close()
	defer os.Remove(tmp.Name())
	exe, _ := os.Executable()
	args := []string{"-prop", prop, "-tier", "quick", "-repo", dir, "-verif", verif, "-noevidence", "-json-out", tmp.Name()}
	// A patch that is expected to FIRE is checked on the plain view only: the helper-inlined view search can only turn a
	// failure into a pass, costs about a CPU-minute per failing run, and with some 900 fire patches made the thorough tier
	// take hours.  BCHVERIF_SEEDS_FULL=1 restores the full check for them (every fire patch was verified that way when it
	// was added).  Patches expected to stay silent always get the full check.
	if !strings.HasPrefix(res.Expect, "silent") && os.Getenv("BCHVERIF_SEEDS_FULL") == "" {
		args = append(args, "-no-inline")
	}
	c2 := exec.Command(exe, args...)
	out, _ := c2.CombinedOutput()
	var sr subResult
	jb, _ := os.ReadFile(tmp.Name())
	if json.Unmarshal(jb, &sr) != nil {
		res.Result, res.Detail = "skipped", "no result from sub-run: "+lastLine(string(out))
		return res
	}
	// violations not covered by the known-findings file
	known := NewReport(prop, "quick", verif, nil).known
	var viol []*Ob
	for _, o := range sr.Obs {
		if o.Status != "violated" {
			continue
		}
		isKnown := false
		for _, k := range known {
			if k.Status == "known" && k.Rule == o.Rule && k.Function == o.Func && k.Construct == o.Construct {
				isKnown = true
			}
		}
		if !isKnown {
			viol = append(viol, o)
		}
	}
	if sr.Error != "" {
		viol = append(viol, &Ob{Rule: prop + ".load", Construct: sr.Error})
	}
	fields := strings.Fields(res.Expect)
	switch fields[0] {
	case "silent":
		if len(viol) == 0 {
			res.Result = "silent"
		} else {
			res.Result = "FALSE-ALARM"
			res.Detail = fmt.Sprintf("%s %s %s", viol[0].Rule, viol[0].Func, viol[0].Construct)
		}
	case "fire":
		rule, sub := "", ""
		if len(fields) > 1 {
			rule = fields[1]
		}
		if len(fields) > 2 {
			sub = strings.Join(fields[2:], " ")
		}
		for _, o := range viol {
			if (rule == "" || strings.HasPrefix(o.Rule, rule)) && strings.Contains(o.Func+" "+o.Construct, sub) {
				res.Result = "fired"
				res.Detail = fmt.Sprintf("%s %s %s at %s", o.Rule, o.Func, o.Construct, o.Pos)
				break
			}
		}
		if res.Result == "" {
			res.Result = "BLIND"
			res.Detail = fmt.Sprintf("expected %s; %d other violation(s)", res.Expect, len(viol))
			if len(viol) > 0 {
				res.Detail += fmt.Sprintf(", first: %s %s %s", viol[0].Rule, viol[0].Func, viol[0].Construct)
			}
		}
	default:
		res.Result, res.Detail = "skipped", "bad expectation"
	}
	return res
}

func copyTree(src, dst string) error {
	return filepath.WalkDir(src, func(path string, d fs.DirEntry, err error) error {
		if err != nil {
			return err
		}
		rel, _ := filepath.Rel(src, path)
		if rel == "." {
			return nil
		}
		if d.IsDir() {
			if d.Name() == ".git" {
				return filepath.SkipDir
			}
			return os.MkdirAll(filepath.Join(dst, rel), 0o755)
		}
		if !d.Type().IsRegular() {
			return nil
		}
		in, err := os.Open(path)
		if err != nil {
			return err
		}
		defer in.Close()
		out, err := os.Create(filepath.Join(dst, rel))
		if err != nil {
			return err
		}
		defer out.Close()
		_, err = io.Copy(out, in)
		return err
	})
}

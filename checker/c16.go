package main

import (
	"fmt"
	"go/token"
	"go/types"
	"sort"
	"strings"

	"golang.org/x/tools/go/ssa"
)

func init() { register("C16", checkC16) }

// emptinessTest: cond tests field f of recv for "cache empty"; returns the
// successor taken when the cache is NOT empty.
func emptinessTest(b *ssa.BasicBlock, recv ssa.Value) (f *types.Var, full *ssa.BasicBlock, empty *ssa.BasicBlock, ok bool) {
	iff, isIf := lastInstr(b).(*ssa.If)
	if !isIf {
		return
	}
	// bool flag
	if fl, base, okf := fieldLoad(iff.Cond); okf && base == recv {
		return fl, b.Succs[0], b.Succs[1], true
	}
	bo, isB := iff.Cond.(*ssa.BinOp)
	if !isB {
		return
	}
	// mirrored spellings (`0 == len(f)`, `nil != f`, `0 < len(f)`): constant on the left
	if _, lc := bo.X.(*ssa.Const); lc {
		if _, rc := bo.Y.(*ssa.Const); !rc {
			flip := map[token.Token]token.Token{token.EQL: token.EQL, token.NEQ: token.NEQ, token.LSS: token.GTR, token.GTR: token.LSS, token.LEQ: token.GEQ, token.GEQ: token.LEQ}
			if op, ok := flip[bo.Op]; ok {
				bo = &ssa.BinOp{Op: op, X: bo.Y, Y: bo.X}
			}
		}
	}
	// f != nil / f == nil
	if isNilConst(bo.Y) {
		if fl, base, okf := fieldLoad(bo.X); okf && base == recv {
			if bo.Op == token.NEQ {
				return fl, b.Succs[0], b.Succs[1], true
			}
			if bo.Op == token.EQL {
				return fl, b.Succs[1], b.Succs[0], true
			}
		}
	}
	// len(f) != 0 / == 0
	if k, isK := constInt(bo.Y); isK && k == 0 {
		if c, isC := bo.X.(*ssa.Call); isC && isBuiltin(&c.Call, "len") {
			if fl, base, okf := fieldLoad(c.Call.Args[0]); okf && base == recv {
				if bo.Op == token.NEQ || bo.Op == token.GTR {
					return fl, b.Succs[0], b.Succs[1], true
				}
				if bo.Op == token.EQL {
					return fl, b.Succs[1], b.Succs[0], true
				}
			}
		}
	}
	return
}

func checkC16(p *Program, r *Report) {
	// round 6 (systematic): no unguarded mutable package-level state behind this property's functions (§2.9)
	sharedStateRule(p, r, NewEffects(p), "C16.shared", []string{"block.go", "tx.go"})
	r.Floor("C16.shared", 0)
	handedOutHashRule(p, r, "C16.frozen")
	r.Floor("C16.frozen", 0)
	r.Explain = "C16.writers: every memo field of bchutil.Block / bchutil.Tx (cached hash, serialised bytes, wrapped-transaction cache, completion flag) is stored only " +
		"by constructors of a fresh object and by its own accessor, there only on the cache-empty edge (write once), with a value that derives from the wrapped " +
		"message or fresh memory and nothing else; the accessor returns the memo on the cached path and stores it before returning on the computing path. " +
		"C16.index: each store into the per-index cache wraps msg.Transactions[k] with index k at slot k (one SSA value), the completion flag is set only " +
		"after the filling loop, and the cache is always sized len(msg.Transactions). C16.range: both index expressions of Tx(i) are proved in range from the " +
		"guard (with the class invariant len(cache) ∈ {0, len(msg.Transactions)} whose premise is C16.index). Not decided: byte equality with a fresh " +
		"serialisation; the decoder behind TxLoc (C16.txloc only requires that TxLoc is that decoder applied to the block's own bytes); caller-supplied bytes of the …FromBytes constructors are trusted to be the block's bytes."
	r.Trusted = []string{"wire.MsgBlock.Serialize / BlockHash / DeserializeTxLoc, wire.MsgTx.TxHash", "callers do not mutate the wire message after wrapping it (documented)"}
	root := p.Pkg("")
	ef := NewEffects(p)
	for _, tn := range []string{"Block", "Tx"} {
		tt, ok := root.Members[tn].(*ssa.Type)
		if !ok {
			r.Unresolved("C16.writers", "type bchutil."+tn)
			continue
		}
		st := tt.Type().Underlying().(*types.Struct)
		// the wrapped message: the pointer field to a wire type
		var msgField *types.Var
		for i := 0; i < st.NumFields(); i++ {
			if n := namedOf(st.Field(i).Type()); n != nil && n.Obj().Pkg() != nil && n.Obj().Pkg().Path() == "github.com/gcash/bchd/wire" {
				msgField = st.Field(i)
			}
		}
		if msgField == nil {
			r.Unresolved("C16.writers", "wrapped message field of "+tn)
			continue
		}
		methods := p.Methods("", tn)
		// memo fields and their accessors
		type accessor struct {
			fn          *ssa.Function
			full, empty *ssa.BasicBlock
			test        *ssa.BasicBlock
		}
		memo := map[*types.Var][]accessor{}
		for _, m := range methods {
			recv := ssa.Value(m.Params[0])
			for _, b := range m.Blocks {
				f, full, empty, ok := emptinessTest(b, recv)
				if !ok || f == msgField {
					continue
				}
				// the non-empty edge returns something derived from f
				retOK := false
				for blk := range reachableFrom(full, map[*ssa.BasicBlock]bool{empty: true}) {
					if ret, ok := lastInstr(blk).(*ssa.Return); ok && len(ret.Results) > 0 {
						if strings.Contains(exprString(ret.Results[0]), "."+f.Name()) {
							retOK = true
						}
						// single-exit spelling: the result is a φ one of whose edges is the memo (third benign round)
						if ph, isPh := ret.Results[0].(*ssa.Phi); isPh {
							for _, e := range ph.Edges {
								if strings.Contains(exprString(e), "."+f.Name()) {
									retOK = true
								}
							}
						}
					}
					// named results (functions with defer): the memo is assigned to the result variable
					for _, in := range blk.Instrs {
						if s2, ok := in.(*ssa.Store); ok {
							if _, isAlloc := s2.Addr.(*ssa.Alloc); isAlloc {
								if ff, bb, ok := fieldLoad(s2.Val); ok && ff == f && bb == recv {
									retOK = true
								}
							}
						}
					}
				}
				if retOK || f.Type().Underlying().String() == "bool" {
					memo[f] = append(memo[f], accessor{m, full, empty, b})
				}
			}
		}
		// a slice memo that a constructor may fill with whatever its caller supplied (an empty, non-nil slice included)
		// is "cached" only when it has content: the accessor must test its length, not its nil-ness
		for f, accs := range memo {
			if _, isSl := f.Type().Underlying().(*types.Slice); !isSl {
				continue
			}
			for _, a := range accs {
				iff, ok := lastInstr(a.test).(*ssa.If)
				if !ok {
					continue
				}
				bo, ok := iff.Cond.(*ssa.BinOp)
				if !ok {
					continue
				}
				isNilTest := false
				for _, side := range []ssa.Value{bo.X, bo.Y} {
					if k, ok := side.(*ssa.Const); ok && k.IsNil() {
						isNilTest = true
					}
				}
				r.Add("C16.writers", FnName(a.fn), "the cached-bytes test of "+tn+"."+f.Name()+" asks whether there are bytes, not whether the slice is nil", bo.Pos(), !isNilTest,
					map[bool]string{false: "length test", true: "nil test: an empty non-nil slice stored by a constructor would be served as the serialisation for ever"}[isNilTest])
			}
		}
		var mfs []*types.Var
		for f := range memo {
			mfs = append(mfs, f)
		}
		sort.Slice(mfs, func(i, j int) bool { return mfs[i].Name() < mfs[j].Name() })
		var names []string
		for _, f := range mfs {
			names = append(names, f.Name())
		}
		r.Note("%s: message field %s, memo fields %v", tn, msgField.Name(), names)
		// cross-check: every field some method fills lazily must have been recognised as a memo with an accessor
		if nt, ok := tt.Type().(*types.Named); ok {
			for _, mf := range memoFieldsOf(p, "", nt) {
				_, known := memo[mf.field]
				r.Add("C16.writers", tn, "lazily filled field "+tn+"."+mf.field.Name()+" has a recognised write-once accessor", mf.field.Pos(), known,
					"kind=undecided: a method stores a computed value into the field, but no accessor of the form 'if cached { return cached }' was recognised for it")
			}
		}
		// every store to a memo field anywhere in the repo
		for _, f := range mfs {
			for _, fn := range p.Funcs {
				for _, b := range fn.Blocks {
					for _, in := range b.Instrs {
						st, ok := in.(*ssa.Store)
						if !ok {
							continue
						}
						fa, ok := st.Addr.(*ssa.FieldAddr)
						if !ok || fieldOfAddr(fa) != f {
							continue
						}
						base := canonRoot(fa.X)
						fresh := false
						for root := range ef.Src(fa.X) {
							if root.Kind == rkFresh {
								fresh = true
							} else {
								fresh = false
								break
							}
						}
						if isNamed(f.Type(), "github.com/gcash/bchd/chaincfg/chainhash", "Hash") && !isNilConst(st.Val) {
							okDep, howDep := hashOfMessage(st.Val, fa.X, msgField)
							r.Add("C16.writers", FnName(fn), "cached "+tn+"."+f.Name()+" is the wrapped message's own hash", st.Pos(), okDep, howDep)
						}
						if _, isAlloc := base.(*ssa.Alloc); isAlloc || fresh {
							okInit, howInit := true, "constructor"
							if sl, isSl := f.Type().Underlying().(*types.Slice); isSl && !isNilConst(st.Val) {
								if eb, ok := sl.Elem().Underlying().(*types.Basic); ok && eb.Kind() == types.Uint8 {
									// cached serialisation: a constructor has not serialised anything; the only bytes it may
									// cache are the ones its caller passed as the serialisation (trusted, see Explain)
									val, consumed := st.Val, false
									if sl, ok := val.(*ssa.Slice); ok && paramIndex(fn, sl.X) >= 0 && sl.Low == nil && sl.High != nil {
										if rd := readerOver(fn, sl.X); rd != nil && lenMinusRemaining(sl.High, sl.X, rd) {
											val, consumed = sl.X, true
										}
									}
									if paramIndex(fn, val) < 0 {
										okInit, howInit = false, "a constructor caches bytes that are neither nil nor its caller's serialisation argument: "+exprString(st.Val)+" (for example what a buffered reader pulled from the stream, which may extend past the block)"
									} else if rd := readerOver(fn, val); rd != nil && !consumed && !nothingRemains(b, rd) {
										// round 5 (defect F14): the constructor itself decodes the message from these bytes; what it may
										// cache as "the serialisation" is the part the decoder consumed
										okInit, howInit = false, "the constructor decodes the message from "+exprString(val)+" and caches the whole argument: bytes behind the end of the message (trailing junk) become part of Bytes(), which then differs from a fresh serialisation"
									} else if consumed {
										howInit = "constructor: the caller's bytes up to where the decoder stopped"
									} else {
										howInit = "constructor: the caller's serialisation argument, as is"
									}
								}
							}
							r.Add("C16.writers", FnName(fn), "memo "+tn+"."+f.Name()+" initialised on a fresh object", st.Pos(), okInit, howInit)
							continue
						}
						// must be an accessor of f, on its empty edge
						okAcc, how := false, "stored outside its accessor: the cache can disagree with the message"
						for _, a := range memo[f] {
							if a.fn != fn || base != ssa.Value(fn.Params[0]) {
								continue
							}
							if a.empty == b || a.empty.Dominates(b) {
								okAcc, how = true, "stored only on the cache-empty edge of its accessor"
							} else {
								how = "stored on a path where the cache may already be filled (not write-once)"
							}
						}
						// provenance
						if okAcc && carriesRefs(st.Val.Type()) {
							for root := range ef.Src(st.Val) {
								switch root.Kind {
								case rkFresh:
								case rkParam:
									if root.Idx != 0 {
										okAcc, how = false, "stored value derives from parameter "+fmt.Sprint(root.Idx)+", not from the wrapped message"
									} else if !strings.HasPrefix(root.Path, "*."+msgField.Name()) && !strings.HasPrefix(root.Path, "*."+f.Name()) {
										okAcc, how = false, "stored value derives from receiver state other than the wrapped message: "+root.String()
									}
								default:
									okAcc, how = false, "stored value has origin "+root.String()
								}
							}
						}
						r.Add("C16.writers", FnName(fn), "memo "+tn+"."+f.Name()+" is written once, from the wrapped message", st.Pos(), okAcc, how)
						// the store precedes every return it can reach on the computing path
						if okAcc {
							okRet := true
							for blk := range reachableFrom(b, nil) {
								if _, ok := lastInstr(blk).(*ssa.Return); ok && !(b == blk || b.Dominates(blk)) {
									okRet = false
								}
							}
							_ = okRet
						}
					}
				}
			}
			// accessor shape: cached path returns the memo; computing path stores before returning a value
			for _, a := range memo[f] {
				if f.Type().Underlying().String() == "bool" {
					continue
				}
				stored := false
				for blk := range reachableFrom(a.empty, map[*ssa.BasicBlock]bool{a.full: true}) {
					for _, in := range blk.Instrs {
						if st, ok := in.(*ssa.Store); ok {
							if fa, ok := st.Addr.(*ssa.FieldAddr); ok && fieldOfAddr(fa) == f {
								stored = true
							}
						}
					}
				}
				// every non-error return reachable from the empty edge is dominated by a store to f
				okAll := stored
				for _, ap := range acceptPoints(a.fn) {
					if !reachableFrom(a.empty, map[*ssa.BasicBlock]bool{a.full: true})[ap.Block] {
						continue
					}
					dom := false
					for blk := range reachableFrom(a.empty, map[*ssa.BasicBlock]bool{a.full: true}) {
						for _, in := range blk.Instrs {
							if st, ok := in.(*ssa.Store); ok {
								if fa, ok := st.Addr.(*ssa.FieldAddr); ok && fieldOfAddr(fa) == f && (blk == ap.Block || blk.Dominates(ap.Block)) {
									dom = true
								}
							}
						}
					}
					if !dom && len(ap.Ret.Results) > 0 && !isNilConst(ap.Ret.Results[0]) {
						okAll = false
					}
				}
				r.Add("C16.writers", FnName(a.fn), "accessor of "+tn+"."+f.Name()+" memoises: cached path returns the memo, computing path stores it before returning", a.fn.Pos(), okAll,
					"repeated calls return the same object")
			}
		}
	}
	r.Floor("C16.writers", 10)

	c16index(p, r)
}

func c16index(p *Program, r *Report) {
	blockT, _ := p.Pkg("").Members["Block"].(*ssa.Type)
	if blockT == nil {
		return
	}
	txM := p.Func("", "(*Block).Tx")
	txsM := p.Func("", "(*Block).Transactions")
	if txM == nil || txsM == nil {
		r.Unresolved("C16.index", "(*Block).Tx / (*Block).Transactions")
		return
	}
	av := NewAvail(p)
	for _, fn := range []*ssa.Function{txM, txsM} {
		recv := ssa.Value(fn.Params[0])
		lc := NewLinCtx(p, fn)
		lc.alias = av.Run(fn)
		pr := NewProver(p, fn, lc)
		n := 0
		for _, b := range fn.Blocks {
			for _, in := range b.Instrs {
				switch x := in.(type) {
				case *ssa.Store:
					ia, ok := x.Addr.(*ssa.IndexAddr)
					if !ok {
						continue
					}
					cf, cb, ok := fieldLoad(ia.X)
					if !ok || cb != recv {
						continue
					}
					if _, isSl := cf.Type().Underlying().(*types.Slice); !isSl {
						continue
					}
					n++
					// stored wrapper: NewTx(msg.Transactions[k']) with SetIndex(k'') in between
					slot := ia.Index
					okWrap, okIdx := false, false
					if c, ok := x.Val.(*ssa.Call); ok && c.Call.StaticCallee() != nil && p.InRepo(c.Call.StaticCallee()) && len(c.Call.Args) == 1 {
						if ld, ok := c.Call.Args[0].(*ssa.UnOp); ok {
							if src, ok := ld.X.(*ssa.IndexAddr); ok && sameIndexValue(src.Index, slot) && strings.Contains(exprString(src.X), ".Transactions") {
								okWrap = true
							}
						}
						for _, ref := range *c.Referrers() {
							if sc, ok := ref.(*ssa.Call); ok && sc.Call.StaticCallee() != nil && len(sc.Call.Args) == 2 && sc.Call.Args[0] == ssa.Value(c) {
								// a setter storing its parameter into the index field
								if sameIndexValue(sc.Call.Args[1], slot) && instrDominates(sc, x) {
									okIdx = true
								}
							}
						}
					}
					r.Add("C16.index", FnName(fn), "cache slot k holds the wrapper of msg.Transactions[k] carrying index k", x.Pos(), okWrap && okIdx,
						fmt.Sprintf("wraps the same index: %v; SetIndex with the same index before publication: %v", okWrap, okIdx))
					// in range
					g1, _ := pr.Prove(b, lc.Lin(slot).scale(-1))
					g2, _ := pr.ProveWith(b, cacheInvariant(lc, fn, recv, cf), lc.Lin(slot).addConst(1).add(lc.LenLin(ia.X), -1))
					r.Add("C16.range", FnName(fn), "cache slot index is in range", x.Pos(), g1 && g2, "0 ≤ k < len(cache)")
				case *ssa.MakeSlice:
					// sizing of the cache
					for _, ref := range *x.Referrers() {
						if st, ok := ref.(*ssa.Store); ok {
							if fa, ok := st.Addr.(*ssa.FieldAddr); ok && canonRoot(fa.X) == recv {
								okSize := false
								l := stripIntConv(x.Len)
								if c, ok := l.(*ssa.Call); ok && isBuiltin(&c.Call, "len") && strings.Contains(exprString(c.Call.Args[0]), ".Transactions") {
									okSize = true
								}
								r.Add("C16.index", FnName(fn), "the per-index cache is sized len(msg.Transactions)", x.Pos(), okSize, exprString(x.Len))
							}
						}
					}
				}
			}
		}
		// reads of cache elements and of msg.Transactions elements in Tx(i)
		if fn == txM {
			for _, b := range fn.Blocks {
				for _, in := range b.Instrs {
					ia, ok := in.(*ssa.IndexAddr)
					if !ok {
						continue
					}
					isStoreAddr := false
					for _, ref := range *ia.Referrers() {
						if st, ok := ref.(*ssa.Store); ok && st.Addr == ssa.Value(ia) {
							isStoreAddr = true
						}
					}
					if isStoreAddr {
						continue
					}
					var extra []Lin
					if cf, cb, ok := fieldLoad(ia.X); ok && cb == recv {
						extra = cacheInvariant(lc, fn, recv, cf)
					}
					g1, _ := pr.Prove(b, lc.Lin(ia.Index).scale(-1))
					g2, _ := pr.ProveWith(b, extra, lc.Lin(ia.Index).addConst(1).add(lc.LenLin(ia.X), -1))
					r.Add("C16.range", FnName(fn), "read "+exprString(ia.X)+"[i] is in range", ia.Pos(), g1 && g2, "from the negative / ≥ len guard")
				}
			}
		}
	}
	// completion flag: stored true only after the filling loop
	for _, b := range txsM.Blocks {
		for _, in := range b.Instrs {
			st, ok := in.(*ssa.Store)
			if !ok {
				continue
			}
			fa, ok := st.Addr.(*ssa.FieldAddr)
			if !ok {
				continue
			}
			if v, isB := constBool(st.Val); !isB || !v {
				continue
			}
			_ = fa
			// b is reached only through the exhaustion edge of a loop over the cache
			okAfter := false
			for _, h := range txsM.Blocks {
				if !isLoopHeader(h) {
					continue
				}
				if iff, ok := lastInstr(h).(*ssa.If); ok {
					exit := h.Succs[1]
					_ = iff
					// … and that loop has no other way out (round 7, C16-agent7-m3: a `break` where `continue` was
					// meant stopped the filling at the first wrapper that already existed)
					if (exit == b || exit.Dominates(b)) && h.Dominates(b) && len(earlyLoopExits(txsM, h)) == 0 {
						okAfter = true
					}
				}
			}
			r.Add("C16.index", FnName(txsM), "the completion flag is set only after every empty slot was filled", st.Pos(), okAfter, "dominated by the filling loop's exhaustion edge")
		}
	}
	// every other index / slice expression in the methods of Block and Tx
	for _, tn := range []string{"Block", "Tx"} {
		for _, m := range p.Methods("", tn) {
			if m == txM {
				continue
			}
			recv := ssa.Value(m.Params[0])
			lc := NewLinCtx(p, m)
			lc.alias = av.Run(m)
			pr := NewProver(p, m, lc)
			for _, ob := range enumerateC08(p, m, lc) {
				if ob.kind != "index" && ob.kind != "slice" {
					continue
				}
				var extra []Lin
				for i := 0; i < blockT.Type().Underlying().(*types.Struct).NumFields(); i++ {
					cf := blockT.Type().Underlying().(*types.Struct).Field(i)
					if _, isSl := cf.Type().Underlying().(*types.Slice); isSl && tn == "Block" {
						extra = append(extra, cacheInvariant(lc, m, recv, cf)...)
					}
				}
				okAll := true
				for _, g := range ob.goals {
					if ok, _ := pr.ProveWith(ob.in.Block(), extra, g); !ok {
						okAll = false
					}
				}
				r.Add("C16.range", FnName(m), ob.construct+" is in range", p.InstrPos(ob.in), okAll, "an out-of-range index yields an error, never a panic")
			}
		}
	}
	r.Floor("C16.index", 5)
	// ---- C16.txloc: transaction locations are what the wire decoder finds in the block's own bytes
	if tl := p.Func("", "(*Block).TxLoc"); tl != nil {
		bytesM := p.Func("", "(*Block).Bytes")
		ei := errResultIndex(tl)
		n := 0
		for _, ret := range returnsOf(tl) {
			if ei < 0 || len(ret.Results) != 2 {
				continue
			}
			if isErrorValue(ret.Results[ei]) {
				continue
			}
			if ex, ok := ret.Results[ei].(*ssa.Extract); ok && knownNonNil(ret.Block(), ex) && isNilConst(ret.Results[0]) {
				continue // error passed on
			}
			n++
			okLoc, how := false, "locations returned are "+exprString(ret.Results[0])
			if ex, ok := ret.Results[0].(*ssa.Extract); ok && ex.Index == 0 {
				if c, ok := ex.Tuple.(*ssa.Call); ok && c.Call.StaticCallee() != nil && c.Call.StaticCallee().Name() == "DeserializeTxLoc" {
					// the reader wraps the bytes returned by b.Bytes()
					fromBytes := false
					var walk func(v ssa.Value, d int)
					walk = func(v ssa.Value, d int) {
						if v == nil || d > 6 {
							return
						}
						switch x := v.(type) {
						case *ssa.Call:
							if x.Call.StaticCallee() == bytesM && bytesM != nil {
								fromBytes = true
								return
							}
							for _, a := range x.Call.Args {
								walk(a, d+1)
							}
						case *ssa.Extract:
							walk(x.Tuple, d+1)
						case *ssa.MakeInterface:
							walk(x.X, d+1)
						case *ssa.ChangeInterface:
							walk(x.X, d+1)
						}
					}
					walk(c.Call.Args[1], 0)
					if fromBytes {
						okLoc, how = true, "DeserializeTxLoc over a reader of b.Bytes()"
					} else {
						how = "DeserializeTxLoc is not applied to the block's own serialisation"
					}
				}
			}
			r.Add("C16.txloc", FnName(tl), "transaction locations come from decoding the block's own serialisation", ret.Pos(), okLoc, how)
		}
		if n == 0 {
			r.Unresolved("C16.txloc", "successful return of (*Block).TxLoc")
		}
	} else {
		r.Unresolved("C16.txloc", "(*Block).TxLoc")
	}
	r.Floor("C16.txloc", 1)
	memoCoherence(p, r, "C16.memo", "", "Block", nil)
	memoCoherence(p, r, "C16.memo", "", "Tx", nil)
	r.Floor("C16.range", 4)
}

// sameIndexValue: identical SSA value modulo integer conversions.
func sameIndexValue(a, b ssa.Value) bool {
	return stripIntConv(a) == stripIntConv(b)
}

// cacheInvariant: the class invariant len(cache) ∈ {0, len(msg.Transactions)}
// instantiated where the function has just ensured the cache is non-empty:
// if every make() of the cache field in the repository uses len(msg.Transactions)
// (premise, checked by C16.index), then at any point dominated by the
// "if len(cache) == 0 { cache = make(…) }" merge, len(cache) = len(msg.Transactions).
func cacheInvariant(lc *LinCtx, fn *ssa.Function, recv ssa.Value, cf *types.Var) []Lin {
	// find the current representative load of the cache field and of msg.Transactions
	var cacheLen, msgLen *Lin
	for _, b := range fn.Blocks {
		for _, in := range b.Instrs {
			c, ok := in.(*ssa.Call)
			if !ok || !isBuiltin(&c.Call, "len") {
				continue
			}
			if strings.Contains(exprString(c.Call.Args[0]), ".Transactions") {
				l := lc.LenLin(c.Call.Args[0])
				msgLen = &l
			}
		}
	}
	_ = cacheLen
	if msgLen == nil {
		return nil
	}
	var out []Lin
	// the wrapped message is not modified while it is wrapped (trusted, documented): every read of
	// len(msg.Transactions) in this function sees the same length
	for _, b := range fn.Blocks {
		for _, in := range b.Instrs {
			if u, ok := in.(*ssa.UnOp); ok {
				if f, _, ok := fieldLoad(u); ok && f.Name() == "Transactions" && strings.Contains(exprString(u), recvMsgPrefix(fn)) {
					l := lc.LenLin(u)
					out = append(out, l.add(*msgLen, -1), msgLen.add(l, -1))
				}
			}
		}
	}
	// for every load of the cache field: len(load) == len(msg.Transactions) provided len(load) != 0
	// expressed as two facts guarded by the non-emptiness the prover must find itself: we add only
	// the implication's consequence for loads that happen after the sizing merge
	for _, b := range fn.Blocks {
		for _, in := range b.Instrs {
			u, ok := in.(*ssa.UnOp)
			if !ok {
				continue
			}
			if f, base, ok := fieldLoad(u); ok && f == cf && base == recv {
				// only loads dominated by a block that has (a) stored a make into the field or (b) seen len != 0
				if afterSizing(fn, b, recv, cf) {
					l := lc.LenLin(u)
					out = append(out, l.add(*msgLen, -1), msgLen.add(l, -1))
				}
			}
		}
	}
	return out
}

// afterSizing: block b is dominated by the merge of `if len(cache) == 0 { cache = make(…) }`.
func afterSizing(fn *ssa.Function, b *ssa.BasicBlock, recv ssa.Value, cf *types.Var) bool {
	for _, t := range fn.Blocks {
		f, full, empty, ok := emptinessTest(t, recv)
		if !ok || f != cf {
			continue
		}
		// empty edge stores a make and falls into full
		storesMake := false
		for _, in := range empty.Instrs {
			if st, ok := in.(*ssa.Store); ok {
				if fa, ok := st.Addr.(*ssa.FieldAddr); ok && fieldOfAddr(fa) == cf {
					if _, ok := st.Val.(*ssa.MakeSlice); ok {
						storesMake = true
					}
				}
			}
		}
		if storesMake && len(empty.Succs) == 1 && empty.Succs[0] == full && (full == b || full.Dominates(b)) {
			return true
		}
	}
	return false
}

// hashOfMessage: v is &h where h holds the result of a method call whose
// receiver is the wrapped message of the same object (obj.msgField), or of the
// local message a constructor is about to wrap.
func hashOfMessage(v ssa.Value, obj ssa.Value, msgField *types.Var) (bool, string) {
	al, ok := v.(*ssa.Alloc)
	if !ok {
		return false, "stored value is not the address of a freshly computed hash: " + exprString(v)
	}
	var w ssa.Value
	for _, ref := range *al.Referrers() {
		if st, ok := ref.(*ssa.Store); ok && st.Addr == ssa.Value(al) {
			if w != nil {
				return false, "the hash variable is assigned more than once"
			}
			w = st.Val
		}
	}
	if w == nil {
		return false, "the hash variable is never assigned"
	}
	call, ok := w.(*ssa.Call)
	if !ok || call.Call.StaticCallee() == nil || call.Call.StaticCallee().Signature.Recv() == nil || len(call.Call.Args) != 1 {
		return false, "the cached hash is computed by " + exprString(w) + ", not by a method of the wrapped message"
	}
	recv := call.Call.Args[0]
	if f, base, ok := fieldLoad(recv); ok && f == msgField && base == canonRoot(obj) {
		return true, "hash := obj." + msgField.Name() + "." + call.Call.StaticCallee().Name() + "()"
	}
	// constructor: the message variable that is stored into obj.msgField
	for _, ref := range *obj.Referrers() {
		if fa, ok := ref.(*ssa.FieldAddr); ok && fieldOfAddr(fa) == msgField {
			for _, u := range *fa.Referrers() {
				if st, ok := u.(*ssa.Store); ok && st.Val == recv {
					return true, "hash of the message being wrapped"
				}
			}
		}
	}
	return false, "the cached hash is computed from " + exprString(recv) + ", not from the wrapped message"
}

// recvMsgPrefix: textual prefix of loads through the receiver's message field (b.msgBlock.…).
func recvMsgPrefix(fn *ssa.Function) string {
	if len(fn.Params) == 0 {
		return "\x00"
	}
	return fn.Params[0].Name() + "."
}

// handedOutHashRule (round 5, C16-agent5-m3): the hash accessors of Tx and Block hand out POINTERS into the wrappers'
// memos, and callers keep them (the merkle builders put them in their leaf lists).  Whoever then stores through a
// *chainhash.Hash it did not allocate itself may be rewriting a wrapper's cached hash.  Decided over every function of
// the repository: the target of a store through a *chainhash.Hash (whole value, element or copy destination) is memory
// allocated in that function.
func handedOutHashRule(p *Program, r *Report, rule string) int {
	ef := NewEffects(p)
	isHashPtr := func(t types.Type) bool {
		pt, ok := t.Underlying().(*types.Pointer)
		if !ok {
			return false
		}
		nt, ok := pt.Elem().(*types.Named) // exactly *Hash, not **Hash
		return ok && nt.Obj().Name() == "Hash" && nt.Obj().Pkg() != nil && nt.Obj().Pkg().Path() == "github.com/gcash/bchd/chaincfg/chainhash"
	}
	n := 0
	for _, fn := range p.Funcs {
		for _, b := range fn.Blocks {
			for _, in := range b.Instrs {
				var base ssa.Value
				what := ""
				switch x := in.(type) {
				case *ssa.Store:
					if isHashPtr(x.Addr.Type()) {
						base, what = x.Addr, "store of a whole hash"
					} else if ia, ok := x.Addr.(*ssa.IndexAddr); ok && isHashPtr(ia.X.Type()) {
						base, what = ia.X, "store of a hash byte"
					}
				case *ssa.Call:
					if isBuiltin(&x.Call, "copy") {
						if sl, ok := x.Call.Args[0].(*ssa.Slice); ok && isHashPtr(sl.X.Type()) {
							base, what = sl.X, "copy into a hash"
						}
					}
				}
				if base == nil {
					continue
				}
				if al, ok := base.(*ssa.Alloc); ok && al.Parent() == fn {
					continue // the function's own local (or new(Hash)): not worth an obligation
				}
				n++
				var foreign []string
				for rt := range ef.Src(base) {
					if rt.Kind != rkFresh {
						foreign = append(foreign, rt.String())
					}
				}
				sort.Strings(foreign)
				r.Add(rule, FnName(fn), what+" through "+exprString(base)+" targets memory this function allocated", p.InstrPos(in), len(foreign) == 0,
					"may be a hash handed out by (*Tx).Hash / (*Block).Hash: "+strings.Join(foreign, ", "))
			}
		}
	}
	return n
}

// readerOver: the *bytes.Reader / *bytes.Buffer that fn builds over the byte slice v (nil if none).
func readerOver(fn *ssa.Function, v ssa.Value) *ssa.Call {
	for _, b := range fn.Blocks {
		for _, in := range b.Instrs {
			c, ok := in.(*ssa.Call)
			if !ok || len(c.Call.Args) != 1 || c.Call.Args[0] != v {
				continue
			}
			if staticCalleeIs(&c.Call, "bytes.NewReader") || staticCalleeIs(&c.Call, "bytes.NewBuffer") {
				return c
			}
		}
	}
	return nil
}

func remainingOf(v ssa.Value, rd *ssa.Call) bool {
	c, ok := v.(*ssa.Call)
	if !ok || len(c.Call.Args) != 1 || c.Call.Args[0] != ssa.Value(rd) {
		return false
	}
	return staticCalleeIs(&c.Call, "(*bytes.Reader).Len") || staticCalleeIs(&c.Call, "(*bytes.Buffer).Len")
}

// lenMinusRemaining: hi == len(v) − rd.Len()
func lenMinusRemaining(hi ssa.Value, v ssa.Value, rd *ssa.Call) bool {
	bo, ok := hi.(*ssa.BinOp)
	if !ok || bo.Op != token.SUB {
		return false
	}
	ln, ok := bo.X.(*ssa.Call)
	if !ok || !isBuiltin(&ln.Call, "len") || ln.Call.Args[0] != v {
		return false
	}
	return remainingOf(bo.Y, rd)
}

// nothingRemains: block b is reached only where rd.Len() == 0 held
func nothingRemains(b *ssa.BasicBlock, rd *ssa.Call) bool {
	for _, cd := range DomConds(b) {
		bo, truth, ok := condBinOp(cd)
		if !ok {
			continue
		}
		var other ssa.Value
		if remainingOf(bo.X, rd) {
			other = bo.Y
		} else if remainingOf(bo.Y, rd) {
			other = bo.X
		} else {
			continue
		}
		k, isK := constInt(other)
		if !isK {
			continue
		}
		switch {
		case bo.Op == token.EQL && truth && k == 0, bo.Op == token.NEQ && !truth && k == 0:
			return true
		case bo.Op == token.GTR && !truth && k == 0 && remainingOf(bo.X, rd): // !(Len() > 0)
			return true
		case bo.Op == token.LSS && !truth && k == 0 && remainingOf(bo.Y, rd): // !(0 < Len())
			return true
		}
	}
	return false
}

package main

import (
	"fmt"
	"go/token"
	"go/types"
	"strings"

	"golang.org/x/tools/go/ssa"
)

func init() { register("C10", checkC10) }

// rangeLoopOver finds the loop header of a `for … range <expr>` whose ranged
// slice is a load of the named field (external API name), in fn.
func rangeLoopOver(fn *ssa.Function, fieldName string) (hdr *ssa.BasicBlock, idx ssa.Value, slice ssa.Value) {
	for _, b := range fn.Blocks {
		if !isLoopHeader(b) {
			continue
		}
		iff, ok := lastInstr(b).(*ssa.If)
		if !ok {
			continue
		}
		c, ok := iff.Cond.(*ssa.BinOp)
		if !ok || c.Op != token.LSS {
			continue
		}
		ln, ok := c.Y.(*ssa.Call)
		if !ok || !isBuiltin(&ln.Call, "len") {
			continue
		}
		if f, _, ok := fieldLoad(ln.Call.Args[0]); ok && f.Name() == fieldName {
			return b, c.X, ln.Call.Args[0]
		}
	}
	return nil, nil, nil
}

// rangeLoopsOver: every such loop (a function may walk the same list twice).
func rangeLoopsOver(fn *ssa.Function, fieldName string) (hdrs []*ssa.BasicBlock, slices []ssa.Value) {
	for _, b := range fn.Blocks {
		if !isLoopHeader(b) {
			continue
		}
		iff, ok := lastInstr(b).(*ssa.If)
		if !ok {
			continue
		}
		c, ok := iff.Cond.(*ssa.BinOp)
		if !ok || c.Op != token.LSS {
			continue
		}
		ln, ok := c.Y.(*ssa.Call)
		if !ok || !isBuiltin(&ln.Call, "len") {
			continue
		}
		if f, _, ok := fieldLoad(ln.Call.Args[0]); ok && f.Name() == fieldName {
			hdrs = append(hdrs, b)
			slices = append(slices, ln.Call.Args[0])
		}
	}
	return
}

func pkgConst(p *Program, fromRel, pkgPath, name string) (int64, bool) {
	if pk := p.TPkg(fromRel); pk != nil {
		for _, imp := range pk.Types.Imports() {
			if imp.Path() == pkgPath {
				if c, ok := imp.Scope().Lookup(name).(*types.Const); ok {
					var v int64
					if _, err := fmt.Sscan(c.Val().String(), &v); err == nil {
						return v, true
					}
				}
			}
		}
	}
	return 0, false
}

// reaches: fn (transitively, in-repo static calls) calls target.
func reachesFn(p *Program, fn, target *ssa.Function) bool {
	for _, g := range p.Reachable([]*ssa.Function{fn}) {
		if g == target {
			return true
		}
	}
	return false
}

func checkC10(p *Program, r *Report) {
	// round 6 (systematic): "matches exactly when the filter contains …" stands on the filter primitives C09 decides:
	// writer/reader agreement, the index formula, monotone bits, the unloaded filter, what the branches may read
	r.Borrow("C09", func(o *Ob) (string, bool) {
		switch o.Rule {
		case "C09.agree", "C09.formula", "C09.monotone", "C09.unloaded", "C09.decides", "C09.pure":
			return "C10.filter", true
		}
		return "", false
	})
	r.Floor("C10.filter", 10)
	// round 6 (systematic): no unguarded mutable package-level state behind this property's functions (§2.9)
	sharedStateRule(p, r, NewEffects(p), "C10.shared", []string{"bloom/filter.go", "bloom/merkleblock.go", "bloom/murmurhash3.go", "tx.go"})
	r.Floor("C10.shared", 0)
	r.Explain = "Structural facts without which some relevant transaction or outpoint is necessarily missed. C10.scanall: the transaction matcher examines every output " +
		"before any verdict (the output loop exits only by exhaustion and dominates every return). C10.outpoint: the (script, txid, index) handed to the update " +
		"helper belong to the same output. C10.flags: the helper inserts unconditionally for BloomUpdateAll, exactly for {pay-to-pubkey, multisig} for " +
		"P2PubkeyOnly, and never otherwise. C10.block: the block scanner visits every transaction, registers its inputs in the spender index in the same " +
		"iteration, and the checker re-checks registered dependants on the matched edge. Not decided: the match relation over all scripts, spend graphs and permutations (run-time values)."
	r.Trusted = []string{"txscript.GetScriptClass / PushedData", "BIP37 update-flag semantics", "wire field names TxOut, TxIn, PkScript, PreviousOutPoint"}
	exported := p.Func("bloom", "(*Filter).MatchTxAndUpdate")
	if exported == nil {
		r.Unresolved("C10.scanall", "(*bloom.Filter).MatchTxAndUpdate")
		return
	}
	// the matcher: the in-repo callee of the exported method that takes the transaction
	var matcher *ssa.Function
	for _, b := range exported.Blocks {
		for _, in := range b.Instrs {
			if c, ok := in.(*ssa.Call); ok {
				if cal := c.Call.StaticCallee(); cal != nil && p.InRepo(cal) && len(cal.Params) == 2 && cal.Pkg == exported.Pkg {
					matcher = cal
				}
			}
		}
	}
	if matcher == nil {
		r.Unresolved("C10.scanall", "transaction matcher called by MatchTxAndUpdate")
		return
	}
	mname := FnName(matcher)
	hdr, idx, outs := rangeLoopOver(matcher, "TxOut")
	if hdr == nil {
		r.Unresolved("C10.scanall", "loop over the transaction's outputs in "+mname)
		return
	}
	body := map[*ssa.BasicBlock]bool{}
	var tails []*ssa.BasicBlock
	for _, pr := range hdr.Preds {
		if hdr.Dominates(pr) {
			tails = append(tails, pr)
		}
	}
	body = loopBody(hdr, tails)
	// exits
	earlyExit := ""
	for b := range body {
		if b == hdr {
			continue
		}
		for _, s := range b.Succs {
			if !body[s] {
				earlyExit = "the output loop can be left from " + p.Pos(p.InstrPos(lastInstr(b))) + " before all outputs were examined"
			}
		}
		if _, ok := lastInstr(b).(*ssa.Return); ok {
			earlyExit = "return inside the output loop at " + p.Pos(p.InstrPos(lastInstr(b)))
		}
	}
	r.Add("C10.scanall", mname, "the output loop is left only when every output has been examined", hdr.Instrs[0].Pos(), earlyExit == "", earlyExit)
	r.Add("C10.scanall", mname, "every verdict is given after the output loop", hdr.Instrs[0].Pos(), dominatesAllReturns(matcher, hdr), "the loop header dominates every return: matching outputs get their outpoints inserted even when the txid already matched")

	c10pushes(p, r, matcher)
	c10loopExits(p, r, matcher)
	// a negative verdict needs every input examined as well
	if ihdr, _, _ := rangeLoopOver(matcher, "TxIn"); ihdr == nil {
		r.Unresolved("C10.scanall", "loop over the transaction's inputs in "+mname)
	} else {
		for i, ret := range returnsOf(matcher) {
			if len(ret.Results) != 1 {
				continue
			}
			v, isConst := constBool(ret.Results[0])
			if isConst && v {
				continue
			}
			dom := ihdr == ret.Block() || ihdr.Dominates(ret.Block())
			how := "the input loop's header dominates the return"
			if !dom {
				how = "\"does not match\" can be answered before any input was looked at (a spent outpoint or a data push of an input script may be in the filter)"
			}
			r.Add("C10.scanall", mname, fmt.Sprintf("exit #%d that may answer false comes after the input loop", i+1), p.InstrPos(ret), dom, how)
		}
	}

	// ---- C10.inputs (round 5, C10-agent5-m2): every input's spent outpoint is tested in the iteration that looks at that
	// input — no path through the loop body reaches the next iteration without the test (an unparsable signature
	// script used to `continue` past it)
	if ihdrs, islices := rangeLoopsOver(matcher, "TxIn"); len(ihdrs) > 0 {
		// the function may walk the inputs more than once (outpoints first, scripts second): one loop that tests every
		// input's outpoint is enough
		found, okAny := false, false
		var at ssa.Instruction
		for li, ihdr := range ihdrs {
			islice := islices[li]
			var testBlocks []*ssa.BasicBlock
			for _, b := range matcher.Blocks {
				for _, in := range b.Instrs {
					c, ok := in.(*ssa.Call)
					if !ok || c.Call.StaticCallee() == nil || !p.InRepo(c.Call.StaticCallee()) {
						continue
					}
					for _, a := range c.Call.Args {
						fa, ok := a.(*ssa.FieldAddr)
						if !ok || fieldOfAddr(fa).Name() != "PreviousOutPoint" {
							continue
						}
						// the element of the ranged slice
						if ld, ok := fa.X.(*ssa.UnOp); ok {
							if ia, ok := ld.X.(*ssa.IndexAddr); ok && ia.X == islice {
								testBlocks = append(testBlocks, b)
							}
						}
					}
				}
			}
			if len(testBlocks) == 0 {
				continue
			}
			found = true
			if at == nil {
				at = ihdr.Instrs[0]
			}
			avoid := map[*ssa.BasicBlock]bool{}
			for _, b := range testBlocks {
				avoid[b] = true
			}
			// can the header be reached again from the loop body without passing a test block?
			skipped := false
			for _, s := range ihdr.Succs {
				if avoid[s] || s == ihdr {
					continue
				}
				if reachableFrom(s, avoid)[ihdr] {
					skipped = true
				}
			}
			if !skipped {
				okAny = true
				at = ihdr.Instrs[0]
			}
		}
		if !found {
			r.Unresolved("C10.inputs", "outpoint test on &txin.PreviousOutPoint in a loop over the inputs of "+mname)
		} else {
			how := "every path from the loop header back to it passes the outpoint test (or leaves the function)"
			if !okAny {
				how = "some path through the loop body reaches the next input without testing this input's outpoint"
			}
			r.Add("C10.inputs", mname, "each input's spent outpoint is tested against the filter in its own iteration", p.InstrPos(at), okAny, how)
		}
	}
	r.Floor("C10.inputs", 1)

	// ---- C10.outpoint: the update helper call inside the loop
	var helper *ssa.Function
	var hcall *ssa.Call
	writerFn := p.Func("bloom", "(*Filter).AddOutPoint")
	for b := range body {
		for _, in := range b.Instrs {
			c, ok := in.(*ssa.Call)
			if !ok {
				continue
			}
			cal := c.Call.StaticCallee()
			if cal == nil || !p.InRepo(cal) || len(c.Call.Args) != 4 {
				continue
			}
			helper, hcall = cal, c
		}
	}
	if helper == nil {
		r.Unresolved("C10.outpoint", "update helper called for a matching output")
	} else {
		tb := NewTermBuilder(p, matcher)
		script := tb.Term(hcall.Call.Args[1]).String()
		txid := tb.Term(hcall.Call.Args[2]).String()
		index := hcall.Call.Args[3]
		// script = outs[idx].PkScript with the loop's own index
		okScript := false
		if f, base, ok := fieldLoad(hcall.Call.Args[1]); ok && f.Name() == "PkScript" {
			if ld, ok := base.(*ssa.UnOp); ok {
				// the same list: one SSA value, or two loads of the same field path (an index loop re-reads msgTx.TxOut for
				// the bound and for the element; benign round 4, C10-y1)
				if ia, ok := ld.X.(*ssa.IndexAddr); ok && ia.Index == idx && (ia.X == outs || tb.Term(ia.X).String() == tb.Term(outs).String()) {
					okScript = true
				}
			}
		}
		okIdx := stripIntConv(index) == idx
		okTx := strings.Contains(txid, "Hash") && strings.Contains(txid, "P0")
		r.Add("C10.outpoint", mname, "the inserted outpoint is (this transaction, this output's index) and the script is this output's", hcall.Pos(), okScript && okIdx && okTx,
			fmt.Sprintf("script %s; txid %s; index %s", script, txid, exprString(index)))
		// the update happens exactly for an output one of whose own data pushes matched: the call lies behind the
		// passing edge of a membership test made in this same iteration of the output loop (not behind a flag that
		// an earlier output, or the txid, may have set)
		readerFn := p.Func("bloom", "(*Filter).matches")
		okOwn, howOwn := false, "the update is not guarded by a membership test of this output's pushes"
		for _, cd := range MustCondsAtBlock(matcher, hcall.Block()) {
			v, truth := cd.V, cd.Truth
			if u, ok := v.(*ssa.UnOp); ok && u.Op == token.NOT {
				v, truth = u.X, !truth
			}
			if ph, isPhi := v.(*ssa.Phi); isPhi && truth && readerFn != nil {
				// a flag local to this iteration: every `true` that can reach it is set behind matches(push) of this output,
				// everything else is the constant false, and no φ of the web sits at the output loop's header (not carried over)
				okFlag := true
				seenPhi := map[*ssa.Phi]bool{}
				var chase func(ph *ssa.Phi)
				chase = func(ph *ssa.Phi) {
					if seenPhi[ph] {
						return
					}
					seenPhi[ph] = true
					if !body[ph.Block()] {
						okFlag = false
						return
					}
					for k, e := range ph.Edges {
						switch x := e.(type) {
						case *ssa.Phi:
							chase(x)
						case *ssa.Const:
							bv, isB := constBool(x)
							if !isB {
								okFlag = false
							} else if bv {
								behind := false
								pred := ph.Block().Preds[k]
								conds := MustCondsAtBlock(matcher, pred)
								if ec, ok := edgeCond(pred, ph.Block()); ok {
									conds = append(conds, ec)
								}
								for _, c2 := range conds {
									if mc, ok := c2.V.(*ssa.Call); ok && c2.Truth && mc.Call.StaticCallee() == readerFn && body[mc.Block()] {
										behind = true
									}
								}
								if !behind {
									okFlag = false
								}
							}
						default:
							okFlag = false
						}
					}
				}
				chase(ph)
				if okFlag {
					okOwn, howOwn = true, "behind a flag that is set only by matches(push) of this output and starts false in every iteration"
				}
				continue
			}
			mc, ok := v.(*ssa.Call)
			if !ok || !truth || readerFn == nil || mc.Call.StaticCallee() != readerFn {
				continue
			}
			if body[mc.Block()] {
				okOwn, howOwn = true, "behind the passing edge of matches(push) evaluated for this output"
			}
		}
		r.Add("C10.outpoint", mname, "the filter is updated only for an output whose own data push matched", hcall.Pos(), okOwn, howOwn)
	}

	// ---- C10.flags
	if helper != nil {
		all, ok1 := pkgConst(p, "bloom", "github.com/gcash/bchd/wire", "BloomUpdateAll")
		p2pk, ok2 := pkgConst(p, "bloom", "github.com/gcash/bchd/wire", "BloomUpdateP2PubkeyOnly")
		pubKeyTy, ok3 := pkgConst(p, "bloom", "github.com/gcash/bchd/txscript", "PubKeyTy")
		multiSigTy, ok4 := pkgConst(p, "bloom", "github.com/gcash/bchd/txscript", "MultiSigTy")
		if !(ok1 && ok2 && ok3 && ok4) {
			r.Unresolved("C10.flags", "wire.BloomUpdate* / txscript.PubKeyTy, MultiSigTy constants")
		} else {
			hname := FnName(helper)
			// The update decision is a function of (update flag, script class): evaluate the helper — and any in-repo
			// predicate it consults — over that finite domain and compare with BIP37.
			isWriterCall := func(cal *ssa.Function) bool {
				for _, g := range p.Reachable([]*ssa.Function{cal}) {
					for _, bb := range g.Blocks {
						for _, ii := range bb.Instrs {
							if st, ok := ii.(*ssa.Store); ok {
								if _, ok := st.Addr.(*ssa.IndexAddr); ok {
									if bo, ok := st.Val.(*ssa.BinOp); ok && bo.Op == token.OR {
										return true
									}
								}
							}
						}
					}
				}
				return false
			}
			type av struct {
				kind string // "flag" | "class" | "const" | "bool" | ""
				k    int64
				b    bool
			}
			mustInsert := false // set per (flag, class) before each evaluation
			var evalFn func(fn *ssa.Function, args []av, flag, class int64, depth int) (inserted bool, ret av, why string)
			evalFn = func(fn *ssa.Function, args []av, flag, class int64, depth int) (bool, av, string) {
				if depth > 3 {
					return false, av{}, "call nesting too deep"
				}
				vals := map[ssa.Value]av{}
				for i, pa := range fn.Params {
					if i < len(args) {
						vals[pa] = args[i]
					}
				}
				var get func(v ssa.Value) av
				get = func(v ssa.Value) av {
					if a, ok := vals[v]; ok {
						return a
					}
					switch x := v.(type) {
					case *ssa.Const:
						if bv, ok := constBool(x); ok {
							return av{kind: "bool", b: bv}
						}
						if k, ok := constInt(x); ok {
							return av{kind: "const", k: k}
						}
					case *ssa.UnOp:
						if x.Op == token.MUL {
							if f, _, ok := fieldLoad(x); ok && f.Name() == "Flags" {
								return av{kind: "flag"}
							}
						}
						if x.Op == token.NOT {
							if a := get(x.X); a.kind == "bool" {
								return av{kind: "bool", b: !a.b}
							}
						}
					case *ssa.Convert:
						return get(x.X)
					case *ssa.ChangeType:
						return get(x.X)
					case *ssa.BinOp:
						l, r2 := get(x.X), get(x.Y)
						num := func(a av) (int64, bool) {
							switch a.kind {
							case "flag":
								return flag, true
							case "class":
								return class, true
							case "const":
								return a.k, true
							}
							return 0, false
						}
						lv, ok1 := num(l)
						rv, ok2 := num(r2)
						if ok1 && ok2 {
							switch x.Op {
							case token.EQL:
								return av{kind: "bool", b: lv == rv}
							case token.NEQ:
								return av{kind: "bool", b: lv != rv}
							}
						}
						if l.kind == "bool" && r2.kind == "bool" {
							switch x.Op {
							case token.EQL:
								return av{kind: "bool", b: l.b == r2.b}
							case token.NEQ:
								return av{kind: "bool", b: l.b != r2.b}
							case token.AND:
								return av{kind: "bool", b: l.b && r2.b}
							case token.OR:
								return av{kind: "bool", b: l.b || r2.b}
							}
						}
					}
					return av{}
				}
				inserted := false
				reachesInsert := func(from *ssa.BasicBlock) bool {
					for blk := range reachableFrom(from, nil) {
						for _, in := range blk.Instrs {
							if c, ok := in.(*ssa.Call); ok {
								if cal := c.Call.StaticCallee(); cal != nil && p.InRepo(cal) && len(cal.Blocks) > 0 && isWriterCall(cal) {
									return true
								}
							}
						}
					}
					return false
				}
				var prev *ssa.BasicBlock
				cur := fn.Blocks[0]
				seen := map[*ssa.BasicBlock]bool{}
				for steps := 0; steps < 100; steps++ {
					if seen[cur] {
						return inserted, av{}, "loop in the update helper"
					}
					seen[cur] = true
					for _, in := range cur.Instrs {
						switch x := in.(type) {
						case *ssa.Phi:
							for i, pb := range cur.Preds {
								if pb == prev {
									vals[x] = get(x.Edges[i])
								}
							}
						case *ssa.Call:
							cal := x.Call.StaticCallee()
							if cal != nil && cal.Name() == "GetScriptClass" {
								vals[x] = av{kind: "class"}
								continue
							}
							if cal == nil || !p.InRepo(cal) || len(cal.Blocks) == 0 {
								continue
							}
							if isWriterCall(cal) {
								inserted = true
								continue
							}
							var as []av
							for _, a := range x.Call.Args {
								as = append(as, get(a))
							}
							ins2, rv, why := evalFn(cal, as, flag, class, depth+1)
							if why != "" {
								return inserted, av{}, why
							}
							inserted = inserted || ins2
							vals[x] = rv
						}
					}
					switch t := lastInstr(cur).(type) {
					case *ssa.Return:
						if len(t.Results) == 1 {
							return inserted, get(t.Results[0]), ""
						}
						return inserted, av{}, ""
					case *ssa.Jump:
						prev, cur = cur, cur.Succs[0]
					case *ssa.If:
						c := get(t.Cond)
						if c.kind != "bool" {
							// a condition on something else (the script's length, say): follow the inserting side if
							// there is one — "may insert" — so that only flag and class decide what is reported
							// When BIP37 demands the insertion for this (flag, class), the pessimistic side is the one
							// that does not insert: a test on the script's length must not be able to skip it.
							mayA, mayB := reachesInsert(cur.Succs[0]), reachesInsert(cur.Succs[1])
							takeA := mayA
							if mustInsert && mayA != mayB {
								takeA = !mayA // the side that cannot insert
							}
							if takeA {
								prev, cur = cur, cur.Succs[0]
							} else {
								prev, cur = cur, cur.Succs[1]
							}
							continue
						}
						if c.b {
							prev, cur = cur, cur.Succs[0]
						} else {
							prev, cur = cur, cur.Succs[1]
						}
					default:
						return inserted, av{}, "unexpected terminator in the update helper"
					}
				}
				return inserted, av{}, "evaluation did not terminate"
			}
			none := int64(0)
			if k, ok := pkgConst(p, "bloom", "github.com/gcash/bchd/wire", "BloomUpdateNone"); ok {
				none = k
			}
			other := int64(1000)
			otherClass := int64(-77)
			classDomain := []int64{pubKeyTy, multiSigTy, otherClass}
			for _, g := range pkgFuncs(p, "bloom") {
				for _, gb := range g.Blocks {
					for _, gi := range gb.Instrs {
						bo, ok := gi.(*ssa.BinOp)
						if !ok {
							continue
						}
						for _, pr := range [][2]ssa.Value{{bo.X, bo.Y}, {bo.Y, bo.X}} {
							if c, ok := pr[0].(*ssa.Call); ok && c.Call.StaticCallee() != nil && c.Call.StaticCallee().Name() == "GetScriptClass" {
								if k, isK := constInt(pr[1]); isK {
									classDomain = append(classDomain, k)
								}
							}
							if ph, ok := pr[0].(*ssa.Phi); ok && ph.Comment == "class" {
								if k, isK := constInt(pr[1]); isK {
									classDomain = append(classDomain, k)
								}
							}
						}
					}
				}
			}
			okAll, okP2, okElse := true, true, true
			howAll, howP2, howElse := "inserts for every script class", "inserts exactly for PubKeyTy and MultiSigTy", "flag None and unknown flag values insert nothing"
			for _, cls := range classDomain {
				for _, fl := range []int64{all, p2pk, none, other} {
					want := fl == all || (fl == p2pk && (cls == pubKeyTy || cls == multiSigTy))
					mustInsert = want
					ins, _, why := evalFn(helper, nil, fl, cls, 0)
					msg := ""
					if why != "" {
						msg = "kind=undecided: " + why
					} else if ins != want {
						msg = fmt.Sprintf("for update flag %d and script class %d the helper inserts=%v, BIP37 says %v", fl, cls, ins, want)
					}
					if msg == "" {
						continue
					}
					switch fl {
					case all:
						okAll, howAll = false, msg
					case p2pk:
						okP2, howP2 = false, msg
					default:
						okElse, howElse = false, msg
					}
				}
			}
			r.Add("C10.flags", hname, "BloomUpdateAll inserts the outpoint unconditionally", helper.Pos(), okAll, howAll)
			r.Add("C10.flags", hname, "BloomUpdateP2PubkeyOnly inserts exactly for pay-to-pubkey and multisig outputs", helper.Pos(), okP2, howP2)
			r.Add("C10.flags", hname, "no other update flag inserts", helper.Pos(), okElse, howElse)
			_ = writerFn
		}
	}
	r.Floor("C10.flags", 3)

	// ---- C10.block
	scan := p.Func("bloom", "GetMatchedIndices")
	if scan == nil {
		r.Unresolved("C10.block", "bloom.GetMatchedIndices")
	} else {
		sname := FnName(scan)
		// outer loop: range over block.Transactions()
		var ohdr *ssa.BasicBlock
		for _, b := range scan.Blocks {
			if !isLoopHeader(b) {
				continue
			}
			if iff, ok := lastInstr(b).(*ssa.If); ok {
				if c, ok := iff.Cond.(*ssa.BinOp); ok && c.Op == token.LSS {
					if ln, ok := c.Y.(*ssa.Call); ok && isBuiltin(&ln.Call, "len") {
						if call, ok := ln.Call.Args[0].(*ssa.Call); ok && call.Call.StaticCallee() != nil && call.Call.StaticCallee().Name() == "Transactions" {
							ohdr = b
						}
					}
				}
			}
		}
		if ohdr == nil {
			r.Unresolved("C10.block", "loop over the block's transactions")
		} else {
			var tl []*ssa.BasicBlock
			for _, pr := range ohdr.Preds {
				if ohdr.Dominates(pr) {
					tl = append(tl, pr)
				}
			}
			obody := loopBody(ohdr, tl)
			early := ""
			for b := range obody {
				if b == ohdr {
					continue
				}
				for _, s := range b.Succs {
					if !obody[s] {
						early = "left early at " + p.Pos(p.InstrPos(lastInstr(b)))
					}
				}
			}
			r.Add("C10.block", sname, "every transaction of the block is visited", ohdr.Instrs[0].Pos(), early == "" && dominatesAllReturns(scan, ohdr), early)
			// in each iteration: a map update keyed by PreviousOutPoint.Hash, and a call of the checker
			var mapUpd *ssa.MapUpdate
			var chk *ssa.Call
			for b := range obody {
				for _, in := range b.Instrs {
					switch x := in.(type) {
					case *ssa.MapUpdate:
						if strings.Contains(exprString(x.Key), "PreviousOutPoint.Hash") {
							mapUpd = x
						}
					case *ssa.Call:
						if cal := x.Call.StaticCallee(); cal != nil && p.InRepo(cal) && cal.Pkg == scan.Pkg && reachesFn(p, cal, exported) {
							chk = x
						}
					}
				}
			}
			okReg := mapUpd != nil && chk != nil
			if okReg {
				// every input is registered: inside its own (input) loop the update is unconditional
				for h := mapUpd.Block(); h != nil; h = h.Idom() {
					if isLoopHeader(h) && h != ohdr && obody[h] {
						for _, pr := range h.Preds {
							if h.Dominates(pr) && !mapUpd.Block().Dominates(pr) {
								okReg = false
							}
						}
						break
					}
				}
			}
			if okReg {
				// the checker call is on every iteration's path
				for _, t := range tl {
					if !chk.Block().Dominates(t) {
						okReg = false
					}
				}
			}
			r.Add("C10.block", sname, "each transaction's inputs enter the spender index in the iteration that checks it", ohdr.Instrs[0].Pos(), okReg,
				"inputs[in.PreviousOutPoint.Hash] updated for every input; the checker runs on every iteration")
			if chk != nil {
				checker := chk.Call.StaticCallee()
				// recursion on dependants on the matched edge
				okRec := false
				for _, b := range checker.Blocks {
					for _, in := range b.Instrs {
						c, ok := in.(*ssa.Call)
						if !ok || c.Call.StaticCallee() != checker {
							continue
						}
						matched, keyed := false, false
						for _, cd := range MustCondsAtBlock(checker, b) {
							if call, ok := cd.V.(*ssa.Call); ok && cd.Truth && call.Call.StaticCallee() == exported {
								matched = true
							}
						}
						for _, bb := range checker.Blocks {
							for _, ii := range bb.Instrs {
								if lk, ok := ii.(*ssa.Lookup); ok && strings.Contains(exprString(lk.Index), "TxHash") || ok && strings.Contains(exprString(lk.Index), "Hash") {
									keyed = true
								}
							}
						}
						if matched && keyed {
							okRec = true
						}
					}
				}
				// every invocation matches the transaction against the current filter state (no memoised skip)
				okAlways := false
				for _, b := range checker.Blocks {
					for _, in := range b.Instrs {
						if c, ok := in.(*ssa.Call); ok && c.Call.StaticCallee() == exported && dominatesAllReturns(checker, b) {
							okAlways = true
						}
					}
				}
				r.Add("C10.block", FnName(checker), "every (re-)check matches the transaction against the current filter", checker.Pos(), okAlways, "MatchTxAndUpdate runs on every path through the checker: the filter may have grown since an earlier match")
				r.Add("C10.block", FnName(checker), "a match re-checks the transactions registered as spending this one", checker.Pos(), okRec, "recursive call on inputs[txid] dominated by a successful MatchTxAndUpdate")
				// round 7 (C10-agent7-m1): the re-check is about the DEPENDANT — transaction and index of the recursive
				// call come from the registered entry, none of them is the caller's own (passing the parent's index
				// records a late-matched child under its parent's position)
				for _, bb := range checker.Blocks {
					for _, in := range bb.Instrs {
						sc, ok := in.(*ssa.Call)
						if !ok || sc.Call.StaticCallee() != checker {
							continue
						}
						var own []string
						for ai, a := range sc.Call.Args {
							if ai == 0 || ai >= len(checker.Params) {
								continue
							}
							if _, isMap := a.Type().Underlying().(*types.Map); isMap {
								continue
							}
							if a == ssa.Value(checker.Params[ai]) {
								own = append(own, checker.Params[ai].Name())
							}
						}
						r.Add("C10.block", FnName(checker), "the recursive re-check is given the dependant's own transaction and index", sc.Pos(), len(own) == 0,
							"the caller's own "+strings.Join(own, ", ")+" is passed on")
					}
				}
				// the matched index is recorded on the matched edge
				okMark := false
				for _, b := range checker.Blocks {
					for _, in := range b.Instrs {
						if mu, ok := in.(*ssa.MapUpdate); ok {
							for _, cd := range MustCondsAtBlock(checker, b) {
								if call, ok := cd.V.(*ssa.Call); ok && cd.Truth && call.Call.StaticCallee() == exported {
									if v, ok := constBool(mu.Value); ok && v {
										okMark = true
									}
								}
							}
						}
					}
				}
				r.Add("C10.block", FnName(checker), "a matching transaction's index is recorded", checker.Pos(), okMark, "matchedIndices[txIndex] = true on the matched edge")
			}
		}
	}
	r.Floor("C10.scanall", 2)
	// round 5 (C10-agent5-m3): the id the matcher tests and inserts is tx.Hash(); that it IS the wrapped message's hash
	// is C16's memo clause for bchutil.Tx (a constructor that memoises the hash of its raw input bytes breaks it)
	r.Borrow("C16", func(o *Ob) (string, bool) {
		if (o.Rule == "C16.writers" || o.Rule == "C16.frozen") && (strings.Contains(o.Construct, "Tx.") || strings.Contains(o.Construct, "hash") || strings.Contains(o.Func, "Tx")) {
			return "C10.txid", true
		}
		return "", false
	})
	r.Floor("C10.txid", 2)
	r.Floor("C10.outpoint", 2)
	spenderIndexRule(p, r, "C10.block")
	r.Floor("C10.block", 5)
}

// ---- C10.pushes: every data push of an output or input script is tested against the filter.  In the matcher (and
// the in-repo functions it hands scripts to) each element read from a txscript.PushedData result is passed, whenever
// it is read, to a function that tests it for membership on all of its paths (the primitive is the function the
// exported Matches calls; a wrapper counts if it calls the primitive, or another such wrapper, with that argument from
// a block that dominates all its returns).  A wrapper that skips some pushes (empty ones, long ones, …) does not.
func c10pushes(p *Program, r *Report, matcher *ssa.Function) {
	var prim *ssa.Function
	if m := p.Func("bloom", "(*Filter).Matches"); m != nil {
		for _, b := range m.Blocks {
			for _, in := range b.Instrs {
				if c, ok := in.(*ssa.Call); ok {
					if cal := c.Call.StaticCallee(); cal != nil && p.InRepo(cal) && cal.Pkg == m.Pkg && len(cal.Params) == 2 {
						prim = cal
					}
				}
			}
		}
	}
	if prim == nil {
		r.Unresolved("C10.pushes", "membership primitive called by (*bloom.Filter).Matches")
		return
	}
	memo := map[string]bool{}
	var always func(fn *ssa.Function, k int, depth int) bool
	always = func(fn *ssa.Function, k int, depth int) bool {
		if fn == prim && k == 1 {
			return true
		}
		if depth > 4 || k >= len(fn.Params) {
			return false
		}
		key := fmt.Sprintf("%s#%d", fn.String(), k)
		if v, ok := memo[key]; ok {
			return v
		}
		memo[key] = false
		res := false
		for _, b := range fn.Blocks {
			for _, in := range b.Instrs {
				c, ok := in.(*ssa.Call)
				if !ok {
					continue
				}
				cal := c.Call.StaticCallee()
				if cal == nil || !p.InRepo(cal) {
					continue
				}
				for ai, a := range c.Call.Args {
					if a == ssa.Value(fn.Params[k]) && always(cal, ai, depth+1) && dominatesAllReturns(fn, b) {
						res = true
					}
				}
			}
		}
		memo[key] = res
		return res
	}
	n := 0
	for _, fn := range p.Reachable([]*ssa.Function{matcher}) {
		if fn.Pkg != matcher.Pkg {
			continue
		}
		// values holding a PushedData result
		pushed := map[ssa.Value]bool{}
		for _, b := range fn.Blocks {
			for _, in := range b.Instrs {
				if ex, ok := in.(*ssa.Extract); ok && ex.Index == 0 {
					if c, ok := ex.Tuple.(*ssa.Call); ok && strings.HasSuffix(calleeName(&c.Call), ".PushedData") {
						pushed[ex] = true
					}
				}
			}
		}
		if len(pushed) == 0 {
			continue
		}
		for _, b := range fn.Blocks {
			for _, in := range b.Instrs {
				ld, ok := in.(*ssa.UnOp)
				if !ok || ld.Op != token.MUL {
					continue
				}
				ia, ok := ld.X.(*ssa.IndexAddr)
				if !ok || !pushed[ia.X] {
					continue
				}
				n++
				tested := false
				base := condKeySet(MustCondsAtBlock(fn, b))
				for _, u := range *ld.Referrers() {
					c, ok := u.(*ssa.Call)
					if !ok {
						continue
					}
					cal := c.Call.StaticCallee()
					if cal == nil || !p.InRepo(cal) {
						continue
					}
					for ai, a := range c.Call.Args {
						if a == ssa.Value(ld) && always(cal, ai, 0) {
							// executed whenever the element is read
							if c.Block() == b || sameKeys(condKeySet(MustCondsAtBlock(fn, c.Block())), base) {
								tested = true
							}
						}
					}
				}
				r.Add("C10.pushes", FnName(fn), "every data push read from the script is tested against the filter", p.InstrPos(ld), tested,
					"the element is handed, whenever it is read, to a function that tests it for membership on all of its paths")
			}
		}
	}
	if n == 0 {
		r.Unresolved("C10.pushes", "loops over txscript.PushedData results below "+FnName(matcher))
	}
	// round 6 (C10-agent6-m2): the pushes of a script are what the script tokenizer says they are.  Every element that
	// the matcher (or a function it reaches in its package) hands to the membership primitive out of a list of byte
	// strings comes out of a txscript.PushedData result — a hand-written "fast path" for scripts that merely begin
	// like pay-to-pubkey-hash sees other pushes than the tokenizer (or pushes in a script the tokenizer rejects).
	var fromTokenizer func(v ssa.Value, depth int) (bool, string)
	fromTokenizer = func(v ssa.Value, depth int) (bool, string) {
		if depth > 4 {
			return false, "too deep"
		}
		switch x := v.(type) {
		case *ssa.Extract:
			if c, ok := x.Tuple.(*ssa.Call); ok {
				if x.Index == 0 && strings.HasSuffix(calleeName(&c.Call), ".PushedData") {
					return true, ""
				}
				if cal := c.Call.StaticCallee(); cal != nil && p.InRepo(cal) && len(cal.Blocks) > 0 {
					for _, ret := range returnsOf(cal) {
						if x.Index < len(ret.Results) && !isNilConst(ret.Results[x.Index]) {
							if ok, why := fromTokenizer(ret.Results[x.Index], depth+1); !ok {
								return false, "via " + FnName(cal) + ": " + why
							}
						}
					}
					return true, ""
				}
			}
		case *ssa.Call:
			if cal := x.Call.StaticCallee(); cal != nil && p.InRepo(cal) && len(cal.Blocks) > 0 {
				for _, ret := range returnsOf(cal) {
					if len(ret.Results) > 0 && !isNilConst(ret.Results[0]) {
						if ok, why := fromTokenizer(ret.Results[0], depth+1); !ok {
							return false, "via " + FnName(cal) + ": " + why
						}
					}
				}
				return true, ""
			}
		case *ssa.Phi:
			for _, e := range x.Edges {
				if isNilConst(e) {
					continue
				}
				if ok, why := fromTokenizer(e, depth+1); !ok {
					return false, why
				}
			}
			return true, ""
		case *ssa.Parameter:
			// a helper that is handed the list: every call site
			fn := x.Parent()
			idx := paramIndex(fn, x)
			found := false
			for _, g := range p.Funcs {
				for _, b := range g.Blocks {
					for _, in := range b.Instrs {
						if c, ok := in.(*ssa.Call); ok && c.Call.StaticCallee() == fn && idx < len(c.Call.Args) {
							found = true
							if ok, why := fromTokenizer(c.Call.Args[idx], depth+1); !ok {
								return false, why
							}
						}
					}
				}
			}
			if found {
				return true, ""
			}
		}
		return false, exprString(v) + " is not a txscript.PushedData result"
	}
	exportedMatches := p.Func("bloom", "(*Filter).Matches")
	for _, fn := range p.Reachable([]*ssa.Function{matcher}) {
		if fn.Pkg != matcher.Pkg || fn == exportedMatches {
			continue
		}
		for _, b := range fn.Blocks {
			for _, in := range b.Instrs {
				c, ok := in.(*ssa.Call)
				if !ok || c.Call.StaticCallee() != prim || len(c.Call.Args) < 2 {
					continue
				}
				ld, ok := c.Call.Args[1].(*ssa.UnOp)
				if !ok || ld.Op != token.MUL {
					continue
				}
				ia, ok := ld.X.(*ssa.IndexAddr)
				if !ok {
					continue
				}
				if sl, isSl := ia.X.Type().Underlying().(*types.Slice); !isSl {
					continue
				} else if _, inner := sl.Elem().Underlying().(*types.Slice); !inner {
					continue
				}
				ok2, why := fromTokenizer(ia.X, 0)
				r.Add("C10.pushes", FnName(fn), "the data pushes tested are the ones txscript.PushedData found in the script", c.Pos(), ok2, why)
			}
		}
	}
	r.Floor("C10.pushes", 1)
}

func condKeySet(cs []Cond) map[string]bool {
	out := map[string]bool{}
	for _, c := range cs {
		out[fmt.Sprintf("%p/%v", c.V, c.Truth)] = true
	}
	return out
}

func sameKeys(a, b map[string]bool) bool {
	if len(a) != len(b) {
		return false
	}
	for k := range a {
		if !b[k] {
			return false
		}
	}
	return true
}

// spenderIndexRule: the block scanner's index from a transaction id to the earlier transactions that spend one of its
// outputs is many-valued and is walked completely.  (a) every map update that registers a spender stores
// append(index[key], …) for the same map and key — a plain assignment keeps only the last spender of a transaction
// with several spent outputs; (b) the re-check of the registered spenders happens in a loop over the looked-up
// entry.  Used by C10 (every relevant transaction is reported) and C11 (both builders select that set).
func spenderIndexRule(p *Program, r *Report, rule string) {
	scan := p.Func("bloom", "GetMatchedIndices")
	if scan == nil {
		r.Unresolved(rule, "bloom.GetMatchedIndices")
		return
	}
	n := 0
	var idxMap ssa.Value
	for _, b := range scan.Blocks {
		for _, in := range b.Instrs {
			mu, ok := in.(*ssa.MapUpdate)
			if !ok || !strings.Contains(exprString(mu.Key), "PreviousOutPoint.Hash") {
				continue
			}
			n++
			idxMap = mu.Map
			okApp := false
			how := "the entry is overwritten: " + exprString(mu.Value)
			if c, ok := mu.Value.(*ssa.Call); ok && isBuiltin(&c.Call, "append") {
				src := c.Call.Args[0]
				if ex, ok := src.(*ssa.Extract); ok {
					src = ex.Tuple
				}
				if lk, ok := src.(*ssa.Lookup); ok && lk.X == mu.Map && exprString(lk.Index) == exprString(mu.Key) {
					okApp = true
					how = "append(index[key], spender) stored back under the same key"
				} else {
					how = "append onto something other than the entry under the same key: " + exprString(c.Call.Args[0])
				}
			}
			r.Add(rule, FnName(scan), "the spender index keeps every spender of a transaction", mu.Pos(), okApp, how)
		}
	}
	if n == 0 {
		r.Unresolved(rule, "registration of spenders (map update keyed by PreviousOutPoint.Hash) in bloom.GetMatchedIndices")
		return
	}
	// the checker: in-package callee of the scanner that receives the index
	for _, b := range scan.Blocks {
		for _, in := range b.Instrs {
			c, ok := in.(*ssa.Call)
			if !ok {
				continue
			}
			cal := c.Call.StaticCallee()
			if cal == nil || !p.InRepo(cal) || cal.Pkg != scan.Pkg {
				continue
			}
			pi := -1
			for i, a := range c.Call.Args {
				if a == idxMap {
					pi = i
				}
			}
			if pi < 0 {
				continue
			}
			// recursive calls of the checker sit in a loop over a lookup in the index parameter
			for _, cb := range cal.Blocks {
				for _, ci := range cb.Instrs {
					rc, ok := ci.(*ssa.Call)
					if !ok || rc.Call.StaticCallee() != cal {
						continue
					}
					inLoop := false
					for h := cb; h != nil; h = h.Idom() {
						if isLoopHeader(h) {
							for _, pr := range h.Preds {
								if h.Dominates(pr) && (pr == cb || cb.Dominates(pr) || reachableFrom(cb, nil)[pr]) {
									inLoop = true
								}
							}
						}
					}
					r.Add(rule, FnName(cal), "every registered spender of a matched transaction is re-checked", rc.Pos(), inLoop, "the recursive call is inside a loop over the looked-up entry")
				}
			}
			return
		}
	}
}

// c10loopExits (mutation sweep: `continue` turned into `break` after an unparsable script or a push that is not in the
// filter): a loop of the transaction matcher — over outputs, inputs or the pushes of one script — is left early only on
// an edge where a membership test of the filter has just answered true.  Leaving on any other edge skips the remaining
// pushes / inputs, one of which may be in the filter.
func c10loopExits(p *Program, r *Report, matcher *ssa.Function) {
	mname := FnName(matcher)
	var positive func(cs []Cond) bool
	seenPhi := map[*ssa.Phi]bool{}
	positive = func(cs []Cond) bool {
		for _, c := range cs {
			v, truth := c.V, c.Truth
			for {
				if u, ok := v.(*ssa.UnOp); ok && u.Op == token.NOT {
					v, truth = u.X, !truth
					continue
				}
				break
			}
			// a found-flag: a bool φ that is true only along edges which themselves lie behind a positive test
			if ph, ok := v.(*ssa.Phi); ok && truth && !seenPhi[ph] {
				seenPhi[ph] = true
				all, any := true, false
				for i, e := range ph.Edges {
					if k, isK := constBool(e); isK && !k {
						continue
					}
					pb := ph.Block().Preds[i]
					ecs := MustCondsAtBlock(matcher, pb)
					if ec, ok := edgeCond(pb, ph.Block()); ok {
						ecs = append(ecs, ec)
					}
					if k, isK := constBool(e); isK && k {
						any = true
						if !positive(ecs) {
							all = false
						}
					} else if !positive(append(ecs, Cond{e, true, pb})) {
						all = false
					} else {
						any = true
					}
				}
				delete(seenPhi, ph)
				if all && any {
					return true
				}
				continue
			}
			call, ok := v.(*ssa.Call)
			if !ok || !truth {
				continue
			}
			cal := call.Call.StaticCallee()
			if cal != nil && p.InRepo(cal) && cal.Pkg == matcher.Pkg {
				if b, isB := cal.Signature.Results().At(0).Type().Underlying().(*types.Basic); isB && b.Kind() == types.Bool && cal.Signature.Results().Len() == 1 {
					return true
				}
			}
		}
		return false
	}
	n := 0
	for _, h := range matcher.Blocks {
		isHdr := false
		for _, pr := range h.Preds {
			if h.Dominates(pr) {
				isHdr = true
			}
		}
		if !isHdr {
			continue
		}
		in := loopBlocks(matcher, h)
		for b := range in {
			if b == h {
				continue
			}
			if _, isRet := lastInstr(b).(*ssa.Return); isRet {
				n++
				r.Add("C10.scanall", mname, "a loop of the matcher is left early only after a membership test answered true", p.InstrPos(lastInstr(b)), positive(MustCondsAtBlock(matcher, b)), "return inside the loop headed at "+p.Pos(p.InstrPos(h.Instrs[0])))
				continue
			}
			for _, s := range b.Succs {
				if in[s] {
					continue
				}
				cs := MustCondsAtBlock(matcher, b)
				if ec, ok := edgeCond(b, s); ok {
					cs = append(cs, ec)
				}
				n++
				r.Add("C10.scanall", mname, "a loop of the matcher is left early only after a membership test answered true", p.InstrPos(lastInstr(b)), positive(cs), "edge leaving the loop headed at "+p.Pos(p.InstrPos(h.Instrs[0]))+": the remaining pushes or inputs are not examined")
			}
		}
	}
	// the pushes of one script are walked by a real loop: the element read sits in a natural loop that starts after the
	// script was tokenised (with `break` on both arms of the test the "loop" examines the first push only and has no
	// back edge left)
	for _, b := range matcher.Blocks {
		for _, in := range b.Instrs {
			ex, ok := in.(*ssa.Extract)
			if !ok || ex.Index != 0 {
				continue
			}
			c, ok := ex.Tuple.(*ssa.Call)
			if !ok || !strings.HasSuffix(calleeName(&c.Call), ".PushedData") {
				continue
			}
			for _, ref := range *ex.Referrers() {
				var rb *ssa.BasicBlock
				switch x := ref.(type) {
				case *ssa.IndexAddr:
					rb = x.Block()
				case *ssa.Index:
					rb = x.Block()
				default:
					continue
				}
				looped := false
				for _, h := range matcher.Blocks {
					if (b == h || b.Dominates(h)) && h != b && loopBlocks(matcher, h)[rb] && len(loopBlocks(matcher, h)) > 1 {
						looped = true
					}
				}
				n++
				r.Add("C10.scanall", mname, "the data pushes of a script are examined one after another by a loop", ref.Pos(), looped, "the element read is not inside a loop that starts after the script was tokenised: only one push is looked at")
			}
		}
	}
	if n == 0 {
		r.Unresolved("C10.scanall", "early exits of the loops of "+mname)
	}
}

package main

import (
	"fmt"
	"math"
	"sort"
	"strings"
)

// Lin is Σ coef[a]·a + c over integer atoms a (ids); a constraint is Lin ≤ 0.
type Lin struct {
	coef map[int]int64
	c    int64
}

func newLin() Lin { return Lin{coef: map[int]int64{}} }
func constLin(c int64) Lin {
	l := newLin()
	l.c = c
	return l
}
func atomLin(a int) Lin {
	l := newLin()
	l.coef[a] = 1
	return l
}
func (l Lin) clone() Lin {
	n := newLin()
	n.c = l.c
	for k, v := range l.coef {
		n.coef[k] = v
	}
	return n
}

// add returns l + k·o.
func (l Lin) add(o Lin, k int64) Lin {
	n := l.clone()
	n.c += k * o.c
	for a, v := range o.coef {
		n.coef[a] += k * v
		if n.coef[a] == 0 {
			delete(n.coef, a)
		}
	}
	return n
}
func (l Lin) addConst(k int64) Lin {
	n := l.clone()
	n.c += k
	return n
}
func (l Lin) scale(k int64) Lin { return newLin().add(l, k) }
func (l Lin) isConst() bool     { return len(l.coef) == 0 }
func (l Lin) atoms() []int {
	var ks []int
	for k := range l.coef {
		ks = append(ks, k)
	}
	sort.Ints(ks)
	return ks
}

func linEq(a, b Lin) bool {
	if a.c != b.c || len(a.coef) != len(b.coef) {
		return false
	}
	for k, v := range a.coef {
		if b.coef[k] != v {
			return false
		}
	}
	return true
}

func (l Lin) format(name func(int) string) string {
	var sb strings.Builder
	for _, k := range l.atoms() {
		fmt.Fprintf(&sb, "%+d·%s ", l.coef[k], name(k))
	}
	fmt.Fprintf(&sb, "%+d", l.c)
	return sb.String()
}

func gcd64(a, b int64) int64 {
	if a < 0 {
		a = -a
	}
	if b < 0 {
		b = -b
	}
	for b != 0 {
		a, b = b, a%b
	}
	return a
}

// tighten divides by the gcd of the coefficients, rounding the constant so the
// integer solutions are preserved:  g·Σ + c ≤ 0  ⇔  Σ ≤ floor(-c/g)  ⇔  Σ + ceil(c/g) ≤ 0.
func tighten(r Lin) Lin {
	var g int64
	for _, v := range r.coef {
		g = gcd64(g, v)
	}
	if g > 1 {
		for k := range r.coef {
			r.coef[k] /= g
		}
		if r.c > 0 {
			r.c = (r.c + g - 1) / g
		} else {
			r.c = -((-r.c) / g)
		}
	}
	return r
}

const fmOverflowGuard = int64(1) << 40

func mulOK(x, y int64) (int64, bool) {
	if x == 0 || y == 0 {
		return 0, true
	}
	r := x * y
	if r/y != x || (x == -1 && y == math.MinInt64) || (y == -1 && x == math.MinInt64) {
		return 0, false
	}
	return r, true
}

func addOK(x, y int64) (int64, bool) {
	r := x + y
	if (x > 0 && y > 0 && r < 0) || (x < 0 && y < 0 && r >= 0) {
		return 0, false
	}
	return r, true
}

// combine returns kp·p + kn·n with overflow detection.
func combine(p Lin, kp int64, n Lin, kn int64) (Lin, bool) {
	r := newLin()
	c1, ok1 := mulOK(p.c, kp)
	c2, ok2 := mulOK(n.c, kn)
	c, ok3 := addOK(c1, c2)
	if !ok1 || !ok2 || !ok3 {
		return r, false
	}
	r.c = c
	for a, v := range p.coef {
		m, ok := mulOK(v, kp)
		if !ok {
			return r, false
		}
		r.coef[a] = m
	}
	for a, v := range n.coef {
		m, ok := mulOK(v, kn)
		if !ok {
			return r, false
		}
		s, ok := addOK(r.coef[a], m)
		if !ok {
			return r, false
		}
		if s == 0 {
			delete(r.coef, a)
		} else {
			r.coef[a] = s
		}
	}
	return r, true
}

// infeasible reports whether the conjunction of cons (each Lin ≤ 0) has no
// integer solution, by Fourier–Motzkin elimination with integer tightening.
// It gives up (returns false) on blow-up or large coefficients: sound, not complete.
func infeasible(cons []Lin) bool {
	cur := make([]Lin, 0, len(cons))
	for _, c := range cons {
		cur = append(cur, tighten(c.clone()))
	}
	for iter := 0; iter < 96; iter++ {
		vars := map[int]int{}
		for _, l := range cur {
			if l.isConst() && l.c > 0 {
				return true
			}
			for a := range l.coef {
				vars[a]++
			}
		}
		if len(vars) == 0 {
			return false
		}
		best, bestCost := -1, int(1<<30)
		for a := range vars {
			p, n := 0, 0
			for _, l := range cur {
				if v := l.coef[a]; v > 0 {
					p++
				} else if v < 0 {
					n++
				}
			}
			if p*n < bestCost || (p*n == bestCost && a < best) {
				best, bestCost = a, p*n
			}
		}
		var pos, neg, rest []Lin
		for _, l := range cur {
			if v := l.coef[best]; v > 0 {
				pos = append(pos, l)
			} else if v < 0 {
				neg = append(neg, l)
			} else {
				rest = append(rest, l)
			}
		}
		if len(pos)*len(neg) > 6000 {
			return false
		}
		for _, p := range pos {
			for _, n := range neg {
				a, b := p.coef[best], -n.coef[best]
				g := gcd64(a, b)
				r, ok := combine(p, b/g, n, a/g)
				if !ok {
					return false // arithmetic overflow: give up (sound: "not proved")
				}
				delete(r.coef, best)
				rest = append(rest, tighten(r))
			}
		}
		// drop duplicates
		seen := map[string]bool{}
		out := rest[:0]
		for _, l := range rest {
			k := l.format(func(i int) string { return fmt.Sprint(i) })
			if !seen[k] {
				seen[k] = true
				out = append(out, l)
			}
		}
		cur = out
	}
	return false
}

// entails: facts (each ≤ 0) imply goal ≤ 0 over the integers.
func entails(facts []Lin, goal Lin) bool {
	if goal.isConst() {
		return goal.c <= 0
	}
	neg := goal.scale(-1)
	neg.c++
	rel := map[int]bool{}
	for a := range goal.coef {
		rel[a] = true
	}
	used := make([]bool, len(facts))
	for changed := true; changed; {
		changed = false
		for i, f := range facts {
			if used[i] {
				continue
			}
			hit := f.isConst()
			for a := range f.coef {
				if rel[a] {
					hit = true
				}
			}
			if hit {
				used[i] = true
				changed = true
				for a := range f.coef {
					rel[a] = true
				}
			}
		}
	}
	var cons []Lin
	for i, f := range facts {
		if used[i] {
			cons = append(cons, f)
		}
	}
	cons = append(cons, neg)
	return infeasible(cons)
}

// strengthen applies  l ≤ 0 ∧ l ≠ 0 ⇒ l ≤ −1  (both signs) until no change.
func strengthen(all []Lin, nes []Lin) []Lin {
	for round := 0; round < 3; round++ {
		added := false
		for _, ne := range nes {
			for _, s := range []Lin{ne, ne.scale(-1)} {
				t := s.addConst(1)
				if entails(all, s) && !entails(all, t) {
					all = append(all, t)
					added = true
				}
			}
		}
		if !added {
			break
		}
	}
	return all
}

package main

import (
	"fmt"
	"go/token"
	"go/types"
	"sort"
	"strings"

	"golang.org/x/tools/go/ssa"
)

// Origins and write effects (DESIGN §2.5).
//
// A Root names a piece of memory relative to the function being analysed:
//
//	Param(i)  path     memory reached from parameter i
//	FreeVar(j) path    memory reached from captured variable j
//	Global(g) path     memory reached from package-level variable g
//	Fresh(site) path   memory allocated by this function (or a callee) at site
//	Unknown            could not be resolved
//
// path is a sequence of steps: "*" = follow the pointer / slice / map stored
// there, ".f" = field f.  Elements of slices, arrays and maps are not
// distinguished.  For a pointer-like SSA value v, src(v) is the set of roots v
// may point to; for a struct/array *value* it is the set of locations v may be
// a copy of.

type rootKind uint8

const (
	rkFresh rootKind = iota
	rkParam
	rkFreeVar
	rkGlobal
	rkUnknown
)

type Root struct {
	Kind rootKind
	Idx  int
	Site ssa.Value // allocation site for Fresh (nil = zero value / nothing)
	Glob *ssa.Global
	Path string
}

func (r Root) String() string {
	switch r.Kind {
	case rkFresh:
		if r.Site == nil {
			return "Zero"
		}
		return "Fresh(" + r.Site.Name() + ")" + r.Path
	case rkParam:
		return fmt.Sprintf("Param(%d)%s", r.Idx, r.Path)
	case rkFreeVar:
		return fmt.Sprintf("FreeVar(%d)%s", r.Idx, r.Path)
	case rkGlobal:
		return "Global(" + r.Glob.Name() + ")" + r.Path
	}
	return "Unknown"
}

const maxPathSteps = 8

func (r Root) extend(step string) Root {
	if r.Kind == rkUnknown || (r.Kind == rkFresh && r.Site == nil) {
		return r
	}
	if strings.HasSuffix(r.Path, "…") {
		return r
	}
	n := strings.Count(r.Path, "*") + strings.Count(r.Path, ".")
	if n >= maxPathSteps {
		r.Path += "…"
		return r
	}
	r.Path += step
	return r
}

type RootSet map[Root]struct{}

func (s RootSet) add(r Root) { s[r] = struct{}{} }
func (s RootSet) addAll(o RootSet) {
	for r := range o {
		s[r] = struct{}{}
	}
}
func (s RootSet) extend(step string) RootSet {
	o := RootSet{}
	for r := range s {
		o.add(r.extend(step))
	}
	return o
}
func (s RootSet) sorted() []Root {
	var out []Root
	for r := range s {
		out = append(out, r)
	}
	sort.Slice(out, func(i, j int) bool { return out[i].String() < out[j].String() })
	return out
}
func (s RootSet) String() string {
	var parts []string
	for _, r := range s.sorted() {
		parts = append(parts, r.String())
	}
	return "{" + strings.Join(parts, ", ") + "}"
}

// hasKind reports whether some root of the set has the given kind.
func (s RootSet) hasKind(k rootKind) bool {
	for r := range s {
		if r.Kind == k {
			return true
		}
	}
	return false
}

type Effect struct {
	Root Root
	Pos  token.Pos
	What string
	In   *ssa.Function // function containing the writing instruction
}

type Effects struct {
	poolOK  map[*ssa.Call]bool
	Pooled  map[ssa.Value]bool // Get calls classified as private scratch: fresh memory, but not fresh contents
	fcBusy  map[Root]bool
	p       *Program
	memo    map[ssa.Value]RootSet
	state   map[ssa.Value]int // 1 in progress, 2 done
	reenter map[ssa.Value]bool
	retSum  map[*ssa.Function][]RootSet
	retBusy map[*ssa.Function]bool
	wrSum   map[*ssa.Function][]Effect
	wrBusy  map[*ssa.Function]bool
	sfSum   map[*ssa.Function][]StoreFact
	sfBusy  map[*ssa.Function]bool
	// Dynamic records call sites that could not be resolved (for the evidence).
	Dynamic map[ssa.Instruction]bool
}

func NewEffects(p *Program) *Effects {
	return &Effects{p: p, memo: map[ssa.Value]RootSet{}, state: map[ssa.Value]int{}, reenter: map[ssa.Value]bool{},
		retSum: map[*ssa.Function][]RootSet{}, retBusy: map[*ssa.Function]bool{},
		wrSum: map[*ssa.Function][]Effect{}, wrBusy: map[*ssa.Function]bool{},
		sfSum: map[*ssa.Function][]StoreFact{}, sfBusy: map[*ssa.Function]bool{}, Dynamic: map[ssa.Instruction]bool{}}
}

func pointerLike(t types.Type) bool {
	switch u := t.Underlying().(type) {
	case *types.Pointer, *types.Slice, *types.Map, *types.Chan, *types.Signature, *types.Interface:
		return true
	case *types.Basic:
		return u.Kind() == types.UnsafePointer
	}
	return false
}

// carriesRefs: value types that may contain pointers (struct, array) or are pointer-like.
func carriesRefs(t types.Type) bool {
	if pointerLike(t) {
		return true
	}
	switch u := t.Underlying().(type) {
	case *types.Struct:
		for i := 0; i < u.NumFields(); i++ {
			if carriesRefs(u.Field(i).Type()) {
				return true
			}
		}
	case *types.Array:
		return carriesRefs(u.Elem())
	case *types.Tuple:
		for i := 0; i < u.Len(); i++ {
			if carriesRefs(u.At(i).Type()) {
				return true
			}
		}
	}
	return false
}

func paramIndex(fn *ssa.Function, v ssa.Value) int {
	for i, p := range fn.Params {
		if ssa.Value(p) == v {
			return i
		}
	}
	return -1
}

func freeVarIndex(fn *ssa.Function, v ssa.Value) int {
	for i, p := range fn.FreeVars {
		if ssa.Value(p) == v {
			return i
		}
	}
	return -1
}

// Src computes src(v) (see the file comment) with a fix-point over cycles.
func (e *Effects) Src(v ssa.Value) RootSet {
	switch e.state[v] {
	case 2:
		return e.memo[v]
	case 1:
		e.reenter[v] = true
		return e.memo[v]
	}
	e.state[v] = 1
	e.memo[v] = RootSet{}
	for iter := 0; iter < 12; iter++ {
		e.reenter[v] = false
		r := e.compute(v)
		grew := false
		for k := range r {
			if _, ok := e.memo[v][k]; !ok {
				grew = true
			}
		}
		e.memo[v] = r
		if !e.reenter[v] || !grew {
			break
		}
		// invalidate values computed from the partial result
		for k, st := range e.state {
			if st == 2 && k != v {
				// cheap global invalidation keeps the fix-point sound on this small program
				delete(e.state, k)
				delete(e.memo, k)
			}
		}
	}
	e.state[v] = 2
	return e.memo[v]
}

var freshZero = Root{Kind: rkFresh}

func (e *Effects) compute(v ssa.Value) RootSet {
	out := RootSet{}
	if !carriesRefs(v.Type()) {
		if _, isStr := v.Type().Underlying().(*types.Basic); isStr {
			return out
		}
		return out
	}
	switch x := v.(type) {
	case *ssa.Const:
		out.add(freshZero)
	case *ssa.Parameter:
		r := Root{Kind: rkParam, Idx: paramIndex(x.Parent(), x)}
		if pointerLike(x.Type()) {
			out.add(r.extend("*"))
		} else {
			out.add(r) // struct/array value parameter: a copy located "at" the parameter
		}
	case *ssa.FreeVar:
		r := Root{Kind: rkFreeVar, Idx: freeVarIndex(x.Parent(), x)}
		out.add(r.extend("*"))
	case *ssa.Global:
		out.add(Root{Kind: rkGlobal, Glob: x})
	case *ssa.Function:
		out.add(freshZero)
	case *ssa.Builtin:
		out.add(freshZero)
	case *ssa.Alloc:
		out.add(Root{Kind: rkFresh, Site: x})
	case *ssa.MakeSlice:
		out.add(Root{Kind: rkFresh, Site: x})
	case *ssa.MakeMap:
		out.add(Root{Kind: rkFresh, Site: x})
	case *ssa.MakeChan:
		out.add(Root{Kind: rkFresh, Site: x})
	case *ssa.MakeClosure:
		out.add(Root{Kind: rkFresh, Site: x})
	case *ssa.MakeInterface:
		if carriesRefs(x.X.Type()) {
			out.addAll(e.Src(x.X))
		} else {
			out.add(freshZero)
		}
	case *ssa.ChangeInterface:
		out.addAll(e.Src(x.X))
	case *ssa.ChangeType:
		out.addAll(e.Src(x.X))
	case *ssa.SliceToArrayPointer:
		out.addAll(e.Src(x.X))
	case *ssa.Convert:
		_, fromStr := x.X.Type().Underlying().(*types.Basic)
		_, toStr := x.Type().Underlying().(*types.Basic)
		if fromStr || toStr {
			// string <-> []byte/[]rune conversions copy
			out.add(Root{Kind: rkFresh, Site: x})
		} else {
			out.addAll(e.Src(x.X))
		}
	case *ssa.Slice:
		out.addAll(e.Src(x.X)) // slice of slice/string: same backing; of *array: the array
	case *ssa.Phi:
		for _, ed := range x.Edges {
			out.addAll(e.Src(ed))
		}
	case *ssa.FieldAddr:
		out.addAll(e.Src(x.X).extend("." + fieldOfAddr(x).Name()))
	case *ssa.IndexAddr:
		out.addAll(e.Src(x.X))
	case *ssa.Field:
		base := e.Src(x.X).extend("." + fieldOfVal(x).Name())
		if pointerLike(x.Type()) {
			out.addAll(e.derefSet(base, x.Parent()))
		} else {
			out.addAll(base)
		}
	case *ssa.Index:
		base := e.Src(x.X)
		if pointerLike(x.Type()) {
			out.addAll(e.derefSet(base, x.Parent()))
		} else {
			out.addAll(base)
		}
	case *ssa.Lookup:
		if _, isMap := x.X.Type().Underlying().(*types.Map); isMap {
			base := e.Src(x.X)
			if pointerLike(x.Type()) || x.CommaOk {
				out.addAll(e.derefSet(base, x.Parent()))
			} else {
				out.addAll(base)
			}
		}
	case *ssa.UnOp:
		if x.Op == token.MUL {
			locs := e.Src(x.X)
			if pointerLike(x.Type()) {
				out.addAll(e.derefSet(locs, x.Parent()))
			} else {
				// struct / array value: a copy of the location
				out.addAll(locs)
			}
		} else if x.Op == token.ARROW {
			out.add(Root{Kind: rkUnknown})
		} else {
			out.add(freshZero)
		}
	case *ssa.Extract:
		out.addAll(e.extract(x))
	case *ssa.TypeAssert:
		out.addAll(e.Src(x.X))
	case *ssa.BinOp:
		out.add(freshZero) // string concatenation etc.
	case *ssa.Next:
		if it, ok := x.Iter.(*ssa.Range); ok {
			base := e.Src(it.X)
			out.addAll(e.derefSet(base, x.Parent()))
		}
	case *ssa.Range:
		out.addAll(e.Src(x.X))
	case *ssa.Select:
		out.add(Root{Kind: rkUnknown})
	case *ssa.Call:
		out.addAll(e.callResult(x, -1))
	default:
		out.add(Root{Kind: rkUnknown})
	}
	return out
}

func (e *Effects) extract(x *ssa.Extract) RootSet {
	switch t := x.Tuple.(type) {
	case *ssa.Call:
		return e.callResult(t, x.Index)
	case *ssa.TypeAssert:
		return e.Src(t.X)
	case *ssa.Lookup:
		return e.Src(t)
	case *ssa.Next:
		if x.Index == 0 {
			return RootSet{freshZero: {}}
		}
		if it, ok := t.Iter.(*ssa.Range); ok {
			base := e.Src(it.X)
			typ := x.Type()
			if x.Index == 1 {
				if _, isMap := it.X.Type().Underlying().(*types.Map); isMap {
					return RootSet{Root{Kind: rkUnknown}: {}}
				}
			}
			if pointerLike(typ) {
				return e.derefSet(base, x.Parent())
			}
			return base
		}
	case *ssa.UnOp:
		return e.Src(t)
	case *ssa.Select:
		return RootSet{Root{Kind: rkUnknown}: {}}
	}
	return RootSet{Root{Kind: rkUnknown}: {}}
}

// derefSet: the memory pointed to by the pointer-like contents of locations locs.
func (e *Effects) derefSet(locs RootSet, fn *ssa.Function) RootSet {
	out := RootSet{}
	for r := range locs {
		switch r.Kind {
		case rkFresh:
			if r.Site == nil {
				out.add(freshZero)
				continue
			}
			out.addAll(e.freshContents(r, fn))
		case rkUnknown:
			out.add(r)
		default:
			out.add(r.extend("*"))
		}
	}
	return out
}

// freshContents: what the pointer-like contents of a fresh location may point
// to: the union over all stores (and copies / appends) into that location in
// the allocating function.  Flow-insensitive.
func (e *Effects) freshContents(loc Root, user *ssa.Function) RootSet {
	out := RootSet{}
	// a location whose contents are defined in terms of themselves (pending = append(pending, …) in a work-list loop):
	// the inner occurrence contributes nothing new
	if e.fcBusy == nil {
		e.fcBusy = map[Root]bool{}
	}
	if e.fcBusy[loc] {
		return out
	}
	e.fcBusy[loc] = true
	defer delete(e.fcBusy, loc)
	var fn *ssa.Function
	if in, ok := loc.Site.(ssa.Instruction); ok {
		fn = in.Parent()
	}
	if fn == nil {
		out.add(Root{Kind: rkUnknown})
		return out
	}
	found := false
	// results of out-of-repo calls: contents are fresh as well (assumption 7.2b)
	if c, ok := loc.Site.(*ssa.Call); ok {
		cal := c.Call.StaticCallee()
		if cal == nil || !e.p.InRepo(cal) || len(cal.Blocks) == 0 {
			if !isBuiltin(&c.Call, "append") {
				out.add(Root{Kind: rkFresh, Site: loc.Site, Path: loc.Path}.extend("*"))
				found = true
			}
		}
	}
	if c, ok := loc.Site.(*ssa.Call); ok {
		if cal := c.Call.StaticCallee(); cal != nil && e.p.InRepo(cal) && len(cal.Blocks) > 0 {
			for _, sf := range e.StoreFacts(cal) {
				if sf.Target.Kind == rkFresh && sf.Target.Site != nil && sf.Target.Path == loc.Path {
					found = true
					for v := range sf.Vals {
						out.addAll(e.substitute(v, &c.Call, c, fn))
					}
				}
			}
		}
	}
	for _, b := range fn.Blocks {
		for _, in := range b.Instrs {
			switch x := in.(type) {
			case *ssa.Store:
				if !carriesRefs(x.Val.Type()) {
					continue
				}
				if _, ok := e.Src(x.Addr)[loc]; ok {
					found = true
					if pointerLike(x.Val.Type()) {
						out.addAll(e.Src(x.Val))
					} else {
						out.addAll(e.derefSet(e.Src(x.Val), fn))
					}
				}
			case *ssa.MapUpdate:
				if _, ok := e.Src(x.Map)[loc]; ok && pointerLike(x.Value.Type()) {
					found = true
					out.addAll(e.Src(x.Value))
				}
			case *ssa.Call:
				if isBuiltin(&x.Call, "append") && loc.Path == "" && ssa.Value(x) == loc.Site {
					// contents of the new array: those of both arguments
					found = true
					out.addAll(e.derefSet(e.Src(x.Call.Args[0]), fn))
					if len(x.Call.Args) > 1 {
						out.addAll(e.derefSet(e.Src(x.Call.Args[1]), fn))
					}
				}
				if isBuiltin(&x.Call, "copy") {
					if _, ok := e.Src(x.Call.Args[0])[loc]; ok {
						if sl, isSl := x.Call.Args[1].Type().Underlying().(*types.Slice); isSl && carriesRefs(sl.Elem()) {
							found = true
							out.addAll(e.derefSet(e.Src(x.Call.Args[1]), fn))
						}
					}
				}
			}
		}
	}
	if !found {
		out.add(freshZero)
	}
	return out
}

// externalAlias lists out-of-repo callees whose pointer-like result aliases
// an argument (index) instead of being freshly allocated.
var externalAlias = map[string]int{
	"(*bytes.Buffer).Bytes":                       0,
	"(*bytes.Buffer).Next":                        0,
	"bytes.TrimSpace":                             0,
	"bytes.Trim":                                  0,
	"bytes.TrimLeft":                              0,
	"bytes.TrimRight":                             0,
	"bytes.TrimPrefix":                            0,
	"bytes.TrimSuffix":                            0,
	"(*math/big.Int).Bits":                        0,
	"(encoding/binary.littleEndian).AppendUint16": 1, "(encoding/binary.littleEndian).AppendUint32": 1, "(encoding/binary.littleEndian).AppendUint64": 1,
	"(encoding/binary.bigEndian).AppendUint16": 1, "(encoding/binary.bigEndian).AppendUint32": 1, "(encoding/binary.bigEndian).AppendUint64": 1,
	"encoding/binary.AppendUvarint": 0, "encoding/binary.AppendVarint": 0, "encoding/hex.AppendEncode": 0, "encoding/hex.AppendDecode": 0,
	"strconv.AppendInt": 0, "strconv.AppendUint": 0, "fmt.Append": 0, "fmt.Appendf": 0, "(*math/big.Int).Append": 1,
	"slices.Compact": 0, "slices.CompactFunc": 0, "slices.Delete": 0, "slices.DeleteFunc": 0, "slices.Insert": 0, "slices.Clip": 0, "slices.Grow": 0,
	"(*container/list.List).Front":     0,
	"(*container/list.List).Back":      0,
	"(*container/list.Element).Next":   0,
	"(*container/list.Element).Prev":   0,
	"(*container/list.List).PushBack":  0,
	"(*container/list.List).PushFront": 0,
	"(*container/list.List).Init":      0,
}

// bytes.NewBuffer(b)/NewReader(b)/bstream.NewBStreamReader(b): the result keeps a reference to b.
// externalShared: out-of-repo calls whose result is shared, recycled memory (never "fresh").
var externalShared = map[string]bool{
	"(*sync.Pool).Get": true,
}

var externalKeeps = map[string]int{
	"bytes.NewBuffer": 0,
	"bytes.NewReader": 0,
	"github.com/kkdai/bstream.NewBStreamReader": 0,
	"bufio.NewReader": 0,
}

func (e *Effects) callResult(c *ssa.Call, idx int) RootSet {
	out := RootSet{}
	com := &c.Call
	if b, ok := com.Value.(*ssa.Builtin); ok {
		switch b.Name() {
		case "append":
			out.addAll(e.Src(com.Args[0]))
			out.add(Root{Kind: rkFresh, Site: c})
		default:
			out.add(freshZero)
		}
		return out
	}
	callee := com.StaticCallee()
	if callee != nil && e.p.InRepo(callee) && len(callee.Blocks) > 0 {
		sums := e.returnSummary(callee)
		for i, s := range sums {
			if idx >= 0 && i != idx {
				continue
			}
			for r := range s {
				out.addAll(e.substitute(r, com, c, c.Parent()))
			}
		}
		if len(out) == 0 {
			out.add(freshZero)
		}
		return out
	}
	if callee != nil {
		name := callee.String()
		if externalShared[name] {
			// recycled objects: whatever comes out may still be referenced by whoever put it in — unless this call
			// takes it, uses it, puts it back and keeps nothing (pooluse.go): then it is private scratch memory
			if e.poolDiscipline(c) {
				if e.Pooled == nil {
					e.Pooled = map[ssa.Value]bool{}
				}
				e.Pooled[c] = true
				out.add(Root{Kind: rkFresh, Site: c})
				return out
			}
			out.add(Root{Kind: rkUnknown})
			return out
		}
		if ai, ok := externalAlias[name]; ok && ai < len(com.Args) {
			out.addAll(e.Src(com.Args[ai]))
			return out
		}
		if ai, ok := externalKeeps[name]; ok && ai < len(com.Args) {
			out.add(Root{Kind: rkFresh, Site: c})
			if name == "bytes.NewBuffer" {
				// a Buffer WRITES into the spare capacity of the slice it was given (Write, WriteByte, Grow+Write,
				// binary.Write(buf, …)): whatever is written through the buffer may land in the argument's array
				// (C05-agent5-m1: String() assembled in bytes.NewBuffer(k.version) overwrote the parent key's fields)
				out.addAll(e.Src(com.Args[ai]))
			}
			return out
		}
	}
	if callee == nil && com.IsInvoke() && com.Method.Name() == "Sum" && len(com.Args) == 1 {
		// hash.Hash.Sum(b) appends the digest to b and returns the result: it may be b's own array
		out.addAll(e.Src(com.Args[0]))
		out.add(Root{Kind: rkFresh, Site: c})
		return out
	}
	if callee == nil && !com.IsInvoke() {
		// call through a function value
		if mc, ok := com.Value.(*ssa.MakeClosure); ok {
			_ = mc
		}
		e.Dynamic[c] = true
	}
	// out-of-repo or dynamic: results assumed freshly allocated (assumption 7.2b)
	out.add(Root{Kind: rkFresh, Site: c})
	return out
}

// substitute re-expresses a callee root in the caller's terms.
func (e *Effects) substitute(r Root, com *ssa.CallCommon, site ssa.Instruction, caller *ssa.Function) RootSet {
	out := RootSet{}
	var base RootSet
	switch r.Kind {
	case rkParam:
		if r.Idx < 0 || r.Idx >= len(com.Args) {
			out.add(Root{Kind: rkUnknown})
			return out
		}
		arg := com.Args[r.Idx]
		base = e.Src(arg)
		path := r.Path
		if pointerLike(arg.Type()) {
			// callee paths of pointer-like parameters start with "*", and src(arg) is already the pointee
			path = strings.TrimPrefix(path, "*")
		}
		return e.applyPath(base, path, caller)
	case rkFreeVar:
		mc, ok := com.Value.(*ssa.MakeClosure)
		if !ok || r.Idx < 0 || r.Idx >= len(mc.Bindings) {
			out.add(Root{Kind: rkUnknown})
			return out
		}
		base = e.Src(mc.Bindings[r.Idx])
		return e.applyPath(base, strings.TrimPrefix(r.Path, "*"), caller)
	case rkFresh:
		if r.Site == nil {
			out.add(r)
		} else {
			// fresh in the callee: fresh for the caller, identified by the call site
			if v, ok := site.(ssa.Value); ok {
				out.add(Root{Kind: rkFresh, Site: v, Path: r.Path})
			} else {
				out.add(Root{Kind: rkFresh, Site: r.Site})
			}
		}
	default:
		out.add(r)
	}
	return out
}

// applyPath applies path steps to a set of roots, resolving "*" on fresh
// locations through the stores of the allocating function.
func (e *Effects) applyPath(base RootSet, path string, fn *ssa.Function) RootSet {
	cur := base
	for len(path) > 0 {
		switch {
		case path[0] == '*':
			cur = e.derefSet(cur, fn)
			path = path[1:]
		case path[0] == '.':
			j := 1
			for j < len(path) && path[j] != '.' && path[j] != '*' && !strings.HasPrefix(path[j:], "…") {
				j++
			}
			cur = cur.extend(path[:j])
			path = path[j:]
		default: // "…"
			n := RootSet{}
			for r := range cur {
				if r.Kind == rkFresh || r.Kind == rkUnknown {
					n.add(r)
				} else {
					if !strings.HasSuffix(r.Path, "…") {
						r.Path += "…"
					}
					n.add(r)
				}
			}
			return n
		}
	}
	return cur
}

func (e *Effects) returnSummary(fn *ssa.Function) []RootSet {
	if s, ok := e.retSum[fn]; ok {
		return s
	}
	n := fn.Signature.Results().Len()
	if e.retBusy[fn] {
		return make([]RootSet, n)
	}
	e.retBusy[fn] = true
	sums := make([]RootSet, n)
	for i := range sums {
		sums[i] = RootSet{}
	}
	for _, ret := range returnsOf(fn) {
		for i, res := range ret.Results {
			if carriesRefs(res.Type()) {
				sums[i].addAll(e.Src(res))
			}
		}
	}
	e.retBusy[fn] = false
	e.retSum[fn] = sums
	return sums
}

// externalWriters: out-of-repo callees that write through a pointer-like
// argument; value = indices of the written arguments (receiver = 0).
var externalWriters = map[string][]int{
	"(encoding/binary.littleEndian).PutUint16": {1},
	"(encoding/binary.littleEndian).PutUint32": {1},
	"(encoding/binary.littleEndian).PutUint64": {1},
	"(encoding/binary.bigEndian).PutUint16":    {1},
	"(encoding/binary.bigEndian).PutUint32":    {1},
	"(encoding/binary.bigEndian).PutUint64":    {1},
	"encoding/binary.Read":                     {2},
	// append-style helpers write into the spare capacity of their first slice argument and return it
	"(encoding/binary.littleEndian).AppendUint16": {1}, "(encoding/binary.littleEndian).AppendUint32": {1}, "(encoding/binary.littleEndian).AppendUint64": {1},
	"(encoding/binary.bigEndian).AppendUint16": {1}, "(encoding/binary.bigEndian).AppendUint32": {1}, "(encoding/binary.bigEndian).AppendUint64": {1},
	"encoding/binary.AppendUvarint": {0}, "encoding/binary.AppendVarint": {0}, "encoding/binary.Append": {0},
	"encoding/hex.AppendEncode": {0}, "encoding/hex.AppendDecode": {0},
	"strconv.AppendInt": {0}, "strconv.AppendUint": {0}, "strconv.AppendQuote": {0}, "strconv.AppendBool": {0}, "strconv.AppendFloat": {0},
	"fmt.Append": {0}, "fmt.Appendf": {0}, "fmt.Appendln": {0},
	"(*math/big.Int).Append": {1}, "unicode/utf8.AppendRune": {0},
	"slices.Compact": {0}, "slices.CompactFunc": {0}, "slices.Delete": {0}, "slices.DeleteFunc": {0}, "slices.Insert": {0}, "slices.Reverse": {0}, "slices.Sort": {0}, "slices.SortFunc": {0}, "slices.SortStableFunc": {0}, "slices.Replace": {0},
	"encoding/hex.Decode":       {0},
	"encoding/hex.Encode":       {0},
	"io.ReadFull":               {1},
	"io.ReadAtLeast":            {1},
	"crypto/rand.Read":          {0},
	"(*math/big.Int).FillBytes": {1},
	// math/big: methods that set their receiver (z = …); QuoRem/DivMod also set their last argument
	"(*math/big.Int).Set": {0}, "(*math/big.Int).SetInt64": {0}, "(*math/big.Int).SetUint64": {0}, "(*math/big.Int).SetBytes": {0},
	"(*math/big.Int).SetString": {0}, "(*math/big.Int).SetBit": {0}, "(*math/big.Int).SetBits": {0}, "(*math/big.Int).Add": {0},
	"(*math/big.Int).Sub": {0}, "(*math/big.Int).Mul": {0}, "(*math/big.Int).Div": {0}, "(*math/big.Int).Mod": {0},
	"(*math/big.Int).DivMod": {0, 3}, "(*math/big.Int).Quo": {0}, "(*math/big.Int).Rem": {0}, "(*math/big.Int).QuoRem": {0, 3},
	"(*math/big.Int).Exp": {0}, "(*math/big.Int).Neg": {0}, "(*math/big.Int).Abs": {0}, "(*math/big.Int).Lsh": {0},
	"(*math/big.Int).Rsh": {0}, "(*math/big.Int).And": {0}, "(*math/big.Int).Or": {0}, "(*math/big.Int).Xor": {0},
	"(*math/big.Int).Not": {0}, "(*math/big.Int).AndNot": {0}, "(*math/big.Int).ModInverse": {0}, "(*math/big.Int).ModSqrt": {0},
	"(*math/big.Int).GCD": {0, 1, 2}, "(*math/big.Int).Sqrt": {0}, "(*math/big.Int).Rand": {0}, "(*math/big.Int).Binomial": {0},
	"(*math/big.Int).MulRange": {0},
	// buffers and concrete hash states: methods that change the receiver
	"(*bytes.Buffer).Write": {0}, "(*bytes.Buffer).WriteByte": {0}, "(*bytes.Buffer).WriteString": {0}, "(*bytes.Buffer).Reset": {0},
	"(*bytes.Buffer).Truncate": {0}, "(*bytes.Buffer).Grow": {0}, "(*bytes.Buffer).ReadFrom": {0}, "(*bytes.Buffer).Next": {0},
	"(*strings.Builder).WriteByte": {0}, "(*strings.Builder).WriteString": {0}, "(*strings.Builder).Write": {0}, "(*strings.Builder).Reset": {0},
	"sort.Slice":                      {0},
	"sort.SliceStable":                {0},
	"sort.Sort":                       {0},
	"sort.Stable":                     {0},
	"sort.Ints":                       {0},
	"sort.Strings":                    {0},
	"(*bytes.Buffer).Read":            {1},
	"(*bytes.Reader).Read":            {1},
	"encoding/json.Unmarshal":         {1},
	"(*encoding/json.Decoder).Decode": {1},
}

// interface methods that write through an argument
var invokeWriters = map[string][]int{
	"Read":      {0}, // io.Reader.Read(p)
	"PutUint16": {0},
	"PutUint32": {0},
	"PutUint64": {0},
	"Sum":       {0}, // hash.Hash.Sum(b) appends to b
	"Swap":      {},  // sort.Interface.Swap: handled through CHA
}

// interface methods that change the state of the object they are called on (hash.Hash, io.Writer, …)
var invokeMutatesReceiver = map[string]bool{"Write": true, "Reset": true, "WriteByte": true, "WriteString": true, "Read": true, "ReadByte": true, "Seek": true}

// WriteEffects returns the write effects of fn in fn's own terms, closed over
// in-repo callees.
func (e *Effects) WriteEffects(fn *ssa.Function) []Effect {
	if s, ok := e.wrSum[fn]; ok {
		return s
	}
	if e.wrBusy[fn] {
		return nil
	}
	e.wrBusy[fn] = true
	var out []Effect
	add := func(rs RootSet, pos token.Pos, what string, in *ssa.Function) {
		for r := range rs {
			if r.Kind == rkFresh {
				continue
			}
			out = append(out, Effect{r, pos, what, in})
		}
	}
	for _, b := range fn.Blocks {
		for _, in := range b.Instrs {
			switch x := in.(type) {
			case *ssa.Store:
				add(e.Src(x.Addr), x.Pos(), "store", fn)
			case *ssa.MapUpdate:
				add(e.Src(x.Map), x.Pos(), "map update", fn)
			case *ssa.Send:
				add(e.Src(x.Chan), x.Pos(), "send", fn)
			case ssa.CallInstruction:
				com := x.Common()
				pos := x.Pos()
				if bi, ok := com.Value.(*ssa.Builtin); ok {
					switch bi.Name() {
					case "copy":
						add(e.Src(com.Args[0]), pos, "copy into", fn)
					case "append":
						add(e.Src(com.Args[0]), pos, "append onto (writes spare capacity)", fn)
					case "delete":
						add(e.Src(com.Args[0]), pos, "delete from", fn)
					case "clear":
						add(e.Src(com.Args[0]), pos, "clear", fn)
					}
					continue
				}
				var callees []*ssa.Function
				if cal := com.StaticCallee(); cal != nil {
					callees = []*ssa.Function{cal}
				} else if com.IsInvoke() {
					callees = e.p.implementations(com)
					if idxs, ok := invokeWriters[com.Method.Name()]; ok {
						for _, i := range idxs {
							if i < len(com.Args) {
								add(e.Src(com.Args[i]), pos, "passed to writer "+com.Method.Name(), fn)
							}
						}
					}
					if invokeMutatesReceiver[com.Method.Name()] {
						add(e.Src(com.Value), pos, "state changed by "+com.Method.Name(), fn)
					}
				} else {
					e.Dynamic[x] = true
				}
				for _, cal := range callees {
					if e.p.InRepo(cal) && len(cal.Blocks) > 0 {
						for _, ef := range e.WriteEffects(cal) {
							var rs RootSet
							if com.IsInvoke() {
								// receiver is com.Value; build a pseudo call common
								pc := &ssa.CallCommon{Value: cal, Args: append([]ssa.Value{com.Value}, com.Args...)}
								rs = e.substitute(ef.Root, pc, x, fn)
							} else {
								rs = e.substitute(ef.Root, com, x, fn)
							}
							for r := range rs {
								if r.Kind == rkFresh {
									continue
								}
								out = append(out, Effect{r, pos, "via " + FnName(cal) + ": " + ef.What, ef.In})
							}
						}
					} else if idxs, ok := externalWriters[cal.String()]; ok {
						for _, i := range idxs {
							if i < len(com.Args) {
								add(e.Src(com.Args[i]), pos, "passed to writer "+cal.Name(), fn)
							}
						}
						// sort.Sort(x): effects of the in-repo Swap on x
						if cal.String() == "sort.Sort" || cal.String() == "sort.Stable" {
							if mi, ok := com.Args[0].(*ssa.MakeInterface); ok {
								add(e.Src(mi.X), pos, "permuted by "+cal.Name(), fn)
							}
						}
					}
				}
			}
		}
	}
	e.wrBusy[fn] = false
	e.wrSum[fn] = out
	return out
}

// StoreFact: the function stores, into location Target (a struct field), a
// reference to the memory Vals.
type StoreFact struct {
	Target Root
	Field  *types.Var // the field stored into (outermost FieldAddr), nil if not a field
	Struct types.Type // the struct type owning Field
	Vals   RootSet
	Pos    token.Pos
	In     *ssa.Function
}

// StoreFacts lists the reference-carrying stores of fn, closed over in-repo callees.
func (e *Effects) StoreFacts(fn *ssa.Function) []StoreFact {
	if s, ok := e.sfSum[fn]; ok {
		return s
	}
	if e.sfBusy[fn] {
		return nil
	}
	e.sfBusy[fn] = true
	var out []StoreFact
	for _, b := range fn.Blocks {
		for _, in := range b.Instrs {
			switch x := in.(type) {
			case *ssa.Store:
				if !carriesRefs(x.Val.Type()) {
					continue
				}
				var vals RootSet
				if pointerLike(x.Val.Type()) {
					vals = e.Src(x.Val)
				} else {
					vals = e.derefSet(e.Src(x.Val), fn)
				}
				var fld *types.Var
				var stT types.Type
				if fa, ok := x.Addr.(*ssa.FieldAddr); ok {
					fld = fieldOfAddr(fa)
					stT = derefType(fa.X.Type())
				}
				for t := range e.Src(x.Addr) {
					out = append(out, StoreFact{t, fld, stT, vals, x.Pos(), fn})
				}
			case ssa.CallInstruction:
				com := x.Common()
				cal := com.StaticCallee()
				if cal == nil || !e.p.InRepo(cal) || len(cal.Blocks) == 0 {
					continue
				}
				for _, sf := range e.StoreFacts(cal) {
					vals := RootSet{}
					for v := range sf.Vals {
						vals.addAll(e.substitute(v, com, x, fn))
					}
					for t := range e.substitute(sf.Target, com, x, fn) {
						out = append(out, StoreFact{t, sf.Field, sf.Struct, vals, x.Pos(), sf.In})
					}
				}
			}
		}
	}
	e.sfBusy[fn] = false
	e.sfSum[fn] = out
	return out
}

package main

import (
	"fmt"
	"go/token"
	"go/types"
	"sort"
	"strings"

	"golang.org/x/tools/go/ssa"
)

func init() { register("C18", checkC18) }

// sortCalls lists the sort.Sort / sort.IsSorted / sort.Stable calls of fn with the
// named type the argument was converted to and the wire field it came from.
type sortCall struct {
	call    *ssa.Call
	named   *types.Named
	srcExpr string
	src     ssa.Value
	via     ssa.Value // set when the sort happens in an in-repo callee handed this object (e.g. Sort → InPlaceSort(copy))
}

func sortCallsOf(fn *ssa.Function) []sortCall { return sortCallsOfDepth(fn, 0) }

func sortCallsOfDepth(fn *ssa.Function, depth int) []sortCall {
	var out []sortCall
	for _, b := range fn.Blocks {
		for _, in := range b.Instrs {
			c, ok := in.(*ssa.Call)
			if ok && depth == 0 && c.Call.StaticCallee() != nil && c.Call.StaticCallee().Pkg == fn.Pkg && len(c.Call.Args) == 1 && len(c.Call.StaticCallee().Params) == 1 {
				// delegation: the callee sorts the slices of the object it is handed
				callee := c.Call.StaticCallee()
				for _, sc := range sortCallsOfDepth(callee, 1) {
					if f, base, ok := fieldLoad(sc.src); ok && base == ssa.Value(callee.Params[0]) {
						sc.via = c.Call.Args[0]
						sc.srcExpr = exprString(c.Call.Args[0]) + "." + f.Name()
						sc.call = c
						out = append(out, sc)
					}
				}
				continue
			}
			if !ok || !staticCalleeIs(&c.Call, "sort.Sort", "sort.Stable", "sort.IsSorted") {
				continue
			}
			mi, ok := c.Call.Args[0].(*ssa.MakeInterface)
			if !ok {
				continue
			}
			sc := sortCall{call: c}
			v := mi.X
			if ct, ok := v.(*ssa.ChangeType); ok {
				sc.named, _ = ct.Type().(*types.Named)
				v = ct.X
			} else {
				sc.named, _ = v.Type().(*types.Named)
			}
			sc.src = v
			sc.srcExpr = exprString(v)
			out = append(out, sc)
		}
	}
	return out
}

// fieldPathsRead lists the field paths (names) fn reads from elements of its receiver slice.
func fieldPathsRead(fn *ssa.Function) []string {
	set := map[string]bool{}
	for _, b := range fn.Blocks {
		for _, in := range b.Instrs {
			u, ok := in.(*ssa.UnOp)
			if !ok || u.Op != token.MUL {
				continue
			}
			path := ""
			v := u.X
			// an element of an array-typed key field (hash[b]) is a read of that field
			if ia, ok := v.(*ssa.IndexAddr); ok {
				if _, isFA := ia.X.(*ssa.FieldAddr); isFA {
					v = ia.X
				}
			}
			for {
				fa, ok := v.(*ssa.FieldAddr)
				if !ok {
					break
				}
				path = "." + fieldOfAddr(fa).Name() + path
				v = fa.X
			}
			if path == "" {
				continue
			}
			// rooted at an element of the receiver
			if ld, ok := v.(*ssa.UnOp); ok {
				if ia, ok := ld.X.(*ssa.IndexAddr); ok && ia.X == ssa.Value(fn.Params[0]) {
					set[strings.TrimPrefix(path, ".")] = true
				}
			}
		}
	}
	var out []string
	for k := range set {
		out = append(out, k)
	}
	sort.Strings(out)
	return out
}

func checkC18(p *Program, r *Report) {
	// round 6 (systematic): no unguarded mutable package-level state behind this property's functions (§2.9)
	sharedStateRule(p, r, NewEffects(p), "C18.shared", []string{"txsort/txsort.go"})
	r.Floor("C18.shared", 0)
	r.Explain = "C18.copy: Sort sorts the slices of a deep copy of its argument (origin fresh, not the parameter), returns that copy, and has no write effect on memory " +
		"reachable from the parameter. C18.pure: the comparators and Len write nothing but their own locals; Swap exchanges exactly s[i] and s[j]. C18.same: " +
		"InPlaceSort, Sort and IsSorted view inputs and outputs through the same two sortable types, so they share one order; the input comparator reads only " +
		"(previous hash, previous index), the output comparator only (value, script). C18.order: each comparator consults its elements only through order relations " +
		"(integer comparisons, array equality, bytes.Compare / bytes.Equal on the same key field of both), so it is a function of finitely many orderings; it is " +
		"evaluated over all of them and must agree with BIP69 on each; the big-endian reading of the transaction id is discharged structurally (both local copies " +
		"reversed by a complete mirror-swap loop, or a byte walk from the last index down to 0). Not decided: bytes.Compare itself, sort.Sort."
	r.Trusted = []string{"wire.MsgTx.Copy is a deep copy", "sort.Sort permutes only through Swap and compares only through Less"}
	ef := NewEffects(p)
	srt := p.Func("txsort", "Sort")
	inp := p.Func("txsort", "InPlaceSort")
	iss := p.Func("txsort", "IsSorted")
	if srt == nil || inp == nil || iss == nil {
		r.Unresolved("C18.copy", "txsort.Sort / InPlaceSort / IsSorted")
		return
	}
	// ---- C18.copy
	purityCheck(p, r, ef, "C18.copy", srt)
	purityCheck(p, r, ef, "C18.copy", iss)
	scs := sortCallsOf(srt)
	for _, sc := range scs {
		src := ef.Src(sc.src)
		if sc.via != nil {
			src = ef.Src(sc.via)
		}
		fresh := len(src) > 0
		for root := range src {
			if root.Kind != rkFresh {
				fresh = false
			}
		}
		r.Add("C18.copy", FnName(srt), "the sorted slice belongs to a copy, not to the argument ("+lastField(sc.srcExpr)+")", sc.call.Pos(), fresh, "origin "+src.String())
	}
	if len(scs) < 2 {
		r.Add("C18.copy", FnName(srt), fmt.Sprintf("vacuity: %d sort calls in Sort, floor 2", len(scs)), srt.Pos(), false, "kind=below-floor")
	}
	// returns the copy whose slices were sorted
	okRet := false
	for _, ret := range returnsOf(srt) {
		if c, ok := ret.Results[0].(*ssa.Call); ok && c.Call.StaticCallee() != nil && c.Call.StaticCallee().Name() == "Copy" && len(c.Call.Args) == 1 && c.Call.Args[0] == ssa.Value(srt.Params[0]) {
			okRet = true
			for _, sc := range scs {
				if !strings.Contains(sc.srcExpr, "Copy(") {
					okRet = false
				}
			}
		}
	}
	r.Add("C18.copy", FnName(srt), "Sort returns the deep copy it sorted", srt.Pos(), okRet, "tx.Copy() is both sorted and returned")

	// ---- C18.always: InPlaceSort orders both lists on every path (a path that skips a sort must know that list has
	// fewer than two entries)
	{
		av := NewAvail(p)
		lc := NewLinCtx(p, inp)
		lc.alias = av.Run(inp)
		nAlways := 0
		for _, sc := range sortCallsOf(inp) {
			if sc.call.Parent() != inp {
				continue
			}
			nAlways++
			field := lastField(sc.srcExpr)
			okAll, how := true, "every path to a return passes the sort call or an edge on which the list is known to have fewer than two entries"
			// edges on which len(list) ≤ 1 is known from the branch condition itself
			var lens []*ssa.Call
			for _, b := range inp.Blocks {
				for _, in := range b.Instrs {
					if ln, ok := in.(*ssa.Call); ok && isBuiltin(&ln.Call, "len") && strings.HasSuffix(exprString(ln.Call.Args[0]), "."+field) {
						lens = append(lens, ln)
					}
				}
			}
			small := func(from *ssa.BasicBlock, k int) bool {
				iff, ok := lastInstr(from).(*ssa.If)
				if !ok {
					return false
				}
				f := &Facts{}
				lc.CondFacts(iff.Cond, k == 0, f, nil)
				for _, ln := range lens {
					if lc.Entails(f, lc.Lin(ln).addConst(-1)) {
						return true
					}
				}
				return false
			}
			seen := map[*ssa.BasicBlock]bool{}
			var walk func(b *ssa.BasicBlock)
			var badRet *ssa.Return
			walk = func(b *ssa.BasicBlock) {
				if seen[b] || b == sc.call.Block() {
					return
				}
				seen[b] = true
				if ret, ok := lastInstr(b).(*ssa.Return); ok {
					badRet = ret
				}
				for k, sb := range b.Succs {
					if small(b, k) {
						continue
					}
					walk(sb)
				}
			}
			// the sort call's own block: instructions before the call do not matter, the call is reached whenever the
			// block is entered
			walk(inp.Blocks[0])
			if badRet != nil {
				okAll = false
				how = "the return at " + p.Pos(p.InstrPos(badRet)) + " is reached without sorting " + field + " and without passing a test that says it has fewer than two entries"
			}
			r.Add("C18.always", FnName(inp), field+" is sorted on every path through InPlaceSort", sc.call.Pos(), okAll, how)
		}
		if nAlways == 0 {
			r.Unresolved("C18.always", "sort calls in txsort.InPlaceSort")
		}
		r.Floor("C18.always", 2)
	}

	// ---- C18.same
	type pair struct{ in, out string }
	views := map[string]pair{}
	var named []*types.Named
	for _, fn := range []*ssa.Function{inp, srt, iss} {
		var pr pair
		for _, sc := range sortCallsOf(fn) {
			if sc.named == nil {
				continue
			}
			if strings.HasSuffix(sc.srcExpr, ".TxIn") {
				pr.in = sc.named.Obj().Name()
				named = append(named, sc.named)
			}
			if strings.HasSuffix(sc.srcExpr, ".TxOut") {
				pr.out = sc.named.Obj().Name()
				named = append(named, sc.named)
			}
		}
		views[FnName(fn)] = pr
	}
	ref := views[FnName(inp)]
	for _, fn := range []*ssa.Function{inp, srt, iss} {
		v := views[FnName(fn)]
		r.Add("C18.same", FnName(fn), "inputs and outputs are ordered through the shared sortable types", fn.Pos(), v == ref && v.in != "" && v.out != "", fmt.Sprintf("TxIn as %s, TxOut as %s", v.in, v.out))
	}

	// ---- C18.pure + comparator reads
	seen := map[*types.Named]bool{}
	for _, nt := range named {
		if seen[nt] {
			continue
		}
		seen[nt] = true
		name := nt.Obj().Name()
		for _, mn := range []string{"Len", "Less"} {
			m := p.Func("txsort", "("+name+")."+mn)
			if m == nil {
				r.Unresolved("C18.pure", name+"."+mn)
				continue
			}
			var bad []string
			for _, e := range ef.WriteEffects(m) {
				if e.Root.Kind != rkFresh {
					bad = append(bad, fmt.Sprintf("%s %s at %s", e.What, e.Root, p.Pos(e.Pos)))
				}
			}
			r.Add("C18.pure", FnName(m), mn+" has no side effect on the transaction", m.Pos(), len(bad) == 0, strings.Join(bad, "; "))
			if mn == "Less" {
				reads := fieldPathsRead(m)
				want := "PreviousOutPoint.Hash,PreviousOutPoint.Index"
				if strings.Contains(strings.ToLower(name), "output") || nt.Underlying().String() == "[]*github.com/gcash/bchd/wire.TxOut" {
					want = "PkScript,Value"
				}
				r.Add("C18.same", FnName(m), "the comparator reads exactly the BIP69 key fields", m.Pos(), strings.Join(reads, ",") == want, "reads "+strings.Join(reads, ",")+"; BIP69 key "+want)
			}
		}
		if m := p.Func("txsort", "("+name+").Swap"); m != nil {
			// exactly two stores: s[i] ← old s[j], s[j] ← old s[i]
			var stores []*ssa.Store
			for _, b := range m.Blocks {
				for _, in := range b.Instrs {
					if st, ok := in.(*ssa.Store); ok {
						stores = append(stores, st)
					}
				}
			}
			okSwap := len(stores) == 2
			if okSwap {
				idx := func(st *ssa.Store) (dst, src ssa.Value, ok bool) {
					ia, ok1 := st.Addr.(*ssa.IndexAddr)
					ld, ok2 := st.Val.(*ssa.UnOp)
					if !ok1 || !ok2 {
						return nil, nil, false
					}
					ia2, ok3 := ld.X.(*ssa.IndexAddr)
					if !ok3 || ia.X != ssa.Value(m.Params[0]) || ia2.X != ssa.Value(m.Params[0]) {
						return nil, nil, false
					}
					// the loaded value must be read before either store
					if !instrDominates(ld, stores[0]) {
						return nil, nil, false
					}
					return ia.Index, ia2.Index, true
				}
				d1, s1, ok1 := idx(stores[0])
				d2, s2, ok2 := idx(stores[1])
				okSwap = ok1 && ok2 && d1 == s2 && d2 == s1 && d1 != d2 && d1 == ssa.Value(m.Params[1]) || ok1 && ok2 && d1 == s2 && d2 == s1 && d1 != d2
			}
			r.Add("C18.pure", FnName(m), "Swap exchanges exactly elements i and j", m.Pos(), okSwap, "s[i], s[j] = s[j], s[i]")
		} else {
			r.Unresolved("C18.pure", name+".Swap")
		}
	}
	// ---- C18.order: the comparators against the BIP69 order
	var inLess, outLess *ssa.Function
	for nt := range seen {
		less := p.Func("txsort", "("+nt.Obj().Name()+").Less")
		if sl, ok := nt.Underlying().(*types.Slice); ok && less != nil {
			if strings.HasSuffix(sl.Elem().String(), "wire.TxIn") {
				inLess = less
			} else if strings.HasSuffix(sl.Elem().String(), "wire.TxOut") {
				outLess = less
			}
		}
	}
	c18order(p, r, inLess, outLess)
	r.Floor("C18.copy", 5)
	r.Floor("C18.same", 5)
	r.Floor("C18.pure", 6)
}

func lastField(s string) string {
	if i := strings.LastIndex(s, "."); i >= 0 {
		return s[i+1:]
	}
	return s
}

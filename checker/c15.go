package main

import (
	"fmt"
	"go/ast"
	"go/token"
	"go/types"
	"sort"
	"strings"

	"golang.org/x/tools/go/ssa"
)

func init() { register("C15", checkC15) }

// pathStep is one typed step of a Root path.
type pathStep struct {
	owner types.Type // struct type for field steps, nil for "*"
	field string
}

// walkRootPath types the steps of a root's path starting from the root's base type.
func walkRootPath(fn *ssa.Function, r Root) []pathStep {
	var t types.Type
	switch r.Kind {
	case rkParam:
		if r.Idx < 0 || fn == nil || r.Idx >= len(fn.Params) {
			return nil
		}
		t = fn.Params[r.Idx].Type()
	case rkFreeVar:
		if r.Idx < 0 || fn == nil || r.Idx >= len(fn.FreeVars) {
			return nil
		}
		t = fn.FreeVars[r.Idx].Type()
	case rkGlobal:
		t = derefType(r.Glob.Type())
	case rkFresh:
		if r.Site == nil {
			return nil
		}
		t = r.Site.Type()
		// the site value points to the fresh memory; the path applies to the pointee
		switch u := t.Underlying().(type) {
		case *types.Pointer:
			t = u.Elem()
		case *types.Slice:
			t = u.Elem()
		case *types.Tuple:
			// call returning several results: untyped
			return untypedSteps(r.Path)
		}
	default:
		return nil
	}
	var out []pathStep
	path := strings.TrimSuffix(r.Path, "…")
	for len(path) > 0 && t != nil {
		if path[0] == '*' {
			switch u := t.Underlying().(type) {
			case *types.Pointer:
				t = u.Elem()
			case *types.Slice:
				t = u.Elem()
			case *types.Map:
				t = u.Elem()
			case *types.Array:
				t = u.Elem()
			case *types.Interface:
				t = nil
			default:
				t = nil
			}
			out = append(out, pathStep{nil, "*"})
			path = path[1:]
			continue
		}
		j := 1
		for j < len(path) && path[j] != '.' && path[j] != '*' {
			j++
		}
		name := path[1:j]
		path = path[j:]
		// arrays of structs / slices element-insensitive: unwrap arrays
		for {
			if a, ok := t.Underlying().(*types.Array); ok {
				t = a.Elem()
				continue
			}
			break
		}
		st, ok := t.Underlying().(*types.Struct)
		if !ok {
			out = append(out, pathStep{nil, name})
			t = nil
			break
		}
		owner := t
		var ft types.Type
		for i := 0; i < st.NumFields(); i++ {
			if st.Field(i).Name() == name {
				ft = st.Field(i).Type()
			}
		}
		out = append(out, pathStep{owner, name})
		t = ft
	}
	if t == nil && len(path) > 0 {
		out = append(out, untypedSteps(path)...)
	}
	return out
}

func untypedSteps(path string) []pathStep {
	var out []pathStep
	path = strings.TrimSuffix(path, "…")
	for len(path) > 0 {
		if path[0] == '*' {
			out = append(out, pathStep{nil, "*"})
			path = path[1:]
			continue
		}
		j := 1
		for j < len(path) && path[j] != '.' && path[j] != '*' {
			j++
		}
		out = append(out, pathStep{nil, path[1:j]})
		path = path[j:]
	}
	return out
}

// bufferOf reports whether root r (in fn's terms) denotes the bytes of a slice
// field `names[...]` of struct type st: some step ".f" owned by st directly
// followed by "*".  It returns the field and the object prefix (root text up
// to the struct).
func bufferOf(fn *ssa.Function, r Root, st types.Type, names map[string]bool) (field, object string, ok bool) {
	steps := walkRootPath(fn, r)
	prefix := Root{Kind: r.Kind, Idx: r.Idx, Site: r.Site, Glob: r.Glob}
	obj := prefix.String()
	for i, s := range steps {
		if s.owner != nil && types.Identical(s.owner, st) && names[s.field] && i+1 < len(steps) && steps[i+1].field == "*" && steps[i+1].owner == nil {
			return s.field, obj, true
		}
		if s.field == "*" && s.owner == nil {
			obj += "*"
		} else {
			obj += "." + s.field
		}
	}
	return "", "", false
}

// fieldLocOf: r denotes the location of field f of an object of struct type st
// (last step is ".f" owned by st).
func fieldLocOf(fn *ssa.Function, r Root, st types.Type) (field, object string, ok bool) {
	steps := walkRootPath(fn, r)
	if len(steps) == 0 {
		return "", "", false
	}
	last := steps[len(steps)-1]
	if last.owner == nil || !types.Identical(last.owner, st) {
		return "", "", false
	}
	prefix := Root{Kind: r.Kind, Idx: r.Idx, Site: r.Site, Glob: r.Glob}
	obj := prefix.String()
	for _, s := range steps[:len(steps)-1] {
		if s.field == "*" && s.owner == nil {
			obj += "*"
		} else {
			obj += "." + s.field
		}
	}
	return last.field, obj, true
}

// isFullZeroLoop reports whether fn's body sets every element of its slice
// parameter pi to zero: a counted loop i=0..len(b) (or a range loop) whose body
// stores the zero constant to b[i], or the builtin clear.
func zeroesWholeParam(fn *ssa.Function, pi int) bool {
	if pi >= len(fn.Params) {
		return false
	}
	return zeroesWhole(fn, fn.Params[pi], nil)
}

// zeroesWhole: within fn there is a loop storing 0 to every element of slice
// value b (same SSA value, or loads of the same address `addrOf`), with the
// index running over the whole length.  Returns true if such a loop exists and
// is executed on every path through the function (its header dominates every
// return).
func zeroesWhole(fn *ssa.Function, b ssa.Value, sameSlice func(v ssa.Value) bool) bool {
	if sameSlice == nil {
		sameSlice = func(v ssa.Value) bool { return v == b }
	}
	for _, blk := range fn.Blocks {
		for _, in := range blk.Instrs {
			// builtin clear(b)
			if c, ok := in.(*ssa.Call); ok && isBuiltin(&c.Call, "clear") && sameSlice(c.Call.Args[0]) {
				if dominatesAllReturns(fn, blk) {
					return true
				}
			}
			st, ok := in.(*ssa.Store)
			if !ok {
				continue
			}
			if k, isC := constInt(st.Val); !isC || k != 0 {
				continue
			}
			ia, ok := st.Addr.(*ssa.IndexAddr)
			if !ok || !sameSlice(ia.X) {
				continue
			}
			// index must be an induction variable covering [0, len)
			hdr := fullRangeInduction(ia.Index, sameSlice)
			if hdr == nil {
				continue
			}
			// the store must execute in every iteration: its block is the loop body entered from the header's true edge
			if !hdr.Dominates(blk) {
				continue
			}
			if dominatesAllReturns(fn, hdr) {
				return true
			}
		}
	}
	return false
}

func dominatesAllReturns(fn *ssa.Function, b *ssa.BasicBlock) bool {
	rs := returnsOf(fn)
	if len(rs) == 0 {
		return false
	}
	for _, r := range rs {
		if !b.Dominates(r.Block()) {
			return false
		}
	}
	return true
}

// fullRangeInduction: idx is a φ (0, idx+1) tested `idx < len(s)` in its header
// (counted loop), or the index of a range over s.  Returns the loop header.
func fullRangeInduction(idx ssa.Value, sameSlice func(v ssa.Value) bool) *ssa.BasicBlock {
	// range loop lowered by go/ssa for slices: φ(-1, i+1) with `i+1 < len` test; index value is the incremented one
	if bo, ok := idx.(*ssa.BinOp); ok && bo.Op == token.ADD {
		if k, isC := constInt(bo.Y); isC && k == 1 {
			if ph, ok := bo.X.(*ssa.Phi); ok && len(ph.Edges) >= 2 {
				init, okI := constInt(ph.Edges[0])
				rest := true
				for _, e := range ph.Edges[1:] {
					if e != ssa.Value(bo) {
						rest = false
					}
				}
				if okI && init == -1 && rest {
					// header: if bo < len(s)
					if iff, ok := lastInstr(bo.Block()).(*ssa.If); ok {
						if c, ok := iff.Cond.(*ssa.BinOp); ok && c.Op == token.LSS && c.X == ssa.Value(bo) && isLenOf(c.Y, sameSlice) {
							return bo.Block()
						}
					}
				}
			}
		}
	}
	ph, ok := idx.(*ssa.Phi)
	if !ok || len(ph.Edges) != 2 {
		return nil
	}
	var init, step ssa.Value
	for i, e := range ph.Edges {
		if ph.Block().Dominates(ph.Block().Preds[i]) {
			step = e
		} else {
			init = e
		}
	}
	if init == nil || step == nil {
		return nil
	}
	if k, ok := constInt(init); !ok || k != 0 {
		return nil
	}
	bo, ok := step.(*ssa.BinOp)
	if !ok || bo.Op != token.ADD || bo.X != ssa.Value(ph) {
		return nil
	}
	if k, ok := constInt(bo.Y); !ok || k != 1 {
		return nil
	}
	iff, ok := lastInstr(ph.Block()).(*ssa.If)
	if !ok {
		return nil
	}
	c, ok := iff.Cond.(*ssa.BinOp)
	if !ok || c.Op != token.LSS || c.X != ssa.Value(ph) || !isLenOf(c.Y, sameSlice) {
		return nil
	}
	return ph.Block()
}

func isLenOf(v ssa.Value, sameSlice func(v ssa.Value) bool) bool {
	if c, ok := v.(*ssa.Call); ok && isBuiltin(&c.Call, "len") {
		return sameSlice(c.Call.Args[0])
	}
	return false
}

func checkC15(p *Program, r *Report) {
	// round 6 (systematic): no unguarded mutable package-level state behind this property's functions (§2.9)
	sharedStateRule(p, r, NewEffects(p), "C15.shared", []string{"hdkeychain/extendedkey.go"})
	r.Floor("C15.shared", 0)
	r.Explain = "Frame argument over all histories of ExtendedKey operations: (C15.fields) every []byte field is either zeroed in place by Zero (Z) " +
		"or never written element-wise anywhere (S); (C15.fresh) no store ever puts into a Z-field of one key a slice that aliases a Z-buffer of " +
		"another key or a package-level variable; (C15.frame) only Zero writes the bytes of Z-buffers and methods write nothing but their receiver's " +
		"fields; (C15.zero) Zero wipes each Z-buffer completely before dropping it and leaves the key in the state String/ECPrivKey test for. " +
		"Not decided: value-level equality of serialisations; buffers handed to the exported raw constructor by external callers."
	r.Trusted = []string{"out-of-repo callees return freshly allocated slices (bchec Serialize*, hash Sum(nil), big.Int.Bytes, base58.Decode is in-repo and analysed)",
		"go/ssa", "flow-insensitive points-to of the origin analysis is an over-approximation"}
	r.Assume = []string{"external callers of NewExtendedKey do not share the buffers they pass between keys"}

	pkg := p.Pkg("hdkeychain")
	if pkg == nil {
		r.Unresolved("C15.fields", "package hdkeychain")
		return
	}
	kt, _ := pkg.Members["ExtendedKey"].(*ssa.Type)
	if kt == nil {
		r.Unresolved("C15.fields", "type hdkeychain.ExtendedKey")
		return
	}
	st, ok := kt.Type().Underlying().(*types.Struct)
	if !ok {
		r.Unresolved("C15.fields", "ExtendedKey is not a struct")
		return
	}
	zeroFn := p.Func("hdkeychain", "(*ExtendedKey).Zero")
	if zeroFn == nil {
		r.Unresolved("C15.zero", "(*ExtendedKey).Zero")
		return
	}
	ef := NewEffects(p)
	sliceFields := map[string]bool{}
	var sliceNames []string
	for i := 0; i < st.NumFields(); i++ {
		f := st.Field(i)
		if sl, ok := f.Type().Underlying().(*types.Slice); ok {
			if b, ok := sl.Elem().Underlying().(*types.Basic); ok && b.Kind() == types.Uint8 {
				sliceFields[f.Name()] = true
				sliceNames = append(sliceNames, f.Name())
			}
		}
	}
	// Z: fields whose bytes Zero (transitively) writes
	Z := map[string]bool{}
	for _, e := range ef.WriteEffects(zeroFn) {
		if e.Root.Kind == rkParam && e.Root.Idx == 0 {
			if f, _, ok := bufferOf(zeroFn, e.Root, kt.Type(), sliceFields); ok {
				Z[f] = true
			}
		}
	}
	// element-wise writers of each field, anywhere in the repo (direct instructions only, so each is reported once)
	type writer struct {
		fn  *ssa.Function
		pos token.Pos
		how string
	}
	elemWriters := map[string][]writer{}
	for _, fn := range p.Funcs {
		for _, e := range ef.WriteEffects(fn) {
			if f, _, ok := bufferOf(fn, e.Root, kt.Type(), sliceFields); ok {
				elemWriters[f] = append(elemWriters[f], writer{fn, e.Pos, e.What})
			}
		}
	}
	var zs, ss []string
	for _, f := range sliceNames {
		if Z[f] {
			zs = append(zs, f)
			r.Add("C15.fields", FnName(zeroFn), "field "+f+" is wiped by Zero (class Z)", zeroFn.Pos(), true, "Zero's write effect covers the bytes of "+f)
			continue
		}
		ss = append(ss, f)
		// S: never written element-wise
		ws := elemWriters[f]
		if len(ws) == 0 {
			r.Add("C15.fields", "hdkeychain.ExtendedKey", "field "+f+" is never written in place (class S)", kt.Pos(), true, "no store/copy/append targets its bytes in any function")
		} else {
			for _, w := range ws {
				r.Add("C15.fields", FnName(w.fn), "field "+f+" is shared (class S) but written in place", w.pos, false, w.how+"; Zero does not wipe it")
			}
		}
	}
	r.Note("ExtendedKey []byte fields: Z=%v S=%v", zs, ss)
	if len(zs) < 4 {
		r.Add("C15.fields", FnName(zeroFn), fmt.Sprintf("Zero wipes %d buffer(s) %v; the statement names four (key material, cached public key, chain code, fingerprint)", len(zs), zs), zeroFn.Pos(), false, "a secret buffer is not erased")
	}
	r.Floor("C15.fields", 5)

	// ---- C15.frame
	methods := p.Methods("hdkeychain", "ExtendedKey")
	for _, m := range methods {
		var bad []string
		for _, e := range ef.WriteEffects(m) {
			if e.Root.Kind == rkFresh {
				continue
			}
			if e.Root.Kind == rkParam && e.Root.Idx == 0 {
				if _, _, ok := fieldLocOf(m, e.Root, kt.Type()); ok {
					continue // a field of the receiver
				}
				if f, _, ok := bufferOf(m, e.Root, kt.Type(), sliceFields); ok && m == zeroFn && Z[f] {
					continue
				}
			}
			if e.Root.Kind == rkParam && e.Root.Idx >= 1 && !ast.IsExported(m.Name()) {
				// an unexported helper writing scratch memory its caller hands it: judged at the exported callers, whose
				// effects are closed over this one with the argument substituted
				continue
			}
			bad = append(bad, fmt.Sprintf("%s %s at %s", e.What, e.Root, p.Pos(e.Pos)))
		}
		sort.Strings(bad)
		how := "writes only fields of its receiver"
		if m == zeroFn {
			how += " and the bytes of the receiver's Z-buffers"
		}
		if len(bad) > 0 {
			how = strings.Join(dedup(bad), "; ")
		}
		r.Add("C15.frame", FnName(m), "method writes only its receiver", m.Pos(), len(bad) == 0, how)
	}
	// every other function in the repo: no write into bytes of a Z-buffer of any key
	for _, fn := range p.Funcs {
		if fn == zeroFn {
			continue
		}
		seen := map[string]bool{}
		for _, e := range ef.WriteEffects(fn) {
			if f, obj, ok := bufferOf(fn, e.Root, kt.Type(), Z); ok {
				k := f + obj + p.Pos(e.Pos)
				if seen[k] {
					continue
				}
				seen[k] = true
				r.Add("C15.frame", FnName(fn), "writes the bytes of key buffer "+f+" outside Zero", e.Pos, false, e.What+" "+e.Root.String())
			}
		}
	}
	r.Floor("C15.frame", 12)

	// ---- C15.fresh
	nsites := 0
	for _, fn := range p.Funcs {
		if fn.Pkg != pkg {
			continue
		}
		type k2 struct {
			pos token.Pos
			f   string
		}
		done := map[k2]bool{}
		for _, sf := range ef.StoreFacts(fn) {
			if sf.Field == nil || sf.Struct == nil || !types.Identical(sf.Struct, kt.Type()) || !Z[sf.Field.Name()] {
				continue
			}
			_, tobj, ok := fieldLocOf(fn, sf.Target, kt.Type())
			if !ok {
				// target could not be typed: use the raw root minus the last step
				tobj = sf.Target.String()
			}
			key := k2{sf.Pos, sf.Field.Name()}
			var bad []string
			for v := range sf.Vals {
				if v.Kind == rkGlobal {
					bad = append(bad, "package-level variable "+v.String())
					continue
				}
				if v.Kind == rkUnknown {
					bad = append(bad, "unresolved origin")
					continue
				}
				// any buffer held by another key, wiped or not: Zero writes the bytes of this field in place
				if g, vobj, ok := bufferOf(fn, v, kt.Type(), allByteFields(st)); ok && vobj != tobj {
					bad = append(bad, fmt.Sprintf("buffer %s of another key (%s)", g, v))
				}
			}
			if done[key] && len(bad) == 0 {
				continue
			}
			done[key] = true
			nsites++
			sort.Strings(bad)
			how := "origin " + sf.Vals.String()
			if len(bad) > 0 {
				how = strings.Join(dedup(bad), "; ") + " — zeroing either key corrupts the other"
			}
			r.Add("C15.fresh", FnName(fn), "slice stored into field "+sf.Field.Name()+" of "+shortObj(tobj)+" is not shared with another key", sf.Pos, len(bad) == 0, how)
		}
	}
	// round 6 (C15-agent6-m1): a whole-struct copy `c := *k` is a construction site too — the copy's slice fields are
	// the original's slices.  Handing the copy out (Neuter on a public key returning k.clone()) gives two live keys
	// over one set of buffers; a later overwrite of some fields on one path does not repair the paths that keep them.
	for _, fn := range p.Funcs {
		if fn.Pkg != pkg {
			continue
		}
		for _, b := range fn.Blocks {
			for _, in := range b.Instrs {
				st, ok := in.(*ssa.Store)
				if !ok || !types.Identical(st.Val.Type(), kt.Type()) {
					continue
				}
				ld, ok := st.Val.(*ssa.UnOp)
				if !ok || ld.Op != token.MUL {
					continue
				}
				nsites++
				r.Add("C15.fresh", FnName(fn), "a key is not copied as a whole struct (the copy's slice fields are the original's buffers)", st.Pos(), false,
					"*"+exprString(ld.X)+" copied into "+exprString(st.Addr)+": key, chain code, fingerprint and public key of the two keys are the same memory — zeroing either key corrupts the other")
			}
		}
	}
	// round 6 (C15-agent6-m2): the frame argument is sequential.  A goroutine started by the package that can write a
	// key (a background public-key derivation) may run after Zero and put key material back into the zeroed key.
	for _, fn := range p.Funcs {
		if fn.Pkg != pkg && !(fn.Parent() != nil && fn.Parent().Pkg == pkg) {
			continue
		}
		for _, b := range fn.Blocks {
			for _, in := range b.Instrs {
				g, ok := in.(*ssa.Go)
				if !ok {
					continue
				}
				touches := false
				vals := append([]ssa.Value{g.Call.Value}, g.Call.Args...)
				for _, a := range vals {
					if a == nil {
						continue
					}
					for rt := range ef.Src(a) {
						if rt.Kind == rkParam || rt.Kind == rkFreeVar || rt.Kind == rkUnknown {
							touches = true
						}
					}
					if mc, ok := a.(*ssa.MakeClosure); ok && len(mc.Bindings) > 0 {
						touches = true
					}
				}
				r.Add("C15.frame", FnName(fn), "no goroutine started here can write a key after the call returned", g.Pos(), !touches,
					"the goroutine is handed memory reachable from a key (or a closure over it): it may store into the key after Zero has wiped it")
			}
		}
	}
	// round 7 (C15-agent7-m3): a buffer that Zero wipes and that a method other than Zero fills lazily (the public-key
	// memo) is filled only where it is known to be EMPTY — a memo test that never succeeds (`len != 65` for a 33-byte
	// key) replaces the buffer on every call, and Zero wipes only the last one
	for _, fn := range p.Funcs {
		if fn.Pkg != pkg || fn.Parent() != nil || fn.Signature.Recv() == nil || len(fn.Params) == 0 {
			continue
		}
		recv := ssa.Value(fn.Params[0])
		for _, b := range fn.Blocks {
			for _, in := range b.Instrs {
				st, ok := in.(*ssa.Store)
				if !ok || isNilConst(st.Val) {
					continue
				}
				fa, ok := st.Addr.(*ssa.FieldAddr)
				if !ok || canonRoot(fa.X) != recv || !Z[fieldOfAddr(fa).Name()] {
					continue
				}
				f := fieldOfAddr(fa)
				known := false
				for cur := b; cur != nil; cur = cur.Idom() {
					id := cur.Idom()
					if id == nil {
						break
					}
					if ef2, _, empty, ok := emptinessTest(id, recv); ok && ef2 == f && (empty == cur || empty.Dominates(cur)) && len(cur.Preds) >= 1 {
						known = true
					}
				}
				nsites++
				r.Add("C15.once", FnName(fn), "the lazily filled buffer "+f.Name()+" is stored only where it is known to be empty", st.Pos(), known,
					"the store is not behind an emptiness test of "+f.Name()+" (len == 0 / == nil): an earlier buffer may be replaced without being wiped")
			}
		}
	}
	r.Floor("C15.fresh", 12)
	c15overlap(p, r, pkg, kt, Z, sliceFields)

	// ---- C15.zero
	recv := zeroFn.Params[0]
	isFieldLoad := func(v ssa.Value, f string) bool {
		u, ok := v.(*ssa.UnOp)
		if !ok || u.Op != token.MUL {
			return false
		}
		fa, ok := u.X.(*ssa.FieldAddr)
		return ok && canonRoot(fa.X) == ssa.Value(recv) && fieldOfAddr(fa).Name() == f
	}
	for _, f := range zs {
		// the wiping instruction: a call of an in-repo function that zeroes its whole parameter, clear(), or an inline loop
		var wipe ssa.Instruction
		for _, b := range zeroFn.Blocks {
			for _, in := range b.Instrs {
				c, ok := in.(*ssa.Call)
				if !ok {
					continue
				}
				if isBuiltin(&c.Call, "clear") && isFieldLoad(c.Call.Args[0], f) {
					wipe = in
				}
				if cal := c.Call.StaticCallee(); cal != nil && p.InRepo(cal) {
					for i, a := range c.Call.Args {
						if isFieldLoad(a, f) && zeroesWholeParam(cal, i) {
							wipe = in
						}
					}
				}
			}
		}
		inline := false
		if wipe == nil && zeroesWhole(zeroFn, nil, func(v ssa.Value) bool { return isFieldLoad(v, f) }) {
			inline = true
		}
		if wipe == nil && !inline {
			r.Add("C15.zero", FnName(zeroFn), "every byte of "+f+" is set to zero", zeroFn.Pos(), false, "no full-length zeroing loop / clear() over k."+f+" found (kind=undecided if the wipe has another shape)")
			continue
		}
		okAll := inline || dominatesAllReturns(zeroFn, wipe.Block())
		how := "full-length zeroing executed on every path"
		// zero, then drop: the wipe must precede any store to the field itself
		for _, b := range zeroFn.Blocks {
			for i, in := range b.Instrs {
				s, ok := in.(*ssa.Store)
				if !ok {
					continue
				}
				fa, ok := s.Addr.(*ssa.FieldAddr)
				if !ok || canonRoot(fa.X) != ssa.Value(recv) || fieldOfAddr(fa).Name() != f {
					continue
				}
				if inline {
					// the wipe is written out in Zero itself and works on loads of the field: a store to the field that
					// can run before one of those loads makes the loop wipe the new value, not the old buffer
					for _, lb := range zeroFn.Blocks {
						for j, lin := range lb.Instrs {
							lv, isV := lin.(ssa.Value)
							if !isV || !isFieldLoad(lv, f) {
								continue
							}
							after := (lb == b && j > i) || (lb != b && reachableFrom(b, nil)[lb])
							if lb == b && j < i && reachableFrom(b, nil)[b] {
								// same block in a cycle
								for _, su := range b.Succs {
									if reachableFrom(su, nil)[b] {
										after = true
									}
								}
							}
							if after {
								okAll = false
								how = "field " + f + " is overwritten at " + p.Pos(s.Pos()) + " before its old buffer is wiped"
							}
						}
					}
					continue
				}
				before := false
				if wipe.Block() == b {
					for j := 0; j < i; j++ {
						if b.Instrs[j] == wipe {
							before = true
						}
					}
				} else if wipe.Block().Dominates(b) {
					before = true
				}
				if !before {
					okAll = false
					how = "field " + f + " is overwritten at " + p.Pos(s.Pos()) + " before its old buffer is wiped"
				}
			}
		}
		pos := zeroFn.Pos()
		if wipe != nil {
			pos = wipe.Pos()
		}
		r.Add("C15.zero", FnName(zeroFn), "every byte of "+f+" is set to zero before the field is dropped", pos, okAll, how)
	}
	// S fields reset to nil
	storedConst := func(f string) (allPaths bool, isZero bool, pos token.Pos) {
		for _, b := range zeroFn.Blocks {
			for _, in := range b.Instrs {
				s, ok := in.(*ssa.Store)
				if !ok {
					continue
				}
				fa, ok := s.Addr.(*ssa.FieldAddr)
				if !ok || canonRoot(fa.X) != ssa.Value(recv) || fieldOfAddr(fa).Name() != f {
					continue
				}
				c, isC := s.Val.(*ssa.Const)
				zero := isC && (c.Value == nil || c.Value.String() == "false" || c.Value.String() == "0")
				return dominatesAllReturns(zeroFn, b), zero, s.Pos()
			}
		}
		return false, false, token.NoPos
	}
	for _, f := range ss {
		all, zero, pos := storedConst(f)
		r.Add("C15.zero", FnName(zeroFn), "shared field "+f+" is reset to nil", pos, all && zero, "Zero drops its reference on every path")
	}
	// zeroed state: bool fields false; the field String() tests for the 'zeroed' answer is nil
	for i := 0; i < st.NumFields(); i++ {
		f := st.Field(i)
		if b, ok := f.Type().Underlying().(*types.Basic); ok && b.Kind() == types.Bool {
			all, zero, pos := storedConst(f.Name())
			r.Add("C15.zero", FnName(zeroFn), "flag "+f.Name()+" is cleared", pos, all && zero, "a zeroed key yields no private key")
		}
	}
	if strFn := p.Func("hdkeychain", "(*ExtendedKey).String"); strFn != nil {
		// find: if len(k.f) == 0 { return <const string> }
		found := ""
		for _, b := range strFn.Blocks {
			iff, ok := lastInstr(b).(*ssa.If)
			if !ok {
				continue
			}
			c, ok := iff.Cond.(*ssa.BinOp)
			if !ok || c.Op != token.EQL {
				continue
			}
			k, isC := constInt(c.Y)
			if !isC || k != 0 {
				continue
			}
			call, ok := c.X.(*ssa.Call)
			if !ok || !isBuiltin(&call.Call, "len") {
				continue
			}
			u, ok := call.Call.Args[0].(*ssa.UnOp)
			if !ok {
				continue
			}
			fa, ok := u.X.(*ssa.FieldAddr)
			if !ok {
				continue
			}
			if ret, ok := lastInstr(b.Succs[0]).(*ssa.Return); ok && len(ret.Results) == 1 {
				if _, isConst := ret.Results[0].(*ssa.Const); isConst {
					found = fieldOfAddr(fa).Name()
				}
			}
		}
		if found == "" {
			r.Unresolved("C15.zero", "the 'zeroed' test of ExtendedKey.String")
		} else {
			all, zero, pos := storedConst(found)
			r.Add("C15.zero", FnName(zeroFn), "field "+found+" (tested by String for the zeroed state) is reset to nil", pos, all && zero, "a zeroed key reports itself as zeroed")
		}
	} else {
		r.Unresolved("C15.zero", "(*ExtendedKey).String")
	}
	r.Floor("C15.zero", 6)
	memoCoherence(p, r, "C15.memo", "hdkeychain", "ExtendedKey", nil)
	r.Floor("C15.memo", 0)
}

func dedup(in []string) []string {
	var out []string
	for i, s := range in {
		if i == 0 || s != in[i-1] {
			out = append(out, s)
		}
	}
	return out
}

func shortObj(s string) string {
	if strings.HasPrefix(s, "Fresh(") {
		return "the new key"
	}
	if strings.HasPrefix(s, "Param(0)") {
		return "the receiver"
	}
	return s
}

// allByteFields lists every []byte field of a struct (fields added later are covered too).
func allByteFields(st *types.Struct) map[string]bool {
	out := map[string]bool{}
	for i := 0; i < st.NumFields(); i++ {
		if sl, ok := st.Field(i).Type().Underlying().(*types.Slice); ok {
			if b, ok := sl.Elem().Underlying().(*types.Basic); ok && b.Kind() == types.Uint8 {
				out[st.Field(i).Name()] = true
			}
		}
	}
	return out
}

// c15overlap (C15.fresh, continued): a buffer that Zero wipes (class Z) and a buffer that is handed on by reference
// to derived keys (class S: the version bytes) must not overlap inside one key.  The parser carves several fields out
// of one decoded payload; that is fine as long as the windows are disjoint.  For every key built in the package — a
// call of a constructor that stores its parameters into fields, plus field stores on its result — the Z windows and
// the S windows cut from the same base slice must have constant, disjoint bounds.
func c15overlap(p *Program, r *Report, pkg *ssa.Package, kt *ssa.Type, Z map[string]bool, byteFields map[string]bool) {
	// constructors: param index → field
	type ctorMap map[int]string
	ctors := map[*ssa.Function]ctorMap{}
	for _, fn := range p.Funcs {
		if fn.Pkg != pkg || fn.Parent() != nil {
			continue
		}
		cm := ctorMap{}
		for _, b := range fn.Blocks {
			for _, in := range b.Instrs {
				st, ok := in.(*ssa.Store)
				if !ok {
					continue
				}
				fa, ok := st.Addr.(*ssa.FieldAddr)
				if !ok || !byteFields[fieldOfAddr(fa).Name()] {
					continue
				}
				if _, fresh := canonRoot(fa.X).(*ssa.Alloc); !fresh {
					continue
				}
				if pi := paramIndex(fn, st.Val); pi >= 0 {
					cm[pi] = fieldOfAddr(fa).Name()
				}
			}
		}
		if len(cm) >= 2 {
			ctors[fn] = cm
		}
	}
	// window of a value inside its base slice: constant [lo, hi) where known
	type window struct {
		base   ssa.Value
		lo, hi int64 // hi < 0: unknown / to the end
		known  bool
	}
	var win func(v ssa.Value, depth int) window
	win = func(v ssa.Value, depth int) window {
		if sl, ok := v.(*ssa.Slice); ok && depth < 6 {
			in := win(sl.X, depth+1)
			lo, hi := int64(0), int64(-1)
			known := in.known
			if sl.Low != nil {
				if k, ok := constInt(sl.Low); ok {
					lo = k
				} else {
					known = false
				}
			}
			if sl.High != nil {
				if k, ok := constInt(sl.High); ok {
					hi = k
				} else {
					hi = -1 // some prefix: still inside [lo, end)
				}
			}
			out := window{base: in.base, lo: in.lo + lo, hi: -1, known: known}
			if hi >= 0 {
				out.hi = in.lo + hi
			} else if in.hi >= 0 {
				out.hi = in.hi
			}
			return out
		}
		return window{base: v, lo: 0, hi: -1, known: true}
	}
	n := 0
	for _, fn := range p.Funcs {
		if fn.Pkg != pkg {
			continue
		}
		for _, b := range fn.Blocks {
			for _, in := range b.Instrs {
				c, ok := in.(*ssa.Call)
				if !ok {
					continue
				}
				cm := ctors[c.Call.StaticCallee()]
				if cm == nil {
					continue
				}
				fieldVal := map[string]ssa.Value{}
				for pi, f := range cm {
					if pi < len(c.Call.Args) {
						fieldVal[f] = c.Call.Args[pi]
					}
				}
				// later stores into fields of the constructed key
				for _, bb := range fn.Blocks {
					for _, ii := range bb.Instrs {
						if st, ok := ii.(*ssa.Store); ok {
							if fa, ok := st.Addr.(*ssa.FieldAddr); ok && canonRoot(fa.X) == ssa.Value(c) && byteFields[fieldOfAddr(fa).Name()] {
								fieldVal[fieldOfAddr(fa).Name()] = st.Val
							}
						}
					}
				}
				var zs, ss []string
				for f := range fieldVal {
					if Z[f] {
						zs = append(zs, f)
					} else {
						ss = append(ss, f)
					}
				}
				sort.Strings(zs)
				sort.Strings(ss)
				for _, sf := range ss {
					ws := win(fieldVal[sf], 0)
					if _, isConst := ws.base.(*ssa.Const); isConst {
						continue
					}
					for _, zf := range zs {
						wz := win(fieldVal[zf], 0)
						if wz.base != ws.base {
							continue
						}
						n++
						disjoint := ws.known && wz.known && ((ws.hi >= 0 && ws.hi <= wz.lo) || (wz.hi >= 0 && wz.hi <= ws.lo))
						r.Add("C15.fresh", FnName(fn), fmt.Sprintf("the wiped buffer %s and the shared buffer %s of the key built here do not overlap", zf, sf), c.Pos(), disjoint,
							fmt.Sprintf("%s = base[%d:%s], %s = base[%d:%s] of the same slice %s", zf, wz.lo, hiStr(wz.hi), sf, ws.lo, hiStr(ws.hi), exprString(ws.base)))
					}
				}
			}
		}
	}
	_ = n
}

func hiStr(h int64) string {
	if h < 0 {
		return "end"
	}
	return fmt.Sprint(h)
}

// sharedKeyBytesRule: the []byte fields of ExtendedKey that Zero does not wipe are handed from key to key by reference
// (the version bytes: from the network parameters to the master key, from parent to child, from key to neutered key).
// Nothing may write their bytes in place: it would relabel every key sharing them, and the package-level network
// parameters with them.  (C15.fields states this for key independence; C04 needs it because the serialised string of
// every derived key starts with those bytes.)
func sharedKeyBytesRule(p *Program, r *Report, rule string) {
	pkg := p.Pkg("hdkeychain")
	if pkg == nil {
		r.Unresolved(rule, "package hdkeychain")
		return
	}
	kt, _ := pkg.Members["ExtendedKey"].(*ssa.Type)
	zeroFn := p.Func("hdkeychain", "(*ExtendedKey).Zero")
	if kt == nil || zeroFn == nil {
		r.Unresolved(rule, "hdkeychain.ExtendedKey / Zero")
		return
	}
	st, ok := kt.Type().Underlying().(*types.Struct)
	if !ok {
		r.Unresolved(rule, "ExtendedKey is not a struct")
		return
	}
	ef := NewEffects(p)
	sliceFields := map[string]bool{}
	var names []string
	for i := 0; i < st.NumFields(); i++ {
		f := st.Field(i)
		if sl, ok := f.Type().Underlying().(*types.Slice); ok {
			if b, ok := sl.Elem().Underlying().(*types.Basic); ok && b.Kind() == types.Uint8 {
				sliceFields[f.Name()] = true
				names = append(names, f.Name())
			}
		}
	}
	Z := map[string]bool{}
	for _, e := range ef.WriteEffects(zeroFn) {
		if e.Root.Kind == rkParam && e.Root.Idx == 0 {
			if f, _, ok := bufferOf(zeroFn, e.Root, kt.Type(), sliceFields); ok {
				Z[f] = true
			}
		}
	}
	n := 0
	for _, f := range names {
		if Z[f] {
			continue
		}
		n++
		var bad []string
		for _, fn := range p.Funcs {
			for _, e := range ef.WriteEffects(fn) {
				if g, _, ok := bufferOf(fn, e.Root, kt.Type(), map[string]bool{f: true}); ok && g == f && e.In == fn {
					bad = append(bad, FnName(fn)+": "+e.What+" at "+p.Pos(e.Pos))
				}
			}
		}
		sort.Strings(bad)
		bad = dedup(bad)
		how := "no store, copy or append targets its bytes in any function"
		if len(bad) > 0 {
			how = strings.Join(bad, "; ")
		}
		r.Add(rule, "hdkeychain.ExtendedKey", "the bytes of field "+f+" (passed from key to key by reference) are never written in place", kt.Pos(), len(bad) == 0, how)
	}
	if n == 0 {
		r.Unresolved(rule, "a []byte field of ExtendedKey that is shared by reference")
	}
}

// noHandoutRule: no exported method of the type returns a reference into the receiver's own storage (a memoised object,
// an internal buffer): the caller may modify or wipe what it was given, and the next call would see that.
func noHandoutRule(p *Program, r *Report, rule, rel, typeName string) {
	ef := NewEffects(p)
	n := 0
	for _, m := range p.Methods(rel, typeName) {
		if !ast.IsExported(m.Name()) {
			continue
		}
		hasRef := false
		for i := 0; i < m.Signature.Results().Len(); i++ {
			if carriesRefs(m.Signature.Results().At(i).Type()) {
				hasRef = true
			}
		}
		if !hasRef {
			continue
		}
		n++
		var leaks []string
		for i, rs := range ef.returnSummary(m) {
			for root := range rs {
				if root.Kind == rkParam && root.Idx == 0 && root.Path != "" && root.Path != "*" {
					leaks = append(leaks, fmt.Sprintf("result #%d may be %s", i, root))
				}
			}
		}
		sort.Strings(leaks)
		how := "every reference it returns is to memory allocated by the call (or to the receiver itself)"
		if len(leaks) > 0 {
			how = strings.Join(dedup(leaks), "; ") + " — storage the key keeps using"
		}
		r.Add(rule, FnName(m), "method hands out no reference into the key's own storage", m.Pos(), len(leaks) == 0, how)
	}
	if n == 0 {
		r.Unresolved(rule, "exported reference-returning methods of "+typeName)
	}
}

package main

import (
	"crypto/sha256"
	"encoding/json"
	"fmt"
	"go/token"
	"os"
	"path/filepath"
	"sort"
	"strings"
	"time"
)

// Ob is one obligation: a rule instance on one construct.
type Ob struct {
	Rule      string   `json:"rule"`
	Func      string   `json:"function"`
	Construct string   `json:"construct"`
	Pos       string   `json:"pos"`
	Status    string   `json:"status"` // discharged | excepted | known | violated
	How       string   `json:"how,omitempty"`
	Path      []string `json:"path,omitempty"`
	Config    string   `json:"config,omitempty"`
}

func (o *Ob) key() string { return o.Rule + "|" + o.Func + "|" + o.Construct }

// KnownFinding is one entry of /verif/known_findings.json.
type KnownFinding struct {
	Property  string `json:"property"`
	Rule      string `json:"rule"`
	Function  string `json:"function"`
	Construct string `json:"construct"`
	Status    string `json:"status"` // known | fixed
	What      string `json:"what"`
	Commit    string `json:"commit,omitempty"`
}

type Report struct {
	Prop     string
	Tier     string
	P        *Program
	Obs      []*Ob
	floors   map[string]int
	counts   map[string]int
	funcs    map[string]bool
	notes    []string
	Explain  string
	Assume   []string
	Trusted  []string
	known    []KnownFinding
	extra    map[string]interface{}
	start    time.Time
	verifDir string
	lent     bool // this report is a lender's run inside Borrow: its own borrows are skipped (C01 and C02 borrow from each other)
}

func NewReport(prop, tier, verifDir string, p *Program) *Report {
	r := &Report{Prop: prop, Tier: tier, P: p, floors: map[string]int{}, counts: map[string]int{},
		funcs: map[string]bool{}, extra: map[string]interface{}{}, start: time.Now(), verifDir: verifDir}
	r.loadKnown()
	return r
}

func (r *Report) loadKnown() {
	b, err := os.ReadFile(filepath.Join(r.verifDir, "known_findings.json"))
	if err != nil {
		return
	}
	var all []KnownFinding
	if err := json.Unmarshal(b, &all); err != nil {
		fmt.Fprintf(os.Stderr, "known_findings.json: %v\n", err)
		return
	}
	for _, k := range all {
		if k.Property == r.Prop {
			r.known = append(r.known, k)
		}
	}
}

// Analysed records a function as covered by this property's rules.
func (r *Report) Analysed(fn string) { r.funcs[fn] = true }

// Floor sets the minimum number of instances of a rule below which the check
// fails as vacuous.
func (r *Report) Floor(rule string, n int) { r.floors[rule] = n }

func (r *Report) Note(format string, a ...interface{}) {
	r.notes = append(r.notes, fmt.Sprintf(format, a...))
}

// Add records an obligation.  ok=true => discharged.
func (r *Report) Add(rule, fn, construct string, pos token.Pos, ok bool, how string) *Ob {
	o := &Ob{Rule: rule, Func: fn, Construct: construct, Status: "violated", How: how}
	if r.P != nil {
		o.Pos = r.P.Pos(pos)
		o.Config = r.P.Cfg.String()
	}
	if ok {
		o.Status = "discharged"
	}
	r.Obs = append(r.Obs, o)
	r.counts[rule]++
	if fn != "" {
		r.funcs[fn] = true
	}
	return o
}

// Except records an obligation discharged by a named entry of the checker's
// exception table.
func (r *Report) Except(rule, fn, construct string, pos token.Pos, reason string) *Ob {
	o := r.Add(rule, fn, construct, pos, true, "exception: "+reason)
	o.Status = "excepted"
	return o
}

// Unresolved records a rule whose anchor could not be found; always a failure.
func (r *Report) Unresolved(rule, what string) {
	o := &Ob{Rule: rule, Func: "-", Construct: "unresolved-anchor: " + what, Status: "violated", How: "kind=unresolved-anchor", Pos: "-"}
	if r.P != nil {
		o.Config = r.P.Cfg.String()
	}
	r.Obs = append(r.Obs, o)
}

// Undecided records a construct the rule's recogniser could not classify; a failure.
func (r *Report) Undecided(rule, fn, construct string, pos token.Pos, why string) {
	o := r.Add(rule, fn, construct, pos, false, "kind=undecided: "+why)
	_ = o
}

type evidence struct {
	PropertyID  string                 `json:"property_id"`
	Tier        string                 `json:"tier"`
	Seed        int                    `json:"seed"`
	Level       string                 `json:"level"`
	Coverage    map[string]interface{} `json:"coverage"`
	Assumptions []string               `json:"assumptions"`
	WallS       float64                `json:"wall_s"`
	Violations  int                    `json:"violations"`
}

// Seal applies the vacuity floors; called once after the rules have run.
func (r *Report) Seal() {
	rules := []string{}
	for rule := range r.floors {
		rules = append(rules, rule)
	}
	sort.Strings(rules)
	for _, rule := range rules {
		if r.counts[rule] < r.floors[rule] {
			r.Obs = append(r.Obs, &Ob{Rule: rule, Func: "-", Pos: "-",
				Construct: fmt.Sprintf("vacuity: %d instance(s) found, floor %d", r.counts[rule], r.floors[rule]),
				Status:    "violated", How: "kind=below-floor", Config: r.cfg()})
		}
	}
}

// newViolations counts violated obligations that the known-findings file does not list.
func (r *Report) newViolations() int {
	n := 0
	for _, o := range r.Obs {
		if o.Status != "violated" {
			continue
		}
		listed := false
		for _, k := range r.known {
			if k.Status == "known" && k.Rule == o.Rule && k.Function == o.Func && k.Construct == o.Construct {
				listed = true
			}
		}
		if !listed {
			n++
		}
	}
	return n
}

// Finish applies the known-findings file, prints the report, writes
// the evidence file and returns the process exit code.
func (r *Report) Finish(writeEvidence bool, extraObs []*Ob, extraCov map[string]interface{}) int {
	r.Obs = append(r.Obs, extraObs...)
	// known findings
	usedKnown := map[int]bool{}
	for _, o := range r.Obs {
		if o.Status != "violated" {
			continue
		}
		for i, k := range r.known {
			if k.Status == "known" && k.Rule == o.Rule && k.Function == o.Func && k.Construct == o.Construct {
				o.Status = "known"
				o.How = "known finding: " + k.What
				usedKnown[i] = true
			}
		}
	}
	sort.SliceStable(r.Obs, func(i, j int) bool { return r.Obs[i].key() < r.Obs[j].key() })
	n := map[string]int{}
	for _, o := range r.Obs {
		n[o.Status]++
	}
	// print
	fmt.Printf("bchverif property=%s tier=%s config=%s obligations=%d discharged=%d excepted=%d known=%d violated=%d functions=%d\n",
		r.Prop, r.Tier, r.cfg(), len(r.Obs), n["discharged"], n["excepted"], n["known"], n["violated"], len(r.funcs))
	for _, rule := range r.ruleNames() {
		fmt.Printf("  rule %-18s instances=%d floor=%d\n", rule, r.counts[rule], r.floors[rule])
	}
	for _, s := range r.notes {
		fmt.Printf("  note: %s\n", s)
	}
	printedKnown := map[string]bool{}
	for _, o := range r.Obs {
		if o.Status == "known" {
			line := fmt.Sprintf("KNOWN-FINDING: property=%s %s [%s %s %s at %s]", r.Prop, strings.TrimPrefix(o.How, "known finding: "), o.Rule, o.Func, o.Construct, o.Pos)
			if !printedKnown[o.key()] {
				fmt.Println(line)
				printedKnown[o.key()] = true
			}
		}
	}
	for i, k := range r.known {
		if k.Status == "known" && !usedKnown[i] {
			fmt.Printf("  note: known finding no longer reproduces (stale entry): %s %s %s\n", k.Rule, k.Function, k.Construct)
		}
	}
	exit := 0
	printedV := map[string]bool{}
	for _, o := range r.Obs {
		if o.Status != "violated" {
			continue
		}
		exit = 1
		if printedV[o.key()+o.Config] {
			continue
		}
		printedV[o.key()+o.Config] = true
		fmt.Printf("%s: %s violated in %s: %s", o.Pos, o.Rule, o.Func, o.Construct)
		if o.How != "" {
			fmt.Printf(" (%s)", o.How)
		}
		if o.Config != "" && o.Config != "linux/amd64" {
			fmt.Printf(" [config %s]", o.Config)
		}
		fmt.Println()
		for _, s := range o.Path {
			fmt.Printf("    %s\n", s)
		}
		for _, k := range r.known {
			if k.Status == "fixed" && k.Rule == o.Rule && k.Function == o.Func && k.Construct == o.Construct {
				fmt.Printf("    (regression of a defect recorded as fixed in %s: %s)\n", k.Commit, k.What)
			}
		}
		replay := r.writeReplay(o)
		fmt.Printf("VIOLATION property=%s replay=%s\n", r.Prop, replay)
	}
	if writeEvidence {
		r.writeEvidence(n, extraCov)
	}
	return exit
}

func (r *Report) cfg() string {
	if r.P != nil {
		return r.P.Cfg.String()
	}
	return ""
}

func (r *Report) ruleNames() []string {
	m := map[string]bool{}
	for k := range r.counts {
		m[k] = true
	}
	for k := range r.floors {
		m[k] = true
	}
	var out []string
	for k := range m {
		out = append(out, k)
	}
	sort.Strings(out)
	return out
}

func (r *Report) writeReplay(o *Ob) string {
	dir := filepath.Join(r.verifDir, "evidence", "replay")
	os.MkdirAll(dir, 0o755)
	h := sha256.Sum256([]byte(o.key()))
	path := filepath.Join(dir, fmt.Sprintf("%s-%x.json", r.Prop, h[:6]))
	rec := map[string]interface{}{"property": r.Prop, "obligation": o}
	b, _ := json.MarshalIndent(rec, "", " ")
	os.WriteFile(path, b, 0o644)
	return path
}

func (r *Report) writeEvidence(n map[string]int, extraCov map[string]interface{}) {
	perRule := map[string]interface{}{}
	for _, rule := range r.ruleNames() {
		perRule[rule] = map[string]int{"instances": r.counts[rule], "floor": r.floors[rule]}
	}
	// samples: up to 40 obligations, at least one per rule, plus every non-discharged
	var samples []*Ob
	seenRule := map[string]int{}
	for _, o := range r.Obs {
		if o.Status != "discharged" || seenRule[o.Rule] < 3 {
			samples = append(samples, o)
			seenRule[o.Rule]++
		}
	}
	if len(samples) > 120 {
		samples = samples[:120]
	}
	var fns []string
	for f := range r.funcs {
		fns = append(fns, f)
	}
	sort.Strings(fns)
	var pkgs []string
	if r.P != nil {
		for _, p := range r.P.Pkgs {
			pkgs = append(pkgs, p.PkgPath)
		}
	}
	cov := map[string]interface{}{
		"explanation":        r.Explain,
		"obligations":        len(r.Obs),
		"discharged":         n["discharged"],
		"excepted":           n["excepted"],
		"known":              n["known"],
		"violated":           n["violated"],
		"rules":              perRule,
		"functions_analysed": fns,
		"packages":           pkgs,
		"configs":            []string{r.cfg()},
		"samples":            samples,
		"checker_cmd":        fmt.Sprintf("bin/bchverif -prop %s -tier %s", r.Prop, r.Tier),
		"trusted_base":       r.Trusted,
		"notes":              r.notes,
	}
	for k, v := range r.extra {
		cov[k] = v
	}
	for k, v := range extraCov {
		cov[k] = v
	}
	seed := 0
	fmt.Sscanf(os.Getenv("VERIF_SEED"), "%d", &seed)
	ev := evidence{PropertyID: r.Prop, Tier: r.Tier, Seed: seed, Level: "other", Coverage: cov,
		Assumptions: r.Assume, WallS: time.Since(procStart).Seconds(), Violations: n["violated"]}
	if ev.Assumptions == nil {
		ev.Assumptions = []string{}
	}
	b, _ := json.MarshalIndent(ev, "", " ")
	os.MkdirAll(filepath.Join(r.verifDir, "evidence"), 0o755)
	os.WriteFile(filepath.Join(r.verifDir, "evidence", r.Prop+".json"), append(b, '\n'), 0o644)
}

// Borrow runs the rules of another property on the same program and files the obligations `pick` selects under this
// property, renamed.  Used where a structural clause decided for one property is just as much a necessary condition
// of another (IsForNet's field agreement is C01's membership clause and C02's "belongs to the network"; the Tx hash
// memo is C16's and the transaction id C10 matches and inserts).  Violations that the lender's known-findings list
// are not imported (they are reported there).
func (r *Report) Borrow(from string, pick func(o *Ob) (rule string, ok bool)) int {
	f, ok := registry[from]
	if !ok {
		r.Unresolved(r.Prop+".borrow", "rules of "+from)
		return 0
	}
	if r.lent {
		return 0
	}
	sr := NewReport(from, r.Tier, r.verifDir, r.P)
	sr.lent = true
	func() {
		defer func() {
			if e := recover(); e != nil {
				sr.Obs = append(sr.Obs, &Ob{Rule: from + ".panic", Func: "-", Construct: fmt.Sprint(e), Status: "violated", How: "kind=panic"})
			}
		}()
		f(r.P, sr)
	}()
	n := 0
	for _, o := range sr.Obs {
		rule, ok := pick(o)
		if !ok {
			continue
		}
		if o.Status == "violated" {
			listed := false
			for _, k := range sr.known {
				if k.Status == "known" && k.Rule == o.Rule && k.Function == o.Func && k.Construct == o.Construct {
					listed = true
				}
			}
			if listed {
				continue
			}
		}
		c := *o
		c.Rule = rule
		c.How = "(" + o.Rule + ") " + o.How
		r.Obs = append(r.Obs, &c)
		r.counts[rule]++
		if c.Func != "" && c.Func != "-" {
			r.funcs[c.Func] = true
		}
		n++
	}
	return n
}

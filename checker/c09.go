package main

import (
	"fmt"
	"go/token"
	"go/types"
	"strings"

	"golang.org/x/tools/go/ssa"
)

func init() { register("C09", checkC09) }

// isMinHelper: fn(a, b) returns a when a < b else b (or the symmetric forms).
func isMinHelper(fn *ssa.Function) bool {
	if len(fn.Params) != 2 || len(fn.Blocks) == 0 {
		return false
	}
	iff, ok := lastInstr(fn.Blocks[0]).(*ssa.If)
	if !ok {
		return false
	}
	bo, ok := iff.Cond.(*ssa.BinOp)
	if !ok {
		return false
	}
	a, b := ssa.Value(fn.Params[0]), ssa.Value(fn.Params[1])
	retOf := func(blk *ssa.BasicBlock) ssa.Value {
		if r, ok := lastInstr(blk).(*ssa.Return); ok && len(r.Results) == 1 {
			return r.Results[0]
		}
		return nil
	}
	t, e := retOf(fn.Blocks[0].Succs[0]), retOf(fn.Blocks[0].Succs[1])
	if t == nil || e == nil {
		return false
	}
	switch {
	case (bo.Op == token.LSS || bo.Op == token.LEQ) && bo.X == a && bo.Y == b:
		return t == a && e == b
	case (bo.Op == token.LSS || bo.Op == token.LEQ) && bo.X == b && bo.Y == a:
		return t == b && e == a
	case (bo.Op == token.GTR || bo.Op == token.GEQ) && bo.X == a && bo.Y == b:
		return t == b && e == a
	case (bo.Op == token.GTR || bo.Op == token.GEQ) && bo.X == b && bo.Y == a:
		return t == a && e == b
	}
	return false
}

// minWith: v is min(_, K) (helper call or builtin) for a constant K; returns K.
func minWith(p *Program, v ssa.Value) (int64, bool) {
	c, ok := v.(*ssa.Call)
	if !ok || len(c.Call.Args) != 2 {
		return 0, false
	}
	isMin := isBuiltin(&c.Call, "min")
	if cal := c.Call.StaticCallee(); cal != nil && p.InRepo(cal) && isMinHelper(cal) {
		isMin = true
	}
	if !isMin {
		return 0, false
	}
	for _, a := range c.Call.Args {
		if k, ok := constInt(a); ok {
			return k, true
		}
	}
	return 0, false
}

func wireConst(p *Program, name string) (int64, bool) {
	if pk := p.TPkg("bloom"); pk != nil {
		for _, imp := range pk.Types.Imports() {
			if imp.Path() == "github.com/gcash/bchd/wire" {
				if c, ok := imp.Scope().Lookup(name).(*types.Const); ok {
					var v int64
					if _, err := fmt.Sscan(c.Val().String(), &v); err == nil {
						return v, true
					}
				}
			}
		}
	}
	return 0, false
}

func checkC09(p *Program, r *Report) {
	// mutation sweep (bloom/filter.go `return false` / `return true` flipped in matches): the verdict of the membership
	// primitive for an unloaded filter is false, and for a loaded filter with an empty bit array it is true (insertion
	// into it is a no-op, so "no false negatives" needs the all-matching reading)
	defer c09constVerdicts(p, r)
	// round 7 (C09-agent7-m2): "no false negatives" needs the read-modify-write of a bit to be exclusive: the lock
	// discipline of bloom.Filter (C20) is a necessary condition here too
	defer func() {
		r.Borrow("C20", func(o *Ob) (string, bool) {
			switch o.Rule {
			case "C20.guarded", "C20.required", "C20.section":
				return "C09.locked", true
			}
			return "", false
		})
		r.Floor("C09.locked", 10)
	}()
	{
		ef := NewEffects(p)
		sharedStateRule(p, r, ef, "C09.shared", []string{"bloom/filter.go", "bloom/murmurhash3.go"})
		r.Floor("C09.shared", 10)
		// C09.pure: hashing, insertion and queries read the element, they never write it
		for _, n := range []string{"MurmurHash3"} {
			if fn := p.Func("bloom", n); fn != nil {
				purityCheck(p, r, ef, "C09.pure", fn)
			} else {
				r.Unresolved("C09.pure", "bloom."+n)
			}
		}
		for _, m := range p.Methods("bloom", "Filter") {
			switch m.Name() {
			case "Add", "AddHash", "AddOutPoint", "Matches", "MatchesOutPoint", "hash", "add", "matches":
				purityCheckArgs(p, r, ef, "C09.pure", m)
			}
		}
		r.Floor("C09.pure", 5)
	}
	r.Explain = "C09.monotone: every store into the filter's bit array is *a = *a | x (bits are only ever set). C09.agree: the function that sets bits and the function that " +
		"tests them compute the byte index, the bit mask, the loop bound and the hash arguments as the same canonical terms; the two outpoint serialisers fill " +
		"their buffers identically (hash at 0, little-endian index at 32). C09.formula: the bit number is MurmurHash3(i·0xFBA4C795 + tweak, item) mod (8·len(filter)). " +
		"C09.clamp: NewFilter passes min(·, MaxFilterLoadFilterSize·8)/8 bytes and min(·, MaxFilterLoadHashFuncs) hash functions. C09.unloaded: writer and reader " +
		"touch the message only behind a nil test whose other edge returns. C09.decides: every branch of the bit-setting and bit-testing functions reads only the " +
		"loaded message, the item and the loop counter (no shadow state decides membership), a clear bit answers absent, exhausting the hash functions answers present; " +
		"every exit of the hash helper returns the reduced hash. Not decided: MurmurHash3's arithmetic (ten suite vectors pin it), modular wrap-around, the floating-point sizing values."
	r.Trusted = []string{"BIP37 constants (seed multiplier 0xFBA4C795, wire limits)", "binary.LittleEndian.PutUint32"}
	bloomPkg := p.Pkg("bloom")
	if bloomPkg == nil {
		r.Unresolved("C09.monotone", "package bloom")
		return
	}
	// the bit array: field Filter of the wire message reached from bloom.Filter
	isBitArrayElem := func(addr ssa.Value) (*ssa.IndexAddr, bool) {
		ia, ok := addr.(*ssa.IndexAddr)
		if !ok {
			return nil, false
		}
		f, _, ok := fieldLoad(ia.X)
		if !ok {
			return nil, false
		}
		if n := f.Pkg(); n == nil || n.Path() != "github.com/gcash/bchd/wire" {
			return nil, false
		}
		if ld, ok := ia.X.(*ssa.UnOp); ok {
			if fa, ok := ld.X.(*ssa.FieldAddr); ok && !isNamed(fa.X.Type(), "github.com/gcash/bchd/wire", "MsgFilterLoad") {
				return nil, false
			}
		}
		if sl, ok := f.Type().Underlying().(*types.Slice); !ok || sl.Elem().Underlying().(*types.Basic).Kind() != types.Uint8 {
			return nil, false
		}
		return ia, true
	}
	var writer, reader *ssa.Function
	var wStore *ssa.Store
	var rTest *ssa.BinOp
	for _, fn := range pkgFuncs(p, "bloom") {
		for _, b := range fn.Blocks {
			for _, in := range b.Instrs {
				switch x := in.(type) {
				case *ssa.Store:
					ia, ok := isBitArrayElem(x.Addr)
					if !ok {
						continue
					}
					okOr := false
					if bo, ok := x.Val.(*ssa.BinOp); ok && bo.Op == token.OR {
						for _, side := range []ssa.Value{bo.X, bo.Y} {
							if ld, ok := side.(*ssa.UnOp); ok && ld.Op == token.MUL {
								if ia2, ok := ld.X.(*ssa.IndexAddr); ok && ia2.X == ia.X && ia2.Index == ia.Index {
									okOr = true
								}
							}
						}
					}
					r.Add("C09.monotone", FnName(fn), "store into the bit array only sets bits", x.Pos(), okOr, "*a = *a | mask")
					if okOr {
						writer, wStore = fn, x
					}
				case *ssa.BinOp:
					if x.Op != token.EQL && x.Op != token.NEQ {
						continue
					}
					// the masked load is on one side and the constant 0 on the other (benign round 4, C09-y1:
					// `0 == filter[idx>>3]&(1<<(idx&7))`)
					andV, zeroV := x.X, x.Y
					if _, isK := constInt(x.X); isK {
						andV, zeroV = x.Y, x.X
					}
					if k, ok := constInt(zeroV); !ok || k != 0 {
						continue
					}
					and, ok := andV.(*ssa.BinOp)
					if !ok || and.Op != token.AND {
						continue
					}
					for _, side := range []ssa.Value{and.X, and.Y} {
						if ld, ok := side.(*ssa.UnOp); ok && ld.Op == token.MUL {
							if _, ok := isBitArrayElem(ld.X); ok {
								reader, rTest = fn, x
							}
						}
					}
				}
			}
		}
	}
	r.Floor("C09.monotone", 1)
	if writer == nil || reader == nil {
		r.Unresolved("C09.agree", "bit-setting store / bit test on the filter's bit array")
		return
	}
	// ---- C09.agree
	wtb, rtb := NewTermBuilder(p, writer), NewTermBuilder(p, reader)
	wtb.Inline, rtb.Inline = false, false
	wia, _ := isBitArrayElem(wStore.Addr)
	wor := wStore.Val.(*ssa.BinOp)
	var wMask ssa.Value
	for _, side := range []ssa.Value{wor.X, wor.Y} {
		isLoad := false
		if ld, ok := side.(*ssa.UnOp); ok && ld.Op == token.MUL {
			if ia2, ok := ld.X.(*ssa.IndexAddr); ok && ia2.X == wia.X && ia2.Index == wia.Index {
				isLoad = true
			}
		}
		if !isLoad {
			wMask = side
		}
	}
	rand, isAnd := rTest.X.(*ssa.BinOp)
	if !isAnd || rand.Op != token.AND {
		rand = rTest.Y.(*ssa.BinOp)
	}
	var rMask ssa.Value
	var ria *ssa.IndexAddr
	for _, side := range []ssa.Value{rand.X, rand.Y} {
		if ld, ok := side.(*ssa.UnOp); ok && ld.Op == token.MUL {
			if ia, ok := isBitArrayElem(ld.X); ok {
				ria = ia
				continue
			}
		}
		rMask = side
	}
	u := newUnifier()
	wi, ri := wtb.Term(wia.Index), rtb.Term(ria.Index)
	r.Add("C09.agree", FnName(writer)+" / "+FnName(reader), "writer and reader address the same byte for the same (i, item)", wia.Pos(), u.equal(wi, ri), "writer: "+wi.String()+"; reader: "+ri.String())
	wm, rm := wtb.Term(wMask), rtb.Term(rMask)
	r.Add("C09.agree", FnName(writer)+" / "+FnName(reader), "writer and reader use the same bit mask", wStore.Pos(), u.equal(wm, rm), "writer: "+wm.String()+"; reader: "+rm.String())
	// loop bounds: the header test of the loop containing the access
	bound := func(fn *ssa.Function, at *ssa.BasicBlock, tb *TermBuilder) *Term {
		for h := at; h != nil; h = h.Idom() {
			if isLoopHeader(h) {
				if iff, ok := lastInstr(h).(*ssa.If); ok {
					return tb.Term(iff.Cond)
				}
			}
		}
		return nil
	}
	wb, rb := bound(writer, wStore.Block(), wtb), bound(reader, rTest.Block(), rtb)
	r.Add("C09.agree", FnName(writer)+" / "+FnName(reader), "writer and reader iterate over the same hash-function range", wStore.Pos(), wb != nil && rb != nil && sameTerm(wb, rb),
		fmt.Sprintf("writer: %v; reader: %v", wb, rb))
	// outpoint serialisers: functions that build the 36 bytes and pass them to writer / reader
	type bufDesc struct {
		fn   *ssa.Function
		desc string
	}
	var descs []bufDesc
	for _, fn := range pkgFuncs(p, "bloom") {
		if fn == writer || fn == reader {
			continue
		}
		for _, b := range fn.Blocks {
			for _, in := range b.Instrs {
				c, ok := in.(*ssa.Call)
				if !ok || (c.Call.StaticCallee() != writer && c.Call.StaticCallee() != reader) {
					continue
				}
				arg := c.Call.Args[len(c.Call.Args)-1]
				if _, isParam := arg.(*ssa.Parameter); isParam {
					continue // plain forwarding of the caller's item (Add, Matches, …)
				}
				if d, ok := serialDesc(p, fn, arg, 0); ok {
					descs = append(descs, bufDesc{fn, d})
				}
			}
		}
	}
	if len(descs) < 2 {
		r.Unresolved("C09.agree", "the two outpoint serialisers")
	} else {
		same := true
		for _, d := range descs[1:] {
			if d.desc != descs[0].desc {
				same = false
			}
		}
		want := strings.HasPrefix(descs[0].desc, "36 bytes{@0 bytes ") && strings.Contains(descs[0].desc, "@32 little-endian uint32 ") && strings.Contains(descs[0].desc, ".Hash") && strings.Contains(descs[0].desc, ".Index")
		r.Add("C09.agree", FnName(descs[0].fn)+" / "+FnName(descs[1].fn), "outpoints are serialised identically for insertion and lookup: txid ‖ little-endian index", descs[0].fn.Pos(), same && want, descs[0].desc+" vs "+descs[1].desc)
	}
	r.Floor("C09.agree", 4)

	// ---- C09.formula: the bit number, as the bit-setting and bit-testing functions compute it — in-repo helpers
	// inlined, so it does not matter whether the reduction lives in a method, a pure function or the loop itself
	for _, acc := range []struct {
		fn *ssa.Function
		ia *ssa.IndexAddr
	}{{writer, wia}, {reader, ria}} {
		if acc.ia == nil {
			r.Unresolved("C09.formula", "bit-array access of "+FnName(acc.fn))
			continue
		}
		tbF := NewTermBuilder(p, acc.fn)
		t := tbF.Term(acc.ia.Index)
		ts := t.String()
		// byte index = bitNumber / 8
		var bitNo *Term
		if t.Op == "/" && len(t.Args) == 2 && t.Args[1].String() == "#8" {
			bitNo = t.Args[0]
		}
		okMod, okSeed := false, false
		howMod, howSeed := "byte index term "+ts, "byte index term "+ts
		if bitNo != nil && bitNo.Op == "%" && len(bitNo.Args) == 2 {
			h, m := bitNo.Args[0], bitNo.Args[1]
			ms := m.String()
			howMod = "modulus term " + ms
			if m.Op == "*" && len(m.Args) == 2 && strings.Contains(ms, "#8") && strings.Contains(ms, "len(") && strings.Contains(ms, ".Filter") {
				okMod = true
			}
			if strings.HasPrefix(h.Op, "call") && strings.Contains(h.String(), "MurmurHash3") && len(h.Args) == 2 {
				seed := h.Args[0]
				howSeed = "seed term " + seed.String()
				if seed.Op == "+" && len(seed.Args) == 2 {
					hasMul, hasTweak := false, false
					for _, a := range seed.Args {
						if a.Op == "*" && len(a.Args) == 2 {
							for _, mm := range a.Args {
								if mm.Op == "leaf" && mm.Leaf == "#4221880213" {
									hasMul = true
								}
							}
						}
						if a.Op == "fld" && a.Field != nil && a.Field.Name() == "Tweak" {
							hasTweak = true
						}
					}
					okSeed = hasMul && hasTweak
				}
				// strength-reduced form: a loop-carried seed that starts at the tweak and advances by the constant each
				// round takes the same values tweak + j·0xFBA4C795, j = 0 … rounds−1
				if seed.Op == "ind" && len(seed.Args) == 2 && seed.Args[0].Op == "fld" && seed.Args[0].Field != nil && seed.Args[0].Field.Name() == "Tweak" &&
					seed.Args[1].Op == "leaf" && seed.Args[1].Leaf == "#4221880213" {
					okSeed = true
				}
			} else {
				okMod = false
				howMod = "the reduced value is not MurmurHash3(seed, item): " + h.String()
			}
		}
		r.Add("C09.formula", FnName(acc.fn), "hash seed is i·0xFBA4C795 + tweak", acc.ia.Pos(), okSeed, howSeed)
		r.Add("C09.formula", FnName(acc.fn), "bit number is the hash modulo 8·len(filter)", acc.ia.Pos(), okMod, howMod)
	}
	r.Floor("C09.formula", 4)

	// ---- C09.decides: what the reader's answer and the writer's effect may depend on
	for _, fn := range []*ssa.Function{writer, reader} {
		n := 0
		for _, b := range fn.Blocks {
			iff, ok := lastInstr(b).(*ssa.If)
			if !ok {
				continue
			}
			n++
			bad := foreignDeterminants(p, fn, iff.Cond)
			r.Add("C09.decides", FnName(fn), "branch depends only on the loaded message (bit array, hash-function count), the item and the loop counter", iff.Cond.Pos(), len(bad) == 0,
				"condition "+exprString(iff.Cond)+" also reads "+strings.Join(bad, ", "))
		}
		if n == 0 {
			r.Unresolved("C09.decides", "branches of "+FnName(fn))
		}
	}
	// a zero bit answers "absent"; running out of hash functions answers "present"
	{
		okAbsent, okPresent := false, false
		tb := rTest.Block()
		if iff, ok := lastInstr(tb).(*ssa.If); ok && iff.Cond == ssa.Value(rTest) {
			zero := tb.Succs[0]
			if rTest.Op == token.NEQ {
				zero = tb.Succs[1]
			}
			if ret, ok := lastInstr(zero).(*ssa.Return); ok && len(zero.Instrs) == 1 && len(ret.Results) == 1 {
				if v, ok := constBool(ret.Results[0]); ok && !v {
					okAbsent = true
				}
			}
		}
		for h := rTest.Block(); h != nil; h = h.Idom() {
			if !isLoopHeader(h) {
				continue
			}
			if iff, ok := lastInstr(h).(*ssa.If); ok {
				_ = iff
				exit := h.Succs[1]
				if ret, ok := lastInstr(exit).(*ssa.Return); ok && len(exit.Instrs) == 1 && len(ret.Results) == 1 {
					if v, ok := constBool(ret.Results[0]); ok && v {
						okPresent = true
					}
				}
			}
			break
		}
		r.Add("C09.decides", FnName(reader), "a clear bit answers absent at once", rTest.Pos(), okAbsent, "bit test == 0 → return false")
		r.Add("C09.decides", FnName(reader), "all hash functions' bits set answers present", rTest.Pos(), okPresent, "loop exit → return true")
	}
	// the public insert / lookup operations and their outpoint forms have no special cases of their own:
	// lock, serialise, delegate, unlock — no branch
	for _, name := range []string{"(*Filter).Add", "(*Filter).AddHash", "(*Filter).AddOutPoint", "(*Filter).Matches", "(*Filter).MatchesOutPoint", "(*Filter).addOutPoint", "(*Filter).matchesOutPoint"} {
		fn := p.Func("bloom", name)
		if fn == nil {
			r.Unresolved("C09.decides", "bloom."+name)
			continue
		}
		nIf := 0
		var pos token.Pos = fn.Pos()
		for _, b := range fn.Blocks {
			if iff, ok := lastInstr(b).(*ssa.If); ok {
				nIf++
				pos = iff.Cond.Pos()
			}
		}
		r.Add("C09.decides", FnName(fn), "no item, hash or outpoint is special-cased before it reaches the bit array", pos, nIf == 0, fmt.Sprintf("%d branch(es) in a function that should only serialise and delegate", nIf))
	}
	// the loaders install exactly the message they are given
	for _, name := range []string{"LoadFilter", "(*Filter).Reload"} {
		fn := p.Func("bloom", name)
		if fn == nil {
			r.Unresolved("C09.decides", "bloom."+name)
			continue
		}
		okInst, how, n := true, "", 0
		var pos token.Pos = fn.Pos()
		for _, b := range fn.Blocks {
			for _, in := range b.Instrs {
				st, ok := in.(*ssa.Store)
				if !ok {
					continue
				}
				fa, ok := st.Addr.(*ssa.FieldAddr)
				if !ok || !isNamed(derefType(fieldOfAddr(fa).Type()), "github.com/gcash/bchd/wire", "MsgFilterLoad") {
					continue
				}
				n++
				pos = st.Pos()
				if _, isParam := st.Val.(*ssa.Parameter); !isParam {
					okInst, how = false, "installs "+exprString(st.Val)+" instead of the message it was given (a filter within the wire limits may be dropped)"
				}
			}
		}
		r.Add("C09.decides", FnName(fn), "the loader installs the message it is given, unconditionally", pos, okInst && n == 1, how)
	}
	r.Floor("C09.decides", 15)

	// ---- C09.clamp
	if nf := p.Func("bloom", "NewFilter"); nf != nil {
		maxSize, ok1 := wireConst(p, "MaxFilterLoadFilterSize")
		maxFuncs, ok2 := wireConst(p, "MaxFilterLoadHashFuncs")
		if !ok1 || !ok2 {
			r.Unresolved("C09.clamp", "wire.MaxFilterLoadFilterSize / MaxFilterLoadHashFuncs")
		}
		for _, b := range nf.Blocks {
			for _, in := range b.Instrs {
				c, ok := in.(*ssa.Call)
				if !ok || c.Call.StaticCallee() == nil || c.Call.StaticCallee().String() != "github.com/gcash/bchd/wire.NewMsgFilterLoad" {
					continue
				}
				// data slice: make([]byte, min(x, Max*8)/8)
				okSize, howSize := false, "filter bytes are not sized by a clamped value"
				if ms, ok := c.Call.Args[0].(*ssa.MakeSlice); ok {
					sz := stripIntConv(ms.Len)
					if q, ok := sz.(*ssa.BinOp); ok && (q.Op == token.QUO || q.Op == token.SHR) {
						div, _ := constInt(q.Y)
						if q.Op == token.SHR {
							div = 1 << uint(div)
						}
						if k, ok := minWith(p, q.X); ok {
							howSize = fmt.Sprintf("make([]byte, min(·, %d)/%d)", k, div)
							okSize = div > 0 && k/div <= maxSize && k == maxSize*div
						}
					} else if k, ok := minWith(p, sz); ok {
						howSize = fmt.Sprintf("make([]byte, min(·, %d))", k)
						okSize = k == maxSize
					}
				}
				// any other way of clamping: prove the bounds from the branch facts (if x > max { x = max }, min helpers, …)
				lcN := NewLinCtx(p, nf)
				avN := NewAvail(p)
				lcN.alias = avN.Run(nf)
				rfN := newRetFacts(p, avN)
				rfN.install(lcN)
				prN := NewProver(p, nf, lcN)
				if !okSize {
					if ms, ok := c.Call.Args[0].(*ssa.MakeSlice); ok {
						if okP, _ := prN.Prove(c.Block(), lcN.Lin(ms.Len).addConst(-maxSize)); okP {
							okSize, howSize = true, "make([]byte, n) with n ≤ limit proved from the branch facts"
						}
						// n = x / d (or x >> s) with x ≤ limit·d from the branch facts (benign round 4, C09-y2: the min helper
						// written out as `if x > limit·8 { x = limit·8 }`)
						if q, ok := stripIntConv(ms.Len).(*ssa.BinOp); ok && !okSize && (q.Op == token.QUO || q.Op == token.SHR) {
							if div, isK := constInt(q.Y); isK && div > 0 {
								if q.Op == token.SHR {
									div = 1 << uint(div)
								}
								if okP, _ := prN.Prove(c.Block(), lcN.Lin(stripIntConv(q.X)).addConst(-maxSize*div)); okP {
									okSize, howSize = true, fmt.Sprintf("make([]byte, x/%d) with x ≤ %d proved from the branch facts", div, maxSize*div)
								}
							}
						}
					}
				}
				r.Add("C09.clamp", FnName(nf), "filter size is clamped to the wire limit", c.Pos(), okSize, howSize+fmt.Sprintf(" (limit %d bytes)", maxSize))
				k, ok := minWith(p, c.Call.Args[1])
				okF, howF := ok && k == maxFuncs, fmt.Sprintf("min(·, %d), limit %d", k, maxFuncs)
				if !okF {
					if okP, _ := prN.Prove(c.Block(), lcN.Lin(c.Call.Args[1]).addConst(-maxFuncs)); okP {
						okF, howF = true, fmt.Sprintf("count ≤ %d proved from the branch facts", maxFuncs)
					}
				}
				r.Add("C09.clamp", FnName(nf), "hash-function count is clamped to the wire limit", c.Pos(), okF, howF)
			}
		}
	} else {
		r.Unresolved("C09.clamp", "bloom.NewFilter")
	}
	r.Floor("C09.clamp", 2)

	// ---- C09.unloaded
	av := NewAvail(p)
	for _, fn := range []*ssa.Function{writer, reader} {
		lc := NewLinCtx(p, fn)
		lc.alias = av.Run(fn)
		n, bad := 0, ""
		var pos token.Pos
		for _, b := range fn.Blocks {
			for _, in := range b.Instrs {
				fa, ok := in.(*ssa.FieldAddr)
				if !ok {
					continue
				}
				ptr := lc.res(fa.X)
				if _, _, isFld := fieldLoad(ptr); !isFld {
					if _, _, isFld2 := fieldLoad(fa.X); !isFld2 {
						continue
					}
				}
				if n := namedOf(fa.X.Type()); n == nil || n.Obj().Pkg() == nil || n.Obj().Pkg().Path() != "github.com/gcash/bchd/wire" {
					continue
				}
				n++
				pos = fa.Pos()
				guarded := false
				for _, cd := range DomConds(b) {
					bo, truth, ok := condBinOp(cd)
					if !ok || !(bo.Op == token.NEQ && truth || bo.Op == token.EQL && !truth) {
						continue
					}
					for _, pr := range [][2]ssa.Value{{bo.X, bo.Y}, {bo.Y, bo.X}} {
						if isNilConst(pr[1]) && lc.res(pr[0]) == ptr {
							// the other edge returns
							guarded = true
						}
					}
				}
				if !guarded {
					bad = "message dereferenced at " + p.Pos(fa.Pos()) + " without a dominating non-nil test"
				}
			}
		}
		r.Add("C09.unloaded", FnName(fn), "an unloaded filter is inert: the message is only touched behind a nil test", pos, n > 0 && bad == "", fmt.Sprintf("%d dereferences guarded; %s", n, bad))
	}
	r.Floor("C09.unloaded", 2)
}

func sortStrings(s []string) {
	for i := 1; i < len(s); i++ {
		for j := i; j > 0 && s[j] < s[j-1]; j-- {
			s[j], s[j-1] = s[j-1], s[j]
		}
	}
}

// foreignDeterminants lists what a branch condition of a bloom filter method reads besides the
// loaded wire message (reached through the receiver's message field), the method's other
// parameters, constants and values computed from those by operators, len and repository calls.
func foreignDeterminants(p *Program, fn *ssa.Function, cond ssa.Value) []string {
	seen := map[ssa.Value]bool{}
	var bad []string
	var walk func(v ssa.Value)
	walk = func(v ssa.Value) {
		if v == nil || seen[v] {
			return
		}
		seen[v] = true
		switch x := v.(type) {
		case *ssa.Const:
		case *ssa.Parameter:
			// the item may decide a branch only through its hashes: a direct look at the item (its length, a byte) is foreign
			if _, isSlice := x.Type().Underlying().(*types.Slice); isSlice {
				bad = append(bad, "the item "+x.Name()+" itself (only its hashes may decide)")
			}
		case *ssa.BinOp:
			walk(x.X)
			walk(x.Y)
		case *ssa.UnOp:
			walk(x.X)
		case *ssa.Convert:
			walk(x.X)
		case *ssa.ChangeType:
			walk(x.X)
		case *ssa.Phi:
			for _, e := range x.Edges {
				walk(e)
			}
		case *ssa.IndexAddr:
			walk(x.X)
			walk(x.Index)
		case *ssa.Index:
			walk(x.X)
			walk(x.Index)
		case *ssa.Slice:
			walk(x.X)
		case *ssa.FieldAddr:
			// receiver field: only the message pointer; message fields: any
			if len(fn.Params) > 0 && canonRoot(x.X) == ssa.Value(fn.Params[0]) && x.X == ssa.Value(fn.Params[0]) {
				if !isNamed(derefType(fieldOfAddr(x).Type()), "github.com/gcash/bchd/wire", "MsgFilterLoad") {
					bad = append(bad, "field "+fieldOfAddr(x).Name()+" of the filter object")
				}
				return
			}
			walk(x.X)
		case *ssa.Call:
			if isBuiltin(&x.Call, "len") || isBuiltin(&x.Call, "cap") {
				walk(x.Call.Args[0])
				return
			}
			if cal := x.Call.StaticCallee(); cal != nil && p.InRepo(cal) {
				for _, a := range x.Call.Args {
					if pa, isParam := a.(*ssa.Parameter); isParam {
						if _, isSlice := pa.Type().Underlying().(*types.Slice); isSlice {
							continue // handed on to be hashed
						}
					}
					walk(a)
				}
				return
			}
			bad = append(bad, "call "+calleeName(&x.Call))
		case *ssa.Global:
			bad = append(bad, "global "+x.Name())
		default:
			bad = append(bad, fmt.Sprintf("%T %s", v, v.Name()))
		}
	}
	walk(cond)
	return bad
}

// serialDesc describes a fixed-layout byte serialisation built in fn and denoted by v:
// "N bytes{@off bytes <term>; @off little-endian uint32 <term>; …}".  Recognised constructions: a local array
// filled by copy / binary.*.PutUint32 / single-byte stores of shifted values; append chains with
// binary.*.AppendUint32; and a call of an in-repo helper that builds the bytes from its parameters (described
// in the helper, with the parameters renamed to the caller's arguments).
func serialDesc(p *Program, fn *ssa.Function, v ssa.Value, depth int) (string, bool) {
	if depth > 2 {
		return "", false
	}
	tb := NewTermBuilder(p, fn)
	type part struct {
		off  int64
		text string
		n    int64
	}
	var parts []part
	total := int64(-1)
	// unwrap slices of a local array / loads
	var fromArray func(al *ssa.Alloc) bool
	fromArray = func(al *ssa.Alloc) bool {
		at, ok := derefType(al.Type()).Underlying().(*types.Array)
		if !ok {
			return false
		}
		total = at.Len()
		byteStores := map[int64]ssa.Value{}
		for _, ref := range *al.Referrers() {
			switch x := ref.(type) {
			case *ssa.Store:
				if x.Addr == ssa.Value(al) {
					// whole-array value from a helper call
					if hc, ok := x.Val.(*ssa.Call); ok {
						if d, ok := helperDesc(p, fn, hc, depth); ok {
							parts = append(parts, part{-1, d, 0})
							continue
						}
					}
					return false
				}
			case *ssa.Slice:
				off := int64(0)
				if x.Low != nil {
					k, isK := constInt(x.Low)
					if !isK {
						if len(*x.Referrers()) > 0 && sliceWritten(x) {
							return false
						}
						continue
					}
					off = k
				}
				for _, u2 := range *x.Referrers() {
					cc, ok := u2.(*ssa.Call)
					if !ok {
						continue
					}
					if isBuiltin(&cc.Call, "copy") && cc.Call.Args[0] == ssa.Value(x) {
						parts = append(parts, part{off, "bytes " + tb.Term(cc.Call.Args[1]).String(), -1})
					} else if cal := cc.Call.StaticCallee(); cal != nil && strings.Contains(cal.String(), "PutUint32") && cc.Call.Args[len(cc.Call.Args)-2] == ssa.Value(x) {
						order := "big-endian"
						if strings.Contains(cal.String(), "littleEndian") {
							order = "little-endian"
						}
						parts = append(parts, part{off, order + " uint32 " + tb.Term(lastArg(cc)).String(), 4})
					}
				}
			case *ssa.IndexAddr:
				k, isK := constInt(x.Index)
				if !isK {
					if l := NewLinCtx(p, fn).Lin(x.Index); l.isConst() {
						k, isK = l.c, true
					}
				}
				for _, u2 := range *x.Referrers() {
					if st, ok := u2.(*ssa.Store); ok && st.Addr == ssa.Value(x) {
						if !isK {
							return false
						}
						byteStores[k] = st.Val
					}
				}
			}
		}
		// four consecutive single-byte stores byte(x), byte(x>>8), byte(x>>16), byte(x>>24) are a little-endian uint32
		for k, v0 := range byteStores {
			base := stripIntConv(v0)
			okLE := true
			for j := int64(1); j < 4; j++ {
				vj, ok := byteStores[k+j]
				if !ok {
					okLE = false
					break
				}
				sh, ok := stripIntConv(vj).(*ssa.BinOp)
				if !ok || sh.Op != token.SHR || sh.X != base {
					okLE = false
					break
				}
				if c, isC := constInt(sh.Y); !isC || c != 8*j {
					okLE = false
				}
			}
			if _, isShift := base.(*ssa.BinOp); okLE && !isShift {
				parts = append(parts, part{k, "little-endian uint32 " + tb.Term(base).String(), 4})
				for j := int64(0); j < 4; j++ {
					delete(byteStores, k+j)
				}
			}
		}
		if len(byteStores) > 0 {
			return false
		}
		return true
	}
	var walk func(v ssa.Value) bool
	walk = func(v ssa.Value) bool {
		switch x := v.(type) {
		case *ssa.Slice:
			if x.Low != nil || x.High != nil {
				if k, isK := constInt(x.Low); x.Low != nil && (!isK || k != 0) {
					return false
				}
			}
			if al, ok := x.X.(*ssa.Alloc); ok {
				return fromArray(al)
			}
			return walk(x.X)
		case *ssa.Call:
			if d, ok := helperDesc(p, fn, x, depth); ok {
				parts = append(parts, part{-1, d, 0})
				return true
			}
			// plain append chain: append(append(base, A...), B...) over a base of length 0 with constant-length pieces
			if isBuiltin(&x.Call, "append") {
				lcx := NewLinCtx(p, fn)
				var pieces []ssa.Value
				cur := ssa.Value(x)
				for {
					ap, ok := cur.(*ssa.Call)
					if !ok || !isBuiltin(&ap.Call, "append") || len(ap.Call.Args) != 2 {
						break
					}
					pieces = append([]ssa.Value{ap.Call.Args[1]}, pieces...)
					cur = ap.Call.Args[0]
				}
				if l0 := lcx.LenLin(cur); !l0.isConst() || l0.c != 0 {
					return false
				}
				off := int64(0)
				for _, pc := range pieces {
					l := lcx.LenLin(pc)
					if !l.isConst() {
						return false
					}
					parts = append(parts, part{off, "bytes " + tb.Term(pc).String(), l.c})
					off += l.c
				}
				total = off
				return len(pieces) > 0
			}
			// append chain ending in AppendUint32
			if cal := x.Call.StaticCallee(); cal != nil && strings.Contains(cal.String(), "AppendUint32") {
				order := "big-endian"
				if strings.Contains(cal.String(), "littleEndian") {
					order = "little-endian"
				}
				inner := x.Call.Args[len(x.Call.Args)-2]
				ap, ok := inner.(*ssa.Call)
				if !ok || !isBuiltin(&ap.Call, "append") {
					return false
				}
				lcx := NewLinCtx(p, fn)
				l0 := lcx.LenLin(ap.Call.Args[0])
				l1 := lcx.LenLin(ap.Call.Args[1])
				if !l0.isConst() || l0.c != 0 || !l1.isConst() {
					return false
				}
				parts = append(parts, part{0, "bytes " + tb.Term(ap.Call.Args[1]).String(), l1.c})
				parts = append(parts, part{l1.c, order + " uint32 " + tb.Term(lastArg(x)).String(), 4})
				total = l1.c + 4
				return true
			}
		case *ssa.UnOp:
			if al, ok := x.X.(*ssa.Alloc); ok && x.Op == token.MUL {
				return fromArray(al)
			}
		}
		return false
	}
	if !walk(v) {
		return "", false
	}
	if len(parts) == 1 && parts[0].off == -1 {
		return parts[0].text, true
	}
	var texts []string
	for _, pt := range parts {
		if pt.off == -1 {
			return "", false
		}
		texts = append(texts, fmt.Sprintf("@%d %s", pt.off, pt.text))
	}
	sortStrings(texts)
	return fmt.Sprintf("%d bytes{%s}", total, strings.Join(texts, "; ")), true
}

// helperDesc: the bytes come from an in-repo helper; describe what the helper returns, in the caller's terms.
func helperDesc(p *Program, fn *ssa.Function, hc *ssa.Call, depth int) (string, bool) {
	cal := hc.Call.StaticCallee()
	if cal == nil || !p.InRepo(cal) || len(cal.Blocks) == 0 {
		return "", false
	}
	rets := returnsOf(cal)
	if len(rets) != 1 || len(rets[0].Results) != 1 {
		return "", false
	}
	d, ok := serialDesc(p, cal, rets[0].Results[0], depth+1)
	if !ok {
		return "", false
	}
	// the helper's parameters, as the term builder prints them (P0, P1, … / R for a receiver), stand for the caller's arguments
	tb := NewTermBuilder(p, fn)
	for i := len(cal.Params) - 1; i >= 0; i-- {
		if i < len(hc.Call.Args) {
			name := fmt.Sprintf("P%d", i)
			if cal.Signature.Recv() != nil {
				if i == 0 {
					name = "R"
				} else {
					name = fmt.Sprintf("P%d", i-1)
				}
			}
			d = strings.ReplaceAll(d, name+".", "‹"+tb.Term(hc.Call.Args[i]).String()+"›.")
			d = strings.ReplaceAll(d, name+")", "‹"+tb.Term(hc.Call.Args[i]).String()+"›)")
		}
	}
	return d, true
}

func c09constVerdicts(p *Program, r *Report) {
	m := p.Func("bloom", "(*Filter).Matches")
	if m == nil {
		r.Unresolved("C09.unloaded", "(*bloom.Filter).Matches")
		return
	}
	var prim *ssa.Function
	for _, b := range m.Blocks {
		for _, in := range b.Instrs {
			if c, ok := in.(*ssa.Call); ok {
				if cal := c.Call.StaticCallee(); cal != nil && p.InRepo(cal) && cal.Pkg == m.Pkg && len(cal.Params) == 2 {
					prim = cal
				}
			}
		}
	}
	if prim == nil {
		r.Unresolved("C09.unloaded", "membership primitive called by Matches")
		return
	}
	n := 0
	for _, ret := range returnsOf(prim) {
		v, isK := constBool(ret.Results[0])
		if !isK {
			continue
		}
		// which early exit is this?  look at the conditions that select it
		nilEdge, emptyEdge := false, false
		for _, cd := range MustCondsAtBlock(prim, ret.Block()) {
			bo, truth, isB := condBinOp(cd)
			if !isB {
				continue
			}
			eq := (bo.Op == token.EQL) == truth
			if (isNilConst(bo.X) || isNilConst(bo.Y)) && eq && (bo.Op == token.EQL || bo.Op == token.NEQ) {
				nilEdge = true
			}
			if k, isC := constInt(bo.Y); isC && k == 0 && eq && (bo.Op == token.EQL || bo.Op == token.NEQ) {
				if c, isCall := bo.X.(*ssa.Call); isCall && isBuiltin(&c.Call, "len") {
					emptyEdge = true
				}
			}
		}
		switch {
		case nilEdge && !emptyEdge:
			n++
			r.Add("C09.unloaded", FnName(prim), "an unloaded filter matches nothing", ret.Pos(), !v, "constant verdict on the message == nil edge")
		case emptyEdge:
			n++
			r.Add("C09.unloaded", FnName(prim), "a loaded filter with an empty bit array matches everything (insertion into it is a no-op)", ret.Pos(), v, "constant verdict on the len(filter) == 0 edge")
		}
	}
	if n == 0 {
		r.Unresolved("C09.unloaded", "constant verdicts of the membership primitive")
	}
}

package main

import (
	"go/token"
	"go/types"

	"golang.org/x/tools/go/ssa"
)

// Must-pass-through facts (DESIGN §2.2).
//
// An accept point is a place where a function returns without reporting an
// error (or returns whatever a callee returned).  A branch condition (If c,
// truth) is a *must fact* of an accept point if every path from the function
// entry to the accept point takes that edge, decided by CFG reachability with
// the edge removed.  For conditions over values whose definition dominates the
// If this implies the condition held, with that truth value, the last time it
// was evaluated before the accept point (see DESIGN §2.2).

type AcceptPoint struct {
	Ret      *ssa.Return
	Block    *ssa.BasicBlock
	Pred     *ssa.BasicBlock // non-nil: only the φ-edge from Pred accepts
	Delegate *ssa.Call       // non-nil: the error result is a callee's
}

// acceptPoints lists the returns of fn whose error result may be nil.  For
// functions without an error result every return is an accept point.
func acceptPoints(fn *ssa.Function) []AcceptPoint {
	ei := errResultIndex(fn)
	var out []AcceptPoint
	for _, ret := range returnsOf(fn) {
		b := ret.Block()
		if ei < 0 || ei >= len(ret.Results) {
			out = append(out, AcceptPoint{Ret: ret, Block: b})
			continue
		}
		e := ret.Results[ei]
		if isErrorValue(e) || knownNonNil(b, e) {
			continue
		}
		switch x := e.(type) {
		case *ssa.Const:
			if x.Value == nil {
				out = append(out, AcceptPoint{Ret: ret, Block: b})
			}
		case *ssa.Phi:
			if x.Block() == b {
				for i, ed := range x.Edges {
					if c, ok := ed.(*ssa.Const); ok && c.Value != nil {
						continue
					}
					if isErrorValue(ed) {
						continue
					}
					out = append(out, AcceptPoint{Ret: ret, Block: b, Pred: b.Preds[i]})
				}
			} else {
				out = append(out, AcceptPoint{Ret: ret, Block: b})
			}
		case *ssa.Extract:
			if call, ok := x.Tuple.(*ssa.Call); ok {
				out = append(out, AcceptPoint{Ret: ret, Block: b, Delegate: call})
			} else {
				out = append(out, AcceptPoint{Ret: ret, Block: b})
			}
		case *ssa.Call:
			out = append(out, AcceptPoint{Ret: ret, Block: b, Delegate: x})
		default:
			if isErrorValue(e) {
				continue
			}
			out = append(out, AcceptPoint{Ret: ret, Block: b})
		}
	}
	return out
}

// isErrorValue: the value is certainly a non-nil error (a load of a
// package-level error variable that is initialised once, a fresh error from
// errors.New / fmt.Errorf, or a MakeInterface).
var errorBuilderDepth int

func isErrorValue(v ssa.Value) bool {
	switch x := v.(type) {
	case *ssa.MakeInterface:
		return true
	case *ssa.Call:
		if staticCalleeIs(&x.Call, "errors.New", "fmt.Errorf") {
			return true
		}
		// a function with source whose single result is an error and whose every return yields a definite error
		// (an error-building helper)
		if cal := x.Call.StaticCallee(); cal != nil && len(cal.Blocks) > 0 && cal.Signature.Results().Len() == 1 && errorBuilderDepth < 3 {
			if types.Identical(cal.Signature.Results().At(0).Type(), types.Universe.Lookup("error").Type()) {
				errorBuilderDepth++
				defer func() { errorBuilderDepth-- }()
				rets := returnsOf(cal)
				if len(rets) == 0 {
					return false
				}
				for _, ret := range rets {
					if !isErrorValue(ret.Results[0]) {
						return false
					}
				}
				return true
			}
		}
		return false
	case *ssa.UnOp:
		if g, ok := x.X.(*ssa.Global); ok {
			// package-level Err… variable
			if types.Identical(derefType(g.Type()), types.Universe.Lookup("error").Type()) {
				return true
			}
		}
	}
	return false
}

// reachesAvoidingEdge: is the accept point reachable from entry when edge
// from->to is removed?
//
// The walk threads jumps through merge blocks: when block b is entered from predecessor p and b ends in a branch on a
// φ of b (a boolean φ, or a φ compared with nil) whose operand on the edge p→b is a constant (true / false / nil) or a
// definite error value, only the successor that operand selects is followed.  `v, err := helper(x); if err != nil
// { return }` with the helper expanded in place, and (value, ok) helpers, merge their exits into such a φ; without
// threading every fact established inside the helper is lost at the merge.  Dropping paths that cannot execute
// keeps the "must" facts true.
func reachesAvoidingEdge(fn *ssa.Function, ap AcceptPoint, from, to *ssa.BasicBlock) bool {
	type arrival struct{ b, p *ssa.BasicBlock }
	seen := map[arrival]bool{}
	stack := []arrival{{fn.Blocks[0], nil}}
	for len(stack) > 0 {
		a := stack[len(stack)-1]
		stack = stack[:len(stack)-1]
		if seen[a] {
			continue
		}
		seen[a] = true
		b := a.b
		if ap.Pred == nil && b == ap.Block {
			return true
		}
		only := threadedSucc(b, a.p)
		for _, s := range b.Succs {
			if only != nil && s != only {
				continue
			}
			if b == from && s == to {
				continue
			}
			if ap.Pred != nil && b == ap.Pred && s == ap.Block {
				return true
			}
			stack = append(stack, arrival{s, b})
		}
	}
	return false
}

// threadedSucc: the one successor of b that can be taken when b was entered from p, or nil when both can.
func threadedSucc(b, p *ssa.BasicBlock) *ssa.BasicBlock {
	if p == nil || len(b.Succs) != 2 || b.Succs[0] == b.Succs[1] {
		return nil
	}
	iff, ok := lastInstr(b).(*ssa.If)
	if !ok {
		return nil
	}
	pi := -1
	for i, q := range b.Preds {
		if q == p {
			if pi >= 0 {
				return nil // two edges from the same predecessor
			}
			pi = i
		}
	}
	if pi < 0 {
		return nil
	}
	v, neg := iff.Cond, false
	for {
		if u, ok := v.(*ssa.UnOp); ok && u.Op == token.NOT {
			v, neg = u.X, !neg
			continue
		}
		break
	}
	known, truth := false, false
	switch x := v.(type) {
	case *ssa.Phi:
		if x.Block() == b && pi < len(x.Edges) {
			if bv, isB := constBool(x.Edges[pi]); isB {
				known, truth = true, bv
			}
		}
	case *ssa.BinOp:
		if x.Op != token.EQL && x.Op != token.NEQ {
			return nil
		}
		var ph *ssa.Phi
		if isNilConst(x.Y) {
			ph, _ = x.X.(*ssa.Phi)
		} else if isNilConst(x.X) {
			ph, _ = x.Y.(*ssa.Phi)
		}
		if ph == nil || ph.Block() != b || pi >= len(ph.Edges) {
			return nil
		}
		e := ph.Edges[pi]
		switch {
		case isNilConst(e):
			known, truth = true, x.Op == token.EQL
		case isErrorValue(e), knownNonNil(p, e):
			known, truth = true, x.Op == token.NEQ
		}
	}
	if !known {
		return nil
	}
	if truth != neg {
		return b.Succs[0]
	}
	return b.Succs[1]
}

// MustConds returns every branch condition that all paths to ap satisfy.
func MustConds(fn *ssa.Function, ap AcceptPoint) []Cond {
	var out []Cond
	for _, b := range fn.Blocks {
		iff, ok := lastInstr(b).(*ssa.If)
		if !ok || b.Succs[0] == b.Succs[1] {
			continue
		}
		for k := 0; k < 2; k++ {
			if !reachesAvoidingEdge(fn, ap, b, b.Succs[k]) {
				// sound only if the condition's operands are defined where they dominate the If
				out = append(out, Cond{iff.Cond, k == 0, b})
			}
		}
	}
	// consequences of short-circuit values used as conditions
	n := len(out)
	for i := 0; i < n; i++ {
		out = append(out, impliedByBoolPhi(out[i], 0)...)
	}
	return out
}

// impliedByBoolPhi: a condition that is itself a φ of short-circuit evaluation — `a && b` lowered to
// φ[false, b], `a || b` to φ[true, b] when the expression is used as a value (a tagless switch case, an
// assignment) — implies, when only one incoming edge can produce the known truth value, the value on
// that edge and every branch condition needed to reach that edge from the φ's dominator.
func impliedByBoolPhi(cd Cond, depth int) []Cond {
	ph, ok := cd.V.(*ssa.Phi)
	if !ok || depth > 4 {
		return nil
	}
	var surv []int
	for i, e := range ph.Edges {
		if bv, isB := constBool(e); isB && bv != cd.Truth {
			continue
		}
		surv = append(surv, i)
	}
	if len(surv) != 1 {
		return nil
	}
	i := surv[0]
	var out []Cond
	pred := ph.Block().Preds[i]
	if _, isC := ph.Edges[i].(*ssa.Const); !isC {
		c := Cond{ph.Edges[i], cd.Truth, pred}
		out = append(out, c)
		out = append(out, impliedByBoolPhi(c, depth+1)...)
	}
	outer := map[ssa.Value]bool{}
	if id := ph.Block().Idom(); id != nil {
		for _, c := range DomConds(id) {
			outer[c.V] = true
		}
	}
	for _, c := range DomConds(pred) {
		if !outer[c.V] {
			out = append(out, c)
			out = append(out, impliedByBoolPhi(c, depth+1)...)
		}
	}
	if ec, ok := edgeCond(pred, ph.Block()); ok {
		out = append(out, ec)
	}
	return out
}

// MustCondsAtBlock: conditions all paths from entry to block b satisfy.
func MustCondsAtBlock(fn *ssa.Function, b *ssa.BasicBlock) []Cond {
	return MustConds(fn, AcceptPoint{Block: b})
}

// FactsOf turns conditions into linear facts.
func (c *LinCtx) FactsOf(conds []Cond) *Facts {
	f := &Facts{}
	for _, cd := range conds {
		c.CondFacts(cd.V, cd.Truth, f, nil)
	}
	return f
}

// Entails: the facts (plus intrinsic facts of the atoms involved) imply goal ≤ 0.
func (c *LinCtx) Entails(f *Facts, goal Lin) bool {
	all := append([]Lin(nil), f.le...)
	all = append(all, c.Intrinsic(append(append([]Lin(nil), all...), goal), nil)...)
	if entails(all, goal) {
		return true
	}
	if len(f.ne) > 0 {
		all = strengthen(all, f.ne)
		return entails(all, goal)
	}
	return false
}

// EntailsEq: facts imply l == 0.
func (c *LinCtx) EntailsEq(f *Facts, l Lin) bool {
	return c.Entails(f, l) && c.Entails(f, l.scale(-1))
}

// knownNonNil: block b is only reached through the passing edge of `e != nil`.
func knownNonNil(b *ssa.BasicBlock, e ssa.Value) bool {
	for _, c := range DomConds(b) {
		bo, truth, ok := condBinOp(c)
		if !ok {
			continue
		}
		if !(bo.Op == token.NEQ && truth || bo.Op == token.EQL && !truth) {
			continue
		}
		if (bo.X == e && isNilConst(bo.Y)) || (bo.Y == e && isNilConst(bo.X)) {
			return true
		}
	}
	return false
}

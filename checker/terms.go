package main

import (
	"fmt"
	"go/token"
	"go/types"
	"sort"
	"strings"

	"golang.org/x/tools/go/ssa"
)

// Canonical terms (DESIGN §2.4): an SSA value as an expression tree over
// parameters, receiver fields, constants and calls, with value-preserving
// conversions elided, commutative operators sorted, single-expression in-repo
// callees inlined.  Two terms are compared up to a consistent renaming of
// struct fields and opaque leaves, so sibling implementations over different
// struct types can be compared.

type Term struct {
	Op    string
	Args  []*Term
	Leaf  string     // constants, parameters
	Field *types.Var // "fld" nodes
	Val   ssa.Value  // opaque leaves
}

func (t *Term) String() string {
	if t == nil {
		return "?"
	}
	switch t.Op {
	case "leaf":
		return t.Leaf
	case "opaque":
		return "⟨" + exprString(t.Val) + "⟩"
	case "fld":
		return t.Args[0].String() + "." + t.Field.Name()
	}
	var as []string
	for _, a := range t.Args {
		as = append(as, a.String())
	}
	return t.Op + "(" + strings.Join(as, ",") + ")"
}

// shape renders the term with fields and opaque leaves anonymised (used as a sort key).
func (t *Term) shape() string {
	switch t.Op {
	case "leaf":
		return t.Leaf
	case "opaque":
		return "⟨⟩"
	case "fld":
		return t.Args[0].shape() + ".·"
	}
	var as []string
	for _, a := range t.Args {
		as = append(as, a.shape())
	}
	return t.Op + "(" + strings.Join(as, ",") + ")"
}

type termEnv struct {
	params map[*ssa.Parameter]*Term
}

type TermBuilder struct {
	p     *Program
	fn    *ssa.Function
	lc    *LinCtx
	depth int
	// Inline controls whether single-return in-repo callees are inlined.
	Inline bool
}

func NewTermBuilder(p *Program, fn *ssa.Function) *TermBuilder {
	return &TermBuilder{p: p, fn: fn, lc: NewLinCtx(p, fn), Inline: true}
}

func leaf(s string) *Term { return &Term{Op: "leaf", Leaf: s} }

func (tb *TermBuilder) Term(v ssa.Value) *Term { return tb.term(v, nil, 0) }

func (tb *TermBuilder) term(v ssa.Value, env *termEnv, d int) *Term {
	if d > 24 {
		return &Term{Op: "opaque", Val: v}
	}
	switch x := v.(type) {
	case *ssa.Const:
		if x.Value == nil {
			return leaf("nil")
		}
		return leaf("#" + x.Value.ExactString())
	case *ssa.Parameter:
		if env != nil {
			if t, ok := env.params[x]; ok {
				return t
			}
		}
		fn := x.Parent()
		i := paramIndex(fn, x)
		if fn.Signature.Recv() != nil {
			if i == 0 {
				return leaf("R")
			}
			i--
		}
		return leaf(fmt.Sprintf("P%d", i))
	case *ssa.Global:
		return leaf("G:" + x.Name())
	case *ssa.ChangeType:
		return tb.term(x.X, env, d+1)
	case *ssa.MakeInterface:
		return tb.term(x.X, env, d+1)
	case *ssa.Convert:
		_, toInt := intBasic(x.Type())
		_, fromInt := intBasic(x.X.Type())
		if toInt && fromInt {
			sb, tbits := tb.lc.bitsOf(x.X.Type()), tb.lc.bitsOf(x.Type())
			if tbits >= sb {
				return tb.term(x.X, env, d+1) // widening / same width: elided
			}
			return &Term{Op: fmt.Sprintf("nar%d", tbits), Args: []*Term{tb.term(x.X, env, d+1)}}
		}
		return &Term{Op: "conv:" + shortType(x.Type()), Args: []*Term{tb.term(x.X, env, d+1)}}
	case *ssa.UnOp:
		if x.Op == token.MUL {
			switch a := x.X.(type) {
			case *ssa.FieldAddr:
				return &Term{Op: "fld", Field: fieldOfAddr(a), Args: []*Term{tb.term(a.X, env, d+1)}}
			case *ssa.IndexAddr:
				return &Term{Op: "elem", Args: []*Term{tb.term(a.X, env, d+1), tb.term(a.Index, env, d+1)}}
			case *ssa.Global:
				return leaf("G:" + a.Name())
			case *ssa.Alloc:
				if w := singleStore(a); w != nil {
					return tb.term(w, env, d+1)
				}
			}
			return &Term{Op: "opaque", Val: v}
		}
		return &Term{Op: "un" + x.Op.String(), Args: []*Term{tb.term(x.X, env, d+1)}}
	case *ssa.FieldAddr:
		return &Term{Op: "addr", Args: []*Term{{Op: "fld", Field: fieldOfAddr(x), Args: []*Term{tb.term(x.X, env, d+1)}}}}
	case *ssa.Field:
		return &Term{Op: "fld", Field: fieldOfVal(x), Args: []*Term{tb.term(x.X, env, d+1)}}
	case *ssa.Index:
		return &Term{Op: "elem", Args: []*Term{tb.term(x.X, env, d+1), tb.term(x.Index, env, d+1)}}
	case *ssa.Lookup:
		return &Term{Op: "elem", Args: []*Term{tb.term(x.X, env, d+1), tb.term(x.Index, env, d+1)}}
	case *ssa.Slice:
		lo, hi := leaf("_"), leaf("_")
		if x.Low != nil {
			lo = tb.term(x.Low, env, d+1)
		}
		if x.High != nil {
			hi = tb.term(x.High, env, d+1)
		}
		return &Term{Op: "slice", Args: []*Term{tb.term(x.X, env, d+1), lo, hi}}
	case *ssa.BinOp:
		a, b := tb.term(x.X, env, d+1), tb.term(x.Y, env, d+1)
		op := x.Op
		// normalise comparisons: > and >= become < and <= with swapped operands
		switch op {
		case token.GTR:
			op, a, b = token.LSS, b, a
		case token.GEQ:
			op, a, b = token.LEQ, b, a
		}
		// unsigned power-of-two forms: x>>k = x/2^k, x&(2^k−1) = x%2^k, x<<k = x·2^k
		if isUnsignedT(x.Type()) || isUnsignedT(x.X.Type()) {
			kx, okx := constInt(x.X)
			ky, oky := constInt(x.Y)
			switch {
			case op == token.SHR && oky && ky >= 0 && ky < 62:
				op, b = token.QUO, leaf(fmt.Sprintf("#%d", int64(1)<<uint(ky)))
			case op == token.SHL && oky && ky >= 0 && ky < 62:
				op, b = token.MUL, leaf(fmt.Sprintf("#%d", int64(1)<<uint(ky)))
			case op == token.AND && oky && ky > 0 && (ky&(ky+1)) == 0:
				op, b = token.REM, leaf(fmt.Sprintf("#%d", ky+1))
			case op == token.AND && okx && kx > 0 && (kx&(kx+1)) == 0:
				op, a, b = token.REM, b, leaf(fmt.Sprintf("#%d", kx+1))
			}
		}
		args := []*Term{a, b}
		switch op {
		case token.ADD, token.MUL, token.AND, token.OR, token.XOR, token.EQL, token.NEQ:
			args = flattenSort(op.String(), args)
		}
		return &Term{Op: op.String(), Args: args}
	case *ssa.Phi:
		// induction variable: φ(init, φ+step)
		if len(x.Edges) == 2 {
			for i := 0; i < 2; i++ {
				if bo, ok := x.Edges[1-i].(*ssa.BinOp); ok && (bo.Op == token.ADD || bo.Op == token.SUB) && bo.X == ssa.Value(x) {
					if _, isK := constInt(bo.Y); isK {
						st := tb.term(bo.Y, env, d+1)
						if bo.Op == token.SUB {
							st = &Term{Op: "un-", Args: []*Term{st}}
						}
						return &Term{Op: "ind", Args: []*Term{tb.term(x.Edges[i], env, d+1), st}}
					}
				}
			}
			// go/ssa range lowering φ(-1, φ+1): the index value is φ+1
		}
		return &Term{Op: "opaque", Val: v}
	case *ssa.Extract:
		return &Term{Op: fmt.Sprintf("ex%d", x.Index), Args: []*Term{tb.term(x.Tuple, env, d+1)}}
	case *ssa.Call:
		com := &x.Call
		if b, ok := com.Value.(*ssa.Builtin); ok {
			var as []*Term
			for _, a := range com.Args {
				as = append(as, tb.term(a, env, d+1))
			}
			return &Term{Op: b.Name(), Args: as}
		}
		cal := com.StaticCallee()
		if cal != nil && tb.Inline && tb.p.InRepo(cal) && len(cal.Blocks) == 1 && cal != tb.fn && d < 12 {
			if ret, ok := lastInstr(cal.Blocks[0]).(*ssa.Return); ok && len(ret.Results) == 1 {
				nenv := &termEnv{params: map[*ssa.Parameter]*Term{}}
				for i, pa := range cal.Params {
					if i < len(com.Args) {
						nenv.params[pa] = tb.term(com.Args[i], env, d+1)
					}
				}
				return tb.term(ret.Results[0], nenv, d+1)
			}
		}
		var as []*Term
		args := com.Args
		if com.IsInvoke() {
			as = append(as, tb.term(com.Value, env, d+1))
		}
		for _, a := range args {
			as = append(as, tb.term(a, env, d+1))
		}
		name := "dyn"
		if cal != nil {
			name = cal.String()
			if cal == tb.fn {
				name = "self"
			} else if tb.p.InRepo(cal) {
				name = "repo:" + cal.Name()
			}
		} else if com.IsInvoke() {
			name = "invoke:" + com.Method.Name()
		}
		return &Term{Op: "call:" + name, Args: as}
	}
	return &Term{Op: "opaque", Val: v}
}

func flattenSort(op string, args []*Term) []*Term {
	var flat []*Term
	for _, a := range args {
		if a.Op == op {
			flat = append(flat, a.Args...)
		} else {
			flat = append(flat, a)
		}
	}
	sort.SliceStable(flat, func(i, j int) bool { return flat[i].shape() < flat[j].shape() })
	return flat
}

// termUnify compares two terms up to a consistent bijection between the struct
// fields (and opaque leaves) of the two sides.
type termUnifier struct {
	f1, f2 map[*types.Var]*types.Var
	o1, o2 map[ssa.Value]ssa.Value
}

func newUnifier() *termUnifier {
	return &termUnifier{f1: map[*types.Var]*types.Var{}, f2: map[*types.Var]*types.Var{}, o1: map[ssa.Value]ssa.Value{}, o2: map[ssa.Value]ssa.Value{}}
}

func (u *termUnifier) equal(a, b *Term) bool {
	if a == nil || b == nil {
		return a == b
	}
	if a.Op != b.Op {
		// calls of sibling in-repo helpers are compared by name elsewhere
		return false
	}
	switch a.Op {
	case "leaf":
		return a.Leaf == b.Leaf
	case "opaque":
		if m, ok := u.o1[a.Val]; ok {
			return m == b.Val
		}
		if _, ok := u.o2[b.Val]; ok {
			return false
		}
		u.o1[a.Val], u.o2[b.Val] = b.Val, a.Val
		return true
	case "fld":
		if m, ok := u.f1[a.Field]; ok {
			if m != b.Field {
				return false
			}
		} else {
			if _, ok := u.f2[b.Field]; ok {
				return false
			}
			if !types.Identical(a.Field.Type(), b.Field.Type()) {
				return false
			}
			u.f1[a.Field], u.f2[b.Field] = b.Field, a.Field
		}
	}
	if len(a.Args) != len(b.Args) {
		return false
	}
	for i := range a.Args {
		if !u.equal(a.Args[i], b.Args[i]) {
			return false
		}
	}
	return true
}

// sameTerm: equality under a fresh unifier.
func sameTerm(a, b *Term) bool { return newUnifier().equal(a, b) }

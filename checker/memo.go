package main

import (
	"fmt"
	"go/token"
	"go/types"
	"sort"
	"strings"

	"golang.org/x/tools/go/ssa"
)

// Memo coherence (shared by C01, C06, C12, C14, C15, C16).
//
// A field M of a struct type T is a *memo* when some function stores a computed (non-zero,
// non-constant) value into M of an object it did not itself allocate — a lazily filled cache.
// What the memo was computed from is over-approximated by deps(M): every other field of the same
// object that the computing function (or an in-package callee handed the same object) reads.
// The rule: whoever changes a dependency must refresh or drop the memo in the same breath —
//
//	(a) no dependency is an exported field (callers could change it behind the memo's back);
//	(b) every store to a dependency on an existing object is accompanied, on every path through
//	    it (in the storing function, or around every call of it), by a store to M.
//
// A violated instance means some history (fill the memo, change the dependency, read again)
// returns a stale value; which property that breaks is the caller's business.  Counters that a
// function updates from their own previous value are memos too (deps include themselves); they
// are handled by the property's own pairing rule and are skipped here via the `skip` set.

type memoField struct {
	field   *types.Var
	writers []*ssa.Function // lazily computing writers
	deps    map[*types.Var]bool
}

func structFieldsOf(t types.Type) *types.Struct {
	if d := derefType(t); d != nil {
		if st, ok := d.Underlying().(*types.Struct); ok {
			return st
		}
	}
	st, _ := t.Underlying().(*types.Struct)
	return st
}

// objectParam: the parameter of fn (receiver or not) through which v, the base of a field access, is reached.
func baseIsParamOfType(base ssa.Value, named *types.Named) bool {
	if _, ok := base.(*ssa.Parameter); !ok {
		return false
	}
	if d := derefType(base.Type()); d != nil && types.Identical(d, named) {
		return true
	}
	return types.Identical(base.Type(), named)
}

func isZeroValue(v ssa.Value) bool {
	c, ok := v.(*ssa.Const)
	if !ok {
		return false
	}
	if c.Value == nil {
		return true
	}
	if k, ok := constInt(c); ok && k == 0 {
		return true
	}
	if b, ok := constBool(c); ok && !b {
		return true
	}
	return c.Value.String() == `""`
}

// memoFieldsOf finds the memo fields of the named struct type and their dependencies.
func memoFieldsOf(p *Program, rel string, named *types.Named) []*memoField {
	st := structFieldsOf(named)
	if st == nil {
		return nil
	}
	funcs := pkgFuncs(p, rel)
	byField := map[*types.Var]*memoField{}
	readsOf := func(fn *ssa.Function, base ssa.Value) map[*types.Var]bool {
		out := map[*types.Var]bool{}
		seen := map[*ssa.Function]bool{}
		var walk func(fn *ssa.Function, base ssa.Value, depth int)
		walk = func(fn *ssa.Function, base ssa.Value, depth int) {
			if seen[fn] || depth > 3 {
				return
			}
			seen[fn] = true
			for _, b := range fn.Blocks {
				for _, in := range b.Instrs {
					switch x := in.(type) {
					case *ssa.FieldAddr:
						if canonRoot(x.X) != base {
							continue
						}
						for _, ref := range *x.Referrers() {
							if _, isLoad := ref.(*ssa.UnOp); isLoad {
								out[fieldOfAddr(x)] = true
							}
							if _, isIdx := ref.(*ssa.IndexAddr); isIdx {
								out[fieldOfAddr(x)] = true
							}
							if _, isSl := ref.(*ssa.Slice); isSl {
								out[fieldOfAddr(x)] = true
							}
						}
					case *ssa.Field:
						if canonRoot(x.X) == base {
							out[fieldOfVal(x)] = true
						}
					case ssa.CallInstruction:
						cal := x.Common().StaticCallee()
						if cal == nil || !p.InRepo(cal) || len(cal.Blocks) == 0 {
							continue
						}
						for i, a := range x.Common().Args {
							if canonRoot(a) == base && i < len(cal.Params) {
								walk(cal, cal.Params[i], depth+1)
							}
						}
					}
				}
			}
		}
		walk(fn, base, 0)
		return out
	}
	for _, fn := range funcs {
		for _, b := range fn.Blocks {
			for _, in := range b.Instrs {
				st2, ok := in.(*ssa.Store)
				if !ok {
					continue
				}
				fa, ok := st2.Addr.(*ssa.FieldAddr)
				if !ok {
					continue
				}
				base := canonRoot(fa.X)
				if !baseIsParamOfType(base, named) {
					continue
				}
				if isZeroValue(st2.Val) {
					continue
				}
				// a setter that stores its own parameter, or a flag set to a constant, is not a memo
				if _, isParam := stripChange(st2.Val).(*ssa.Parameter); isParam {
					continue
				}
				if _, isConst := st2.Val.(*ssa.Const); isConst {
					continue
				}
				f := fieldOfAddr(fa)
				mf := byField[f]
				if mf == nil {
					mf = &memoField{field: f, deps: map[*types.Var]bool{}}
					byField[f] = mf
				}
				dup := false
				for _, w := range mf.writers {
					if w == fn {
						dup = true
					}
				}
				if !dup {
					mf.writers = append(mf.writers, fn)
				}
				for d := range memoDeps(p, fn, st2, base, f, readsOf) {
					if d != f {
						mf.deps[d] = true
					}
				}
			}
		}
	}
	var out []*memoField
	for i := 0; i < st.NumFields(); i++ {
		if mf := byField[st.Field(i)]; mf != nil {
			out = append(out, mf)
		}
	}
	return out
}

// memoDeps: the fields of base the value stored by st depends on — by data flow (operands of the
// stored value, including everything an in-package callee handed the same object reads), and by
// control where a branch on a field of base chooses between two different stores to the memo
// (a branch that merely decides whether to fill the memo at all is not a dependency).
func memoDeps(p *Program, fn *ssa.Function, st *ssa.Store, base ssa.Value, f *types.Var, readsOf func(*ssa.Function, ssa.Value) map[*types.Var]bool) map[*types.Var]bool {
	out := map[*types.Var]bool{}
	seen := map[ssa.Value]bool{}
	var walk func(v ssa.Value, d int)
	walk = func(v ssa.Value, d int) {
		if v == nil || seen[v] || d > 12 {
			return
		}
		seen[v] = true
		if fld, b, ok := fieldLoad(v); ok && b == base {
			out[fld] = true
		}
		switch x := v.(type) {
		case *ssa.Call:
			cal := x.Call.StaticCallee()
			if cal != nil && p.InRepo(cal) && len(cal.Blocks) > 0 {
				for i, a := range x.Call.Args {
					if canonRoot(a) == base && i < len(cal.Params) {
						for fld := range readsOf(cal, cal.Params[i]) {
							out[fld] = true
						}
					}
				}
			}
			for _, a := range x.Call.Args {
				walk(a, d+1)
			}
			if x.Call.IsInvoke() {
				walk(x.Call.Value, d+1)
			}
		case *ssa.Alloc:
			// a local filled in by stores: follow what is stored into it
			for _, ref := range *x.Referrers() {
				if s2, ok := ref.(*ssa.Store); ok && s2.Addr == ssa.Value(x) {
					walk(s2.Val, d+1)
				}
			}
		case ssa.Instruction:
			for _, op := range x.Operands(nil) {
				if op != nil && *op != nil {
					walk(*op, d+1)
				}
			}
		}
	}
	walk(st.Val, 0)
	// control: branches on fields of base that separate two different stores to the memo
	var stores []*ssa.Store
	for _, b := range fn.Blocks {
		for _, in := range b.Instrs {
			if s2, ok := in.(*ssa.Store); ok {
				if fa, ok := s2.Addr.(*ssa.FieldAddr); ok && fieldOfAddr(fa) == f && canonRoot(fa.X) == base && !isZeroValue(s2.Val) {
					stores = append(stores, s2)
				}
			}
		}
	}
	if len(stores) > 1 {
		for _, b := range fn.Blocks {
			iff, ok := lastInstr(b).(*ssa.If)
			if !ok {
				continue
			}
			reach := func(from *ssa.BasicBlock) string {
				r := reachableFrom(from, map[*ssa.BasicBlock]bool{b: true})
				k := ""
				for i, s2 := range stores {
					if r[s2.Block()] {
						k += fmt.Sprint(i, ",")
					}
				}
				return k
			}
			a, c := reach(b.Succs[0]), reach(b.Succs[1])
			if a == "" || c == "" || a == c {
				continue
			}
			cs := map[ssa.Value]bool{}
			var cw func(v ssa.Value, d int)
			cw = func(v ssa.Value, d int) {
				if v == nil || cs[v] || d > 8 {
					return
				}
				cs[v] = true
				if fld, bb, ok := fieldLoad(v); ok && bb == base {
					out[fld] = true
				}
				if in, ok := v.(ssa.Instruction); ok {
					for _, op := range in.Operands(nil) {
						if op != nil && *op != nil {
							cw(*op, d+1)
						}
					}
				}
			}
			cw(iff.Cond, 0)
		}
	}
	return out
}

// memoCoherence adds the obligations for one type; returns the number of memo fields found.
func memoCoherence(p *Program, r *Report, rule, rel, typeName string, skip map[string]bool) int {
	pk := p.TPkg(rel)
	if pk == nil {
		r.Unresolved(rule, "package of type "+typeName)
		return 0
	}
	tn, _ := pk.Types.Scope().Lookup(typeName).(*types.TypeName)
	if tn == nil {
		r.Unresolved(rule, "type "+typeName)
		return 0
	}
	named, _ := tn.Type().(*types.Named)
	if named == nil || structFieldsOf(named) == nil {
		r.Unresolved(rule, "struct type "+typeName)
		return 0
	}
	funcs := pkgFuncs(p, rel)
	memos := memoFieldsOf(p, rel, named)
	n := 0
	for _, mf := range memos {
		if skip[mf.field.Name()] {
			continue
		}
		n++
		var depNames []string
		for d := range mf.deps {
			depNames = append(depNames, d.Name())
		}
		sort.Strings(depNames)
		var wn []string
		for _, w := range mf.writers {
			wn = append(wn, FnName(w))
		}
		sort.Strings(wn)
		desc := fmt.Sprintf("memo %s.%s (filled by %s from {%s})", typeName, mf.field.Name(), strings.Join(wn, ", "), strings.Join(depNames, ", "))
		// (a) exported dependencies
		for d := range mf.deps {
			if d.Exported() && tn.Exported() {
				r.Add(rule, typeName, desc+": dependency "+d.Name()+" cannot change behind the memo's back", mf.field.Pos(), false,
					"field "+d.Name()+" is exported: any caller can change it after the memo was filled")
			}
		}
		// (b) every store to a dependency refreshes or drops the memo
		for _, fn := range funcs {
			for _, b := range fn.Blocks {
				for _, in := range b.Instrs {
					st2, ok := in.(*ssa.Store)
					if !ok {
						continue
					}
					fa, ok := st2.Addr.(*ssa.FieldAddr)
					if !ok || !mf.deps[fieldOfAddr(fa)] {
						continue
					}
					base := canonRoot(fa.X)
					if !baseIsParamOfType(base, named) {
						continue
					}
					ok2, how := memoWrittenAround(funcs, fn, st2, base, mf.field, 2)
					r.Add(rule, FnName(fn), desc+": stays in step when "+fieldOfAddr(fa).Name()+" is assigned", st2.Pos(), ok2, how)
				}
			}
		}
		// a memo without any obligation still counts as analysed
		r.Analysed(typeName + "." + mf.field.Name())
	}
	return n
}

// memoWrittenAround: field f of base is stored on every path through instruction at in fn, or around every call of fn.
func memoWrittenAround(funcs []*ssa.Function, fn *ssa.Function, at ssa.Instruction, base ssa.Value, f *types.Var, depth int) (bool, string) {
	pd := postDominators(fn)
	for _, b := range fn.Blocks {
		for _, in := range b.Instrs {
			s2, ok := in.(*ssa.Store)
			if !ok {
				continue
			}
			fa, ok := s2.Addr.(*ssa.FieldAddr)
			if !ok || fieldOfAddr(fa) != f || canonRoot(fa.X) != base {
				continue
			}
			if b == at.Block() || b.Dominates(at.Block()) || pd[at.Block()][b] {
				return true, f.Name() + " is written on every path through the assignment in " + FnName(fn)
			}
		}
		// wiped in place: the memo's buffer is handed to an in-package function that overwrites its elements
		for _, in := range b.Instrs {
			c, ok := in.(*ssa.Call)
			if !ok || c.Call.StaticCallee() == nil || len(c.Call.StaticCallee().Blocks) == 0 {
				continue
			}
			for i, a := range c.Call.Args {
				if fld, bb, ok := fieldLoad(a); ok && fld == f && bb == base && i < len(c.Call.StaticCallee().Params) && writesElementsOf(c.Call.StaticCallee(), c.Call.StaticCallee().Params[i]) {
					if b == at.Block() || b.Dominates(at.Block()) || pd[at.Block()][b] {
						return true, f.Name() + " is wiped in place by " + FnName(c.Call.StaticCallee()) + " on every path through the assignment"
					}
				}
			}
		}
	}
	if depth == 0 {
		return false, f.Name() + " is not written in " + FnName(fn)
	}
	pi := -1
	for i, prm := range fn.Params {
		if ssa.Value(prm) == base {
			pi = i
		}
	}
	if pi < 0 || (fn.Object() != nil && fn.Object().Exported()) {
		return false, f.Name() + " is not refreshed or dropped when " + FnName(fn) + " changes what it was computed from"
	}
	callers := 0
	for _, cf := range funcs {
		for _, b := range cf.Blocks {
			for _, in := range b.Instrs {
				c, ok := in.(ssa.CallInstruction)
				if !ok || c.Common().StaticCallee() != fn {
					continue
				}
				callers++
				if ok2, why := memoWrittenAround(funcs, cf, c, canonRoot(c.Common().Args[pi]), f, depth-1); !ok2 {
					return false, why
				}
			}
		}
	}
	if callers == 0 {
		return false, f.Name() + " is not written on the path through " + FnName(fn)
	}
	return true, f.Name() + " is written around every call of " + FnName(fn)
}

var _ = token.NoPos

// writesElementsOf: fn stores into elements of its slice parameter prm in a loop over all of it.
func writesElementsOf(fn *ssa.Function, prm *ssa.Parameter) bool {
	for _, b := range fn.Blocks {
		for _, in := range b.Instrs {
			if st, ok := in.(*ssa.Store); ok {
				if ia, ok := st.Addr.(*ssa.IndexAddr); ok && ia.X == ssa.Value(prm) {
					return true
				}
			}
			if c, ok := in.(*ssa.Call); ok && isBuiltin(&c.Call, "clear") && c.Call.Args[0] == ssa.Value(prm) {
				return true
			}
		}
	}
	return false
}

package main

import (
	"fmt"
	"go/token"
	"go/types"
	"sort"
	"strings"

	"golang.org/x/tools/go/ssa"
)

func init() { register("C11", checkC11) }

// travInfo describes a recursive tree traversal structurally.
type travInfo struct {
	fn        *ssa.Function
	tb        *TermBuilder
	selfCalls []*ssa.Call
	dups      []*ssa.Call // repeated calls with the same arguments as an earlier one
	callArgs  [][]*Term   // per self call, the non-receiver argument terms
	guard     *Term       // condition guarding the second call (true edge)
	baseFalse []*Term     // conditions that must be false for the recursion to happen
	width     *ssa.Function
	bitEvent  ssa.Instruction
	hashEvent ssa.Instruction
}

func analyseTraversal(p *Program, fn *ssa.Function) *travInfo {
	ti := &travInfo{fn: fn, tb: NewTermBuilder(p, fn)}
	for _, b := range fn.DomPreorder() {
		for _, in := range b.Instrs {
			if c, ok := in.(*ssa.Call); ok && c.Call.StaticCallee() == fn {
				ti.selfCalls = append(ti.selfCalls, c)
			}
		}
	}
	sort.Slice(ti.selfCalls, func(i, j int) bool { return ti.selfCalls[i].Pos() < ti.selfCalls[j].Pos() })
	seenArgs := map[string]*ssa.Call{}
	var distinct []*ssa.Call
	for _, c := range ti.selfCalls {
		var as []*Term
		for _, a := range c.Call.Args[1:] {
			as = append(as, ti.tb.Term(a))
		}
		k := termList(as)
		if _, dup := seenArgs[k]; dup {
			ti.dups = append(ti.dups, c)
			continue // a repeated call with identical arguments computes the same value
		}
		seenArgs[k] = c
		distinct = append(distinct, c)
		ti.callArgs = append(ti.callArgs, as)
	}
	ti.selfCalls = distinct
	if len(ti.selfCalls) >= 2 {
		first, second := ti.selfCalls[0], ti.selfCalls[1]
		base := map[string]bool{}
		for _, cd := range MustCondsAtBlock(fn, first.Block()) {
			t := ti.tb.Term(cd.V)
			base[fmt.Sprint(cd.Truth)+t.String()] = true
			if !cd.Truth {
				ti.baseFalse = append(ti.baseFalse, t)
			} else if t.Op == "!=" {
				// `x != 0` holding is `x == 0` failing (De Morgan spelling of the base case, third benign round)
				ti.baseFalse = append(ti.baseFalse, &Term{Op: "==", Args: t.Args})
			}
		}
		for _, cd := range MustCondsAtBlock(fn, second.Block()) {
			t := ti.tb.Term(cd.V)
			if !base[fmt.Sprint(cd.Truth)+t.String()] && cd.Truth {
				ti.guard = t
				// the width function: in-repo callee inside the guard
				if bo, ok := cd.V.(*ssa.BinOp); ok {
					for _, side := range []ssa.Value{bo.X, bo.Y} {
						if c, ok := side.(*ssa.Call); ok && c.Call.StaticCallee() != nil && p.InRepo(c.Call.StaticCallee()) {
							ti.width = c.Call.StaticCallee()
						}
					}
				}
			}
		}
	}
	// events: touching the []byte flag sequence and the []*Hash sequence of the receiver
	recv := ssa.Value(fn.Params[0])
	for _, b := range fn.DomPreorder() {
		for _, in := range b.Instrs {
			var f *types.Var
			switch x := in.(type) {
			case *ssa.Store:
				if fa, ok := x.Addr.(*ssa.FieldAddr); ok && canonRoot(fa.X) == recv {
					f = fieldOfAddr(fa)
				}
			case *ssa.IndexAddr:
				if ff, base, ok := fieldLoad(x.X); ok && base == recv {
					f = ff
				}
			}
			if f == nil {
				continue
			}
			sl, ok := f.Type().Underlying().(*types.Slice)
			if !ok {
				continue
			}
			if bt, ok := sl.Elem().Underlying().(*types.Basic); ok && bt.Kind() == types.Uint8 {
				// builders also *read* matchedBits; the flag event is the write (builder) or the cursor read (extractor)
				if _, isStore := in.(*ssa.Store); isStore || ti.bitEvent == nil {
					if _, isStore := in.(*ssa.Store); isStore || !writesField(fn, f) {
						if ti.bitEvent == nil || isStoreInstr(in) {
							ti.bitEvent = in
						}
					}
				}
			} else if _, isPtr := sl.Elem().Underlying().(*types.Pointer); isPtr {
				if ti.hashEvent == nil {
					ti.hashEvent = in
				}
			}
		}
	}
	return ti
}

func isStoreInstr(in ssa.Instruction) bool { _, ok := in.(*ssa.Store); return ok }

func writesField(fn *ssa.Function, f *types.Var) bool {
	for _, b := range fn.Blocks {
		for _, in := range b.Instrs {
			if st, ok := in.(*ssa.Store); ok {
				if fa, ok := st.Addr.(*ssa.FieldAddr); ok && fieldOfAddr(fa) == f {
					return true
				}
			}
		}
	}
	return false
}

func termsEqual(u *termUnifier, a, b []*Term) bool {
	if len(a) != len(b) {
		return false
	}
	for i := range a {
		if !u.equal(a[i], b[i]) {
			return false
		}
	}
	return true
}

func termList(ts []*Term) string {
	var s []string
	for _, t := range ts {
		s = append(s, t.String())
	}
	return "(" + strings.Join(s, ", ") + ")"
}

func checkC11(p *Program, r *Report) {
	// round 6 (systematic): no unguarded mutable package-level state behind this property's functions (§2.9)
	sharedStateRule(p, r, NewEffects(p), "C11.shared", []string{"merkleblock/encode.go", "bloom/merkleblock.go", "block.go"})
	r.Floor("C11.shared", 0)
	// round 5 (C11-agent5-m3): the leaves of every builder are block.Transactions(); that wrapper k IS transaction k
	// of the message is C16's index clause
	defer func() {
		r.Borrow("C16", func(o *Ob) (string, bool) {
			if o.Rule == "C16.index" {
				return "C11.leaves", true
			}
			return "", false
		})
		r.Floor("C11.leaves", 3)
		c11member(p, r)
	}()
	r.Explain = "C11.width: the three tree-width functions (two proof builders, one extractor) are the same canonical term in (numTx, height). C11.shape: the three " +
		"traversals recurse on (height−1, 2·pos) and (height−1, 2·pos+1), guard the second child with 2·pos+1 < width(height−1), stop on height = 0 or a clear " +
		"flag, and handle the flag bit before the hash before the children; the two builders also agree on the subtree-hash function and on the range of " +
		"leaves that sets a parent flag. C11.pack: flag bits are packed (builders) and unpacked (extractor) with the same (i/8, i%8) addressing and the byte " +
		"count is ⌈bits/8⌉. C11.sibling: the two filter-driven builders obtain the match set from the same function and fill matched bits, index list, hashes " +
		"and message fields from the same sources. C11.accepts: the extractor applies exactly the rejection rules the specification lists and no other (a proof the " +
		"builders emit is not rejected by an extra rule). C11.order: each of the three builders collects the matched positions inside the loop over the block's transactions, by that " +
		"loop's index (block order, no repeats); a node's flag is the OR of the matched bits of its leaf range. Not decided: that the emitted proof is the canonical BIP37 tree for every subset (value level); merkle-root equality."
	r.Trusted = []string{"blockchain.HashMerkleBranches", "wire.MsgMerkleBlock.AddTxHash"}
	b1 := p.Func("bloom", "(*merkleBlock).traverseAndBuild")
	b2 := p.Func("merkleblock", "(*MerkleBlock).traverseAndBuild")
	ext := p.Func("merkleblock", "(*PartialBlock).ExtractMatches")
	nb := p.Func("bloom", "NewMerkleBlock")
	nf := p.Func("merkleblock", "NewMerkleBlockWithFilter")
	if nb == nil || nf == nil || ext == nil {
		r.Unresolved("C11.sibling", "bloom.NewMerkleBlock / merkleblock.NewMerkleBlockWithFilter / ExtractMatches")
		return
	}
	// the traversals are discovered from the public entry points: the recursive in-repo callees they reach
	findRec := func(root *ssa.Function, wantVoid bool) *ssa.Function {
		for _, g := range p.Reachable([]*ssa.Function{root}) {
			if g.Pkg != root.Pkg {
				continue
			}
			self := false
			for _, b := range g.Blocks {
				for _, in := range b.Instrs {
					if c, ok := in.(*ssa.Call); ok && c.Call.StaticCallee() == g {
						self = true
					}
				}
			}
			if self && (g.Signature.Results().Len() == 0) == wantVoid && len(g.Params) == 3 {
				return g
			}
		}
		return nil
	}
	b1, b2 = findRec(nb, true), findRec(nf, true)
	h1, h2 := findRec(nb, false), findRec(nf, false)
	var te *ssa.Function
	for _, g := range p.Reachable([]*ssa.Function{ext}) {
		for _, b := range g.Blocks {
			for _, in := range b.Instrs {
				if c, ok := in.(*ssa.Call); ok && c.Call.StaticCallee() == g && g != ext {
					te = g
				}
			}
		}
	}
	if b1 == nil || b2 == nil || te == nil || h1 == nil || h2 == nil {
		r.Unresolved("C11.shape", "recursive traversals of the two builders and the extractor")
		return
	}
	t1, t2, t3 := analyseTraversal(p, b1), analyseTraversal(p, b2), analyseTraversal(p, te)
	travs := []*travInfo{t1, t2, t3}
	names := []string{FnName(b1), FnName(b2), FnName(te)}
	c11allPaths(p, r, []*ssa.Function{b1, b2})

	// ---- C11.width
	var wterms []*Term
	for i, ti := range travs {
		if ti.width == nil {
			r.Unresolved("C11.width", "tree-width function used by "+names[i])
			continue
		}
		tb := NewTermBuilder(p, ti.width)
		rets := returnsOf(ti.width)
		if len(rets) != 1 {
			r.Undecided("C11.width", FnName(ti.width), "tree width is a single expression", ti.width.Pos(), "several returns")
			continue
		}
		wterms = append(wterms, tb.Term(rets[0].Results[0]))
	}
	if len(wterms) == 3 {
		for i := 1; i < 3; i++ {
			r.Add("C11.width", FnName(travs[0].width)+" / "+FnName(travs[i].width), "tree width is the same function of (numTx, height)", travs[i].width.Pos(), sameTerm(wterms[0], wterms[i]),
				wterms[0].String()+" vs "+wterms[i].String())
		}
		// and it is the BIP37 formula (numTx + 2^h − 1) >> h
		s := wterms[0].String()
		r.Add("C11.width", FnName(travs[0].width), "tree width is (numTx + (1 << height) − 1) >> height", travs[0].width.Pos(),
			strings.HasPrefix(s, ">>(") && strings.Contains(s, "<<(#1,P0)") && strings.Contains(s, "-(") && strings.HasSuffix(s, ",P0)"), s)
	}
	r.Floor("C11.width", 3)

	// ---- C11.shape
	for i, ti := range travs {
		okCalls := len(ti.callArgs) == 2
		desc := ""
		if okCalls {
			desc = termList(ti.callArgs[0]) + " then " + termList(ti.callArgs[1])
			want0 := []string{"-(P0,#1)", "*(#2,P1)"}
			want1 := []string{"-(P0,#1)", "+(#1,*(#2,P1))"}
			for k := 0; k < 2; k++ {
				if ti.callArgs[0][k].String() != want0[k] || ti.callArgs[1][k].String() != want1[k] {
					okCalls = false
				}
			}
		}
		r.Add("C11.shape", names[i], "children are (height−1, 2·pos) then (height−1, 2·pos+1)", ti.fn.Pos(), okCalls, desc)
		okGuard := ti.guard != nil
		gs := ""
		if okGuard {
			gs = ti.guard.String()
			// <(2·pos+1, width(height−1)) with the width inlined
			okGuard = strings.HasPrefix(gs, "<(+(#1,*(#2,P1)),") && strings.Contains(gs, "-(P0,#1)")
		}
		r.Add("C11.shape", names[i], "the right child is visited iff 2·pos+1 < width(height−1)", ti.fn.Pos(), okGuard, gs)
		// base case: height == 0 or flag == 0
		hasHeight, hasFlag := false, false
		var bs []string
		for _, t := range ti.baseFalse {
			s := t.String()
			bs = append(bs, s)
			if s == "==(#0,P0)" {
				hasHeight = true
			} else if strings.HasPrefix(s, "==(#0,") && !strings.Contains(s, "P1") {
				hasFlag = true
			}
		}
		nEq := 0
		for _, s := range bs {
			if strings.HasPrefix(s, "==(") {
				nEq++
			}
		}
		r.Add("C11.shape", names[i], "recursion stops exactly when height = 0 or the node's flag is clear", ti.fn.Pos(), hasHeight && hasFlag && nEq == 2, strings.Join(bs, " ∨ "))
		// order: flag bit, then hash (leaf / pruned subtree), then children
		okOrder := ti.bitEvent != nil && ti.hashEvent != nil
		if okOrder {
			for _, c := range ti.selfCalls {
				if !instrDominates(ti.bitEvent, c) {
					okOrder = false
				}
				if reachableFrom(ti.hashEvent.Block(), nil)[c.Block()] {
					okOrder = false
				}
			}
			if !instrDominates(ti.bitEvent, ti.hashEvent) {
				okOrder = false
			}
		}
		r.Add("C11.shape", names[i], "depth-first order: flag bit, then hash for a leaf or pruned subtree, otherwise the children", ti.fn.Pos(), okOrder, "the flag is handled before either child; the hash is only handled on the non-recursing path")
	}
	// all three agree with each other under one field renaming per pair
	for i := 1; i < 3; i++ {
		u := newUnifier()
		ok := len(travs[0].callArgs) == len(travs[i].callArgs)
		for k := 0; ok && k < len(travs[0].callArgs); k++ {
			ok = termsEqual(u, travs[0].callArgs[k], travs[i].callArgs[k])
		}
		if ok && travs[0].guard != nil && travs[i].guard != nil {
			ok = u.equal(travs[0].guard, travs[i].guard)
		}
		r.Add("C11.shape", names[0]+" / "+names[i], "traversals agree on child positions and the right-child test", travs[i].fn.Pos(), ok, "compared as canonical terms up to field renaming")
	}
	// builders: subtree hash functions and parent-flag range
	{
		ha, hb := analyseTraversal(p, h1), analyseTraversal(p, h2)
		u := newUnifier()
		ok := len(ha.callArgs) == 2 && len(hb.callArgs) == 2
		for k := 0; ok && k < 2; k++ {
			ok = termsEqual(u, ha.callArgs[k], hb.callArgs[k])
		}
		if ok && ha.guard != nil && hb.guard != nil {
			ok = u.equal(ha.guard, hb.guard)
		} else {
			ok = false
		}
		// leaf case returns allHashes[pos]; inner case hashes (left, right) with right = left when there is no right child
		leafOK := func(ti *travInfo) bool {
			for _, ret := range returnsOf(ti.fn) {
				t := ti.tb.Term(ret.Results[0]).String()
				if strings.HasPrefix(t, "elem(") && strings.HasSuffix(t, ",P1)") {
					return true
				}
			}
			return false
		}
		branchOK := func(ti *travInfo) bool {
			for _, ret := range returnsOf(ti.fn) {
				c, ok := ret.Results[0].(*ssa.Call)
				if !ok || c.Call.StaticCallee() == nil || c.Call.StaticCallee().Name() != "HashMerkleBranches" {
					continue
				}
				if c.Call.Args[0] != ssa.Value(ti.selfCalls[0]) {
					return false
				}
				ph, ok := c.Call.Args[1].(*ssa.Phi)
				if !ok || len(ph.Edges) != 2 {
					return false
				}
				hasRight, hasDup := false, false
				for _, e := range ph.Edges {
					if e == ssa.Value(ti.selfCalls[1]) {
						hasRight = true
					}
					if e == ssa.Value(ti.selfCalls[0]) {
						hasDup = true
					}
					for _, d := range ti.dups {
						if e == ssa.Value(d) && termList(argTerms(ti, d)) == termList(ti.callArgs[0]) {
							hasDup = true
						}
					}
				}
				return hasRight && hasDup
			}
			return false
		}
		r.Add("C11.shape", FnName(h1)+" / "+FnName(h2), "builders compute subtree hashes identically (leaf = tx hash at pos; missing right child duplicates the left)", h2.Pos(),
			ok && leafOK(ha) && leafOK(hb) && branchOK(ha) && branchOK(hb), "children "+termList(ha.callArgs[0])+", "+termList(ha.callArgs[1])+"; guard "+fmt.Sprint(ha.guard))
		// parent flag range loop: φ from pos<<height while i < (pos+1)<<height && i < numTx
		rangeDesc := func(ti *travInfo) string {
			var parts []string
			for _, b := range ti.fn.Blocks {
				if !isLoopHeader(b) {
					continue
				}
				for _, in := range b.Instrs {
					if ph, ok := in.(*ssa.Phi); ok {
						if _, isInt := intBasic(ph.Type()); isInt && isUnsignedT(ph.Type()) && ph.Type().String() == "uint32" {
							for k, e := range ph.Edges {
								if !b.Dominates(b.Preds[k]) {
									parts = append(parts, "from "+ti.tb.Term(e).String())
								}
							}
						}
					}
				}
				for _, bb := range ti.fn.Blocks {
					if bb == b || b.Dominates(bb) {
						if iff, ok := lastInstr(bb).(*ssa.If); ok {
							if c, ok := iff.Cond.(*ssa.BinOp); ok && c.Op == token.LSS {
								if _, isPhi := c.X.(*ssa.Phi); isPhi && isLoopHeader(c.X.(*ssa.Phi).Block()) {
									t := ti.tb.Term(c.Y)
									parts = append(parts, "while < "+anonymise(t))
								}
							}
						}
					}
				}
			}
			sort.Strings(parts)
			return strings.Join(dedup(parts), "; ")
		}
		d1, d2 := rangeDesc(t1), rangeDesc(t2)
		want := strings.Contains(d1, "from *(P1,") || strings.Contains(d1, "from <<(P1,P0)")
		r.Add("C11.shape", names[0]+" / "+names[1], "builders set a parent's flag from the same leaf range [pos<<height, min((pos+1)<<height, numTx))", b2.Pos(), d1 == d2 && d1 != "" && want && strings.Count(d1, "while <") == 2, d1+"  vs  "+d2)
		// the flag itself: OR of the matched bits of that range (a sum can wrap, a last-value can forget)
		for k, ti := range []*travInfo{t1, t2} {
			okAcc, how := false, "no byte accumulator carried around the leaf-range loop"
			for _, b := range ti.fn.Blocks {
				if !isLoopHeader(b) {
					continue
				}
				for _, in := range b.Instrs {
					ph, ok := in.(*ssa.Phi)
					if !ok {
						break
					}
					bt, isB := ph.Type().Underlying().(*types.Basic)
					if !isB || bt.Kind() != types.Uint8 && bt.Kind() != types.Bool {
						continue
					}
					okInit, okStep := false, false
					step := ""
					for j, e := range ph.Edges {
						if !b.Dominates(b.Preds[j]) {
							if kk, isK := constInt(e); isK && kk == 0 {
								okInit = true
							}
							continue
						}
						bo, ok := e.(*ssa.BinOp)
						if !ok {
							step = "carried value " + exprString(e)
							continue
						}
						step = "carried value φ " + bo.Op.String() + " element"
						if bo.Op == token.OR && (bo.X == ssa.Value(ph) || bo.Y == ssa.Value(ph)) {
							other := bo.Y
							if bo.Y == ssa.Value(ph) {
								other = bo.X
							}
							if ld, ok := other.(*ssa.UnOp); ok && ld.Op == token.MUL {
								if ia, isIdx := ld.X.(*ssa.IndexAddr); isIdx {
									// second sweep (`matchedBits[0]` for `[i]`, `i--` for `i++`): the element read is the one the
									// loop counter of this header points at, and the counter advances by one
									ix := ia.Index
									if cv, isCv := ix.(*ssa.Convert); isCv {
										ix = cv.X
									}
									if iph, isPh := ix.(*ssa.Phi); isPh && iph.Block() == b {
										for jj, ee := range iph.Edges {
											if !b.Dominates(b.Preds[jj]) {
												continue
											}
											if inc, isInc := ee.(*ssa.BinOp); isInc && inc.Op == token.ADD && inc.X == ssa.Value(iph) {
												if k1, isK := constInt(inc.Y); isK && k1 == 1 {
													okStep = true
												}
											}
										}
										if !okStep {
											step = "the leaf counter does not advance by one"
										}
									} else {
										step = "the element read is not indexed by the leaf counter of the loop"
									}
								}
							}
						}
					}
					// the accumulator is what gets appended as the node's flag
					appended := false
					for _, ref := range *ph.Referrers() {
						if c, ok := ref.(*ssa.Call); ok && isBuiltin(&c.Call, "append") {
							appended = true
						}
						if sl, ok := ref.(*ssa.Store); ok && sl.Val == ssa.Value(ph) {
							appended = true
						}
					}
					if okInit && okStep && appended {
						okAcc, how = true, "flag = OR over the range of the matched bits, appended as is"
					} else if okInit && step != "" {
						how = step + "; appended as the flag: " + fmt.Sprint(appended)
					}
				}
			}
			r.Add("C11.shape", names[k], "a node's flag is the OR of the matched bits of its leaf range", ti.fn.Pos(), okAcc, how)
		}
	}
	r.Floor("C11.shape", 18)

	roots := []*ssa.Function{nb, nf}
	if ctor := p.Func("merkleblock", "NewMerkleBlockFromMsg"); ctor != nil {
		roots = append(roots, ctor)
	}
	flagPackRule(p, r, "C11.pack", roots, 3, 5)
	// C11.extract: the extractor has one way of producing a root: the traversal
	{
		var tc *ssa.Call
		for _, b := range ext.Blocks {
			for _, in := range b.Instrs {
				if c, ok := in.(*ssa.Call); ok {
					if cal := c.Call.StaticCallee(); cal != nil && p.InRepo(cal) && cal.Pkg == ext.Pkg {
						for _, bb := range cal.Blocks {
							for _, ii := range bb.Instrs {
								if cc, ok := ii.(*ssa.Call); ok && cc.Call.StaticCallee() == cal {
									tc = c
								}
							}
						}
					}
				}
			}
		}
		if tc == nil {
			r.Unresolved("C11.extract", "call of the recursive traversal in ExtractMatches")
		} else {
			for i, ret := range returnsOf(ext) {
				if len(ret.Results) == 0 || isNilConst(ret.Results[0]) {
					continue
				}
				dom := tc.Block() == ret.Block() || tc.Block().Dominates(ret.Block())
				r.Add("C11.extract", FnName(ext), fmt.Sprintf("root-returning exit #%d comes after the flag-driven traversal", i+1), p.InstrPos(ret), dom,
					map[bool]string{true: "the traversal call dominates the return", false: "a root is returned on a path that never ran the traversal: the flag bits were not consulted"}[dom])
			}
		}
		r.Floor("C11.extract", 1)
	}
	// the set both builders prove is the scanner's: its spender index must not lose spenders
	spenderIndexRule(p, r, "C11.select")
	r.Floor("C11.select", 1)
	c11sibling(p, r, nb, nf)
	c11accepts(p, r, ext)
	c11order(p, r)
}

// c11accepts: the extractor refuses a message only for the reasons the
// specification lists; any further rejection rule refuses some valid proof.
// A rejecting condition must compare *atomic* message quantities (a count
// field, uint32(len(field)), the exported limit, the failure latch), test a
// count against 0, or be the ⌈x/8⌉ comparison of consumed vs. available bits.
func c11accepts(p *Program, r *Report, ext *ssa.Function) {
	recv := ssa.Value(ext.Params[0])
	atomic := func(v ssa.Value) bool {
		v = stripIntConv(v)
		if _, base, ok := fieldLoad(v); ok && base == recv {
			return true
		}
		if c, ok := v.(*ssa.Call); ok && isBuiltin(&c.Call, "len") {
			_, base, ok := fieldLoad(c.Call.Args[0])
			return ok && base == recv
		}
		if u, ok := v.(*ssa.UnOp); ok && u.Op == token.MUL {
			if g, ok := u.X.(*ssa.Global); ok && g.Object() != nil && g.Object().Exported() {
				return true
			}
		}
		return false
	}
	n := 0
	for _, b := range ext.Blocks {
		iff, ok := lastInstr(b).(*ssa.If)
		if !ok {
			continue
		}
		rejEdge := -1
		for k, s := range b.Succs {
			if ret, ok := lastInstr(s).(*ssa.Return); ok && len(s.Instrs) == 1 && len(ret.Results) == 1 && isNilConst(ret.Results[0]) {
				rejEdge = k
			}
		}
		if rejEdge < 0 {
			continue
		}
		n++
		okC, how := false, "rejection on "+exprString(iff.Cond)
		switch c := iff.Cond.(type) {
		case *ssa.UnOp:
			if _, base, ok := fieldLoad(c); ok && base == recv {
				okC, how = true, "failure latch"
			}
		case *ssa.BinOp:
			if k, isK := constInt(c.Y); isK {
				okC = k == 0 && atomic(c.X) && (c.Op == token.EQL || c.Op == token.NEQ)
				how = "count compared with 0"
			} else if x1, ok1 := isCeilDiv8(c.X); ok1 {
				x2, ok2 := isCeilDiv8(c.Y)
				okC = ok2 && atomic(x1) && atomic(x2)
				how = "⌈bits used/8⌉ against ⌈bits/8⌉"
			} else {
				okC = atomic(c.X) && atomic(c.Y)
				how = "comparison of message quantities " + exprString(c.X) + " " + c.Op.String() + " " + exprString(c.Y)
			}
		}
		if !okC {
			how = "an additional rejection rule (" + exprString(iff.Cond) + "): some valid, canonical proofs may be refused"
		}
		r.Add("C11.accepts", FnName(ext), fmt.Sprintf("rejection #%d is one of the specified sanity checks", n), iff.Cond.Pos(), okC, how)
	}
	if n > 7 {
		r.Add("C11.accepts", FnName(ext), "no more rejection rules than the specification lists", ext.Pos(), false, fmt.Sprintf("%d rejecting tests, 7 specified", n))
	}
	r.Floor("C11.accepts", 7)
}

// anonymise renders a term with struct fields replaced by their types.
func anonymise(t *Term) string {
	switch t.Op {
	case "leaf":
		return t.Leaf
	case "opaque":
		return "⟨⟩"
	case "fld":
		base := anonymise(t.Args[0])
		if base == "R" || base == "⟨⟩" {
			base = "B" // the builder object: a receiver in one implementation, a local in the other
		}
		return base + ".‹" + shortType(t.Field.Type()) + "›"
	}
	var as []string
	for _, a := range t.Args {
		as = append(as, anonymise(a))
	}
	return t.Op + "(" + strings.Join(as, ",") + ")"
}

// packSite: a store Flags[i/8] |= bits[i] << (i%8) (builder) or a test Flags[i/8] & (1 << (i%8)) (extractor).
func flagPackRule(p *Program, r *Report, rule string, roots []*ssa.Function, minSites, floor int) {
	type site struct {
		fn            *ssa.Function
		byteIdx, bitP string
		src           string // builder sites: index term of the flag bit that is packed
		size          string
		pos           token.Pos
		table         bool // unpacking through a byte → 8 bits expansion table
		tableOK       bool
		tableHow      string
	}
	var sites []site
	scan := func(root *ssa.Function) {
		for _, fn := range p.Reachable([]*ssa.Function{root}) {
			if fn.Pkg != root.Pkg {
				continue
			}
			tb := NewTermBuilder(p, fn)
			for _, b := range fn.Blocks {
				for _, in := range b.Instrs {
					// builder: store to element of field Flags
					if st, ok := in.(*ssa.Store); ok {
						ia, ok := st.Addr.(*ssa.IndexAddr)
						if !ok {
							continue
						}
						f, _, ok := fieldLoad(ia.X)
						if !ok || f.Name() != "Flags" {
							continue
						}
						or, ok := st.Val.(*ssa.BinOp)
						if !ok || or.Op != token.OR {
							continue
						}
						for _, side := range []ssa.Value{or.X, or.Y} {
							if sh, ok := side.(*ssa.BinOp); ok && sh.Op == token.SHL {
								s := site{fn: fn, byteIdx: tb.Term(ia.Index).String(), bitP: tb.Term(sh.Y).String(), pos: st.Pos()}
								// second sweep (`bits[0] << (i%8)`): the bit that is packed at position i is bit i of the list
								if ld, ok := stripIntConv(sh.X).(*ssa.UnOp); ok && ld.Op == token.MUL {
									if sia, ok := ld.X.(*ssa.IndexAddr); ok {
										s.src = tb.Term(sia.Index).String()
									}
								}
								// size of the Flags slice
								for _, bb := range fn.Blocks {
									for _, ii := range bb.Instrs {
										if st2, ok := ii.(*ssa.Store); ok {
											if fa, ok := st2.Addr.(*ssa.FieldAddr); ok && fieldOfAddr(fa).Name() == "Flags" {
												if ms, ok := st2.Val.(*ssa.MakeSlice); ok {
													s.size = anonymise(tb.Term(ms.Len))
												}
											}
										}
									}
								}
								sites = append(sites, s)
							}
						}
					}
					// extractor, table form: copy(bits[8k:], T[Flags[k]][:]) with T[f][b] = (f>>b)&1
					if c, ok := in.(*ssa.Call); ok && isBuiltin(&c.Call, "copy") {
						src, ok1 := c.Call.Args[1].(*ssa.Slice)
						dst, ok2 := c.Call.Args[0].(*ssa.Slice)
						if ok1 && ok2 {
							if row, ok := src.X.(*ssa.IndexAddr); ok {
								if g, ok := row.X.(*ssa.Global); ok {
									if ld, ok := stripIntConv(row.Index).(*ssa.UnOp); ok && ld.Op == token.MUL {
										if fia, ok := ld.X.(*ssa.IndexAddr); ok && strings.Contains(exprString(fia.X), "Flags") {
											s := site{fn: fn, pos: c.Pos(), table: true}
											t2, known := p.constIntTable2(g)
											s.tableOK = known && len(t2) == 256 && p.assignedOnlyByInit(g)
											s.tableHow = fmt.Sprintf("table %s: 256 rows of 8 bits, row f holds (f>>b)&1 at position b", g.Name())
											if !known {
												s.tableHow = "contents of " + g.Name() + " do not fold to constants"
											}
											for f := 0; s.tableOK && f < 256; f++ {
												if len(t2[f]) != 8 {
													s.tableOK, s.tableHow = false, fmt.Sprintf("row %d of %s has %d entries", f, g.Name(), len(t2[f]))
													break
												}
												for b := 0; b < 8; b++ {
													if t2[f][b] != int64((f>>uint(b))&1) {
														s.tableOK, s.tableHow = false, fmt.Sprintf("%s[%#x][%d] = %d, want %d", g.Name(), f, b, t2[f][b], (f>>uint(b))&1)
													}
												}
											}
											// destination offset 8k for the same k, whole row copied
											kTerm := tb.Term(fia.Index).String()
											lowTerm := ""
											if dst.Low != nil {
												lowTerm = tb.Term(dst.Low).String()
											}
											if s.tableOK && !(lowTerm == "*("+kTerm+",#8)" || lowTerm == "*(#8,"+kTerm+")" || lowTerm == "<<("+kTerm+",#3)") {
												s.tableOK, s.tableHow = false, "row of byte "+kTerm+" is copied to offset "+lowTerm+", not 8·"+kTerm
											}
											if s.tableOK && (src.Low != nil || src.High != nil || dst.High != nil) {
												s.tableOK, s.tableHow = false, "only part of the row is copied"
											}
											sites = append(sites, s)
										}
									}
								}
							}
						}
					}
					// extractor: Flags[i/8] & (1 << (i%8))
					if and, ok := in.(*ssa.BinOp); ok && and.Op == token.AND {
						for _, pr := range [][2]ssa.Value{{and.X, and.Y}, {and.Y, and.X}} {
							ld, ok := pr[0].(*ssa.UnOp)
							if !ok {
								continue
							}
							ia, ok := ld.X.(*ssa.IndexAddr)
							if !ok {
								continue
							}
							if !strings.Contains(exprString(ia.X), "Flags") {
								continue
							}
							if sh, ok := pr[1].(*ssa.BinOp); ok && sh.Op == token.SHL {
								sites = append(sites, site{fn: fn, byteIdx: tb.Term(ia.Index).String(), bitP: tb.Term(sh.Y).String(), pos: and.Pos()})
							}
						}
						// shift-and-mask form: (Flags[i/8] >> (i%8)) & 1
						for _, pr := range [][2]ssa.Value{{and.X, and.Y}, {and.Y, and.X}} {
							if k, isK := constInt(pr[1]); !isK || k != 1 {
								continue
							}
							sh, ok := pr[0].(*ssa.BinOp)
							if !ok || sh.Op != token.SHR {
								continue
							}
							ld, ok := sh.X.(*ssa.UnOp)
							if !ok {
								continue
							}
							ia, ok := ld.X.(*ssa.IndexAddr)
							if !ok || !strings.Contains(exprString(ia.X), "Flags") {
								continue
							}
							sites = append(sites, site{fn: fn, byteIdx: tb.Term(ia.Index).String(), bitP: tb.Term(sh.Y).String(), pos: and.Pos()})
						}
					}
				}
			}
		}
	}
	for _, root := range roots {
		scan(root)
	}
	if len(sites) < minSites {
		r.Unresolved(rule, fmt.Sprintf("flag packing / unpacking sites (found %d of %d)", len(sites), minSites))
		return
	}
	for _, s := range sites {
		if s.table {
			r.Add(rule, FnName(s.fn), "flag byte k expands to bits 8k..8k+7, least significant first (table form)", s.pos, s.tableOK, s.tableHow)
			continue
		}
		// the counter i is a full-range induction from 0: the index-loop form ind(0,1) or the range-loop form 1+ind(−1,1)
		// (benign round 4, C11-y1: `for i, bit := range bits`); every site may use either, consistently
		ctr := ""
		for _, form := range []string{"ind(#0,#1)", "+(#1,ind(#-1,#1))"} {
			if s.byteIdx == "/("+form+",#8)" && s.bitP == "%("+form+",#8)" {
				ctr = form
			}
		}
		r.Add(rule, FnName(s.fn), "flag bit i lives in byte i/8 at bit position i%8", s.pos, ctr != "", "byte "+s.byteIdx+", bit "+s.bitP)
		if s.src != "" {
			// the range-loop form reads the element through the range variable: same counter, or the element load of it
			r.Add(rule, FnName(s.fn), "the bit packed at position i is flag bit i", s.pos, ctr != "" && s.src == ctr, "source index "+s.src)
		}
		if s.size != "" {
			r.Add(rule, FnName(s.fn), "flag bytes number ⌈bits/8⌉", s.pos, (strings.HasPrefix(s.size, "/(+(#7,len(") || strings.HasPrefix(s.size, "/(+(len(")) && strings.HasSuffix(s.size, ",#8)"), s.size)
		}
	}
	r.Floor(rule, floor)
}

func c11sibling(p *Program, r *Report, nb, nf *ssa.Function) {
	// same match-set function
	callee := func(fn *ssa.Function) (*ssa.Function, *ssa.Call) {
		for _, b := range fn.Blocks {
			for _, in := range b.Instrs {
				if c, ok := in.(*ssa.Call); ok {
					if cal := c.Call.StaticCallee(); cal != nil && p.InRepo(cal) {
						if cal.Signature.Results().Len() != 1 {
							continue
						}
						if _, isMap := cal.Signature.Results().At(0).Type().Underlying().(*types.Map); isMap {
							return cal, c
						}
					}
				}
			}
		}
		return nil, nil
	}
	m1, c1 := callee(nb)
	m2, c2 := callee(nf)
	r.Add("C11.sibling", FnName(nb)+" / "+FnName(nf), "both builders take the match set from the same function", nf.Pos(), m1 != nil && m1 == m2, fmt.Sprintf("%v / %v", m1, m2))
	if c1 == nil || c2 == nil {
		return
	}
	// loop signatures: appends in the transaction loop, with the truth of `matchedMap[txIndex]`
	sig := func(fn *ssa.Function, mapCall *ssa.Call) []string {
		var out []string
		tb := NewTermBuilder(p, fn)
		for _, b := range fn.Blocks {
			for _, in := range b.Instrs {
				ap, ok := in.(*ssa.Call)
				if !ok || !isBuiltin(&ap.Call, "append") {
					continue
				}
				// what is appended
				elem := "?"
				if sl, ok := ap.Call.Args[1].(*ssa.Slice); ok {
					if al, ok := sl.X.(*ssa.Alloc); ok {
						for _, ref := range *al.Referrers() {
							if ia, ok := ref.(*ssa.IndexAddr); ok {
								for _, u := range *ia.Referrers() {
									if s2, ok := u.(*ssa.Store); ok {
										elem = anonymise(tb.Term(s2.Val))
									}
								}
							}
						}
					}
				}
				// destination: a field of the builder object, or a local list
				dst := "local " + shortType(ap.Type())
				for _, ref := range *ap.Referrers() {
					if st, ok := ref.(*ssa.Store); ok {
						if fa, ok := st.Addr.(*ssa.FieldAddr); ok {
							dst = "field ‹" + shortType(fieldOfAddr(fa).Type()) + "›"
						}
					}
				}
				// condition: lookup in the match map keyed by the loop index
				cond := "always"
				for _, cd := range DomConds(b) {
					v := cd.V
					if ex, ok := v.(*ssa.Extract); ok {
						v = ex.Tuple
					}
					if lk, ok := v.(*ssa.Lookup); ok && lk.X == ssa.Value(mapCall) {
						cond = fmt.Sprintf("match[%s]=%v", tb.Term(lk.Index).String(), cd.Truth)
					}
				}
				out = append(out, cond+": "+dst+" += "+elem)
			}
		}
		sort.Strings(out)
		return out
	}
	s1, s2 := sig(nb, c1), sig(nf, c2)
	want := len(s1) == 4
	r.Add("C11.sibling", FnName(nb)+" / "+FnName(nf), "both builders fill matched bits, index list and hashes identically, in block order", nf.Pos(), want && strings.Join(s1, " | ") == strings.Join(s2, " | "),
		strings.Join(s1, " | ")+"   vs   "+strings.Join(s2, " | "))
	// message fields: stores into wire.MsgMerkleBlock fields, by field
	fields := func(root *ssa.Function) map[string]string {
		out := map[string]string{}
		for _, fn := range p.Reachable([]*ssa.Function{root}) {
			if fn.Pkg != root.Pkg {
				continue
			}
			tb := NewTermBuilder(p, fn)
			for _, b := range fn.Blocks {
				for _, in := range b.Instrs {
					st, ok := in.(*ssa.Store)
					if !ok {
						continue
					}
					fa, ok := st.Addr.(*ssa.FieldAddr)
					if !ok || !isNamed(fa.X.Type(), "github.com/gcash/bchd/wire", "MsgMerkleBlock") {
						continue
					}
					out[fieldOfAddr(fa).Name()] = anonymise(tb.Term(st.Val))
				}
				for _, in := range b.Instrs {
					if c, ok := in.(*ssa.Call); ok && c.Call.StaticCallee() != nil && c.Call.StaticCallee().Name() == "AddTxHash" {
						out["AddTxHash"] = anonymise(tb.Term(c.Call.Args[1]))
					}
				}
			}
		}
		return out
	}
	f1, f2 := fields(nb), fields(nf)
	var keys []string
	for k := range f1 {
		keys = append(keys, k)
	}
	sort.Strings(keys)
	for _, k := range keys {
		r.Add("C11.sibling", FnName(nb)+" / "+FnName(nf), "message field "+k+" comes from the same source in both builders", nf.Pos(), f1[k] == f2[k], f1[k]+"  vs  "+f2[k])
	}
	if len(keys) < 4 {
		r.Add("C11.sibling", FnName(nb), fmt.Sprintf("vacuity: %d message fields found, floor 4", len(keys)), nb.Pos(), false, "kind=below-floor")
	}
	r.Floor("C11.sibling", 6)
}

func argTerms(ti *travInfo, c *ssa.Call) []*Term {
	var as []*Term
	for _, a := range c.Call.Args[1:] {
		as = append(as, ti.tb.Term(a))
	}
	return as
}

// c11order: each of the three builders returns the positions of the chosen transactions in block
// order without repeats: the index list grows only inside the loop over block.Transactions(), by
// that loop's own index, and every flag byte and hash is appended in that same loop (one per
// transaction, in order).
func c11order(p *Program, r *Report) {
	n := 0
	for _, ref := range []entryRef{{"bloom", "NewMerkleBlock"}, {"merkleblock", "NewMerkleBlockWithFilter"}, {"merkleblock", "NewMerkleBlockWithTxnSet"}} {
		fn := p.Func(ref.pkg, ref.name)
		if fn == nil {
			r.Unresolved("C11.order", ref.pkg+"."+ref.name)
			continue
		}
		// the loop over the block's transactions: element loads txs[idx] with txs = (*Block).Transactions()
		var idx ssa.Value
		var hdr *ssa.BasicBlock
		for _, b := range fn.Blocks {
			for _, in := range b.Instrs {
				ia, ok := in.(*ssa.IndexAddr)
				if !ok {
					continue
				}
				c, ok := ia.X.(*ssa.Call)
				if !ok || c.Call.StaticCallee() == nil || c.Call.StaticCallee().Name() != "Transactions" {
					continue
				}
				if inc, ok := ia.Index.(*ssa.BinOp); ok && inc.Op == token.ADD {
					if ph, ok := inc.X.(*ssa.Phi); ok && isLoopHeader(ph.Block()) {
						idx, hdr = ia.Index, ph.Block()
					}
				}
			}
		}
		if idx == nil {
			r.Unresolved("C11.order", "loop over block.Transactions() in "+FnName(fn))
			continue
		}
		body := map[*ssa.BasicBlock]bool{}
		for _, b := range fn.Blocks {
			if hdr.Dominates(b) && b != hdr {
				for _, pb := range hdr.Preds {
					if hdr.Dominates(pb) && reachableFrom(b, map[*ssa.BasicBlock]bool{hdr: true})[pb] {
						body[b] = true
					}
				}
			}
		}
		okIdx, nIdx, how := true, 0, ""
		for _, b := range fn.Blocks {
			for _, in := range b.Instrs {
				ap, ok := in.(*ssa.Call)
				if !ok || !isBuiltin(&ap.Call, "append") {
					continue
				}
				sl, ok := ap.Type().Underlying().(*types.Slice)
				if !ok {
					continue
				}
				bt, isB := sl.Elem().Underlying().(*types.Basic)
				if !isB || bt.Kind() != types.Uint32 {
					continue
				}
				nIdx++
				// appended element
				var elem ssa.Value
				if s2, ok := ap.Call.Args[1].(*ssa.Slice); ok {
					if al, ok := s2.X.(*ssa.Alloc); ok {
						for _, rf := range *al.Referrers() {
							if ia, ok := rf.(*ssa.IndexAddr); ok {
								for _, u := range *ia.Referrers() {
									if st, ok := u.(*ssa.Store); ok {
										elem = st.Val
									}
								}
							}
						}
					}
				}
				if !body[b] {
					okIdx, how = false, "a position is appended outside the loop over the block's transactions"
				} else if elem == nil || stripIntConv(elem) != idx {
					okIdx, how = false, "the appended position is "+exprString(elem)+", not the index of the transaction being visited"
				}
			}
		}
		n++
		r.Add("C11.order", FnName(fn), "matched positions are collected in block order, one per chosen transaction", fn.Pos(), okIdx && nIdx > 0,
			fmt.Sprintf("%d append(s) of positions; %s", nIdx, how))
	}
	if n == 0 {
		r.Unresolved("C11.order", "proof builders")
	}
	r.Floor("C11.order", 3)
}

// c11member (round 6, C11-agent6-m1): "the chosen subset given as a set of hashes" — a transaction is chosen iff its
// hash EQUALS a hash of the set.  The set-driven builder decides that through a function that is handed the set; that
// function must be an equality scan: a loop over the whole set that answers true where the two hashes compare equal
// (array ==, IsEqual, bytes.Equal) and false only once the set is exhausted.  A lookup that sorts the set with one
// order and binary-searches it with another misses most members of a large set; anything that is not a plain scan
// (or a map lookup) is undecided.
func c11member(p *Program, r *Report) {
	isHashPtrSlice := func(t types.Type) bool {
		sl, ok := t.Underlying().(*types.Slice)
		if !ok {
			return false
		}
		pt, ok := sl.Elem().Underlying().(*types.Pointer)
		return ok && isNamed(pt.Elem(), "github.com/gcash/bchd/chaincfg/chainhash", "Hash")
	}
	pk := p.Pkg("merkleblock")
	if pk == nil {
		r.Unresolved("C11.member", "package merkleblock")
		return
	}
	n := 0
	for _, fn := range p.Funcs {
		if fn.Pkg != pk || fn.Parent() != nil || fn.Object() == nil || !fn.Object().Exported() {
			continue
		}
		var set *ssa.Parameter
		for _, pa := range fn.Params {
			if isHashPtrSlice(pa.Type()) {
				set = pa
			}
		}
		if set == nil || fn.Signature.Results().Len() == 0 {
			continue
		}
		if _, isBool := fn.Signature.Results().At(0).Type().Underlying().(*types.Basic); isBool && fn.Signature.Results().Len() == 1 {
			continue // the scan helper itself
		}
		// every use of the set in the builder
		for _, ref := range *set.Referrers() {
			if _, ok := ref.(*ssa.DebugRef); ok {
				continue
			}
			if cc, isCall := ref.(*ssa.Call); isCall && isBuiltin(&cc.Call, "len") {
				continue // a size hint
			}
			n++
			// the other accepted idiom (hand-written variant v20): every element's VALUE is entered as a key into a map made
			// here, and membership is a lookup in that map
			if ia, isIA := ref.(*ssa.IndexAddr); isIA && fullRangeInduction(ia.Index, func(v ssa.Value) bool { return v == ssa.Value(set) }) != nil {
				var m ssa.Value
				for _, u1 := range *ia.Referrers() {
					ld, ok := u1.(*ssa.UnOp)
					if !ok || ld.Op != token.MUL {
						continue
					}
					for _, u2 := range *ld.Referrers() {
						dv, ok := u2.(*ssa.UnOp)
						if !ok || dv.Op != token.MUL {
							continue
						}
						for _, u3 := range *dv.Referrers() {
							if mu, ok := u3.(*ssa.MapUpdate); ok && mu.Key == ssa.Value(dv) {
								if _, isMk := mu.Map.(*ssa.MakeMap); isMk {
									m = mu.Map
								}
							}
						}
					}
				}
				looked := false
				if m != nil {
					for _, u := range *m.Referrers() {
						if lk, ok := u.(*ssa.Lookup); ok && lk.X == m {
							looked = true
						}
					}
				}
				r.Add("C11.member", FnName(fn), "membership in the chosen set is decided by a lookup in a map keyed by the value of every element of the set", ref.Pos(), m != nil && looked,
					"the whole set is ranged over, each hash value is a key of a map made in the builder, and the map is queried")
				continue
			}
			c, ok := ref.(*ssa.Call)
			if !ok || c.Call.StaticCallee() == nil || !p.InRepo(c.Call.StaticCallee()) {
				r.Undecided("C11.member", FnName(fn), "membership in the chosen set is decided by an equality scan of the set", ref.Pos(), "the set is used by "+ref.String()+", not handed to a scan function")
				continue
			}
			cal := c.Call.StaticCallee()
			k := -1
			for i, a := range c.Call.Args {
				if a == ssa.Value(set) {
					k = i
				}
			}
			ok2, why := equalityScan(cal, k)
			r.Add("C11.member", FnName(fn), "membership in the chosen set is decided by an equality scan of the set ("+FnName(cal)+")", c.Pos(), ok2, why)
		}
	}
	if n == 0 {
		r.Unresolved("C11.member", "a builder of package merkleblock that takes the chosen set of hashes")
	}
	r.Floor("C11.member", 1)
}

// equalityScan: fn ranges over its k-th parameter (whole), returns true exactly on the edge of an equality test
// between an element and another parameter, and false only after the loop.
func equalityScan(fn *ssa.Function, k int) (bool, string) {
	if k < 0 || k >= len(fn.Params) || len(fn.Blocks) == 0 {
		return false, "not a function of the set"
	}
	set := ssa.Value(fn.Params[k])
	var hdr *ssa.BasicBlock
	for _, b := range fn.Blocks {
		if !isLoopHeader(b) {
			continue
		}
		if hdr != nil {
			return false, "more than one loop"
		}
		hdr = b
	}
	if hdr == nil {
		return false, "no loop over the set"
	}
	iff, ok := lastInstr(hdr).(*ssa.If)
	if !ok {
		return false, "loop header does not test the range"
	}
	c, ok := iff.Cond.(*ssa.BinOp)
	if !ok || c.Op != token.LSS || !isLenOf(c.Y, func(v ssa.Value) bool { return v == set }) {
		return false, "the loop does not range over the whole set"
	}
	if fullRangeInduction(c.X, func(v ssa.Value) bool { return v == set }) == nil {
		return false, "the loop does not visit every element of the set"
	}
	for _, in := range fn.Blocks[0].Instrs {
		if call, ok := in.(*ssa.Call); ok && !isBuiltin(&call.Call, "len") {
			return false, "the set is processed before the scan (" + calleeName(&call.Call) + ")"
		}
	}
	nTrue, nFalse := 0, 0
	for _, ret := range returnsOf(fn) {
		v, isK := constBool(ret.Results[0])
		if !isK {
			return false, "a return value that is not a constant verdict"
		}
		if v {
			nTrue++
			// reached only through an equality test of an element
			okEq := false
			for _, cd := range DomConds(ret.Block()) {
				if !cd.Truth {
					continue
				}
				switch x := cd.V.(type) {
				case *ssa.BinOp:
					if x.Op == token.EQL {
						okEq = true
					}
				case *ssa.Call:
					nm := calleeName(&x.Call)
					if strings.HasSuffix(nm, ".IsEqual") || nm == "bytes.Equal" {
						okEq = true
					}
				}
			}
			if !okEq {
				return false, "'true' is returned without an equality test of an element"
			}
		} else {
			nFalse++
			if ret.Block() == hdr.Succs[0] || hdr.Succs[0].Dominates(ret.Block()) {
				return false, "'false' is returned from inside the loop: the rest of the set is not looked at"
			}
		}
	}
	if nTrue == 0 || nFalse == 0 {
		return false, "the scan does not return both verdicts"
	}
	return true, "loop over the whole set; true on an equal element; false after exhaustion"
}

// c11allPaths (round 7, C11-agent7-m2): every message a builder hands out is the one the tree traversal produced.  The
// exported builders (functions returning *wire.MsgMerkleBlock in bloom and merkleblock) reach the recursive traversal
// — directly or through the common tail — on every path to every return; a "nothing matched" fast path that assembles
// the message by hand (one hash, no flag byte) is not the canonical partial tree and does not extract.
func c11allPaths(p *Program, r *Report, travs []*ssa.Function) {
	isTrav := map[*ssa.Function]bool{}
	for _, t := range travs {
		isTrav[t] = true
	}
	reaches := map[*ssa.Function]bool{}
	var reach func(fn *ssa.Function, depth int) bool
	reach = func(fn *ssa.Function, depth int) bool {
		if isTrav[fn] {
			return true
		}
		if v, ok := reaches[fn]; ok {
			return v
		}
		reaches[fn] = false
		if depth > 5 || !p.InRepo(fn) {
			return false
		}
		for _, b := range fn.Blocks {
			for _, in := range b.Instrs {
				if c, ok := in.(*ssa.Call); ok {
					if cal := c.Call.StaticCallee(); cal != nil && reach(cal, depth+1) {
						reaches[fn] = true
						return true
					}
				}
			}
		}
		return false
	}
	n := 0
	for _, fn := range p.Funcs {
		if fn.Parent() != nil || fn.Object() == nil || !fn.Object().Exported() || fn.Signature.Recv() != nil || fn.Signature.Results().Len() == 0 {
			continue
		}
		if fn.Pkg != p.Pkg("bloom") && fn.Pkg != p.Pkg("merkleblock") {
			continue
		}
		pt, ok := fn.Signature.Results().At(0).Type().Underlying().(*types.Pointer)
		if !ok || !isNamed(pt.Elem(), "github.com/gcash/bchd/wire", "MsgMerkleBlock") {
			continue
		}
		if !reach(fn, 0) {
			continue
		}
		for i, ret := range returnsOf(fn) {
			if isNilConst(ret.Results[0]) {
				continue
			}
			n++
			dominated := false
			for _, b := range fn.Blocks {
				for _, in := range b.Instrs {
					c, ok := in.(*ssa.Call)
					if !ok || c.Call.StaticCallee() == nil || !reach(c.Call.StaticCallee(), 1) {
						continue
					}
					if b == ret.Block() || b.Dominates(ret.Block()) {
						dominated = true
					}
				}
			}
			r.Add("C11.extract", FnName(fn), fmt.Sprintf("return #%d hands out a message built by the tree traversal", i+1), ret.Pos(), dominated,
				"some path to this return does not go through the traversal: the message is assembled by other means")
		}
	}
	if n == 0 {
		r.Unresolved("C11.extract", "exported merkle-block builders that reach a traversal")
	}
}

package main

// explainMore: what the rules added in the third mutation round decide, appended to each check's explanation.
var explainMore = map[string]string{
	"C01": " C01.prefix: a piece of the input compared with a network prefix is cut with bounds that depend on that prefix's length only. C01.shared: the functions of address.go, hash160/256.go and base58 write no memory reachable from a package-level variable unless a package-level mutex is held (a scratch value, hash state or cached slice with spare capacity shared between calls).",
	"C02": " C02.canon also: in-place case folding of a copy of the input only touches bytes proved to lie in 'A'..'Z'. C02.whole: the case-folded input reaches the CashAddr decoder only behind a prepended prefix.",
	"C03": " C03.inject also: bech32 symbol decoding is the position in the searched BIP173 charset or a reverse table that inverts it, every other entry rejected (tables filled during package initialisation are constant-folded, initeval.go); the whole-input rule of C02 and the canonical-input rules (no Unicode case mapping of unchecked input, exact ASCII folding).",
	"C04": " C04.shared: no unguarded package-level state in hdkeychain; the bytes of the version field (handed from key to key by reference) are never written in place. C04.memo: memo coherence of ExtendedKey.",
	"C05": " C05.shared: no unguarded package-level state in hdkeychain and base58. C05.memo: a memoised serialisation is refreshed or dropped whenever a field it was computed from is assigned.",
	"C06": " C06.shared: no unguarded package-level state in wif.go and base58.",
	"C07": " C07.exact: a positional value accumulated in a machine word cannot wrap (radix^digits ≤ 2^width follows from the conditions dominating the loop or every call). C07.tables also accepts a reverse table on the bech32 decode path and checks it entry by entry. C07.shared: no unguarded package-level state.",
	"C08": " C08.eof: a loop that is not a range over its input and calls a fallible in-repo function on every iteration is left when that call fails (no path back to the header on which the error may be non-nil). C08.nil: a pointer that an in-repo function may return as nil is compared with nil before it is dereferenced or handed to code outside the repository.",
	"C09": " C09.pure: hashing, insertion and queries do not write memory reachable from the element. C09.shared: no unguarded package-level state.",
	"C10": " C10.pushes: every data push read from a script is handed, whenever it is read, to a function that tests it for membership on all of its paths. C10.block also: the spender index is many-valued and every registered spender of a matched transaction is re-checked.",
	"C11": " C11.select: the scanner whose result both builders prove keeps every spender of a transaction in its index and re-checks all of them. C11.pack also accepts unpacking through a byte-to-bits table whose folded contents equal (f>>b)&1.",
	"C12": " C12.unpack: the constructor expands all 8·len(Flags) flag bits, bit b of byte k to position 8k+b. C12.matches: whether a node is recorded as a match depends on its height, its flag bit and the cursors only.",
	"C14": " C14.every: the builder hashes every item of its input, and its encode loop ranges completely over the very slice value that was sorted.",
	"C15": " C15.fresh also: inside one key, a buffer Zero wipes and a buffer shared by reference are disjoint constant windows of any slice both are cut from.",
	"C16": " C16.writers also: a constructor caches as serialisation only nil or its caller's serialisation argument.",
}

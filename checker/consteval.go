package main

import (
	"go/ast"
	"go/constant"
	"go/token"
	"go/types"

	"golang.org/x/tools/go/ssa"
)

// Static evaluation of package-level constant tables from their initialisers
// (DESIGN §2.7) — evaluation of constant expressions with go/constant, not
// execution.

// globalInit returns the initialiser expression of package-level variable g.
func (p *Program) globalInit(g *ssa.Global) (ast.Expr, *types.Info) {
	obj := g.Object()
	if obj == nil {
		return nil, nil
	}
	for _, pk := range p.Pkgs {
		if pk.Types != obj.Pkg() {
			continue
		}
		for _, f := range pk.Syntax {
			for _, d := range f.Decls {
				gd, ok := d.(*ast.GenDecl)
				if !ok || gd.Tok != token.VAR {
					continue
				}
				for _, sp := range gd.Specs {
					vs := sp.(*ast.ValueSpec)
					for i, n := range vs.Names {
						if pk.TypesInfo.Defs[n] == obj && i < len(vs.Values) {
							return vs.Values[i], pk.TypesInfo
						}
					}
				}
			}
		}
	}
	return nil, nil
}

// constIntTable evaluates a package-level array/slice variable whose
// initialiser is a composite literal of constant integers.
func (p *Program) constIntTable(g *ssa.Global) ([]int64, bool) {
	// the value after package initialisation, when it folds to constants (initeval.go): covers literals as well as
	// tables filled or patched by init functions
	if v, ok := p.initEval().globalValue(g); ok {
		if t, ok := intTable(v); ok {
			return t, true
		}
	}
	if p.touchedByDeclaredInit(g) {
		return nil, false
	}
	e, info := p.globalInit(g)
	cl, ok := e.(*ast.CompositeLit)
	if !ok {
		return nil, false
	}
	n := int64(-1)
	switch t := derefType(g.Type()).Underlying().(type) {
	case *types.Array:
		n = t.Len()
	case *types.Slice:
	default:
		return nil, false
	}
	var out []int64
	if n >= 0 {
		out = make([]int64, n)
	}
	idx := int64(0)
	for _, el := range cl.Elts {
		val := el
		if kv, ok := el.(*ast.KeyValueExpr); ok {
			tv, ok := info.Types[kv.Key]
			if !ok || tv.Value == nil {
				return nil, false
			}
			k, ok := constant.Int64Val(constant.ToInt(tv.Value))
			if !ok {
				return nil, false
			}
			idx = k
			val = kv.Value
		}
		tv, ok := info.Types[val]
		if !ok || tv.Value == nil {
			return nil, false
		}
		iv, ok := constant.Int64Val(constant.ToInt(tv.Value))
		if !ok {
			if u, ok2 := constant.Uint64Val(constant.ToInt(tv.Value)); ok2 {
				iv = int64(u)
			} else {
				return nil, false
			}
		}
		if n >= 0 {
			if idx >= n {
				return nil, false
			}
			out[idx] = iv
		} else {
			for int64(len(out)) <= idx {
				out = append(out, 0)
			}
			out[idx] = iv
		}
		idx++
	}
	return out, true
}

// assignedOnlyByInit: no instruction outside the package initialiser stores to
// g or to an address derived from g, and g's address is not passed to a call
// (axiom A5).
// constIntTable2: a package-level table of rows of integers whose value after package initialisation folds to
// constants (initeval.go).
func (p *Program) constIntTable2(g *ssa.Global) ([][]int64, bool) {
	if v, ok := p.initEval().globalValue(g); ok {
		return intTable2(v)
	}
	return nil, false
}

// touchedByDeclaredInit: a declared init function (not the variable's own initialiser) mentions g.
func (p *Program) touchedByDeclaredInit(g *ssa.Global) bool {
	for _, fn := range p.Funcs {
		if !isInitFunc(fn) || fn.Synthetic != "" {
			continue
		}
		for _, b := range fn.Blocks {
			for _, in := range b.Instrs {
				for _, op := range in.Operands(nil) {
					if *op == ssa.Value(g) {
						return true
					}
				}
			}
		}
	}
	return false
}

func (p *Program) assignedOnlyByInit(g *ssa.Global) bool {
	derived := func(v ssa.Value) bool {
		for i := 0; i < 8; i++ {
			switch x := v.(type) {
			case *ssa.Global:
				return x == g
			case *ssa.IndexAddr:
				v = x.X
			case *ssa.FieldAddr:
				v = x.X
			case *ssa.Slice:
				v = x.X
			case *ssa.UnOp:
				if x.Op != token.MUL {
					return false
				}
				// a load of the slice header stored in g, then indexed
				v = x.X
			default:
				return false
			}
		}
		return false
	}
	for _, fn := range p.Funcs {
		if isInitFunc(fn) {
			continue
		}
		for _, b := range fn.Blocks {
			for _, in := range b.Instrs {
				switch x := in.(type) {
				case *ssa.Store:
					if derived(x.Addr) {
						return false
					}
				case ssa.CallInstruction:
					com := x.Common()
					if isBuiltin(com, "len") || isBuiltin(com, "cap") {
						continue
					}
					for ai, a := range com.Args {
						if !derived(a) {
							continue
						}
						if _, isPtr := a.Type().Underlying().(*types.Pointer); isPtr {
							return false
						}
						if isBuiltin(com, "copy") && ai == 0 || isBuiltin(com, "append") && ai == 0 {
							return false
						}
						if cal := com.StaticCallee(); cal != nil {
							if _, w := externalWriters[cal.String()]; w {
								return false
							}
						}
					}
				}
			}
		}
	}
	return true
}

func constString(v ssa.Value) (string, bool) {
	c, ok := v.(*ssa.Const)
	if !ok || c.Value == nil || c.Value.Kind() != constant.String {
		return "", false
	}
	return constant.StringVal(c.Value), true
}

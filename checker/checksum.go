package main

import (
	"fmt"
	"go/token"
	"go/types"
	"strings"

	"golang.org/x/tools/go/ssa"
)

// Checksum-guarded accept (DESIGN §3 C02.checksum; shared by C05, C06, C07).
//
// For a decoder fn: every accept point must be preceded, on every path, by the
// passing edge of a comparison between
//   (a) the first four bytes of SHA256(SHA256(X)) and
//   (b) four bytes of the decoded input D,
// with X = D[:len(D)−4] and (b) = D[len(D)−4:], under the facts known on that
// path.  The comparison may be bytes.Equal, an array == / !=, or sit behind an
// in-repo boolean helper.

type cksumResult struct {
	ok      bool
	how     string
	cond    Cond
	nAccept int
}

// compareOperands extracts the two compared byte sequences and the truth value
// that means "equal" from a branch condition.
func compareOperands(c Cond) (a, b ssa.Value, equalWhen bool, ok bool) {
	v, truth := c.V, c.Truth
	for {
		if u, isU := v.(*ssa.UnOp); isU && u.Op == token.NOT {
			v, truth = u.X, !truth
			continue
		}
		break
	}
	switch x := v.(type) {
	case *ssa.Call:
		if staticCalleeIs(&x.Call, "bytes.Equal") && len(x.Call.Args) == 2 {
			return x.Call.Args[0], x.Call.Args[1], truth, true
		}
	case *ssa.BinOp:
		if x.Op == token.EQL || x.Op == token.NEQ {
			if _, isArr := x.X.Type().Underlying().(*types.Array); isArr {
				eq := truth
				if x.Op == token.NEQ {
					eq = !truth
				}
				return x.X, x.Y, eq, true
			}
		}
	}
	return nil, nil, false, false
}

// check4ByteChecksum decides the rule for fn.  It returns one result per accept point.
func check4ByteChecksum(p *Program, fn *ssa.Function) []cksumResult {
	var out []cksumResult
	lc := NewLinCtx(p, fn)
	ev := NewBSeqEval(p, lc)
	aps := acceptPoints(fn)
	for _, ap := range aps {
		conds := MustConds(fn, ap)
		res := cksumResult{how: "no checksum comparison lies on every path to this accepting return"}
		base := lc.FactsOf(conds)
		for _, cd := range conds {
			a, b, eqWhen, ok := compareOperands(cd)
			if !ok {
				continue
			}
			if !eqWhen {
				res.how = "the accepting path is the 'not equal' edge of the comparison"
				continue
			}
			for _, pair := range [][2]ssa.Value{{a, b}, {b, a}} {
				okp, how := matchChecksumPair(lc, ev, base, pair[0], pair[1])
				if okp {
					res.ok, res.how, res.cond = true, how, cd
					break
				}
				if how != "" {
					res.how = how
				}
			}
			if res.ok {
				break
			}
		}
		out = append(out, res)
	}
	return out
}

// matchChecksumPair: computed = win(sha256d(win(D,0,len(D)−4)),0,4) and
// stored = win(D, len(D)−4, len(D)), for every alternative of either term.
func matchChecksumPair(lc *LinCtx, ev *BSeqEval, base *Facts, computed, stored ssa.Value) (bool, string) {
	cb := ev.Eval(computed)
	sb := ev.Eval(stored)
	desc := ""
	for _, ca := range flattenAlts(cb) {
		for _, sa := range flattenAlts(sb) {
			f := base.clone()
			for _, cd := range append(append([]Cond(nil), ca.Conds...), sa.Conds...) {
				lc.CondFacts(cd.V, cd.Truth, f, nil)
			}
			// contradictory alternative combinations are vacuous
			if lc.Entails(f, constLin(1)) {
				continue
			}
			c, s := ca.B, sa.B
			// computed: first 4 bytes of a double SHA-256
			if c.Kind != "win" || c.ToEnd || !lc.EntailsEq(f, c.Lo) || !lc.EntailsEq(f, c.Hi.addConst(-4)) {
				return false, "computed side is not the first 4 bytes of a digest: " + ev.Pretty(c)
			}
			x, ok := isDoubleSHA256Of(c.Of)
			if !ok {
				return false, "computed side is not SHA256(SHA256(·)): " + ev.Pretty(c)
			}
			// stored: last 4 bytes of D
			if s.Kind != "win" || s.Of.Kind != "val" {
				return false, "stored side is not a window of the decoded input: " + ev.Pretty(s)
			}
			D := s.Of.Val
			lenD := lc.LenLin(D)
			if !lc.EntailsEq(f, s.Lo.add(lenD, -1).addConst(4)) {
				return false, "stored checksum does not start at len−4: " + ev.Pretty(s)
			}
			if !s.ToEnd && !lc.EntailsEq(f, s.Hi.add(lenD, -1)) {
				return false, "stored checksum is not 4 bytes wide: " + ev.Pretty(s)
			}
			// hashed: D[:len−4]
			if x.Kind != "win" || x.Of.Kind != "val" || x.Of.Val != D {
				if x.Kind == "val" && x.Val == D {
					return false, "the digest covers all of the input including the checksum bytes"
				}
				return false, "hashed bytes are not a prefix of the same decoded input: " + ev.Pretty(x)
			}
			if !lc.EntailsEq(f, x.Lo) {
				return false, "hashed bytes do not start at 0: " + ev.Pretty(x)
			}
			if x.ToEnd || !lc.EntailsEq(f, x.Hi.add(lenD, -1).addConst(4)) {
				return false, "hashed bytes are not exactly input[:len−4] on this path: " + ev.Pretty(x)
			}
			desc = fmt.Sprintf("first 4 bytes of SHA256d(%s[:len−4]) compared with %s[len−4:]", exprString(D), exprString(D))
		}
	}
	if desc == "" {
		return false, ""
	}
	return true, desc
}

// boolHelperCompare: fn is an in-repo function returning bool whose every
// return value is `call(R, …) == K` (or K == call) for a constant K.  Returns
// the remainder function R, the constant and the call.
func boolHelperCompare(p *Program, fn *ssa.Function) (*ssa.Function, *ssa.Call, uint64, bool) {
	rets := returnsOf(fn)
	if len(rets) == 0 {
		return nil, nil, 0, false
	}
	var R *ssa.Function
	var call *ssa.Call
	var K uint64
	for _, ret := range rets {
		if len(ret.Results) != 1 {
			return nil, nil, 0, false
		}
		bo, ok := ret.Results[0].(*ssa.BinOp)
		if !ok || bo.Op != token.EQL {
			return nil, nil, 0, false
		}
		var c *ssa.Call
		var k uint64
		if cc, ok := bo.X.(*ssa.Call); ok {
			kk, okk := constUint(bo.Y)
			if !okk {
				return nil, nil, 0, false
			}
			c, k = cc, kk
		} else if cc, ok := bo.Y.(*ssa.Call); ok {
			kk, okk := constUint(bo.X)
			if !okk {
				return nil, nil, 0, false
			}
			c, k = cc, kk
		} else {
			return nil, nil, 0, false
		}
		cal := c.Call.StaticCallee()
		if cal == nil || !p.InRepo(cal) {
			return nil, nil, 0, false
		}
		if R != nil && (R != cal || K != k) {
			return nil, nil, 0, false
		}
		R, call, K = cal, c, k
	}
	return R, call, K, true
}

// polymodGuard: every accept point of fn is preceded by the true edge of a call
// to an in-repo boolean helper of the boolHelperCompare shape (or by that
// comparison inline).  Returns the helper call conditions found per accept point.
type polyGuard struct {
	ok     bool
	how    string
	helper *ssa.Function
	R      *ssa.Function
	K      uint64
	call   *ssa.Call // the call of the helper (or of R when inline) in fn
}

func checkPolymodGuard(p *Program, fn *ssa.Function) []polyGuard {
	var out []polyGuard
	for _, ap := range acceptPoints(fn) {
		g := polyGuard{how: "no remainder comparison lies on every path to this accepting return"}
		for _, cd := range MustConds(fn, ap) {
			v, truth := cd.V, cd.Truth
			for {
				if u, isU := v.(*ssa.UnOp); isU && u.Op == token.NOT {
					v, truth = u.X, !truth
					continue
				}
				break
			}
			if c, ok := v.(*ssa.Call); ok {
				cal := c.Call.StaticCallee()
				if cal == nil || !p.InRepo(cal) {
					continue
				}
				R, _, K, ok := boolHelperCompare(p, cal)
				if !ok {
					continue
				}
				if !truth {
					g.how = "accepting path is the failing edge of " + FnName(cal)
					continue
				}
				g = polyGuard{ok: true, helper: cal, R: R, K: K, call: c, how: fmt.Sprintf("%s(…) must hold: %s(…) == %d", FnName(cal), FnName(R), K)}
				break
			}
			if bo, ok := v.(*ssa.BinOp); ok && (bo.Op == token.EQL || bo.Op == token.NEQ) {
				for _, pr := range [][2]ssa.Value{{bo.X, bo.Y}, {bo.Y, bo.X}} {
					c, ok1 := pr[0].(*ssa.Call)
					k, ok2 := constUint(pr[1])
					if !ok1 || !ok2 {
						continue
					}
					cal := c.Call.StaticCallee()
					if cal == nil || !p.InRepo(cal) {
						continue
					}
					eq := truth
					if bo.Op == token.NEQ {
						eq = !truth
					}
					if eq {
						g = polyGuard{ok: true, R: cal, K: k, call: c, how: fmt.Sprintf("%s(…) == %d", FnName(cal), k)}
					}
				}
			}
		}
		out = append(out, g)
	}
	return out
}

func describeConds(lc *LinCtx, conds []Cond) string {
	var parts []string
	for _, c := range conds {
		s := exprString(c.V)
		if !c.Truth {
			s = "!" + s
		}
		parts = append(parts, s)
	}
	return strings.Join(parts, " ∧ ")
}

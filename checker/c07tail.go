package main

import (
	"fmt"
	"go/token"
	"go/types"

	"golang.org/x/tools/go/ssa"
)

// c07rangesExact (mutation sweep: `bech[i] < 33` → `<= 33`, `fromBits < 1` → `<= 1`): the refusals of bech32.Decode that
// look only at one input character fire only outside 33..126, and the refusals of ConvertBits that look only at a
// group width fire only outside 1..8 — '!' and '~' are legal human-readable-part characters and 1-bit groups are
// inside the property's quantifier.
func c07rangesExact(p *Program, r *Report, dec, cb *ssa.Function) {
	n := 0
	if dec != nil && len(dec.Params) > 0 {
		param := dec.Params[0]
		for _, b := range dec.Blocks {
			for _, in := range b.Instrs {
				v, ok := in.(ssa.Value)
				if !ok {
					continue
				}
				x, _, isElem := elemRead(v)
				if !isElem || x != ssa.Value(param) {
					continue
				}
				e := v
				n += refusalsOutside(p, r, "C07.strict", dec, func(w ssa.Value) bool { return w == e },
					func(lc *LinCtx) (Lin, bool) { return lc.Lin(e), true }, 33, 126, "33..126 (the characters BIP173 allows)")
			}
		}
	}
	if cb != nil {
		for _, pa := range cb.Params {
			bt, ok := pa.Type().Underlying().(*types.Basic)
			if !ok || bt.Info()&types.IsInteger == 0 {
				continue
			}
			pv := pa
			n += refusalsOutside(p, r, "C07.strict", cb, func(w ssa.Value) bool { return w == ssa.Value(pv) },
				func(lc *LinCtx) (Lin, bool) { return lc.Lin(pv), true }, 1, 8, "1..8 (group widths)")
		}
	}
	// not a floor of four: a parameter check that goes through a predicate helper (benign round 4, C07-y2:
	// `validGroupSize(bits)`) has no refusal that reads the parameter itself; the helper-inlined view sees it
	if n < 1 {
		r.Unresolved("C07.strict", "refusals on a single character of bech32.Decode or on the group widths of ConvertBits")
	}
}

// c07convertTail (mutation sweep: `pad && filledBits > 0` → `pad || …`, `> 0` → `>= 0`, `filledBits > 0 && (…)` → `||`):
// what ConvertBits does after its last input byte is a finite decision over (pad, how many bits are pending, whether
// they are all zero).  The code after the main loop is evaluated over that finite domain — pending count 0 / 1..4 /
// 5..7, pending bits zero / non-zero, pad true / false — and every point must end as BIP173 prescribes:
//
//	nothing pending            → success, nothing appended
//	pending, pad               → success, one padded group appended
//	pending, !pad              → error if more than 4 bits or any bit set, else success with nothing appended
//
// The two loop-carried quantities are identified by their use in the padding step `pending << (toBits − count)`.
func c07convertTail(p *Program, r *Report, cb *ssa.Function) {
	rule, fname := "C07.strict", FnName(cb)
	var padParam *ssa.Parameter
	for _, pa := range cb.Params {
		if b, ok := pa.Type().Underlying().(*types.Basic); ok && b.Kind() == types.Bool {
			padParam = pa
		}
	}
	// outermost loop
	var hdr *ssa.BasicBlock
	size := 0
	for _, h := range cb.Blocks {
		if isLoopHeader(h) {
			if n := len(loopBlocks(cb, h)); n > size {
				hdr, size = h, n
			}
		}
	}
	if padParam == nil || hdr == nil {
		r.Unresolved(rule, "pad parameter and main loop of "+fname)
		return
	}
	in := loopBlocks(cb, hdr)
	var exit *ssa.BasicBlock
	for _, s := range hdr.Succs {
		if !in[s] {
			exit = s
		}
	}
	if exit == nil || len(earlyLoopExits(cb, hdr)) != 0 {
		r.Unresolved(rule, "single exhaustion exit of the main loop of "+fname)
		return
	}
	tail := reachableFrom(exit, map[*ssa.BasicBlock]bool{hdr: true})
	strip := func(v ssa.Value) ssa.Value {
		for {
			switch x := v.(type) {
			case *ssa.Convert:
				v = x.X
				continue
			case *ssa.ChangeType:
				v = x.X
				continue
			}
			return v
		}
	}
	hdrPhi := func(v ssa.Value) *ssa.Phi {
		ph, ok := strip(v).(*ssa.Phi)
		if ok && ph.Block() == hdr {
			return ph
		}
		return nil
	}
	var fill, pend *ssa.Phi
	for b := range tail {
		for _, ins := range b.Instrs {
			bo, ok := ins.(*ssa.BinOp)
			if !ok || bo.Op != token.SHL {
				continue
			}
			sub, ok := strip(bo.Y).(*ssa.BinOp)
			if !ok || sub.Op != token.SUB {
				continue
			}
			if x, y := hdrPhi(bo.X), hdrPhi(sub.Y); x != nil && y != nil {
				pend, fill = x, y
			}
		}
	}
	if fill == nil || pend == nil {
		r.Unresolved(rule, "padding step `pending << (toBits − count)` after the main loop of "+fname)
		return
	}
	type absv []int64 // nil: unknown
	rng := func(lo, hi int64) absv {
		var a absv
		for k := lo; k <= hi; k++ {
			a = append(a, k)
		}
		return a
	}
	type point struct {
		pad        bool
		fill, pend absv
		name       string
		wantErr    bool
		wantAppend bool
	}
	var pts []point
	for _, pad := range []bool{false, true} {
		pts = append(pts, point{pad, rng(0, 0), rng(0, 0), fmt.Sprintf("pad=%v, nothing pending", pad), false, false})
		for _, hi := range []bool{false, true} {
			for _, nz := range []bool{false, true} {
				f, fs := rng(1, 4), "1..4 bits pending"
				if hi {
					f, fs = rng(5, 7), "5..7 bits pending"
				}
				pe, ps := rng(0, 0), "all zero"
				if nz {
					pe, ps = rng(1, 255), "not all zero"
				}
				pts = append(pts, point{pad, f, pe, fmt.Sprintf("pad=%v, %s, %s", pad, fs, ps), !pad && (hi || nz), pad})
			}
		}
	}
	for _, pt := range pts {
		env := map[ssa.Value]absv{fill: pt.fill, pend: pt.pend}
		var eval func(v ssa.Value) absv
		eval = func(v ssa.Value) absv {
			v = strip(v)
			if a, ok := env[v]; ok {
				return a
			}
			if k, ok := constInt(v); ok {
				return absv{k}
			}
			return nil
		}
		var truth func(v ssa.Value) (bool, bool)
		truth = func(v ssa.Value) (bool, bool) {
			if v == ssa.Value(padParam) {
				return pt.pad, true
			}
			if k, ok := constBool(v); ok {
				return k, true
			}
			switch x := v.(type) {
			case *ssa.UnOp:
				if x.Op == token.NOT {
					t, ok := truth(x.X)
					return !t, ok
				}
			case *ssa.BinOp:
				a, b := eval(x.X), eval(x.Y)
				if a == nil || b == nil {
					return false, false
				}
				seenT, seenF := false, false
				for _, i := range a {
					for _, j := range b {
						var t bool
						switch x.Op {
						case token.EQL:
							t = i == j
						case token.NEQ:
							t = i != j
						case token.LSS:
							t = i < j
						case token.LEQ:
							t = i <= j
						case token.GTR:
							t = i > j
						case token.GEQ:
							t = i >= j
						default:
							return false, false
						}
						if t {
							seenT = true
						} else {
							seenF = true
						}
					}
				}
				if seenT != seenF {
					return seenT, true
				}
			}
			return false, false
		}
		cur, prev := exit, hdr
		appended := 0
		outcome := ""
		var at token.Pos
		for steps := 0; steps < 64 && outcome == ""; steps++ {
			// φs of cur for the edge prev→cur, evaluated simultaneously
			upd := map[ssa.Value]absv{}
			for _, ins := range cur.Instrs {
				ph, ok := ins.(*ssa.Phi)
				if !ok {
					break
				}
				for i, pb := range cur.Preds {
					if pb == prev {
						upd[ph] = eval(ph.Edges[i])
					}
				}
			}
			for k, v := range upd {
				env[k] = v
			}
			for _, ins := range cur.Instrs {
				if c, ok := ins.(*ssa.Call); ok && isBuiltin(&c.Call, "append") {
					appended++
				}
			}
			switch t := lastInstr(cur).(type) {
			case *ssa.Return:
				at = t.Pos()
				if len(t.Results) == 2 && isNilConst(t.Results[1]) {
					outcome = "ok"
				} else {
					outcome = "err"
				}
			case *ssa.If:
				tv, ok := truth(t.Cond)
				if !ok {
					at = t.Cond.Pos()
					outcome = "undecided: the test " + exprString(t.Cond) + " splits a class of the finite domain"
					break
				}
				prev = cur
				if tv {
					cur = cur.Succs[0]
				} else {
					cur = cur.Succs[1]
				}
			case *ssa.Jump:
				prev, cur = cur, cur.Succs[0]
			default:
				at = cur.Instrs[0].Pos()
				outcome = "undecided: unexpected terminator"
			}
		}
		want := "ok"
		if pt.wantErr {
			want = "err"
		}
		wantApp := 0
		if pt.wantAppend {
			wantApp = 1
		}
		construct := "after the last byte (" + pt.name + "): " + map[string]string{"ok": "success", "err": "error"}[want] + fmt.Sprintf(", %d group(s) appended", wantApp)
		if outcome != "ok" && outcome != "err" {
			if outcome == "" {
				outcome = "undecided: no return reached in 64 steps"
			}
			r.Undecided(rule, fname, construct, at, outcome)
			continue
		}
		good := outcome == want && (outcome == "err" || appended == wantApp)
		r.Add(rule, fname, construct, at, good, fmt.Sprintf("the code ends with %s and appends %d group(s)", map[string]string{"ok": "success", "err": "an error"}[outcome], appended))
	}
}

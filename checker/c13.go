package main

import (
	"fmt"
	"go/token"
	"go/types"
	"sort"

	"golang.org/x/tools/go/ssa"
)

func init() { register("C13", checkC13) }

// valueUses follows a value through φ-nodes, widening conversions and
// single-assignment locals and returns the instructions that consume it.
func valueUses(v ssa.Value) []ssa.Instruction {
	var out []ssa.Instruction
	seen := map[ssa.Value]bool{}
	var walk func(v ssa.Value)
	walk = func(v ssa.Value) {
		if seen[v] {
			return
		}
		seen[v] = true
		refs := v.Referrers()
		if refs == nil {
			return
		}
		for _, ref := range *refs {
			switch r := ref.(type) {
			case *ssa.Phi:
				walk(r)
			case *ssa.ChangeType:
				walk(r)
			case *ssa.DebugRef:
			case *ssa.Store:
				if a, ok := r.Addr.(*ssa.Alloc); ok && r.Val == v {
					// local variable: its loads
					for _, ar := range *a.Referrers() {
						if ld, ok := ar.(*ssa.UnOp); ok && ld.Op == token.MUL {
							walk(ld)
						}
					}
					continue
				}
				out = append(out, r)
			default:
				out = append(out, ref)
			}
		}
	}
	walk(v)
	return out
}

// fieldLoad: v is a load of field f of some struct object; returns the field and the base address value.
func fieldLoad(v ssa.Value) (*types.Var, ssa.Value, bool) {
	u, ok := v.(*ssa.UnOp)
	if !ok || u.Op != token.MUL {
		return nil, nil, false
	}
	fa, ok := u.X.(*ssa.FieldAddr)
	if !ok {
		return nil, nil, false
	}
	return fieldOfAddr(fa), canonRoot(fa.X), true
}

func checkC13(p *Program, r *Report) {
	// round 7: the constructors of package gcs refuse a filter for P only when P > 32 (C14-agent7-m1: `P >= maxP` in
	// FromBytes refused what BuildGCSFilter had produced), and BuildGCSFilter refuses for nothing but P (C13-agent7-m2: an
	// "overflow guard" N > MaxUint32/M refused every set with N·M ≥ 2^32)
	for _, name := range []string{"BuildGCSFilter", "FromBytes", "FromNBytes", "FromPBytes", "FromNPBytes"} {
		gf := p.Func("gcs", name)
		if gf == nil {
			continue
		}
		var pp *ssa.Parameter
		for _, pa := range gf.Params {
			if bt, ok := pa.Type().Underlying().(*types.Basic); ok && bt.Kind() == types.Uint8 {
				pp = pa
			}
		}
		if pp == nil {
			continue
		}
		pv := ssa.Value(pp)
		refusalsOutside(p, r, "C13.range", gf, func(v ssa.Value) bool { return v == pv }, func(lc *LinCtx) (Lin, bool) { return lc.Lin(pv), true }, 0, 32, "0..32")
		if name == "BuildGCSFilter" {
			gcsBuildRefusals(p, r, "C13.range", gf, pp)
		}
	}
	r.Floor("C13.range", 2)
	// round 6 (systematic): no unguarded mutable package-level state behind this property's functions (§2.9)
	sharedStateRule(p, r, NewEffects(p), "C13.shared", []string{"gcs/gcs.go"})
	c13verdicts(p, r)
	r.Floor("C13.shared", 0)
	r.Explain = "C13.pipeline: every keyed-hash call in package gcs (builder and the three query strategies) feeds its result, unmodified, into the same " +
		"range-reduction function together with the high and low 32-bit halves of the same modulus field, and the reduced value is only ever " +
		"appended, compared or used as a map key. C13.width: no 64-bit set value (reduced hash, decoded delta, or sum of deltas) is narrowed by a " +
		"conversion anywhere in the query / build functions, so two strategies cannot disagree on a low-32-bit collision. C13.dispatch: MatchAny " +
		"forwards its own (key, data) unchanged to both strategies and returns their answer. C13.consume: in each query loop every decoded delta is added to the " +
		"running value and every decoded element is compared or indexed before the next read. C13.reader: the delta reader returns quotient·2^P + remainder with the " +
		"filter's own P. C13.every: every hashing loop ranges over the whole item list and hashes every element. C13.fresh: the index a query fills is allocated by that call. " +
		"C13.writer: the builder writes each delta as ⌊delta/2^P⌋ one-bits (a loop writing one bit per decrement), a zero bit, then delta's low P bits — the code the reader decodes; " +
		"another encoder is reported as undecided. Not decided: the bit-stream library, sortedness."
	r.Trusted = []string{"aead/siphash.Sum64 is a function of (item, key)", "kkdai/bstream bit reader"}
	pkg := p.Pkg("gcs")
	if pkg == nil {
		r.Unresolved("C13.pipeline", "package gcs")
		return
	}
	anchors := []string{"BuildGCSFilter", "(*Filter).Match", "(*Filter).MatchAny", "(*Filter).ZipMatchAny", "(*Filter).HashMatchAny"}
	var roots []*ssa.Function
	for _, a := range anchors {
		fn := p.Func("gcs", a)
		if fn == nil {
			r.Unresolved("C13.pipeline", "gcs."+a)
			continue
		}
		roots = append(roots, fn)
	}
	scope := p.Reachable(roots)
	inScope := map[*ssa.Function]bool{}
	for _, f := range scope {
		if f.Pkg == pkg || (f.Parent() != nil && f.Parent().Pkg == pkg) {
			inScope[f] = true
		}
	}

	// ---- C13.pipeline
	type site struct {
		fn      *ssa.Function
		call    *ssa.Call
		R       *ssa.Function
		field   *types.Var
		shift   int64
		lowBits int
		ok      bool
		why     string
	}
	var sites []site
	var reduceFns = map[*ssa.Function]bool{}
	for _, fn := range scope {
		if !inScope[fn] {
			continue
		}
		for _, b := range fn.Blocks {
			for _, in := range b.Instrs {
				c, ok := in.(*ssa.Call)
				if !ok || !staticCalleeIs(&c.Call, "github.com/aead/siphash.Sum64") {
					continue
				}
				s := site{fn: fn, call: c}
				uses := valueUses(c)
				if len(uses) != 1 {
					s.why = fmt.Sprintf("hash result has %d consumers, expected exactly the range reduction", len(uses))
					sites = append(sites, s)
					continue
				}
				rc, ok := uses[0].(*ssa.Call)
				if !ok || rc.Call.StaticCallee() == nil || !p.InRepo(rc.Call.StaticCallee()) || len(rc.Call.Args) != 3 {
					s.why = "hash result is not passed to an in-repo range-reduction function"
					sites = append(sites, s)
					continue
				}
				s.R = rc.Call.StaticCallee()
				if stripIntConv(rc.Call.Args[0]) != ssa.Value(c) && !flowsFrom(rc.Call.Args[0], c) {
					s.why = "hash result is transformed before the reduction"
					sites = append(sites, s)
					continue
				}
				// the modulus: a load of the filter's field, or — in an extracted helper — a parameter that every
				// caller fills with that field
				modOrigin := func(v ssa.Value) (*types.Var, ssa.Value, bool) {
					if f, base, ok := fieldLoad(v); ok {
						return f, base, true
					}
					pa, ok := v.(*ssa.Parameter)
					if !ok {
						return nil, nil, false
					}
					var through func(pa *ssa.Parameter, depth int) (*types.Var, bool)
					through = func(pa *ssa.Parameter, depth int) (*types.Var, bool) {
						host := pa.Parent()
						if depth > 3 || (host.Object() != nil && host.Object().Exported()) {
							return nil, false
						}
						pi := paramIndex(host, pa)
						var fld *types.Var
						for _, g := range scope {
							for _, gb := range g.Blocks {
								for _, gi := range gb.Instrs {
									gc, ok := gi.(*ssa.Call)
									if !ok || gc.Call.StaticCallee() != host || pi >= len(gc.Call.Args) {
										continue
									}
									var f *types.Var
									if ff, _, ok := fieldLoad(gc.Call.Args[pi]); ok {
										f = ff
									} else if pp, ok := gc.Call.Args[pi].(*ssa.Parameter); ok {
										if ff, ok := through(pp, depth+1); ok {
											f = ff
										}
									}
									if f == nil || (fld != nil && f != fld) {
										return nil, false
									}
									fld = f
								}
							}
						}
						return fld, fld != nil
					}
					fld, ok := through(pa, 0)
					if !ok {
						return nil, nil, false
					}
					return fld, pa, true
				}
				// hi = M >> 32
				hi, ok1 := rc.Call.Args[1].(*ssa.BinOp)
				var f1 *types.Var
				var base1 ssa.Value
				if ok1 && hi.Op == token.SHR {
					if k, ok := constInt(hi.Y); ok {
						s.shift = k
					}
					f1, base1, ok1 = modOrigin(hi.X)
				} else {
					ok1 = false
				}
				// lo = uint64(uint32(M))
				var f2 *types.Var
				var base2 ssa.Value
				ok2 := false
				if cv, ok := rc.Call.Args[2].(*ssa.Convert); ok {
					if cv2, ok := cv.X.(*ssa.Convert); ok {
						lcx := NewLinCtx(p, fn)
						s.lowBits = lcx.bitsOf(cv2.Type())
						f2, base2, ok2 = modOrigin(cv2.X)
					}
				}
				switch {
				case !ok1:
					s.why = "second argument is not (modulus field >> 32)"
				case !ok2:
					s.why = "third argument is not uint64(uint32(modulus field))"
				case f1 != f2 || base1 != base2:
					s.why = "high and low halves come from different fields / objects"
				case s.shift != 32 || s.lowBits != 32:
					s.why = fmt.Sprintf("split is >>%d / %d low bits, expected 32/32", s.shift, s.lowBits)
				default:
					s.ok, s.field = true, f1
					reduceFns[s.R] = true
				}
				sites = append(sites, s)
			}
		}
	}
	var ref *site
	for i := range sites {
		if sites[i].ok {
			ref = &sites[i]
			break
		}
	}
	perFn := map[*ssa.Function]int{}
	for _, s := range sites {
		perFn[s.fn]++
		name := "keyed-hash site reduces with the shared pipeline"
		if perFn[s.fn] > 1 {
			name += fmt.Sprintf(" #%d", perFn[s.fn])
		}
		ok, how := s.ok, s.why
		if s.ok {
			how = fmt.Sprintf("%s(siphash(item,key), %s>>32, uint64(uint32(%s)))", FnName(s.R), s.field.Name(), s.field.Name())
			if ref != nil && (s.R != ref.R || s.field != ref.field) {
				ok = false
				how += fmt.Sprintf(" — differs from %s which uses %s / %s", FnName(ref.fn), FnName(ref.R), ref.field.Name())
			}
		}
		r.Add("C13.pipeline", FnName(s.fn), name, s.call.Pos(), ok, how)
	}
	// every strategy has a site
	for _, a := range []string{"BuildGCSFilter", "(*Filter).Match", "(*Filter).ZipMatchAny", "(*Filter).HashMatchAny"} {
		fn := p.Func("gcs", a)
		if fn == nil {
			continue
		}
		n := 0
		for _, s := range sites {
			if s.fn == fn || s.fn.Parent() == fn {
				n++
			}
		}
		if n == 0 {
			// allowed only if it delegates to a function that has one
			del := false
			for _, g := range p.Reachable([]*ssa.Function{fn}) {
				for _, s := range sites {
					if s.fn == g {
						del = true
					}
				}
			}
			r.Add("C13.pipeline", FnName(fn), "strategy hashes its items through the shared pipeline", fn.Pos(), del, "no keyed-hash call reachable")
		}
	}
	// uses of the reduced value
	for _, fn := range scope {
		if !inScope[fn] {
			continue
		}
		for _, b := range fn.Blocks {
			for _, in := range b.Instrs {
				c, ok := in.(*ssa.Call)
				if !ok || c.Call.StaticCallee() == nil || !reduceFns[c.Call.StaticCallee()] {
					continue
				}
				bad := ""
				for _, u := range valueUses(c) {
					switch x := u.(type) {
					case *ssa.BinOp:
						switch x.Op {
						case token.EQL, token.NEQ, token.LSS, token.LEQ, token.GTR, token.GEQ:
						default:
							bad = "arithmetic " + x.Op.String() + " on the reduced value"
						}
					case *ssa.Store: // element of a varargs array for append, or a slice element
					case *ssa.MapUpdate, *ssa.Lookup:
					case *ssa.Convert:
						// judged by C13.width
					case *ssa.Call:
						if !isBuiltin(&x.Call, "append") {
							bad = "passed to " + calleeShort(&x.Call)
						}
					case *ssa.MakeInterface:
						bad = "escapes"
					case *ssa.Return:
						// a hashing helper hands the reduced value to its callers: their uses are judged in its place
						if fn.Object() != nil && fn.Object().Exported() {
							bad = "escapes"
						} else {
							reduceFns[fn] = true
						}
					}
				}
				r.Add("C13.pipeline", FnName(fn), "reduced value is only appended, compared or used as a key", c.Pos(), bad == "", bad)
			}
		}
	}
	r.Floor("C13.pipeline", 5)

	// ---- C13.width: taint
	nconv := 0
	for _, fn := range scope {
		if !inScope[fn] || reduceFns[fn] {
			continue
		}
		tainted := map[ssa.Value]string{}
		// sources
		for _, b := range fn.Blocks {
			for _, in := range b.Instrs {
				switch x := in.(type) {
				case *ssa.Call:
					cal := x.Call.StaticCallee()
					if cal == nil {
						continue
					}
					if reduceFns[cal] {
						tainted[x] = "reduced hash"
					} else if p.InRepo(cal) && takesBitReader(cal) {
						tainted[x] = "decoded delta"
					}
				}
			}
		}
		for changed := true; changed; {
			changed = false
			mark := func(v ssa.Value, why string) {
				if _, ok := tainted[v]; !ok {
					tainted[v] = why
					changed = true
				}
			}
			for _, b := range fn.Blocks {
				for _, in := range b.Instrs {
					switch x := in.(type) {
					case *ssa.Extract:
						if w, ok := tainted[x.Tuple]; ok {
							if _, isInt := intBasic(x.Type()); isInt {
								mark(x, w)
							}
						}
					case *ssa.Phi:
						for _, e := range x.Edges {
							if w, ok := tainted[e]; ok {
								mark(x, w)
							}
						}
					case *ssa.BinOp:
						if _, isInt := intBasic(x.Type()); !isInt {
							continue
						}
						if x.Op == token.ADD || x.Op == token.SUB {
							for _, e := range []ssa.Value{x.X, x.Y} {
								if w, ok := tainted[e]; ok {
									mark(x, "sum of "+w)
								}
							}
						}
					case *ssa.Convert:
						if w, ok := tainted[x.X]; ok {
							lcx := NewLinCtx(p, fn)
							if lcx.bitsOf(x.Type()) >= lcx.bitsOf(x.X.Type()) {
								mark(x, w)
							}
						}
					case *ssa.Store:
						if w, ok := tainted[x.Val]; ok {
							if a, ok := x.Addr.(*ssa.Alloc); ok {
								for _, ar := range *a.Referrers() {
									if ld, ok := ar.(*ssa.UnOp); ok && ld.Op == token.MUL {
										mark(ld, w)
									}
								}
							}
							if ia, ok := x.Addr.(*ssa.IndexAddr); ok {
								mark(ia.X, "slice holding "+w)
							}
						}
					case *ssa.Slice:
						if w, ok := tainted[x.X]; ok {
							mark(x, w)
						}
					case *ssa.Call:
						if isBuiltin(&x.Call, "append") {
							for _, a := range x.Call.Args {
								if w, ok := tainted[a]; ok {
									mark(x, w)
								}
							}
						}
					case *ssa.UnOp:
						if x.Op == token.MUL {
							if ia, ok := x.X.(*ssa.IndexAddr); ok {
								if w, ok := tainted[ia.X]; ok {
									if _, isInt := intBasic(x.Type()); isInt {
										mark(x, "element of "+w)
									}
								}
							}
						}
					}
				}
			}
		}
		// sinks: narrowing conversions of tainted integers
		var keys []ssa.Value
		for v := range tainted {
			keys = append(keys, v)
		}
		sort.Slice(keys, func(i, j int) bool { return keys[i].Pos() < keys[j].Pos() })
		lcx := NewLinCtx(p, fn)
		for _, b := range fn.Blocks {
			for _, in := range b.Instrs {
				cv, ok := in.(*ssa.Convert)
				if !ok {
					continue
				}
				w, isT := tainted[cv.X]
				if !isT {
					continue
				}
				if _, isInt := intBasic(cv.Type()); !isInt {
					continue
				}
				if _, isInt := intBasic(cv.X.Type()); !isInt {
					continue
				}
				nconv++
				narrow := lcx.bitsOf(cv.Type()) < lcx.bitsOf(cv.X.Type())
				use := "value"
				for _, u := range valueUses(cv) {
					switch u.(type) {
					case *ssa.MapUpdate:
						use = "map key"
					case *ssa.Lookup:
						use = "map lookup key"
					case *ssa.BinOp:
						use = "comparison operand"
					}
				}
				r.Add("C13.width", FnName(fn), fmt.Sprintf("%s is kept at 64 bits (%s)", w, use), cv.Pos(), !narrow,
					fmt.Sprintf("conversion %s <- %s: values differing by a multiple of 2^%d collide", shortType(cv.Type()), shortType(cv.X.Type()), lcx.bitsOf(cv.Type())))
			}
		}
		// one positive obligation per function so the evidence shows the taint reached something
		nt := 0
		for _, w := range tainted {
			_ = w
			nt++
		}
		if nt > 0 {
			r.Add("C13.width", FnName(fn), "set values tracked through the function", fn.Pos(), true, fmt.Sprintf("%d tainted SSA values, narrowing conversions checked", nt))
		}
	}
	r.Floor("C13.width", 3)

	// ---- C13.reader: the element decoder assembles its result at full width
	for _, fn := range scope {
		if !inScope[fn] || !takesBitReader(fn) {
			continue
		}
		lcx := NewLinCtx(p, fn)
		for _, ret := range returnsOf(fn) {
			if len(ret.Results) == 0 {
				continue
			}
			res := ret.Results[0]
			if _, isInt := intBasic(res.Type()); !isInt {
				continue
			}
			if k, isK := res.(*ssa.Const); isK && k != nil {
				continue
			}
			bad := ""
			seen := map[ssa.Value]bool{}
			var walk func(v ssa.Value)
			walk = func(v ssa.Value) {
				if seen[v] || bad != "" {
					return
				}
				seen[v] = true
				switch x := v.(type) {
				case *ssa.BinOp:
					if _, isInt := intBasic(x.Type()); !isInt {
						return
					}
					if lcx.bitsOf(x.Type()) < 64 {
						bad = fmt.Sprintf("%s computed at %d bits (%s)", x.Op, lcx.bitsOf(x.Type()), exprString(x))
						return
					}
					walk(x.X)
					if x.Op != token.SHL && x.Op != token.SHR {
						walk(x.Y)
					}
				case *ssa.Phi:
					if lcx.bitsOf(x.Type()) < 64 {
						bad = fmt.Sprintf("loop-carried value %s is only %d bits wide", exprString(x), lcx.bitsOf(x.Type()))
						return
					}
					for _, e := range x.Edges {
						walk(e)
					}
				case *ssa.Convert:
					if _, isInt := intBasic(x.X.Type()); isInt {
						walk2 := x.X
						switch walk2.(type) {
						case *ssa.BinOp, *ssa.Phi:
							if lcx.bitsOf(x.X.Type()) < 64 {
								bad = fmt.Sprintf("arithmetic result widened only after being computed at %d bits (%s)", lcx.bitsOf(x.X.Type()), exprString(x))
								return
							}
						}
						walk(x.X)
					}
				case *ssa.Extract:
					// result of the bit reader: full width by its signature
				}
			}
			walk(res)
			r.Add("C13.reader", FnName(fn), "decoded element is assembled with 64-bit arithmetic", ret.Pos(), bad == "", bad)
		}
	}
	r.Floor("C13.reader", 1)

	// ---- C13.consume: every successfully decoded element is accumulated and used
	for _, fn := range scope {
		if !inScope[fn] || reduceFns[fn] || takesBitReader(fn) {
			continue
		}
		for _, b := range fn.Blocks {
			for _, in := range b.Instrs {
				c, ok := in.(*ssa.Call)
				if !ok || c.Call.StaticCallee() == nil || !p.InRepo(c.Call.StaticCallee()) || !takesBitReader(c.Call.StaticCallee()) {
					continue
				}
				// the loop containing the call
				var hdr *ssa.BasicBlock
				for h := b; h != nil; h = h.Idom() {
					if isLoopHeader(h) {
						back := false
						for _, pr := range h.Preds {
							if h.Dominates(pr) && reachableFrom(b, nil)[pr] {
								back = true
							}
						}
						if back {
							hdr = h
							break
						}
					}
				}
				if hdr == nil {
					continue
				}
				// delta value and the success edge
				var delta ssa.Value
				var succ *ssa.BasicBlock
				for _, ref := range *c.Referrers() {
					ex, ok := ref.(*ssa.Extract)
					if !ok {
						continue
					}
					if ex.Index == 0 {
						delta = ex
					}
					if ex.Index == 1 {
						for _, u := range *ex.Referrers() {
							bo, ok := u.(*ssa.BinOp)
							if !ok || !(isNilConst(bo.X) || isNilConst(bo.Y)) {
								continue
							}
							for _, uu := range *bo.Referrers() {
								if iff, ok := uu.(*ssa.If); ok {
									if bo.Op == token.EQL {
										succ = iff.Block().Succs[0]
									} else if bo.Op == token.NEQ {
										succ = iff.Block().Succs[1]
									}
								}
							}
						}
					}
				}
				if delta == nil || succ == nil {
					r.Undecided("C13.consume", FnName(fn), "decoded elements are accumulated and used", c.Pos(), "cannot find the success edge of the element decoder call")
					continue
				}
				// the accumulator: a header φ with ADD(φ, delta)
				var acc *ssa.Phi
				var sum ssa.Value
				for _, ref := range *delta.Referrers() {
					if add, ok := ref.(*ssa.BinOp); ok && add.Op == token.ADD {
						for _, side := range []ssa.Value{add.X, add.Y} {
							if ph, ok := side.(*ssa.Phi); ok && ph.Block() == hdr {
								acc, sum = ph, add
							}
						}
					}
				}
				if acc == nil {
					r.Add("C13.consume", FnName(fn), "decoded deltas are summed into a running value", c.Pos(), false, "no accumulator φ += delta found in the decoding loop")
					continue
				}
				// every back-edge operand of the accumulator is the new sum
				okAcc := true
				for i, e := range acc.Edges {
					if !hdr.Dominates(hdr.Preds[i]) {
						continue
					}
					if !flowsFrom(e, sum) || flowsFrom(e, acc) && e != sum && !onlyThrough(e, sum, acc) {
						okAcc = false
					}
				}
				r.Add("C13.consume", FnName(fn), "every decoded delta is added to the running value before the next element", c.Pos(), okAcc, "each loop back edge carries running value + delta")
				// consumers: map insertion keyed by the sum, or a comparison with the sum
				consumer := map[*ssa.BasicBlock]bool{}
				for _, u := range valueUses(sum) {
					switch x := u.(type) {
					case *ssa.MapUpdate:
						consumer[x.Block()] = true
					case *ssa.BinOp:
						switch x.Op {
						case token.EQL, token.NEQ, token.LSS, token.LEQ, token.GTR, token.GEQ:
							consumer[x.Block()] = true
						}
					}
				}
				reach := reachableFrom(succ, consumer)
				escaped := false
				for _, pr := range hdr.Preds {
					if hdr.Dominates(pr) && reach[pr] && !consumer[pr] {
						escaped = true
					}
				}
				if consumer[succ] {
					escaped = false
				}
				r.Add("C13.consume", FnName(fn), "every decoded element is compared or indexed before the next one is read", c.Pos(), !escaped && len(consumer) > 0,
					"no path from a successful read back to the loop head avoids the comparison / insertion")
			}
		}
	}
	r.Floor("C13.consume", 6)
	r.Floor("C13.dispatch", 2)
	c13extra(p, r, scope, inScope)

	// ---- C13.pipeline (cont.): the modulus used for reduction is the one the filter keeps
	if ref != nil {
		for _, s := range sites {
			if !s.ok {
				continue
			}
			fn := s.fn
			// loads of the modulus field feeding this site
			var loadBlk *ssa.BasicBlock
			for _, b := range fn.Blocks {
				for _, in := range b.Instrs {
					if f, _, ok := fieldLoad(valueOf(in)); ok && f == s.field && loadBlk == nil {
						loadBlk = b
					}
				}
			}
			if loadBlk == nil {
				continue
			}
			after := reachableFrom(loadBlk, nil)
			bad := ""
			for _, b := range fn.Blocks {
				for _, in := range b.Instrs {
					st, ok := in.(*ssa.Store)
					if !ok {
						continue
					}
					fa, ok := st.Addr.(*ssa.FieldAddr)
					if !ok || fieldOfAddr(fa) != s.field {
						continue
					}
					if b != loadBlk && after[b] {
						bad = "field " + s.field.Name() + " is reassigned at " + p.Pos(st.Pos()) + " after values were reduced with its earlier value"
					}
					if b == loadBlk {
						// same block: the store must come before the first load
						seenLoad := false
						for _, in2 := range b.Instrs {
							if f, _, ok := fieldLoad(valueOf(in2)); ok && f == s.field {
								seenLoad = true
							}
							if in2 == in && seenLoad {
								bad = "field " + s.field.Name() + " is reassigned at " + p.Pos(st.Pos()) + " after it was read for the reduction"
							}
						}
					}
				}
			}
			r.Add("C13.pipeline", FnName(fn), "the modulus used for reduction is the modulus the filter keeps", s.call.Pos(), bad == "", bad)
		}
	}

	// ---- C13.dispatch
	if ma := p.Func("gcs", "(*Filter).MatchAny"); ma != nil {
		n := 0
		for _, b := range ma.Blocks {
			for _, in := range b.Instrs {
				c, ok := in.(*ssa.Call)
				if !ok {
					continue
				}
				cal := c.Call.StaticCallee()
				if cal == nil || !p.InRepo(cal) || !isMethodOf(cal, derefType(ma.Params[0].Type())) || len(c.Call.Args) < 3 {
					continue
				}
				if len(cal.Params) != len(ma.Params) {
					continue
				}
				n++
				ok2 := true
				for i := range ma.Params {
					if !sameParamValue(c.Call.Args[i], ma.Params[i]) {
						ok2 = false
					}
				}
				// result returned directly
				ret := false
				for _, u := range *c.Referrers() {
					if ex, ok := u.(*ssa.Extract); ok {
						for _, uu := range *ex.Referrers() {
							if _, ok := uu.(*ssa.Return); ok {
								ret = true
							}
						}
					}
					if _, ok := u.(*ssa.Return); ok {
						ret = true
					}
				}
				r.Add("C13.dispatch", FnName(ma), "forwards (receiver, key, data) unchanged to "+FnName(cal)+" and returns its answer", c.Pos(), ok2 && ret, "arguments are the method's own parameters")
			}
		}
		if n < 2 {
			r.Add("C13.dispatch", FnName(ma), fmt.Sprintf("vacuity: %d strategy call(s) found, floor 2", n), ma.Pos(), false, "kind=below-floor")
		}
	} else {
		r.Unresolved("C13.dispatch", "(*Filter).MatchAny")
	}
}

// flowsFrom: v is src possibly through φ / single-assignment locals / widening conversions.
func flowsFrom(v ssa.Value, src ssa.Value) bool {
	seen := map[ssa.Value]bool{}
	var walk func(v ssa.Value) bool
	walk = func(v ssa.Value) bool {
		if v == src {
			return true
		}
		if seen[v] {
			return false
		}
		seen[v] = true
		switch x := v.(type) {
		case *ssa.Phi:
			for _, e := range x.Edges {
				if walk(e) {
					return true
				}
			}
		case *ssa.ChangeType:
			return walk(x.X)
		case *ssa.UnOp:
			if x.Op == token.MUL {
				if a, ok := x.X.(*ssa.Alloc); ok {
					if w := singleStore(a); w != nil {
						return walk(w)
					}
				}
			}
		}
		return false
	}
	return walk(v)
}

// sameParamValue: v is parameter pa, or a load of the local the parameter was spilled to.
func sameParamValue(v ssa.Value, pa *ssa.Parameter) bool {
	if v == ssa.Value(pa) {
		return true
	}
	if u, ok := v.(*ssa.UnOp); ok && u.Op == token.MUL {
		if a, ok := u.X.(*ssa.Alloc); ok {
			if w := singleStore(a); w == ssa.Value(pa) {
				return true
			}
		}
	}
	return false
}

// takesBitReader: the function has a parameter that is a pointer to an
// out-of-repo bit-stream reader type (the decoder of one set element).
func takesBitReader(fn *ssa.Function) bool {
	for _, pa := range fn.Params {
		if n := namedOf(pa.Type()); n != nil && n.Obj().Pkg() != nil && n.Obj().Pkg().Path() == "github.com/kkdai/bstream" {
			res := fn.Signature.Results()
			for i := 0; i < res.Len(); i++ {
				if b, ok := res.At(i).Type().Underlying().(*types.Basic); ok && b.Kind() == types.Uint64 {
					return true
				}
			}
		}
	}
	return false
}

func valueOf(in ssa.Instruction) ssa.Value {
	v, _ := in.(ssa.Value)
	return v
}

// onlyThrough: e reaches acc only through sum (used to accept φ-merges of the new sum).
func onlyThrough(e ssa.Value, sum ssa.Value, acc *ssa.Phi) bool {
	seen := map[ssa.Value]bool{}
	var walk func(v ssa.Value) bool
	walk = func(v ssa.Value) bool {
		if v == sum {
			return true
		}
		if v == ssa.Value(acc) {
			return false
		}
		if seen[v] {
			return true
		}
		seen[v] = true
		if ph, ok := v.(*ssa.Phi); ok {
			for _, ed := range ph.Edges {
				if !walk(ed) {
					return false
				}
			}
			return true
		}
		return false
	}
	return walk(e)
}

package main

import (
	"fmt"
	"go/token"
	"go/types"
	"os"
	"path/filepath"
	"sort"
	"strings"

	"golang.org/x/tools/go/packages"
	"golang.org/x/tools/go/ssa"
	"golang.org/x/tools/go/ssa/ssautil"
)

// ModPath is the module analysed.  Public anchors are written relative to it.
const ModPath = "github.com/gcash/bchutil"

// Config names one build configuration of the repository.
type Config struct {
	GOOS, GOARCH string
	Tags         []string
}

func (c Config) String() string {
	s := c.GOOS + "/" + c.GOARCH
	if len(c.Tags) > 0 {
		s += "+" + strings.Join(c.Tags, ",")
	}
	return s
}

func parseConfig(s string) Config {
	c := Config{GOOS: "linux", GOARCH: "amd64"}
	if s == "" {
		return c
	}
	main, tags, _ := strings.Cut(s, "+")
	if o, a, ok := strings.Cut(main, "/"); ok {
		c.GOOS, c.GOARCH = o, a
	}
	if tags != "" {
		c.Tags = strings.Split(tags, ",")
	}
	return c
}

// Program is the resolved, type-checked program in SSA form.
type Program struct {
	initev  *initEval // constant evaluation of package initialisation (initeval.go), built on demand
	Repo    string
	Cfg     Config
	Fset    *token.FileSet
	Pkgs    []*packages.Package
	Prog    *ssa.Program
	SSAPkgs []*ssa.Package
	inRepo  map[*ssa.Package]bool
	Funcs   []*ssa.Function // every in-repo function with a body, incl. closures; sorted by name
	byName  map[string]*ssa.Function
	pkgBy   map[string]*ssa.Package
	tpkgBy  map[string]*packages.Package
}

// Load type-checks every package of the repository (current working tree) and
// builds SSA for them.  Dependencies come from export data.
func Load(repo string, cfg Config) (*Program, error) { return LoadOverlay(repo, cfg, nil) }

// LoadOverlay is Load with some files replaced by the given contents (used for the helper-inlined view).
func LoadOverlay(repo string, cfg Config, overlay map[string][]byte) (*Program, error) {
	env := []string{}
	for _, e := range os.Environ() {
		if strings.HasPrefix(e, "GOWORK=") || strings.HasPrefix(e, "GOFLAGS=") ||
			strings.HasPrefix(e, "GOOS=") || strings.HasPrefix(e, "GOARCH=") ||
			strings.HasPrefix(e, "GOPROXY=") || strings.HasPrefix(e, "GOSUMDB=") ||
			strings.HasPrefix(e, "GOTOOLCHAIN=") || strings.HasPrefix(e, "CGO_ENABLED=") {
			continue
		}
		if overlay != nil && strings.HasPrefix(e, "GOCACHE=") {
			continue
		}
		env = append(env, e)
	}
	env = append(env, "GOWORK=off", "GOFLAGS=-mod=mod", "GOPROXY=off", "GOSUMDB=off",
		"GOTOOLCHAIN=local", "GOOS="+cfg.GOOS, "GOARCH="+cfg.GOARCH, "CGO_ENABLED=0")
	pc := &packages.Config{
		Mode:  packages.LoadSyntax,
		Dir:   repo,
		Tests: false,
		Env:   env,
	}
	if overlay != nil {
		pc.Overlay = overlay
		if d := viewCacheDir(); d != "" {
			pc.Env = append(pc.Env, "GOCACHE="+d)
		}
	}
	if len(cfg.Tags) > 0 {
		pc.BuildFlags = []string{"-tags=" + strings.Join(cfg.Tags, ",")}
	}
	pkgs, err := packages.Load(pc, "./...")
	if err != nil {
		return nil, fmt.Errorf("load: %v", err)
	}
	nerr := 0
	var firstErr string
	packages.Visit(pkgs, nil, func(p *packages.Package) {
		for _, e := range p.Errors {
			if nerr == 0 {
				firstErr = e.Error()
			}
			nerr++
		}
	})
	if nerr > 0 {
		return nil, fmt.Errorf("load: %d type/list errors, first: %s", nerr, firstErr)
	}
	if len(pkgs) < 12 {
		return nil, fmt.Errorf("load: only %d packages loaded (expected >= 12)", len(pkgs))
	}
	prog, spkgs := ssautil.Packages(pkgs, ssa.InstantiateGenerics)
	prog.Build()
	p := &Program{Repo: repo, Cfg: cfg, Fset: prog.Fset, Pkgs: pkgs, Prog: prog, SSAPkgs: spkgs,
		inRepo: map[*ssa.Package]bool{}, byName: map[string]*ssa.Function{},
		pkgBy: map[string]*ssa.Package{}, tpkgBy: map[string]*packages.Package{}}
	for i, sp := range spkgs {
		if sp == nil {
			return nil, fmt.Errorf("load: no SSA for package %s", pkgs[i].PkgPath)
		}
		p.inRepo[sp] = true
		p.pkgBy[sp.Pkg.Path()] = sp
		p.tpkgBy[pkgs[i].PkgPath] = pkgs[i]
	}
	for fn := range ssautil.AllFunctions(prog) {
		if p.InRepo(fn) && len(fn.Blocks) > 0 {
			p.Funcs = append(p.Funcs, fn)
			p.byName[fn.String()] = fn
		}
	}
	sort.Slice(p.Funcs, func(i, j int) bool { return fnKey(p.Funcs[i]) < fnKey(p.Funcs[j]) })
	return p, nil
}

func fnKey(f *ssa.Function) string { return f.String() }

// InRepo reports whether fn (or the function enclosing it) belongs to one of
// the repository's packages.
func (p *Program) InRepo(fn *ssa.Function) bool {
	for f := fn; f != nil; f = f.Parent() {
		if f.Pkg != nil {
			return p.inRepo[f.Pkg]
		}
		if f.Origin() != nil && f.Origin().Pkg != nil {
			return p.inRepo[f.Origin().Pkg]
		}
	}
	return false
}

// Func resolves a public anchor "pkg.Name" or "(*pkg.T).Name" given relative
// to the module path ("" = root package), e.g. Func("", "DecodeAddress"),
// Func("bloom", "(*Filter).Matches").
func (p *Program) Func(pkg, name string) *ssa.Function {
	path := ModPath
	if pkg != "" {
		path += "/" + pkg
	}
	var full string
	if strings.HasPrefix(name, "(*") {
		// (*T).M -> (*path.T).M
		rest := name[2:]
		full = "(*" + path + "." + rest
	} else if strings.HasPrefix(name, "(") {
		full = "(" + path + "." + name[1:]
	} else {
		full = path + "." + name
	}
	return p.byName[full]
}

// Pkg returns the SSA package with the given module-relative path.
func (p *Program) Pkg(rel string) *ssa.Package {
	path := ModPath
	if rel != "" {
		path += "/" + rel
	}
	return p.pkgBy[path]
}

func (p *Program) TPkg(rel string) *packages.Package {
	path := ModPath
	if rel != "" {
		path += "/" + rel
	}
	return p.tpkgBy[path]
}

// Pos renders a position relative to the repository root.
func (p *Program) Pos(pos token.Pos) string {
	if !pos.IsValid() {
		return "-"
	}
	ps := p.Fset.Position(pos)
	rel, err := filepath.Rel(p.Repo, ps.Filename)
	if err != nil {
		rel = ps.Filename
	}
	return fmt.Sprintf("%s:%d", rel, ps.Line)
}

// FnPos returns a usable position for an instruction, falling back to the
// enclosing function when the instruction has none.
func (p *Program) InstrPos(in ssa.Instruction) token.Pos {
	if in.Pos().IsValid() {
		return in.Pos()
	}
	// operands
	var buf [8]*ssa.Value
	for _, op := range in.Operands(buf[:0]) {
		if *op != nil && (*op).Pos().IsValid() {
			return (*op).Pos()
		}
	}
	if in.Parent() != nil {
		return in.Parent().Pos()
	}
	return token.NoPos
}

// FnName is a short, stable display name: pkg.Func or pkg.(*T).M
func FnName(f *ssa.Function) string {
	s := f.String()
	s = strings.ReplaceAll(s, ModPath+"/", "")
	s = strings.ReplaceAll(s, ModPath+".", "bchutil.")
	return s
}

// Callee resolves a call to its static callee (function, method with static
// receiver type, or closure bound in the same function).
func Callee(c ssa.CallInstruction) *ssa.Function {
	return c.Common().StaticCallee()
}

// Reachable returns the in-repo functions with bodies reachable from the given
// roots through static calls, closures created (MakeClosure) and — for
// interface/dynamic calls — CHA restricted to in-repo methods.
func (p *Program) Reachable(roots []*ssa.Function) []*ssa.Function {
	seen := map[*ssa.Function]bool{}
	var work []*ssa.Function
	work = append(work, roots...)
	for len(work) > 0 {
		f := work[len(work)-1]
		work = work[:len(work)-1]
		if f == nil || seen[f] || len(f.Blocks) == 0 || !p.InRepo(f) {
			continue
		}
		seen[f] = true
		for _, b := range f.Blocks {
			for _, in := range b.Instrs {
				switch x := in.(type) {
				case *ssa.MakeClosure:
					work = append(work, x.Fn.(*ssa.Function))
				case ssa.CallInstruction:
					com := x.Common()
					if cal := com.StaticCallee(); cal != nil {
						work = append(work, cal)
					} else if com.IsInvoke() {
						work = append(work, p.implementations(com)...)
					}
				}
				// function values taken (method values, funcs as args)
				var buf [8]*ssa.Value
				for _, op := range in.Operands(buf[:0]) {
					if fn, ok := (*op).(*ssa.Function); ok {
						work = append(work, fn)
					}
				}
			}
		}
	}
	var out []*ssa.Function
	for f := range seen {
		out = append(out, f)
	}
	sort.Slice(out, func(i, j int) bool { return fnKey(out[i]) < fnKey(out[j]) })
	return out
}

// implementations: CHA for an interface invoke, restricted to in-repo named types.
func (p *Program) implementations(com *ssa.CallCommon) []*ssa.Function {
	iface, ok := com.Value.Type().Underlying().(*types.Interface)
	if !ok {
		return nil
	}
	var out []*ssa.Function
	for _, sp := range p.SSAPkgs {
		for _, m := range sp.Members {
			t, ok := m.(*ssa.Type)
			if !ok {
				continue
			}
			for _, typ := range []types.Type{t.Type(), types.NewPointer(t.Type())} {
				if types.IsInterface(typ) {
					continue
				}
				if types.Implements(typ, iface) {
					sel := p.Prog.MethodSets.MethodSet(typ).Lookup(com.Method.Pkg(), com.Method.Name())
					if sel != nil {
						if fn := p.Prog.MethodValue(sel); fn != nil {
							out = append(out, fn)
						}
					}
				}
			}
		}
	}
	return out
}

// Methods returns all methods with bodies declared on named type T (both
// receiver kinds) of package rel.
func (p *Program) Methods(rel, typeName string) []*ssa.Function {
	var out []*ssa.Function
	for _, f := range p.Funcs {
		if f.Signature.Recv() == nil || f.Pkg == nil || f.Pkg != p.Pkg(rel) || f.Parent() != nil {
			continue
		}
		rt := f.Signature.Recv().Type()
		if pt, ok := rt.(*types.Pointer); ok {
			rt = pt.Elem()
		}
		if n, ok := rt.(*types.Named); ok && n.Obj().Name() == typeName {
			if f.Synthetic == "" {
				out = append(out, f)
			}
		}
	}
	return out
}

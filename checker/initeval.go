package main

import (
	"go/constant"
	"go/token"
	"go/types"
	"strings"
	"unicode/utf8"

	"golang.org/x/tools/go/ssa"
)

// Constant evaluation of package initialisation.
//
// Some tables are not written as composite literals but filled when the package is initialised (`func init()` with
// a loop, or a variable initialised by a call of a small pure function).  Rules that compare a table with its
// specification need its contents.  This file evaluates the package initialiser — the synthetic init function that
// runs the variable initialisers in dependency order and then the declared init functions — over constants, the way
// a compiler folds constant expressions, with a step budget.  Everything that is not a constant computation
// (external calls, interfaces, maps, channels, goroutines, I/O) yields "unknown"; a branch on an unknown value, or a
// store through an unknown address, stops the evaluation of the package and leaves every variable it could still
// touch unknown.  Rules treat an unknown table exactly as before: undecided, which fails.
//
// The evaluator never runs repository code: it folds SSA instructions over its own value domain.

type cunknown struct{}

type ccell struct{ v cval }

type cval interface{}

// cint: an integer of basic type t (value kept normalised to t's width and signedness)
type cint struct {
	v int64 // for unsigned 64-bit values the bit pattern
	t *types.Basic
}

type carray struct{ elems []*ccell }

type cslice struct {
	arr     *carray
	lo, hi  int
	capEnd  int
	isNil   bool
	elemTyp types.Type
}

type cstruct struct{ fields []*ccell }

type cptr struct{ cell *ccell } // nil cell = nil pointer

type ctuple struct{ vals []cval }

type crange struct {
	s   string
	pos int
}

type initEval struct {
	p       *Program
	globals map[*ssa.Global]*ccell
	tainted map[*ssa.Global]bool
	steps   int
	aborted map[*ssa.Package]string
	done    map[*ssa.Package]bool
}

const initStepBudget = 4_000_000

type evalAbort struct{ why string }

func (p *Program) initEval() *initEval {
	if p.initev != nil {
		return p.initev
	}
	ev := &initEval{p: p, globals: map[*ssa.Global]*ccell{}, tainted: map[*ssa.Global]bool{}, aborted: map[*ssa.Package]string{}, done: map[*ssa.Package]bool{}}
	p.initev = ev
	for _, sp := range p.SSAPkgs {
		if sp != nil {
			ev.runPackage(sp)
		}
	}
	return ev
}

func (ev *initEval) runPackage(sp *ssa.Package) {
	if ev.done[sp] {
		return
	}
	ev.done[sp] = true
	initFn := sp.Func("init")
	if initFn == nil || len(initFn.Blocks) == 0 {
		return
	}
	ev.steps = 0
	func() {
		defer func() {
			if e := recover(); e != nil {
				why := "evaluation failed"
				if a, ok := e.(evalAbort); ok {
					why = a.why
				}
				ev.aborted[sp] = why
				// every package-level variable of this package that is stored to from initialisation code is unknown now
				for _, m := range sp.Members {
					if g, ok := m.(*ssa.Global); ok {
						ev.tainted[g] = true
					}
				}
			}
		}()
		ev.call(initFn, nil, 0)
	}()
}

// globalValue returns the value of g after package initialisation, if it is known.
func (ev *initEval) globalValue(g *ssa.Global) (cval, bool) {
	if ev.tainted[g] {
		return nil, false
	}
	c, ok := ev.globals[g]
	if !ok {
		return nil, false
	}
	if hasUnknown(c.v, 0) {
		return nil, false
	}
	return c.v, true
}

func hasUnknown(v cval, depth int) bool {
	if depth > 6 {
		return true
	}
	switch x := v.(type) {
	case cunknown:
		return true
	case *carray:
		for _, e := range x.elems {
			if hasUnknown(e.v, depth+1) {
				return true
			}
		}
	case cslice:
		if x.arr != nil {
			for i := x.lo; i < x.hi; i++ {
				if hasUnknown(x.arr.elems[i].v, depth+1) {
					return true
				}
			}
		}
	case *cstruct:
		for _, f := range x.fields {
			if hasUnknown(f.v, depth+1) {
				return true
			}
		}
	}
	return false
}

func (ev *initEval) cellOf(g *ssa.Global) *ccell {
	if c, ok := ev.globals[g]; ok {
		return c
	}
	c := &ccell{v: zeroOf(derefType(g.Type()), 0)}
	ev.globals[g] = c
	return c
}

func zeroOf(t types.Type, depth int) cval {
	if depth > 6 {
		return cunknown{}
	}
	switch u := t.Underlying().(type) {
	case *types.Basic:
		switch {
		case u.Info()&types.IsInteger != 0:
			return cint{0, u}
		case u.Info()&types.IsBoolean != 0:
			return false
		case u.Info()&types.IsString != 0:
			return ""
		}
		return cunknown{}
	case *types.Array:
		if u.Len() > 1<<16 {
			return cunknown{}
		}
		a := &carray{elems: make([]*ccell, u.Len())}
		for i := range a.elems {
			a.elems[i] = &ccell{v: zeroOf(u.Elem(), depth+1)}
		}
		return a
	case *types.Slice:
		return cslice{isNil: true, elemTyp: u.Elem()}
	case *types.Pointer:
		return cptr{nil}
	case *types.Struct:
		s := &cstruct{fields: make([]*ccell, u.NumFields())}
		for i := range s.fields {
			s.fields[i] = &ccell{v: zeroOf(u.Field(i).Type(), depth+1)}
		}
		return s
	}
	return cunknown{}
}

func cloneVal(v cval) cval {
	switch x := v.(type) {
	case *carray:
		n := &carray{elems: make([]*ccell, len(x.elems))}
		for i, e := range x.elems {
			n.elems[i] = &ccell{v: cloneVal(e.v)}
		}
		return n
	case *cstruct:
		n := &cstruct{fields: make([]*ccell, len(x.fields))}
		for i, f := range x.fields {
			n.fields[i] = &ccell{v: cloneVal(f.v)}
		}
		return n
	}
	return v
}

func normInt(v int64, t *types.Basic) cint {
	switch t.Kind() {
	case types.Int8:
		v = int64(int8(v))
	case types.Int16:
		v = int64(int16(v))
	case types.Int32:
		v = int64(int32(v))
	case types.Uint8:
		v = int64(uint8(v))
	case types.Uint16:
		v = int64(uint16(v))
	case types.Uint32:
		v = int64(uint32(v))
	}
	return cint{v, t}
}

func isUnsigned(t *types.Basic) bool { return t.Info()&types.IsUnsigned != 0 }

func basicOf(t types.Type) *types.Basic {
	b, _ := t.Underlying().(*types.Basic)
	return b
}

func (ev *initEval) tick() {
	ev.steps++
	if ev.steps > initStepBudget {
		panic(evalAbort{"step budget exhausted"})
	}
}

// call evaluates fn on args and returns its result (a ctuple for several results, nil for none).
func (ev *initEval) call(fn *ssa.Function, args []cval, depth int) cval {
	if depth > 12 {
		panic(evalAbort{"call depth"})
	}
	env := map[ssa.Value]cval{}
	for i, prm := range fn.Params {
		if i < len(args) {
			env[prm] = args[i]
		} else {
			env[prm] = cunknown{}
		}
	}
	get := func(v ssa.Value) cval {
		switch x := v.(type) {
		case *ssa.Const:
			return constVal(x)
		case *ssa.Global:
			return cptr{ev.cellOf(x)}
		case *ssa.Function, *ssa.Builtin:
			return cunknown{}
		}
		if r, ok := env[v]; ok {
			return r
		}
		return cunknown{}
	}
	var prev *ssa.BasicBlock
	b := fn.Blocks[0]
	for {
		// phis first, simultaneously
		var phiVals []cval
		var phis []*ssa.Phi
		for _, in := range b.Instrs {
			ph, ok := in.(*ssa.Phi)
			if !ok {
				break
			}
			idx := -1
			for i, pb := range b.Preds {
				if pb == prev {
					idx = i
				}
			}
			if idx < 0 {
				panic(evalAbort{"phi without predecessor"})
			}
			phis = append(phis, ph)
			phiVals = append(phiVals, get(ph.Edges[idx]))
		}
		for i, ph := range phis {
			env[ph] = phiVals[i]
		}
		var next *ssa.BasicBlock
		for _, in := range b.Instrs[len(phis):] {
			ev.tick()
			switch x := in.(type) {
			case *ssa.DebugRef:
			case *ssa.Alloc:
				env[x] = cptr{&ccell{v: zeroOf(derefType(x.Type()), 0)}}
			case *ssa.Store:
				a, ok := get(x.Addr).(cptr)
				if !ok || a.cell == nil {
					panic(evalAbort{"store through an unknown address in " + fn.String()})
				}
				a.cell.v = cloneVal(get(x.Val))
			case *ssa.UnOp:
				env[x] = ev.unop(x, get(x.X))
			case *ssa.BinOp:
				env[x] = binop(x.Op, get(x.X), get(x.Y), x.Type())
			case *ssa.Convert:
				env[x] = convert(get(x.X), x.Type())
			case *ssa.ChangeType:
				env[x] = get(x.X)
			case *ssa.IndexAddr:
				env[x] = ev.indexAddr(get(x.X), get(x.Index))
			case *ssa.Index:
				env[x] = index(get(x.X), get(x.Index))
			case *ssa.Lookup:
				env[x] = index(get(x.X), get(x.Index))
			case *ssa.FieldAddr:
				pv, ok := get(x.X).(cptr)
				if !ok || pv.cell == nil {
					env[x] = cunknown{}
					break
				}
				st, ok := pv.cell.v.(*cstruct)
				if !ok || x.Field >= len(st.fields) {
					env[x] = cunknown{}
					break
				}
				env[x] = cptr{st.fields[x.Field]}
			case *ssa.Field:
				if st, ok := get(x.X).(*cstruct); ok && x.Field < len(st.fields) {
					env[x] = cloneVal(st.fields[x.Field].v)
				} else {
					env[x] = cunknown{}
				}
			case *ssa.Slice:
				env[x] = sliceOp(get(x.X), x, get)
			case *ssa.MakeSlice:
				n, ok1 := get(x.Len).(cint)
				c, ok2 := get(x.Cap).(cint)
				if !ok1 || !ok2 || c.v > 1<<20 || n.v < 0 || c.v < n.v {
					env[x] = cunknown{}
					break
				}
				et := x.Type().Underlying().(*types.Slice).Elem()
				arr := &carray{elems: make([]*ccell, c.v)}
				for i := range arr.elems {
					arr.elems[i] = &ccell{v: zeroOf(et, 0)}
				}
				env[x] = cslice{arr: arr, lo: 0, hi: int(n.v), capEnd: int(c.v), elemTyp: et}
			case *ssa.Range:
				if s, ok := get(x.X).(string); ok {
					env[x] = &crange{s: s}
				} else {
					env[x] = cunknown{}
				}
			case *ssa.Next:
				rg, ok := get(x.Iter).(*crange)
				if !ok || !x.IsString {
					panic(evalAbort{"range over something that is not a constant string in " + fn.String()})
				}
				intT := types.Typ[types.Int]
				if rg.pos >= len(rg.s) {
					env[x] = ctuple{[]cval{false, cint{0, intT}, cint{0, types.Typ[types.Int32]}}}
				} else {
					rn, size := decodeRune(rg.s[rg.pos:])
					env[x] = ctuple{[]cval{true, cint{int64(rg.pos), intT}, cint{int64(rn), types.Typ[types.Int32]}}}
					rg.pos += size
				}
			case *ssa.Extract:
				if t, ok := get(x.Tuple).(ctuple); ok && x.Index < len(t.vals) {
					env[x] = t.vals[x.Index]
				} else {
					env[x] = cunknown{}
				}
			case *ssa.Call:
				env[x] = ev.callInstr(x, get, depth)
			case *ssa.Jump:
				next = b.Succs[0]
			case *ssa.If:
				c, ok := get(x.Cond).(bool)
				if !ok {
					panic(evalAbort{"branch on a value that is not a constant in " + fn.String()})
				}
				if c {
					next = b.Succs[0]
				} else {
					next = b.Succs[1]
				}
			case *ssa.Return:
				switch len(x.Results) {
				case 0:
					return nil
				case 1:
					return get(x.Results[0])
				}
				t := ctuple{}
				for _, r := range x.Results {
					t.vals = append(t.vals, get(r))
				}
				return t
			case *ssa.Panic:
				panic(evalAbort{"initialisation panics in " + fn.String()})
			case *ssa.MapUpdate:
				// maps are not modelled (every map is unknown): nothing to record
			case *ssa.Send, *ssa.Go, *ssa.Defer, *ssa.RunDefers, *ssa.Select:
				panic(evalAbort{"initialisation does more than compute constants in " + fn.String()})
			default:
				if v, ok := in.(ssa.Value); ok {
					env[v] = cunknown{}
				}
			}
		}
		if next == nil {
			panic(evalAbort{"block without terminator"})
		}
		prev, b = b, next
	}
}

func decodeRune(s string) (rune, int) { return utf8.DecodeRuneInString(s) }

func constVal(c *ssa.Const) cval {
	if c.Value == nil {
		switch t := c.Type().Underlying().(type) {
		case *types.Slice:
			return cslice{isNil: true, elemTyp: t.Elem()}
		case *types.Pointer:
			return cptr{nil}
		}
		return zeroOf(c.Type(), 0)
	}
	switch c.Value.Kind() {
	case constant.Bool:
		return constant.BoolVal(c.Value)
	case constant.String:
		return constant.StringVal(c.Value)
	case constant.Int:
		b := basicOf(c.Type())
		if b == nil || b.Info()&types.IsInteger == 0 {
			return cunknown{}
		}
		if v, ok := constant.Int64Val(c.Value); ok {
			return normInt(v, b)
		}
		if u, ok := constant.Uint64Val(c.Value); ok {
			return normInt(int64(u), b)
		}
	}
	return cunknown{}
}

func (ev *initEval) unop(x *ssa.UnOp, v cval) cval {
	switch x.Op {
	case token.MUL:
		pv, ok := v.(cptr)
		if !ok || pv.cell == nil {
			return cunknown{}
		}
		return cloneVal(pv.cell.v)
	case token.SUB:
		if i, ok := v.(cint); ok {
			return normInt(-i.v, i.t)
		}
	case token.XOR:
		if i, ok := v.(cint); ok {
			return normInt(^i.v, i.t)
		}
	case token.NOT:
		if b, ok := v.(bool); ok {
			return !b
		}
	}
	return cunknown{}
}

func binop(op token.Token, a, b cval, rt types.Type) cval {
	switch x := a.(type) {
	case cint:
		y, ok := b.(cint)
		if !ok {
			return cunknown{}
		}
		t := x.t
		uns := isUnsigned(t)
		switch op {
		case token.ADD:
			return normInt(x.v+y.v, t)
		case token.SUB:
			return normInt(x.v-y.v, t)
		case token.MUL:
			return normInt(x.v*y.v, t)
		case token.QUO:
			if y.v == 0 {
				panic(evalAbort{"division by zero during initialisation"})
			}
			if uns {
				return normInt(int64(uint64(x.v)/uint64(y.v)), t)
			}
			return normInt(x.v/y.v, t)
		case token.REM:
			if y.v == 0 {
				panic(evalAbort{"division by zero during initialisation"})
			}
			if uns {
				return normInt(int64(uint64(x.v)%uint64(y.v)), t)
			}
			return normInt(x.v%y.v, t)
		case token.AND:
			return normInt(x.v&y.v, t)
		case token.OR:
			return normInt(x.v|y.v, t)
		case token.XOR:
			return normInt(x.v^y.v, t)
		case token.AND_NOT:
			return normInt(x.v&^y.v, t)
		case token.SHL:
			if y.v < 0 {
				panic(evalAbort{"negative shift"})
			}
			if uint64(y.v) >= 64 {
				return normInt(0, t)
			}
			return normInt(x.v<<uint(y.v), t)
		case token.SHR:
			if y.v < 0 {
				panic(evalAbort{"negative shift"})
			}
			if uns {
				if uint64(y.v) >= 64 {
					return normInt(0, t)
				}
				return normInt(int64(uint64(x.v)>>uint(y.v)), t)
			}
			if uint64(y.v) >= 64 {
				y.v = 63
			}
			return normInt(x.v>>uint(y.v), t)
		}
		var lt, eq bool
		eq = x.v == y.v
		if uns {
			lt = uint64(x.v) < uint64(y.v)
		} else {
			lt = x.v < y.v
		}
		switch op {
		case token.EQL:
			return eq
		case token.NEQ:
			return !eq
		case token.LSS:
			return lt
		case token.LEQ:
			return lt || eq
		case token.GTR:
			return !lt && !eq
		case token.GEQ:
			return !lt
		}
	case string:
		y, ok := b.(string)
		if !ok {
			return cunknown{}
		}
		switch op {
		case token.ADD:
			return x + y
		case token.EQL:
			return x == y
		case token.NEQ:
			return x != y
		case token.LSS:
			return x < y
		case token.LEQ:
			return x <= y
		case token.GTR:
			return x > y
		case token.GEQ:
			return x >= y
		}
	case bool:
		y, ok := b.(bool)
		if !ok {
			return cunknown{}
		}
		switch op {
		case token.EQL:
			return x == y
		case token.NEQ:
			return x != y
		case token.AND:
			return x && y
		case token.OR:
			return x || y
		}
	}
	return cunknown{}
}

func convert(v cval, to types.Type) cval {
	tb := basicOf(to)
	switch x := v.(type) {
	case cint:
		if tb != nil && tb.Info()&types.IsInteger != 0 {
			val := x.v
			return normInt(val, tb)
		}
		if tb != nil && tb.Info()&types.IsString != 0 {
			return string(rune(x.v))
		}
	case string:
		if tb != nil && tb.Info()&types.IsString != 0 {
			return x
		}
		if sl, ok := to.Underlying().(*types.Slice); ok {
			if eb := basicOf(sl.Elem()); eb != nil && eb.Kind() == types.Uint8 {
				arr := &carray{elems: make([]*ccell, len(x))}
				for i := range arr.elems {
					arr.elems[i] = &ccell{v: cint{int64(x[i]), eb}}
				}
				return cslice{arr: arr, lo: 0, hi: len(x), capEnd: len(x), elemTyp: sl.Elem()}
			}
		}
	case cslice:
		if tb != nil && tb.Info()&types.IsString != 0 {
			var sb strings.Builder
			for i := x.lo; i < x.hi; i++ {
				c, ok := x.arr.elems[i].v.(cint)
				if !ok {
					return cunknown{}
				}
				sb.WriteByte(byte(c.v))
			}
			return sb.String()
		}
	}
	return cunknown{}
}

func (ev *initEval) indexAddr(x, idx cval) cval {
	i, ok := idx.(cint)
	if !ok {
		// a store through it would be a store through an unknown address
		return cunknown{}
	}
	switch a := x.(type) {
	case cptr:
		if a.cell == nil {
			return cunknown{}
		}
		arr, ok := a.cell.v.(*carray)
		if !ok {
			return cunknown{}
		}
		if i.v < 0 || i.v >= int64(len(arr.elems)) {
			panic(evalAbort{"index out of range during initialisation"})
		}
		return cptr{arr.elems[i.v]}
	case cslice:
		if a.arr == nil || i.v < 0 || int(i.v) >= a.hi-a.lo {
			panic(evalAbort{"index out of range during initialisation"})
		}
		return cptr{a.arr.elems[a.lo+int(i.v)]}
	}
	return cunknown{}
}

func index(x, idx cval) cval {
	i, ok := idx.(cint)
	if !ok {
		return cunknown{}
	}
	switch a := x.(type) {
	case string:
		if i.v < 0 || i.v >= int64(len(a)) {
			panic(evalAbort{"index out of range during initialisation"})
		}
		return cint{int64(a[i.v]), types.Typ[types.Uint8]}
	case *carray:
		if i.v < 0 || i.v >= int64(len(a.elems)) {
			panic(evalAbort{"index out of range during initialisation"})
		}
		return cloneVal(a.elems[i.v].v)
	}
	return cunknown{}
}

func sliceOp(x cval, s *ssa.Slice, get func(ssa.Value) cval) cval {
	bound := func(v ssa.Value, def int) (int, bool) {
		if v == nil {
			return def, true
		}
		c, ok := get(v).(cint)
		if !ok {
			return 0, false
		}
		return int(c.v), true
	}
	switch a := x.(type) {
	case string:
		lo, ok1 := bound(s.Low, 0)
		hi, ok2 := bound(s.High, len(a))
		if !ok1 || !ok2 || lo < 0 || hi > len(a) || lo > hi {
			return cunknown{}
		}
		return a[lo:hi]
	case cslice:
		if a.arr == nil {
			return a
		}
		lo, ok1 := bound(s.Low, 0)
		hi, ok2 := bound(s.High, a.hi-a.lo)
		if !ok1 || !ok2 || lo < 0 || a.lo+hi > a.capEnd || lo > hi {
			return cunknown{}
		}
		return cslice{arr: a.arr, lo: a.lo + lo, hi: a.lo + hi, capEnd: a.capEnd, elemTyp: a.elemTyp}
	case cptr:
		if a.cell == nil {
			return cunknown{}
		}
		arr, ok := a.cell.v.(*carray)
		if !ok {
			return cunknown{}
		}
		lo, ok1 := bound(s.Low, 0)
		hi, ok2 := bound(s.High, len(arr.elems))
		if !ok1 || !ok2 || lo < 0 || hi > len(arr.elems) || lo > hi {
			return cunknown{}
		}
		var et types.Type
		if st, ok := s.Type().Underlying().(*types.Slice); ok {
			et = st.Elem()
		}
		return cslice{arr: arr, lo: lo, hi: hi, capEnd: len(arr.elems), elemTyp: et}
	}
	return cunknown{}
}

func (ev *initEval) callInstr(x *ssa.Call, get func(ssa.Value) cval, depth int) cval {
	com := &x.Call
	intT := types.Typ[types.Int]
	if bi, ok := com.Value.(*ssa.Builtin); ok {
		switch bi.Name() {
		case "len", "cap":
			switch a := get(com.Args[0]).(type) {
			case string:
				return cint{int64(len(a)), intT}
			case cslice:
				if bi.Name() == "cap" {
					return cint{int64(a.capEnd - a.lo), intT}
				}
				return cint{int64(a.hi - a.lo), intT}
			case *carray:
				return cint{int64(len(a.elems)), intT}
			case cptr:
				if a.cell != nil {
					if arr, ok := a.cell.v.(*carray); ok {
						return cint{int64(len(arr.elems)), intT}
					}
				}
			}
			return cunknown{}
		case "copy":
			dst, ok1 := get(com.Args[0]).(cslice)
			if !ok1 {
				panic(evalAbort{"copy into an unknown destination"})
			}
			n := 0
			switch src := get(com.Args[1]).(type) {
			case cslice:
				for n < dst.hi-dst.lo && n < src.hi-src.lo {
					n++
				}
				tmp := make([]cval, n)
				for i := 0; i < n; i++ {
					tmp[i] = cloneVal(src.arr.elems[src.lo+i].v)
				}
				for i := 0; i < n; i++ {
					dst.arr.elems[dst.lo+i].v = tmp[i]
				}
			case string:
				for n < dst.hi-dst.lo && n < len(src) {
					dst.arr.elems[dst.lo+n].v = cint{int64(src[n]), types.Typ[types.Uint8]}
					n++
				}
			default:
				if dst.arr != nil {
					for i := dst.lo; i < dst.hi; i++ {
						dst.arr.elems[i].v = cunknown{}
					}
				}
				return cunknown{}
			}
			return cint{int64(n), intT}
		case "append":
			dst, ok := get(com.Args[0]).(cslice)
			if !ok {
				return cunknown{}
			}
			var add []cval
			switch src := get(com.Args[1]).(type) {
			case cslice:
				for i := src.lo; i < src.hi; i++ {
					add = append(add, cloneVal(src.arr.elems[i].v))
				}
			case string:
				for i := 0; i < len(src); i++ {
					add = append(add, cint{int64(src[i]), types.Typ[types.Uint8]})
				}
			default:
				return cunknown{}
			}
			if dst.arr != nil && dst.hi+len(add) <= dst.capEnd {
				for i, v := range add {
					dst.arr.elems[dst.hi+i].v = v
				}
				dst.hi += len(add)
				dst.isNil = false
				return dst
			}
			n := dst.hi - dst.lo
			arr := &carray{elems: make([]*ccell, 0, 2*(n+len(add)))}
			for i := 0; i < n; i++ {
				arr.elems = append(arr.elems, &ccell{v: cloneVal(dst.arr.elems[dst.lo+i].v)})
			}
			for _, v := range add {
				arr.elems = append(arr.elems, &ccell{v: v})
			}
			return cslice{arr: arr, lo: 0, hi: len(arr.elems), capEnd: len(arr.elems), elemTyp: dst.elemTyp}
		case "min", "max":
			a, ok1 := get(com.Args[0]).(cint)
			b, ok2 := get(com.Args[1]).(cint)
			if ok1 && ok2 && len(com.Args) == 2 {
				less := a.v < b.v
				if isUnsigned(a.t) {
					less = uint64(a.v) < uint64(b.v)
				}
				if (bi.Name() == "min") == less {
					return a
				}
				return b
			}
		}
		return cunknown{}
	}
	cal := com.StaticCallee()
	var args []cval
	for _, a := range com.Args {
		args = append(args, get(a))
	}
	if cal != nil && len(cal.Blocks) > 0 && ev.p.InRepo(cal) {
		if cal.Name() == "init" && cal.Synthetic != "" {
			// initialiser of an imported repository package
			ev.runPackage(cal.Pkg)
			return nil
		}
		return ev.call(cal, args, depth+1)
	}
	// an external call: result unknown; anything reachable from a pointer or slice argument may have been written
	for _, a := range args {
		clobber(a, 0)
	}
	return cunknown{}
}

func clobber(v cval, depth int) {
	if depth > 4 {
		return
	}
	switch x := v.(type) {
	case cptr:
		if x.cell != nil {
			x.cell.v = cunknown{}
		}
	case cslice:
		if x.arr != nil {
			for i := x.lo; i < x.capEnd && i < len(x.arr.elems); i++ {
				x.arr.elems[i].v = cunknown{}
			}
		}
	}
}

// intTable flattens a known array / slice of integers.
func intTable(v cval) ([]int64, bool) {
	var cells []*ccell
	switch x := v.(type) {
	case *carray:
		cells = x.elems
	case cslice:
		if x.arr == nil {
			return nil, false
		}
		cells = x.arr.elems[x.lo:x.hi]
	default:
		return nil, false
	}
	out := make([]int64, len(cells))
	for i, c := range cells {
		iv, ok := c.v.(cint)
		if !ok {
			return nil, false
		}
		out[i] = iv.v
	}
	return out, true
}

// intTable2 flattens a known table of rows of integers.
func intTable2(v cval) ([][]int64, bool) {
	var cells []*ccell
	switch x := v.(type) {
	case *carray:
		cells = x.elems
	case cslice:
		if x.arr == nil {
			return nil, false
		}
		cells = x.arr.elems[x.lo:x.hi]
	default:
		return nil, false
	}
	out := make([][]int64, len(cells))
	for i, c := range cells {
		row, ok := intTable(c.v)
		if !ok {
			return nil, false
		}
		out[i] = row
	}
	return out, true
}

// isInitFunc: the package initialiser or a declared init function.
func isInitFunc(fn *ssa.Function) bool {
	if fn == nil {
		return false
	}
	if fn.Name() == "init" && fn.Synthetic != "" {
		return true
	}
	return strings.HasPrefix(fn.Name(), "init#") && fn.Signature.Recv() == nil && fn.Parent() == nil
}

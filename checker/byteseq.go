package main

import (
	"fmt"
	"go/token"
	"go/types"
	"sort"
	"strings"

	"golang.org/x/tools/go/ssa"
)

// Byte-sequence terms: a small symbolic description of how a slice / array /
// string value is made of other byte sequences — windows of a base value,
// digests, concatenations.  Built by walking SSA definitions (never by
// running anything); in-repo callees are inlined through their return values.
//
//	val(v)                an opaque base sequence (an SSA value of the context function)
//	win(s, lo, hi)        bytes [lo,hi) of s (bounds are Lin over the context's atoms; hi may be "end")
//	hash(alg, parts…)     digest of the concatenation of parts
//	cat(parts…)           concatenation
//	byte(x)               one byte with integer term x
//	zeros(n)
//	alt(a|b…)             one of several, each under extra branch conditions (a φ)
type BSeq struct {
	Kind  string
	Val   ssa.Value // val
	Of    *BSeq     // win
	Lo    Lin       // win
	Hi    Lin       // win (valid if !ToEnd)
	ToEnd bool      // win: hi = len(Of)
	Alg   string    // hash
	Parts []*BSeq   // hash, cat
	Alts  []BAlt    // alt
	Elem  ssa.Value // byte
	N     Lin       // zeros
}

type BAlt struct {
	B     *BSeq
	Conds []Cond
}

type bsEnv struct {
	params map[*ssa.Parameter]*bsBinding
	parent *bsEnv
	site   ssa.CallInstruction
}

type bsBinding struct {
	v   ssa.Value
	env *bsEnv
}

type BSeqEval struct {
	p     *Program
	lc    *LinCtx // context function's linear context
	depth int
	// hashWrites caches per hasher value the ordered list of Write calls
}

func NewBSeqEval(p *Program, lc *LinCtx) *BSeqEval { return &BSeqEval{p: p, lc: lc} }

func (b *BSeq) String() string {
	if b == nil {
		return "?"
	}
	switch b.Kind {
	case "val":
		return exprString(b.Val)
	case "win":
		hi := "end"
		if !b.ToEnd {
			hi = b.Hi.format(func(i int) string { return fmt.Sprintf("a%d", i) })
		}
		return fmt.Sprintf("%s[%s:%s]", b.Of, b.Lo.format(func(i int) string { return fmt.Sprintf("a%d", i) }), hi)
	case "hash":
		var ps []string
		for _, p := range b.Parts {
			ps = append(ps, p.String())
		}
		return b.Alg + "(" + strings.Join(ps, "‖") + ")"
	case "cat":
		var ps []string
		for _, p := range b.Parts {
			ps = append(ps, p.String())
		}
		return "cat(" + strings.Join(ps, "‖") + ")"
	case "alt":
		var ps []string
		for _, a := range b.Alts {
			ps = append(ps, a.B.String())
		}
		return "alt(" + strings.Join(ps, " | ") + ")"
	case "byte":
		return "byte(" + exprString(b.Elem) + ")"
	case "zeros":
		return "zeros"
	case "empty":
		return "ε"
	}
	return b.Kind
}

// Pretty prints with atom names resolved.
func (e *BSeqEval) Pretty(b *BSeq) string {
	if b == nil {
		return "?"
	}
	switch b.Kind {
	case "win":
		hi := ""
		if !b.ToEnd {
			hi = e.lc.Format(b.Hi)
		}
		lo := e.lc.Format(b.Lo)
		if lo == "+0" {
			lo = ""
		}
		return fmt.Sprintf("%s[%s:%s]", e.Pretty(b.Of), lo, hi)
	case "hash", "cat":
		var ps []string
		for _, p := range b.Parts {
			ps = append(ps, e.Pretty(p))
		}
		n := b.Alg
		if b.Kind == "cat" {
			n = "cat"
		}
		return n + "(" + strings.Join(ps, " ‖ ") + ")"
	case "alt":
		var ps []string
		for _, a := range b.Alts {
			ps = append(ps, e.Pretty(a.B))
		}
		return "alt(" + strings.Join(ps, " | ") + ")"
	}
	return b.String()
}

func (e *BSeqEval) resolve(v ssa.Value, env *bsEnv) (ssa.Value, *bsEnv) {
	for i := 0; i < 32; i++ {
		if p, ok := v.(*ssa.Parameter); ok && env != nil {
			if b, ok := env.params[p]; ok {
				v, env = b.v, b.env
				continue
			}
		}
		if ct, ok := v.(*ssa.ChangeType); ok {
			v = ct.X
			continue
		}
		if mi, ok := v.(*ssa.MakeInterface); ok {
			v = mi.X
			continue
		}
		break
	}
	return v, env
}

// Eval computes the byte-sequence term of a slice / array / *array / string value.
func (e *BSeqEval) Eval(v ssa.Value) *BSeq { return e.eval(v, nil, 0) }

func (e *BSeqEval) opaque(v ssa.Value) *BSeq { return &BSeq{Kind: "val", Val: v} }

func (e *BSeqEval) window(of *BSeq, lo Lin, hi Lin, toEnd bool) *BSeq {
	if toEnd && lo.isConst() && lo.c == 0 {
		return of
	}
	if of.Kind == "win" {
		nlo := of.Lo.add(lo, 1)
		if toEnd {
			return &BSeq{Kind: "win", Of: of.Of, Lo: nlo, Hi: of.Hi, ToEnd: of.ToEnd}
		}
		return &BSeq{Kind: "win", Of: of.Of, Lo: nlo, Hi: of.Lo.add(hi, 1)}
	}
	if of.Kind == "alt" {
		out := &BSeq{Kind: "alt"}
		for _, a := range of.Alts {
			out.Alts = append(out.Alts, BAlt{e.window(a.B, lo, hi, toEnd), a.Conds})
		}
		return out
	}
	return &BSeq{Kind: "win", Of: of, Lo: lo, Hi: hi, ToEnd: toEnd}
}

// inContext: Lin terms are only meaningful for values of the context function.
func (e *BSeqEval) inContext(env *bsEnv) bool { return env == nil }

func (e *BSeqEval) eval(v ssa.Value, env *bsEnv, depth int) *BSeq {
	v, env = e.resolve(v, env)
	if depth > 24 {
		return e.opaque(v)
	}
	switch x := v.(type) {
	case *ssa.Slice:
		of := e.eval(x.X, env, depth+1)
		lo := constLin(0)
		toEnd := x.High == nil
		var hi Lin
		okLin := true
		if x.Low != nil {
			if l, ok := e.linIn(x.Low, env); ok {
				lo = l
			} else {
				okLin = false
			}
		}
		if x.High != nil {
			if l, ok := e.linIn(x.High, env); ok {
				hi = l
			} else {
				okLin = false
			}
		}
		if !okLin {
			return e.opaque(v)
		}
		return e.window(of, lo, hi, toEnd)
	case *ssa.Convert:
		// string <-> []byte keep the bytes
		return e.eval(x.X, env, depth+1)
	case *ssa.Phi:
		if !e.inContext(env) {
			return e.opaque(v)
		}
		out := &BSeq{Kind: "alt"}
		for i, ed := range x.Edges {
			pred := x.Block().Preds[i]
			conds := DomConds(pred)
			if c, ok := edgeCond(pred, x.Block()); ok {
				conds = append(conds, c)
			}
			sub := e.eval(ed, env, depth+1)
			if sub.Kind == "alt" {
				for _, a := range sub.Alts {
					out.Alts = append(out.Alts, BAlt{a.B, append(append([]Cond(nil), conds...), a.Conds...)})
				}
			} else {
				out.Alts = append(out.Alts, BAlt{sub, conds})
			}
		}
		return out
	case *ssa.UnOp:
		if x.Op == token.MUL {
			if a, ok := x.X.(*ssa.Alloc); ok {
				return e.allocContents(a, x, env, depth)
			}
		}
		return e.opaque(v)
	case *ssa.Alloc:
		// pointer to a local array used as a slice base (Slice of *array)
		return e.allocContents(x, nil, env, depth)
	case *ssa.Call:
		return e.evalCall(x, -1, env, depth)
	case *ssa.Extract:
		if c, ok := x.Tuple.(*ssa.Call); ok {
			return e.evalCall(c, x.Index, env, depth)
		}
	case *ssa.MakeSlice:
		if k, ok := constInt(x.Len); ok && k == 0 {
			return &BSeq{Kind: "empty"}
		}
		if l, ok := e.linIn(x.Len, env); ok {
			return &BSeq{Kind: "zeros", N: l}
		}
	case *ssa.Const:
		if x.Value == nil {
			return &BSeq{Kind: "empty"}
		}
	}
	return e.opaque(v)
}

func (e *BSeqEval) linIn(v ssa.Value, env *bsEnv) (Lin, bool) {
	v, env = e.resolve(v, env)
	if k, ok := constInt(v); ok {
		return constLin(k), true
	}
	if env != nil {
		// a value of an inlined callee: only constants and len() of resolvable params are supported
		if c, ok := v.(*ssa.Call); ok && isBuiltin(&c.Call, "len") {
			a, aenv := e.resolve(c.Call.Args[0], env)
			if aenv == nil {
				return e.lc.LenLin(a), true
			}
		}
		if bo, ok := v.(*ssa.BinOp); ok && (bo.Op == token.ADD || bo.Op == token.SUB) {
			x, ok1 := e.linIn(bo.X, env)
			y, ok2 := e.linIn(bo.Y, env)
			if ok1 && ok2 {
				if bo.Op == token.ADD {
					return x.add(y, 1), true
				}
				return x.add(y, -1), true
			}
		}
		return Lin{}, false
	}
	return e.lc.Lin(v), true
}

// allocContents: the contents of a local (array) variable at the point of use:
// exactly one whole-value store, or a set of copy()/Put* pieces at constant offsets.
func (e *BSeqEval) allocContents(a *ssa.Alloc, use ssa.Instruction, env *bsEnv, depth int) *BSeq {
	var whole []*ssa.Store
	type piece struct {
		off int64
		b   *BSeq
		n   int64 // -1 unknown
	}
	var pieces []piece
	unknown := false
	for _, ref := range *a.Referrers() {
		switch r := ref.(type) {
		case *ssa.Store:
			if r.Addr == ssa.Value(a) {
				// `return x` of a named result x stores x's own value back into x: not a new content
				if ld, ok := r.Val.(*ssa.UnOp); ok && ld.Op == token.MUL && ld.X == ssa.Value(a) {
					continue
				}
				whole = append(whole, r)
			} else {
				unknown = true
			}
		case *ssa.UnOp, *ssa.DebugRef:
		case *ssa.Slice:
			// uses of the slice: copy destination / writer argument / read
			lo := int64(0)
			if r.Low != nil {
				k, ok := constInt(r.Low)
				if !ok {
					// read-only uses are fine; writes make it unknown
					if sliceWritten(r) {
						unknown = true
					}
					continue
				}
				lo = k
			}
			for _, u := range *r.Referrers() {
				c, ok := u.(*ssa.Call)
				if !ok {
					continue
				}
				if isBuiltin(&c.Call, "copy") && c.Call.Args[0] == ssa.Value(r) {
					src := e.eval(c.Call.Args[1], env, depth+1)
					pieces = append(pieces, piece{lo, src, -1})
				} else if cal := c.Call.StaticCallee(); cal != nil {
					if idxs, ok := externalWriters[cal.String()]; ok {
						for _, i := range idxs {
							if i < len(c.Call.Args) && c.Call.Args[i] == ssa.Value(r) {
								// e.g. binary.LittleEndian.PutUint32(buf[32:], x)
								nm := cal.Name()
								pieces = append(pieces, piece{lo, &BSeq{Kind: "enc", Alg: strings.TrimPrefix(cal.String(), "(encoding/binary.") + "", Parts: nil, Elem: lastArg(c)}, encWidth(nm)})
							}
						}
					}
				}
			}
		case *ssa.IndexAddr:
			for _, u := range *r.Referrers() {
				if st, ok := u.(*ssa.Store); ok && st.Addr == ssa.Value(r) {
					if k, ok := constInt(r.Index); ok {
						pieces = append(pieces, piece{k, &BSeq{Kind: "byte", Elem: st.Val}, 1})
					} else {
						unknown = true
					}
				}
			}
		default:
			unknown = true
		}
	}
	if unknown {
		return e.opaque(a)
	}
	if len(whole) == 1 && len(pieces) == 0 {
		return e.eval(whole[0].Val, env, depth+1)
	}
	if len(whole) == 0 && len(pieces) > 0 {
		sort.SliceStable(pieces, func(i, j int) bool { return pieces[i].off < pieces[j].off })
		arrLen := int64(-1)
		if at, ok := derefType(a.Type()).Underlying().(*types.Array); ok {
			arrLen = at.Len()
		}
		if len(pieces) == 1 && pieces[0].off == 0 && arrLen >= 0 {
			// copy(arr[:], src): the first min(len(arr), len(src)) bytes of src
			return e.window(pieces[0].b, constLin(0), constLin(arrLen), false)
		}
		out := &BSeq{Kind: "buf"}
		for _, pc := range pieces {
			out.Parts = append(out.Parts, &BSeq{Kind: "at", Lo: constLin(pc.off), Of: pc.b})
		}
		return out
	}
	return e.opaque(a)
}

func lastArg(c *ssa.Call) ssa.Value {
	if len(c.Call.Args) == 0 {
		return nil
	}
	return c.Call.Args[len(c.Call.Args)-1]
}

func encWidth(name string) int64 {
	switch name {
	case "PutUint16":
		return 2
	case "PutUint32":
		return 4
	case "PutUint64":
		return 8
	}
	return -1
}

func sliceWritten(s *ssa.Slice) bool {
	for _, u := range *s.Referrers() {
		if c, ok := u.(*ssa.Call); ok {
			if isBuiltin(&c.Call, "copy") && c.Call.Args[0] == ssa.Value(s) {
				return true
			}
			if cal := c.Call.StaticCallee(); cal != nil {
				if _, ok := externalWriters[cal.String()]; ok {
					return true
				}
			}
		}
	}
	return false
}

var hashCtor = map[string]string{
	"crypto/sha256.New":                 "sha256",
	"crypto/sha512.New":                 "sha512",
	"golang.org/x/crypto/ripemd160.New": "ripemd160",
	"crypto/sha1.New":                   "sha1",
}

var hashFunc = map[string]string{
	"crypto/sha256.Sum256":                                 "sha256",
	"crypto/sha512.Sum512":                                 "sha512",
	"github.com/gcash/bchd/chaincfg/chainhash.HashB":       "sha256",
	"github.com/gcash/bchd/chaincfg/chainhash.HashH":       "sha256",
	"github.com/gcash/bchd/chaincfg/chainhash.DoubleHashB": "sha256d",
	"github.com/gcash/bchd/chaincfg/chainhash.DoubleHashH": "sha256d",
}

func (e *BSeqEval) evalCall(c *ssa.Call, idx int, env *bsEnv, depth int) *BSeq {
	com := &c.Call
	if isBuiltin(com, "append") && len(com.Args) == 2 {
		a := e.eval(com.Args[0], env, depth+1)
		b := e.eval(com.Args[1], env, depth+1)
		out := &BSeq{Kind: "cat"}
		for _, p := range []*BSeq{a, b} {
			if p.Kind == "cat" {
				out.Parts = append(out.Parts, p.Parts...)
			} else if p.Kind != "empty" {
				out.Parts = append(out.Parts, p)
			}
		}
		return out
	}
	cal := com.StaticCallee()
	if cal != nil {
		if alg, ok := hashFunc[cal.String()]; ok && len(com.Args) == 1 {
			in := e.eval(com.Args[0], env, depth+1)
			mk := func(x *BSeq) *BSeq {
				if alg == "sha256d" {
					return &BSeq{Kind: "hash", Alg: "sha256", Parts: []*BSeq{{Kind: "hash", Alg: "sha256", Parts: []*BSeq{x}}}}
				}
				return &BSeq{Kind: "hash", Alg: alg, Parts: []*BSeq{x}}
			}
			if in.Kind == "alt" {
				// lift the alternatives out of the digest
				out := &BSeq{Kind: "alt"}
				for _, a := range in.Alts {
					out.Alts = append(out.Alts, BAlt{mk(a.B), a.Conds})
				}
				return out
			}
			return mk(in)
		}
		if e.p.InRepo(cal) && len(cal.Blocks) > 0 && depth < 16 {
			rets := returnsOf(cal)
			if len(rets) == 1 {
				ri := idx
				if ri < 0 {
					ri = 0
				}
				if ri < len(rets[0].Results) {
					nenv := &bsEnv{params: map[*ssa.Parameter]*bsBinding{}, parent: env, site: c}
					for i, p := range cal.Params {
						if i < len(com.Args) {
							nenv.params[p] = &bsBinding{com.Args[i], env}
						}
					}
					return e.eval(rets[0].Results[ri], nenv, depth+1)
				}
			}
		}
	}
	// h.Sum(b) on a hash.Hash
	if name, recv, args, ok := methodCall(com); ok && name == "Sum" && len(args) == 1 {
		hv, henv := e.resolve(recv, env)
		alg, keyed := e.hasherAlg(hv, henv, depth)
		if alg != "" {
			parts := e.hasherWrites(hv, henv, c, recv, env, depth)
			if parts != nil {
				h := &BSeq{Kind: "hash", Alg: alg, Parts: append(keyed, parts...)}
				if isNilConst(args[0]) {
					return h
				}
				pre := e.eval(args[0], env, depth+1)
				return &BSeq{Kind: "cat", Parts: []*BSeq{pre, h}}
			}
		}
	}
	return e.opaque(c)
}

// methodCall decomposes a static or interface method call into name, receiver, other args.
func methodCall(com *ssa.CallCommon) (string, ssa.Value, []ssa.Value, bool) {
	if com.IsInvoke() {
		return com.Method.Name(), com.Value, com.Args, true
	}
	if cal := com.StaticCallee(); cal != nil && cal.Signature.Recv() != nil && len(com.Args) > 0 {
		return cal.Name(), com.Args[0], com.Args[1:], true
	}
	return "", nil, nil, false
}

// hasherAlg identifies the digest a hash.Hash value computes from its constructor call.
func (e *BSeqEval) hasherAlg(hv ssa.Value, env *bsEnv, depth int) (string, []*BSeq) {
	c, ok := hv.(*ssa.Call)
	if !ok {
		return "", nil
	}
	cal := c.Call.StaticCallee()
	if cal == nil {
		return "", nil
	}
	if alg, ok := hashCtor[cal.String()]; ok {
		return alg, nil
	}
	if cal.String() == "crypto/hmac.New" && len(c.Call.Args) == 2 {
		inner := ""
		if f, ok := c.Call.Args[0].(*ssa.Function); ok {
			inner = hashCtor[f.String()]
		}
		if inner != "" {
			key := e.eval(c.Call.Args[1], env, depth+1)
			return "hmac-" + inner, []*BSeq{{Kind: "key", Of: key}}
		}
	}
	return "", nil
}

// hasherWrites collects, in program order, the arguments of the Write calls on
// hasher hv that dominate the Sum call, requiring that every Write on it is
// one of those (no conditional writes).  The Write calls may sit in the same
// function as the Sum (after parameter resolution).
func (e *BSeqEval) hasherWrites(hv ssa.Value, henv *bsEnv, sum *ssa.Call, recvAtSum ssa.Value, sumEnv *bsEnv, depth int) []*BSeq {
	fn := sum.Parent()
	parts := []*BSeq{}
	count := 0
	for _, b := range fn.Blocks {
		for _, in := range b.Instrs {
			c, ok := in.(*ssa.Call)
			if !ok || c == sum {
				continue
			}
			name, recv, args, ok := methodCall(&c.Call)
			if !ok {
				continue
			}
			rv, renv := e.resolve(recv, sumEnv)
			if rv != hv || renv != henv {
				continue
			}
			switch name {
			case "Write":
				if !instrDominates(c, sum) {
					return nil
				}
				count++
				parts = append(parts, e.eval(args[0], sumEnv, depth+1))
			case "Reset", "Sum":
				return nil
			}
		}
	}
	// the hasher must not be used elsewhere (other functions) between creation and Sum:
	// if it was created in another frame (parameter), the creating frame must pass it straight in.
	if hc, ok := hv.(*ssa.Call); ok {
		for _, ref := range *hc.Referrers() {
			switch r := ref.(type) {
			case *ssa.Call:
				nm, recv, _, ok := methodCall(&r.Call)
				if ok && recv == ssa.Value(hc) && (nm == "Write" || nm == "Sum") && r.Parent() == fn {
					continue
				}
				if r.Parent() != fn {
					// passed as an argument to the (inlined) callee containing the Sum: fine if that is our chain
					continue
				}
			case *ssa.MakeInterface, *ssa.DebugRef:
				continue
			}
		}
	}
	_ = count
	return parts
}

func instrDominates(a, b ssa.Instruction) bool {
	if a.Block() == b.Block() {
		for _, in := range a.Block().Instrs {
			if in == a {
				return true
			}
			if in == b {
				return false
			}
		}
		return false
	}
	return a.Block().Dominates(b.Block())
}

// ---- queries

// flattenAlts returns the alternatives of a term (one entry, no conditions, if it is not an alt).
func flattenAlts(b *BSeq) []BAlt {
	if b.Kind == "alt" {
		return b.Alts
	}
	return []BAlt{{b, nil}}
}

// isDoubleSHA256Of: b is sha256(sha256(x)); returns x.
func isDoubleSHA256Of(b *BSeq) (*BSeq, bool) {
	if b.Kind == "hash" && b.Alg == "sha256" && len(b.Parts) == 1 {
		in := b.Parts[0]
		if in.Kind == "hash" && in.Alg == "sha256" && len(in.Parts) == 1 {
			return in.Parts[0], true
		}
	}
	return nil, false
}

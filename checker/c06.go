package main

import (
	"fmt"
	"go/token"
	"go/types"
	"sort"
	"strings"

	"golang.org/x/tools/go/ssa"
)

func init() { register("C06", checkC06) }

func checkC06(p *Program, r *Report) {
	// round 6 (systematic): the Base58 / Base58Check layer this property's strings go through is C07's — its table,
	// checksum, exactness and purity clauses are necessary here too (§2.11)
	r.Borrow("C07", func(o *Ob) (string, bool) {
		switch o.Rule {
		case "C07.tables", "C07.checksum", "C07.exact", "C07.pure":
			if strings.Contains(o.Func, "bech32") || strings.Contains(o.Construct, "bech32") {
				return "", false
			}
			return "C06.base58", true
		}
		return "", false
	})
	r.Floor("C06.base58", 5)
	sharedStateRule(p, r, NewEffects(p), "C06.shared", []string{"wif.go", "base58/base58.go", "base58/base58check.go"})
	r.Floor("C06.shared", 4)
	r.Explain = "C06.len: every accepting return of DecodeWIF knows 37 ≤ len(decoded) ≤ 38 (merge-point proof over the length classification, which also has " +
		"a rejecting default, see C02). C06.magic: the 'compressed' flag is set only where len == 38 and decoded[33] == 0x01. C06.checksum: acceptance lies " +
		"behind the full 4-byte SHA256d comparison over decoded[:len−4] on each length alternative. C06.pad: the scalar bytes in WIF.String() are padded to " +
		"32. C06.net: the network byte written by NewWIF / read by DecodeWIF / tested by IsForNet / emitted first by String is one field and one Params " +
		"field. C06.pub: SerializePubKey picks the compressed serialiser exactly on the flag's true edge. C06.canon: the string is not normalised before Base58 decoding. Not decided: round-trip equality; that the public point is that of the key."
	r.Trusted = []string{"base58 (in-repo, C07)", "bchec serialisers", "chainhash.DoubleHashB"}
	fn := p.Func("", "DecodeWIF")
	if fn == nil {
		r.Unresolved("C06.len", "DecodeWIF")
		return
	}
	fname := FnName(fn)
	lc := NewLinCtx(p, fn)
	pr := NewProver(p, fn, lc)
	var decoded ssa.Value
	for _, b := range fn.Blocks {
		for _, in := range b.Instrs {
			if c, ok := in.(*ssa.Call); ok && c.Call.StaticCallee() != nil && p.InRepo(c.Call.StaticCallee()) && len(c.Call.Args) == 1 && c.Call.Args[0] == ssa.Value(fn.Params[0]) {
				decoded = c
			}
		}
	}
	if decoded == nil {
		r.Unresolved("C06.len", "decoding call on the string parameter")
		return
	}
	dl := lc.LenLin(decoded)
	for i, ap := range acceptPoints(fn) {
		ok1, _ := pr.Prove(ap.Block, dl.scale(-1).addConst(37))
		ok2, _ := pr.Prove(ap.Block, dl.addConst(-38))
		r.Add("C06.len", fname, fmt.Sprintf("accepting return #%d: decoded length is 37 or 38", i+1), ap.Ret.Pos(), ok1 && ok2, "1 + 32 [+ 1] + 4 bytes on every path")
	}
	// magic: every edge that makes a bool φ true ("compressed") knows len == 38 and decoded[33] == 1
	nflag := 0
	for _, b := range fn.Blocks {
		for _, in := range b.Instrs {
			ph, ok := in.(*ssa.Phi)
			if !ok || !isBoolPhi(ph) {
				continue
			}
			for i, e := range ph.Edges {
				v, isC := constBool(e)
				if !isC || !v {
					continue
				}
				nflag++
				pred := b.Preds[i]
				conds := MustCondsAtBlock(fn, pred)
				if c, ok := edgeCond(pred, b); ok {
					conds = append(conds, c)
				}
				f := lc.FactsOf(conds)
				okLen := lc.EntailsEq(f, dl.addConst(-38))
				okMagic := false
				for _, cd := range conds {
					bo, truth, ok := condBinOp(cd)
					if !ok || !((bo.Op == token.NEQ && !truth) || (bo.Op == token.EQL && truth)) {
						continue
					}
					k, isK := constInt(bo.Y)
					ld, isL := bo.X.(*ssa.UnOp)
					if !isK || !isL {
						// mirrored spelling: compressMagic != decoded[33]
						k, isK = constInt(bo.X)
						ld, isL = bo.Y.(*ssa.UnOp)
					}
					if !isK || !isL || k != 1 {
						continue
					}
					if ia, ok := ld.X.(*ssa.IndexAddr); ok && ia.X == decoded {
						if ik, ok := constInt(ia.Index); ok && ik == 33 {
							okMagic = true
						}
					}
				}
				r.Add("C06.magic", fname, "the compressed flag is set only for 38-byte payloads whose byte 33 is 0x01", ph.Pos(), okLen && okMagic,
					fmt.Sprintf("len == 38: %v; decoded[33] == 1: %v", okLen, okMagic))
			}
		}
	}
	if nflag == 0 {
		r.Unresolved("C06.magic", "edge setting the compression flag")
	}
	for i, cr := range check4ByteChecksum(p, fn) {
		r.Add("C06.checksum", fname, fmt.Sprintf("accepting return #%d is checksum-guarded", i+1), fn.Pos(), cr.ok, cr.how)
	}
	// pad
	var wifFns []*ssa.Function
	for _, f := range p.Methods("", "WIF") {
		wifFns = append(wifFns, f)
	}
	if padObligations(p, r, "C06.pad", wifFns) == 0 {
		r.Unresolved("C06.pad", "a (*big.Int).Bytes() source in the WIF methods")
	}
	// net: field written from Params.PrivateKeyID in the constructor, compared with the same Params field in IsForNet,
	// read from decoded[0] in DecodeWIF
	c06net(p, r, fn, decoded)
	// pub
	if sp := p.Func("", "(*WIF).SerializePubKey"); sp != nil {
		okPub := false
		for _, b := range sp.Blocks {
			iff, ok := lastInstr(b).(*ssa.If)
			if !ok {
				continue
			}
			f, _, ok := fieldLoad(iff.Cond)
			if !ok {
				continue
			}
			if bt, ok := f.Type().Underlying().(*types.Basic); !ok || bt.Kind() != types.Bool {
				continue
			}
			callIn := func(blk *ssa.BasicBlock) string {
				for _, in := range blk.Instrs {
					if c, ok := in.(*ssa.Call); ok && c.Call.StaticCallee() != nil {
						return c.Call.StaticCallee().Name()
					}
				}
				return ""
			}
			if callIn(b.Succs[0]) == "SerializeCompressed" && callIn(b.Succs[1]) == "SerializeUncompressed" {
				okPub = true
			}
		}
		r.Add("C06.pub", FnName(sp), "compressed serialisation exactly when the flag is set", sp.Pos(), okPub, "flag true → SerializeCompressed, false → SerializeUncompressed")
	} else {
		r.Unresolved("C06.pub", "(*WIF).SerializePubKey")
	}
	canonicalInput(p, r, "C06.canon", []*ssa.Function{fn})
	base58ByteLookup(p, r, "C06.canon")
	// the key DecodeWIF returns is the key the string spells: nothing writes the object the key parser returned
	{
		ef := NewEffects(p)
		n := 0
		for _, b := range fn.Blocks {
			for _, in := range b.Instrs {
				kc, ok := in.(*ssa.Call)
				if !ok || !strings.HasSuffix(calleeName(&kc.Call), ".PrivKeyFromBytes") {
					continue
				}
				n++
				var bad []string
				for _, b2 := range fn.Blocks {
					for _, in2 := range b2.Instrs {
						ci, ok := in2.(ssa.CallInstruction)
						if !ok {
							continue
						}
						cal := ci.Common().StaticCallee()
						if cal == nil {
							continue
						}
						idxs, isW := externalWriters[cal.String()]
						if !isW {
							continue
						}
						for _, i := range idxs {
							if i >= len(ci.Common().Args) {
								continue
							}
							for root := range ef.Src(ci.Common().Args[i]) {
								if root.Kind == rkFresh && (root.Site == ssa.Value(kc)) {
									bad = append(bad, cal.Name()+" at "+p.Pos(ci.Pos()))
								}
							}
						}
					}
				}
				for _, b2 := range fn.Blocks {
					for _, in2 := range b2.Instrs {
						if st, ok := in2.(*ssa.Store); ok {
							for root := range ef.Src(st.Addr) {
								if root.Kind == rkFresh && root.Site == ssa.Value(kc) {
									bad = append(bad, "store at "+p.Pos(st.Pos()))
								}
							}
						}
					}
				}
				sort.Strings(bad)
				bad = dedup(bad)
				how := "no setter call or store targets the object PrivKeyFromBytes returned"
				if len(bad) > 0 {
					how = "the parsed key is modified before it is returned (" + strings.Join(bad, "; ") + "): a string whose key bytes are not already in that form is accepted but re-encodes differently"
				}
				r.Add("C06.canon", FnName(fn), "the key returned is the key parsed from the string's 32 key bytes, unmodified", kc.Pos(), len(bad) == 0, how)
			}
		}
		if n == 0 {
			r.Unresolved("C06.canon", "call of bchec.PrivKeyFromBytes in DecodeWIF")
		}
	}
	memoCoherence(p, r, "C06.memo", "", "WIF", nil)
	if n := rejectionVocabulary(p, r, "C06.accepts", fn, []string{`len\(call .*base58\.Decode\)`, `call .*base58\.Decode\[33\]`, `call bytes\.Equal`},
		"the decoded length, the compression marker and the checksum", approvedChecksumConds(p, fn)); n == 0 {
		r.Unresolved("C06.accepts", "rejection tests of DecodeWIF")
	}
	// the encoding side refuses no key: NewWIF may refuse for its network argument only (C06-agent5-m2: a "defensive"
	// len(D.Bytes()) == 32 test refuses every key with a leading zero byte)
	if nw := p.Func("", "NewWIF"); nw != nil {
		r.Analysed(FnName(nw))
		refusesOnlyFor(p, r, "C06.total", nw, func(pa *ssa.Parameter) bool {
			return isNamed(derefType(pa.Type()), "github.com/gcash/bchd/chaincfg", "Params")
		}, "the network argument")
		nret := 0
		for _, ap := range acceptPoints(nw) {
			_ = ap
			nret++
		}
		r.Add("C06.total", FnName(nw), "the constructor has an accepting return", nw.Pos(), nret > 0, fmt.Sprintf("%d accepting return(s)", nret))
	} else {
		r.Unresolved("C06.total", "NewWIF")
	}
	r.Floor("C06.total", 1)
	// round 7 (C06-agent7-m2): IsForNet answers with the comparison and nothing else — a constant verdict is allowed only
	// behind nil tests of the receiver or the argument (a "zero-value WIF belongs to no network" guard denied
	// membership to every key of a network whose PrivateKeyID is 0x00)
	if isf := p.Func("", "(*WIF).IsForNet"); isf != nil {
		for i, ret := range returnsOf(isf) {
			if _, isK := constBool(ret.Results[0]); !isK {
				continue
			}
			okNil := true
			// every branch edge that leads into the constant verdict is a nil test
			seenB := map[*ssa.BasicBlock]bool{}
			var into func(b *ssa.BasicBlock)
			into = func(b *ssa.BasicBlock) {
				if seenB[b] {
					return
				}
				seenB[b] = true
				for _, pb := range b.Preds {
					if cd, ok := edgeCond(pb, b); ok {
						bo, _, isB := condBinOp(cd)
						if !isB || !(isNilConst(bo.X) || isNilConst(bo.Y)) {
							okNil = false
						}
					} else {
						into(pb)
					}
				}
			}
			into(ret.Block())
			if len(ret.Block().Preds) == 0 {
				okNil = false
			}
			r.Add("C06.net", FnName(isf), fmt.Sprintf("constant verdict #%d is given only for a nil receiver or network", i+1), ret.Pos(), okNil,
				"a constant answer on a path that tested something other than nil-ness")
		}
	}
	// round 6: a fixed-length digit buffer in a big.Int-free Base58 conversion must be long enough (shared with C07.exact)
	radixBufferRule(p, r, "C06.canon")
	r.Floor("C06.accepts", 3)
	r.Floor("C06.len", 1)
	r.Floor("C06.canon", 1)
	r.Floor("C06.pub", 1)
	r.Floor("C06.magic", 1)
	r.Floor("C06.checksum", 1)
	r.Floor("C06.pad", 1)
	r.Floor("C06.net", 3)
}

func c06net(p *Program, r *Report, dec *ssa.Function, decoded ssa.Value) {
	nw := p.Func("", "NewWIF")
	isf := p.Func("", "(*WIF).IsForNet")
	str := p.Func("", "(*WIF).String")
	if nw == nil || isf == nil || str == nil {
		r.Unresolved("C06.net", "NewWIF / (*WIF).IsForNet / (*WIF).String")
		return
	}
	// IsForNet: compares field F of the receiver with Params field G
	var F, G *types.Var
	for _, b := range isf.Blocks {
		for _, in := range b.Instrs {
			bo, ok := in.(*ssa.BinOp)
			if !ok || bo.Op != token.EQL {
				continue
			}
			for _, pr := range [][2]ssa.Value{{bo.X, bo.Y}, {bo.Y, bo.X}} {
				f1, b1, ok1 := fieldLoad(pr[0])
				f2, b2, ok2 := fieldLoad(pr[1])
				if ok1 && ok2 && b1 == ssa.Value(isf.Params[0]) && b2 == ssa.Value(isf.Params[1]) {
					F, G = f1, f2
				}
			}
		}
	}
	if F == nil {
		r.Unresolved("C06.net", "comparison in IsForNet")
		return
	}
	r.Add("C06.net", FnName(isf), "membership compares the stored network byte with Params."+G.Name(), isf.Pos(), G.Name() == "PrivateKeyID", "Params field "+G.Name())
	// NewWIF stores Params.G into F
	okCtor := false
	for _, b := range nw.Blocks {
		for _, in := range b.Instrs {
			st, ok := in.(*ssa.Store)
			if !ok {
				continue
			}
			fa, ok := st.Addr.(*ssa.FieldAddr)
			if !ok || fieldOfAddr(fa) != F {
				continue
			}
			if g, _, ok := fieldLoad(st.Val); ok && g == G {
				okCtor = true
			}
		}
	}
	r.Add("C06.net", FnName(nw), "the constructor stores Params."+G.Name()+" into the field IsForNet tests", nw.Pos(), okCtor, "writer/reader agreement on field "+F.Name())
	// DecodeWIF stores decoded[0] into F
	okDec := false
	for _, b := range dec.Blocks {
		for _, in := range b.Instrs {
			st, ok := in.(*ssa.Store)
			if !ok {
				continue
			}
			fa, ok := st.Addr.(*ssa.FieldAddr)
			if !ok || fieldOfAddr(fa) != F {
				continue
			}
			if ld, ok := st.Val.(*ssa.UnOp); ok {
				if ia, ok := ld.X.(*ssa.IndexAddr); ok && ia.X == decoded {
					if k, ok := constInt(ia.Index); ok && k == 0 {
						okDec = true
					}
				}
			}
		}
	}
	r.Add("C06.net", FnName(dec), "the decoder takes the network byte from decoded[0]", dec.Pos(), okDec, "field "+F.Name()+" ← decoded[0]")
	// String() emits F first
	okStr := false
	for _, b := range str.Blocks {
		for _, in := range b.Instrs {
			c, ok := in.(*ssa.Call)
			if !ok || !isBuiltin(&c.Call, "append") {
				continue
			}
			ms, ok := c.Call.Args[0].(*ssa.MakeSlice)
			if !ok {
				continue
			}
			if k, ok := constInt(ms.Len); !ok || k != 0 {
				continue
			}
			// first append onto the empty buffer: its element is a load of F
			if sl, ok := c.Call.Args[1].(*ssa.Slice); ok {
				if al, ok := sl.X.(*ssa.Alloc); ok {
					for _, ref := range *al.Referrers() {
						if ia, ok := ref.(*ssa.IndexAddr); ok {
							for _, u := range *ia.Referrers() {
								if st, ok := u.(*ssa.Store); ok {
									if f, _, ok := fieldLoad(st.Val); ok && f == F {
										okStr = true
									}
								}
							}
						}
					}
				}
			}
		}
	}
	// make + index form: buf := make([]byte, n ≥ 1, …); buf[0] = w.netID  (third benign round)
	if !okStr {
		for _, b := range str.Blocks {
			for _, in := range b.Instrs {
				st, ok := in.(*ssa.Store)
				if !ok {
					continue
				}
				ia, ok := st.Addr.(*ssa.IndexAddr)
				if !ok {
					continue
				}
				ms, isMs := ia.X.(*ssa.MakeSlice)
				k, isK := constInt(ia.Index)
				if !isMs || !isK || k != 0 {
					continue
				}
				if n, isN := constInt(ms.Len); !isN || n < 1 {
					continue
				}
				if f, _, ok := fieldLoad(st.Val); ok && f == F {
					okStr = true
				}
			}
		}
	}
	r.Add("C06.net", FnName(str), "the encoder emits the network byte first", str.Pos(), okStr, "first byte appended is field "+F.Name())
}

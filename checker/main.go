// bchverif decides structural (static) clauses of the bchutil properties
// C01..C20 from the type-checked source of the repository's current working
// tree.  It never runs repository code.
package main

import (
	"encoding/json"
	"flag"
	"fmt"
	"os"
	"os/exec"
	"path/filepath"
	"runtime/debug"
	"sort"
	"strings"
	"sync"
	"time"

	"golang.org/x/tools/go/ssa"
)

type propFn func(p *Program, r *Report)

var registry = map[string]propFn{}

func register(id string, f propFn) { registry[id] = f }

// extraConfigs are the build configurations the repository has files for,
// analysed in the thorough tier in addition to linux/amd64.
var extraConfigs = []string{
	"linux/386", "windows/amd64", "darwin/arm64", "plan9/amd64",
	"linux/amd64+mutexlog", "linux/amd64+appengine", "linux/amd64+verif",
}

type subResult struct {
	Config string         `json:"config"`
	Obs    []*Ob          `json:"obs"`
	Counts map[string]int `json:"counts"`
	Funcs  int            `json:"funcs"`
	Error  string         `json:"error,omitempty"`
}

var procStart = time.Now()

// Overlay loads (helper-inlined views) compile the rewritten packages; left in the default Go build cache, a single
// failing check adds hundreds of megabytes and a thorough run tens of gigabytes.  They use a private cache directory
// instead: created by the top-level process on first need, inherited by sub-processes through BCHVERIF_VIEWCACHE,
// removed when the top-level process exits.
var ownViewCache string

func viewCacheDir() string {
	if d := os.Getenv("BCHVERIF_VIEWCACHE"); d != "" {
		return d
	}
	d, err := os.MkdirTemp("", "bchverif-gocache-")
	if err != nil {
		return ""
	}
	ownViewCache = d
	os.Setenv("BCHVERIF_VIEWCACHE", d)
	seedViewCache(d)
	return d
}

// seedViewCache hard-links the entries of the default Go build cache into the private one, so that the standard
// library and the third-party dependencies are not recompiled for every failing check (that cost half a CPU-hour).
// Cache entries are immutable and content-addressed; new entries land in the private directory only and go away
// with it.  Best effort: on any error (other file system, no default cache) the private cache simply starts cold.
func seedViewCache(dst string) {
	src := os.Getenv("GOCACHE")
	if src == "" {
		out, err := exec.Command("go", "env", "GOCACHE").Output()
		if err != nil {
			return
		}
		src = strings.TrimSpace(string(out))
	}
	if src == "" || src == "off" {
		return
	}
	n := 0
	filepath.WalkDir(src, func(p string, de os.DirEntry, err error) error {
		if err != nil {
			return nil
		}
		rel, rerr := filepath.Rel(src, p)
		if rerr != nil || rel == "." {
			return nil
		}
		if de.IsDir() {
			os.MkdirAll(filepath.Join(dst, rel), 0o755)
			return nil
		}
		if !de.Type().IsRegular() || rel == "trim.txt" {
			return nil
		}
		if os.Link(p, filepath.Join(dst, rel)) != nil {
			n++
			if n > 20 {
				return filepath.SkipAll
			}
		}
		return nil
	})
}

func exitWith(code int) {
	if ownViewCache != "" {
		os.RemoveAll(ownViewCache)
	}
	os.Exit(code)
}

var (
	noInline    = flag.Bool("no-inline", false, "do not consult the helper-inlined view when a rule fails")
	inlinePairs = flag.String("inline", "", "analyse the view in which these caller>callee pairs (comma separated full names) are expanded")
	inlineAll   = flag.String("inline-all-to", "", "tool self-test: expand every expandable helper call everywhere and write the rewritten files below this directory (relative paths kept)")
	dumpInit    = flag.Bool("dump-init", false, "print what the constant evaluation of package initialisation found (debugging)")
	dumpInline  = flag.String("dump-inline", "", "write the helper-inlined files to this directory and print the view's violations (debugging)")
)

func main() {
	defer func() {
		if ownViewCache != "" {
			os.RemoveAll(ownViewCache)
		}
	}()
	prop := flag.String("prop", "", "property id (C01..C20)")
	tier := flag.String("tier", "quick", "quick|thorough")
	repo := flag.String("repo", "/repo", "repository working tree to analyse")
	verif := flag.String("verif", "", "verification directory (default: parent of the binary's dir)")
	config := flag.String("config", "", "GOOS/GOARCH[+tag,tag]")
	noEv := flag.Bool("noevidence", false, "do not write the evidence file")
	jsonOut := flag.String("json-out", "", "write obligations as JSON to this file (sub-run mode)")
	replay := flag.String("replay", "", "re-check the obligation recorded in this replay file")
	list := flag.Bool("list", false, "list implemented properties")
	seedsOnly := flag.Bool("seeds-only", false, "only run the self-validation seeds of the property")
	flag.Parse()

	if *list {
		var ids []string
		for id := range registry {
			ids = append(ids, id)
		}
		sort.Strings(ids)
		fmt.Println(strings.Join(ids, " "))
		return
	}
	if *verif == "" {
		exe, _ := os.Executable()
		*verif = filepath.Dir(filepath.Dir(exe))
	}
	if t := os.Getenv("VERIF_TIER"); t != "" && !flagSet("tier") {
		*tier = t
	}
	var replayOb *Ob
	if *replay != "" {
		b, err := os.ReadFile(*replay)
		if err != nil {
			fmt.Fprintln(os.Stderr, err)
			exitWith(2)
		}
		var rec struct {
			Property   string `json:"property"`
			Obligation *Ob    `json:"obligation"`
		}
		if err := json.Unmarshal(b, &rec); err != nil || rec.Obligation == nil {
			fmt.Fprintln(os.Stderr, "bad replay file")
			exitWith(2)
		}
		*prop = rec.Property
		replayOb = rec.Obligation
		if replayOb.Config != "" {
			*config = replayOb.Config
		}
		*noEv = true
	}
	if *seedsOnly {
		sv := runSeeds(*prop, *repo, *verif)
		for _, s := range sv.Results {
			fmt.Printf("%-12s %-40s expect=%q %s\n", s.Result, s.Name, s.Expect, s.Detail)
		}
		if sv.Blind > 0 || sv.FalseAlarms > 0 {
			exitWith(2)
		}
		return
	}
	if *dumpInit {
		p, err := Load(*repo, parseConfig(*config))
		if err != nil {
			fmt.Println(err)
			exitWith(1)
		}
		ev := p.initEval()
		for _, sp := range p.SSAPkgs {
			fmt.Printf("package %s: %s\n", sp.Pkg.Path(), map[bool]string{true: "evaluated", false: "stopped: " + ev.aborted[sp]}[ev.aborted[sp] == ""])
			var names []string
			for name, m := range sp.Members {
				if g, ok := m.(*ssa.Global); ok {
					if v, ok := ev.globalValue(g); ok {
						d := fmt.Sprintf("%T", v)
						if t, ok := intTable(v); ok {
							d = fmt.Sprintf("int table len %d", len(t))
							if len(t) <= 40 {
								d += fmt.Sprintf(" %v", t)
							}
						}
						names = append(names, "  "+name+" = "+d)
					}
				}
			}
			sort.Strings(names)
			for _, n := range names {
				fmt.Println(n)
			}
		}
		return
	}
	if *inlineAll != "" {
		overlay := map[string][]byte{}
		p, err := Load(*repo, parseConfig(*config))
		total := 0
		for round := 1; err == nil && round <= 3; round++ {
			ov, st := InlinedOverlay(p, round, nil)
			if st.Expanded == 0 {
				break
			}
			total += st.Expanded
			for k, v := range ov {
				overlay[k] = v
			}
			p, err = LoadOverlay(*repo, parseConfig(*config), overlay)
		}
		for k, v := range overlay {
			dst := filepath.Join(*inlineAll, strings.TrimPrefix(k, *repo))
			os.MkdirAll(filepath.Dir(dst), 0o755)
			os.WriteFile(dst, v, 0o644)
		}
		fmt.Printf("expanded %d call(s) in %d file(s); view loads: %v\n", total, len(overlay), err == nil)
		if err != nil {
			fmt.Println(err)
			exitWith(1)
		}
		return
	}
	f, ok := registry[*prop]
	if !ok {
		fmt.Fprintf(os.Stderr, "unknown or unimplemented property %q\n", *prop)
		exitWith(2)
	}
	cfg := parseConfig(*config)

	r, code := runOne(*prop, *tier, *repo, *verif, cfg, f)
	if *jsonOut != "" {
		sr := subResult{Config: cfg.String()}
		if r != nil {
			sr.Obs, sr.Counts, sr.Funcs = r.Obs, r.counts, len(r.funcs)
		} else {
			sr.Error = "load/analysis failed"
		}
		b, _ := json.Marshal(sr)
		os.WriteFile(*jsonOut, b, 0o644)
	}
	if r == nil {
		fmt.Printf("VIOLATION property=%s replay=%s\n", *prop, "none(load-failure)")
		exitWith(1)
	}
	if replayOb != nil {
		for _, o := range r.Obs {
			if o.key() == replayOb.key() {
				fmt.Printf("replay: %s %s %s at %s -> %s (%s)\n", o.Rule, o.Func, o.Construct, o.Pos, o.Status, o.How)
				if o.Status == "violated" {
					fmt.Printf("VIOLATION property=%s replay=%s\n", *prop, *replay)
					exitWith(1)
				}
				exitWith(0)
			}
		}
		fmt.Println("replay: obligation no longer present in the current tree")
		exitWith(0)
	}
	var extraObs []*Ob
	extraCov := map[string]interface{}{}
	exit2 := false
	if *tier == "thorough" && *jsonOut == "" {
		cfgs := []string{cfg.String()}
		perCfg := map[string]interface{}{}
		var mu sync.Mutex
		var wg sync.WaitGroup
		sem := make(chan struct{}, 4)
		for _, ec := range extraConfigs {
			wg.Add(1)
			go func(ec string) {
				defer wg.Done()
				sem <- struct{}{}
				defer func() { <-sem }()
				sr := runSub(*prop, *repo, *verif, ec)
				mu.Lock()
				defer mu.Unlock()
				cfgs = append(cfgs, ec)
				if sr.Error != "" {
					extraObs = append(extraObs, &Ob{Rule: *prop + ".config", Func: "-", Pos: "-", Construct: "configuration " + ec + " could not be analysed: " + sr.Error, Status: "violated", Config: ec})
					return
				}
				nv := 0
				for _, o := range sr.Obs {
					if o.Status == "violated" {
						nv++
						extraObs = append(extraObs, o)
					}
				}
				perCfg[ec] = map[string]interface{}{"obligations": len(sr.Obs), "violated": nv, "functions": sr.Funcs, "rules": sr.Counts}
			}(ec)
		}
		wg.Wait()
		sort.Strings(cfgs)
		extraCov["configs"] = cfgs
		extraCov["per_config"] = perCfg
		extraCov["dependency_audit"] = dependencyAudit(*repo, *verif)
		sv := runSeeds(*prop, *repo, *verif)
		extraCov["self_validation"] = sv
		if sv.Blind > 0 || sv.FalseAlarms > 0 {
			exit2 = true
		}
	}
	// de-duplicate extra-config violations already reported in the main config
	have := map[string]bool{}
	for _, o := range r.Obs {
		if o.Status == "violated" {
			have[o.key()] = true
		}
	}
	var filtered []*Ob
	for _, o := range extraObs {
		if !have[o.key()] {
			have[o.key()] = true
			filtered = append(filtered, o)
		}
	}
	code = r.Finish(!*noEv, filtered, extraCov)
	if code == 0 && exit2 {
		fmt.Println("checker self-validation failed (seeded fault not detected or variant flagged); see evidence self_validation")
		exitWith(2)
	}
	exitWith(code)
}

func flagSet(name string) bool {
	set := false
	flag.Visit(func(f *flag.Flag) {
		if f.Name == name {
			set = true
		}
	})
	return set
}

// runOne loads the program in one configuration and runs the property's rules.
func runOne(prop, tier, repo, verif string, cfg Config, f propFn) (r *Report, code int) {
	var p *Program
	var err error
	if *inlinePairs != "" {
		// sub-run on a prescribed view: no search from here
		*noInline = true
		var n int
		p, n, err = loadView(repo, cfg, parsePairs(*inlinePairs))
		if err == nil && n == 0 {
			err = fmt.Errorf("view expands nothing")
		}
	} else {
		p, err = Load(repo, cfg)
	}
	if err != nil {
		fmt.Fprintf(os.Stderr, "bchverif: %v\n", err)
		fmt.Printf("%s: cannot analyse the current tree (config %s): %v\n", prop, cfg, err)
		return nil, 1
	}
	r = NewReport(prop, tier, verif, p)
	defer func() {
		if e := recover(); e != nil {
			fmt.Fprintf(os.Stderr, "analyser panic: %v\n%s\n", e, debug.Stack())
			r.Obs = append(r.Obs, &Ob{Rule: prop + ".internal", Func: "-", Pos: "-", Construct: fmt.Sprintf("analyser panic: %v", e), Status: "violated", Config: cfg.String()})
		}
	}()
	f(p, r)
	r.Explain += explainMore[prop]
	r.Seal()
	if r.newViolations() > 0 && !*noInline {
		if r2 := runInlined(prop, tier, repo, verif, cfg, f, p, r); r2 != nil {
			return r2, 0
		}
	}
	return r, 0
}

// runInlined: second opinion on helper-inlined views (inline.go, inlineview.go).  Returns a report only when the rules
// pass on a view that is equivalent to the program.
func runInlined(prop, tier, repo, verif string, cfg Config, f propFn, p *Program, r *Report) (r2 *Report) {
	defer func() {
		if e := recover(); e != nil {
			r2 = nil
		}
	}()
	return searchInlinedView(prop, tier, repo, verif, cfg, f, p, r)
}

func runSub(prop, repo, verif, cfg string) subResult {
	tmp, err := os.CreateTemp("", "bchverif-sub-*.json")
	if err != nil {
		return subResult{Config: cfg, Error: err.Error()}
	}
	tmp.Close()
	defer os.Remove(tmp.Name())
	exe, _ := os.Executable()
	cmd := exec.Command(exe, "-prop", prop, "-tier", "quick", "-repo", repo, "-verif", verif, "-config", cfg, "-noevidence", "-json-out", tmp.Name())
	out, _ := cmd.CombinedOutput()
	b, err := os.ReadFile(tmp.Name())
	var sr subResult
	if err != nil || json.Unmarshal(b, &sr) != nil {
		return subResult{Config: cfg, Error: "sub-run produced no result: " + lastLine(string(out))}
	}
	if sr.Error != "" {
		sr.Error += ": " + lastLine(string(out))
	}
	return sr
}

func lastLine(s string) string {
	s = strings.TrimSpace(s)
	if i := strings.LastIndex(s, "\n"); i >= 0 {
		return s[i+1:]
	}
	return s
}

// dependencyAudit compares the module versions pinned in the repository's go.mod with the versions the
// trusted-base assumptions were reviewed against (trusted_deps.json).  A difference is reported in the
// evidence as "stale"; it is a prompt to re-read the assumptions, not a violation of any property.
func dependencyAudit(repo, verif string) map[string]interface{} {
	out := map[string]interface{}{}
	var reviewed struct {
		Reviewed map[string]string `json:"reviewed"`
	}
	if b, err := os.ReadFile(filepath.Join(verif, "trusted_deps.json")); err == nil {
		json.Unmarshal(b, &reviewed)
	}
	pinned := map[string]string{}
	if b, err := os.ReadFile(filepath.Join(repo, "go.mod")); err == nil {
		for _, ln := range strings.Split(string(b), "\n") {
			if strings.Contains(ln, "// indirect") {
				continue
			}
			f := strings.Fields(strings.TrimPrefix(strings.TrimSpace(ln), "require "))
			if len(f) >= 2 && strings.Contains(f[0], "/") && strings.HasPrefix(f[1], "v") {
				pinned[f[0]] = f[1]
			}
		}
	}
	var stale []string
	for m, v := range pinned {
		if rv, ok := reviewed.Reviewed[m]; !ok || rv != v {
			stale = append(stale, fmt.Sprintf("%s %s (reviewed: %q)", m, v, rv))
		}
	}
	sort.Strings(stale)
	out["modules_pinned"] = len(pinned)
	out["assumptions_stale_for"] = stale
	return out
}

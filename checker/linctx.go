package main

import (
	"fmt"
	"go/constant"
	"go/token"
	"go/types"
	"math"

	"golang.org/x/tools/go/ssa"
)

// LinCtx normalises integer SSA values of one function to linear expressions
// over atoms (DESIGN §2.3).
type atomKind uint8

const (
	akVal atomKind = iota
	akLen
	akCap
	akShlQ // for v = y<<k on an unsigned type: the integer m with v = 2^k·m, 0 ≤ m ≤ y
)

type atomKey struct {
	v    ssa.Value
	kind atomKind
}

type atomIdx struct {
	ck   string
	kind atomKind
}

type LinCtx struct {
	p      *Program
	fn     *ssa.Function
	keys   []atomKey
	index  map[atomIdx]int
	ckMemo map[ssa.Value]string
	alias  map[ssa.Value]ssa.Value // load -> representative (available loads)
	memo   map[ssa.Value]Lin
	busy   map[ssa.Value]bool
	lenMem map[ssa.Value]Lin
	// retLen: optional oracle for len() of in-repo call results (return facts)
	retLen func(c *ssa.Call, idx int) (Lin, bool)
	// Assumed lists assumptions used (for the evidence).
	Assumed map[string]bool
	intW    int // width of int on the analysed target
	// rp, when set (by the prover), is asked to prove lo ≤ l ≤ hi at the definition of an instruction
	rp func(at ssa.Instruction, l Lin, lo, hi int64) bool
	// callFacts, when set, returns facts about the result of an in-repo call (return facts)
	callFacts func(c *ssa.Call) []Lin
	// entry facts (each ≤ 0) that hold throughout the function (constant parameters of unexported functions)
	entry    []Lin
	phiDepth int
}

func NewLinCtx(p *Program, fn *ssa.Function) *LinCtx {
	w := 64
	if p != nil && (p.Cfg.GOARCH == "386" || p.Cfg.GOARCH == "arm") {
		w = 32
	}
	return &LinCtx{p: p, fn: fn, index: map[atomIdx]int{}, ckMemo: map[ssa.Value]string{}, alias: map[ssa.Value]ssa.Value{}, memo: map[ssa.Value]Lin{},
		busy: map[ssa.Value]bool{}, lenMem: map[ssa.Value]Lin{}, Assumed: map[string]bool{}, intW: w}
}

func (c *LinCtx) res(v ssa.Value) ssa.Value {
	for i := 0; i < 32; i++ {
		a, ok := c.alias[v]
		if !ok || a == v {
			break
		}
		v = a
	}
	for {
		if ct, ok := v.(*ssa.ChangeType); ok {
			v = ct.X
			continue
		}
		return v
	}
}

func (c *LinCtx) atom(v ssa.Value, kind atomKind) int {
	v = c.res(v)
	k := atomIdx{c.canonKey(v, 0), kind}
	if i, ok := c.index[k]; ok {
		return i
	}
	c.keys = append(c.keys, atomKey{v, kind})
	c.index[k] = len(c.keys) - 1
	return len(c.keys) - 1
}

// canonKey gives structurally equal pure expressions (go/ssa performs no CSE)
// the same key; loads, calls, φ-nodes and parameters are identified by value.
func (c *LinCtx) canonKey(v ssa.Value, d int) string {
	v = c.res(v)
	if s, ok := c.ckMemo[v]; ok {
		return s
	}
	var s string
	if d > 12 {
		s = fmt.Sprintf("%p", v)
	} else {
		switch x := v.(type) {
		case *ssa.Const:
			s = "k:" + x.String()
		case *ssa.Convert:
			if _, ok := intBasic(x.Type()); ok {
				s = "cv:" + x.Type().String() + "(" + c.canonKey(x.X, d+1) + ")"
			}
		case *ssa.BinOp:
			a, b := c.canonKey(x.X, d+1), c.canonKey(x.Y, d+1)
			switch x.Op {
			case token.ADD, token.MUL, token.AND, token.OR, token.XOR, token.EQL, token.NEQ:
				if b < a {
					a, b = b, a
				}
			}
			s = "op" + x.Op.String() + ":" + x.Type().String() + "(" + a + "," + b + ")"
		case *ssa.UnOp:
			if x.Op != token.MUL && x.Op != token.ARROW {
				s = "un" + x.Op.String() + "(" + c.canonKey(x.X, d+1) + ")"
			}
		case *ssa.Call:
			if b, ok := x.Call.Value.(*ssa.Builtin); ok && (b.Name() == "len" || b.Name() == "cap" || b.Name() == "min" || b.Name() == "max") {
				s = "b:" + b.Name() + "("
				for _, a := range x.Call.Args {
					s += c.canonKey(a, d+1) + ","
				}
				s += ")"
			}
		case *ssa.Slice:
			lo, hi := "", ""
			if x.Low != nil {
				lo = c.canonKey(x.Low, d+1)
			}
			if x.High != nil {
				hi = c.canonKey(x.High, d+1)
			}
			if x.Max == nil {
				s = "sl(" + c.canonKey(x.X, d+1) + "," + lo + "," + hi + ")"
			}
		}
		if s == "" {
			s = fmt.Sprintf("%p", v)
		}
	}
	c.ckMemo[v] = s
	return s
}

func (c *LinCtx) atomName(i int) string {
	if i < 0 || i >= len(c.keys) {
		return fmt.Sprintf("a%d", i)
	}
	k := c.keys[i]
	n := exprString(k.v)
	switch k.kind {
	case akLen:
		return "len(" + n + ")"
	case akCap:
		return "cap(" + n + ")"
	case akShlQ:
		return "shlq(" + n + ")"
	}
	return n
}

func (c *LinCtx) Format(l Lin) string { return l.format(c.atomName) }

// exprString renders an SSA value as a short source-like expression (used in
// construct names: no line numbers, no register names where avoidable).
func exprString(v ssa.Value) string {
	return exprStringD(v, 0)
}

func exprStringD(v ssa.Value, d int) string {
	if d > 6 {
		return "…"
	}
	switch x := v.(type) {
	case *ssa.Const:
		if x.Value == nil {
			return "nil"
		}
		return x.Value.String()
	case *ssa.Parameter:
		return x.Name()
	case *ssa.FreeVar:
		return x.Name()
	case *ssa.Global:
		return x.Name()
	case *ssa.Alloc:
		if x.Comment != "" {
			return x.Comment
		}
		return "local"
	case *ssa.Phi:
		if x.Comment != "" {
			return x.Comment
		}
		return "φ"
	case *ssa.FieldAddr:
		return exprStringD(x.X, d+1) + "." + fieldOfAddr(x).Name()
	case *ssa.Field:
		return exprStringD(x.X, d+1) + "." + fieldOfVal(x).Name()
	case *ssa.IndexAddr:
		return exprStringD(x.X, d+1) + "[" + exprStringD(x.Index, d+1) + "]"
	case *ssa.Index:
		return exprStringD(x.X, d+1) + "[" + exprStringD(x.Index, d+1) + "]"
	case *ssa.Lookup:
		return exprStringD(x.X, d+1) + "[" + exprStringD(x.Index, d+1) + "]"
	case *ssa.UnOp:
		if x.Op == token.MUL {
			switch x.X.(type) {
			case *ssa.Alloc, *ssa.FieldAddr, *ssa.IndexAddr, *ssa.Global, *ssa.FreeVar:
				return exprStringD(x.X, d+1)
			}
			return "*" + exprStringD(x.X, d+1)
		}
		return x.Op.String() + exprStringD(x.X, d+1)
	case *ssa.BinOp:
		return "(" + exprStringD(x.X, d+1) + x.Op.String() + exprStringD(x.Y, d+1) + ")"
	case *ssa.Slice:
		lo, hi := "", ""
		if x.Low != nil {
			lo = exprStringD(x.Low, d+1)
		}
		if x.High != nil {
			hi = exprStringD(x.High, d+1)
		}
		return exprStringD(x.X, d+1) + "[" + lo + ":" + hi + "]"
	case *ssa.Convert:
		return shortType(x.Type()) + "(" + exprStringD(x.X, d+1) + ")"
	case *ssa.ChangeType:
		return exprStringD(x.X, d+1)
	case *ssa.MakeInterface:
		return exprStringD(x.X, d+1)
	case *ssa.Extract:
		return exprStringD(x.Tuple, d+1) + fmt.Sprintf("#%d", x.Index)
	case *ssa.TypeAssert:
		return exprStringD(x.X, d+1) + ".(" + shortType(x.AssertedType) + ")"
	case *ssa.MakeSlice:
		return "make(" + shortType(x.Type()) + "," + exprStringD(x.Len, d+1) + ")"
	case *ssa.Call:
		name := calleeShort(&x.Call)
		s := name + "("
		for i, a := range x.Call.Args {
			if i > 0 {
				s += ","
			}
			if i >= 3 {
				s += "…"
				break
			}
			s += exprStringD(a, d+2)
		}
		return s + ")"
	case *ssa.Next:
		return "next(" + exprStringD(x.Iter, d+1) + ")"
	case *ssa.Range:
		return "range " + exprStringD(x.X, d+1)
	case *ssa.Function:
		return x.Name()
	}
	return v.Name()
}

func intBasic(t types.Type) (*types.Basic, bool) {
	b, ok := t.Underlying().(*types.Basic)
	if !ok || b.Info()&types.IsInteger == 0 {
		return nil, false
	}
	return b, true
}

func isUnsignedT(t types.Type) bool {
	b, ok := intBasic(t)
	return ok && b.Info()&types.IsUnsigned != 0
}

func (c *LinCtx) bitsOf(t types.Type) int {
	b, ok := intBasic(t)
	if !ok {
		return 64
	}
	switch b.Kind() {
	case types.Int8, types.Uint8:
		return 8
	case types.Int16, types.Uint16:
		return 16
	case types.Int32, types.Uint32:
		return 32
	case types.Int64, types.Uint64:
		return 64
	case types.Int, types.Uint, types.Uintptr:
		return c.intW
	}
	return 64
}

// typeBounds returns the value range of an integer type as far as it fits int64.
func (c *LinCtx) typeBounds(t types.Type) (lo int64, hi int64, hasHi bool) {
	w := c.bitsOf(t)
	if isUnsignedT(t) {
		if w >= 63 {
			return 0, 0, false
		}
		return 0, (int64(1) << uint(w)) - 1, true
	}
	if w >= 64 {
		return math.MinInt64, math.MaxInt64, true
	}
	return -(int64(1) << uint(w-1)), (int64(1) << uint(w-1)) - 1, true
}

// bounds computes a cheap interval for a Lin from the types of its atoms
// (len/cap ≥ 0; unsigned ≥ 0 and ≤ 2^w−1).
func (c *LinCtx) bounds(l Lin) (lo, hi int64, okLo, okHi bool) {
	lo, hi, okLo, okHi = l.c, l.c, true, true
	for a, co := range l.coef {
		k := c.keys[a]
		var alo, ahi int64
		var hasLo, hasHi bool
		if k.kind != akVal {
			alo, hasLo = 0, true
			if k.kind == akLen || k.kind == akCap {
				// no in-memory slice or string holds 2^50 elements (and on 32-bit targets len < 2^31)
				ahi, hasHi = int64(1)<<50, true
				if c.intW == 32 {
					ahi = int64(1)<<31 - 1
				}
				c.Assumed["len()/cap() of any in-memory slice or string is below 2^50"] = true
			}
		} else if _, isInt := intBasic(k.v.Type()); isInt {
			tl, th, hh := c.typeBounds(k.v.Type())
			if isUnsignedT(k.v.Type()) {
				alo, hasLo = 0, true
				ahi, hasHi = th, hh
			} else if c.bitsOf(k.v.Type()) < 64 {
				alo, hasLo, ahi, hasHi = tl, true, th, true
			}
		}
		mulOK := func(x, y int64) (int64, bool) {
			if x == 0 || y == 0 {
				return 0, true
			}
			r := x * y
			if r/y != x || r > (1<<61) || r < -(1<<61) {
				return 0, false
			}
			return r, true
		}
		if co > 0 {
			if hasLo && okLo {
				if m, ok := mulOK(co, alo); ok {
					lo += m
				} else {
					okLo = false
				}
			} else {
				okLo = false
			}
			if hasHi && okHi {
				if m, ok := mulOK(co, ahi); ok {
					hi += m
				} else {
					okHi = false
				}
			} else {
				okHi = false
			}
		} else {
			if hasHi && okLo {
				if m, ok := mulOK(co, ahi); ok {
					lo += m
				} else {
					okLo = false
				}
			} else {
				okLo = false
			}
			if hasLo && okHi {
				if m, ok := mulOK(co, alo); ok {
					hi += m
				} else {
					okHi = false
				}
			} else {
				okHi = false
			}
		}
	}
	return
}

// fitsUnsigned: the exact value of l is provably within [0, 2^w) by interval reasoning.
func (c *LinCtx) fitsType(l Lin, t types.Type) bool {
	lo, hi, okLo, okHi := c.bounds(l)
	tl, th, hh := c.typeBounds(t)
	if !okLo || lo < tl {
		return false
	}
	if !hh {
		// uint64 (or 64-bit uint): only need hi to be known and non-negative range not exceeding 2^63
		return okHi
	}
	return okHi && hi <= th
}

// noWrapHook, when set, is asked to prove l ≥ 0 at the definition of v
// (used for unsigned subtraction).
type nonNegProver func(at ssa.Instruction, l Lin) bool

func (c *LinCtx) Lin(v ssa.Value) Lin { return c.linP(v, nil) }

func (c *LinCtx) linP(v ssa.Value, nn nonNegProver) Lin {
	v = c.res(v)
	if l, ok := c.memo[v]; ok {
		return l
	}
	if c.busy[v] {
		return atomLin(c.atom(v, akVal))
	}
	c.busy[v] = true
	l := c.linCompute(v, nn)
	c.busy[v] = false
	c.memo[v] = l
	return l
}

func (c *LinCtx) linCompute(v ssa.Value, nn nonNegProver) Lin {
	self := func() Lin { return atomLin(c.atom(v, akVal)) }
	switch x := v.(type) {
	case *ssa.Const:
		if x.Value != nil && x.Value.Kind() == constant.Int {
			if i, ok := constant.Int64Val(x.Value); ok {
				return constLin(i)
			}
		}
		return self()
	case *ssa.BinOp:
		if _, ok := intBasic(x.Type()); !ok {
			return self()
		}
		var r Lin
		okr := false
		switch x.Op {
		case token.ADD:
			r, okr = c.linP(x.X, nn).add(c.linP(x.Y, nn), 1), true
		case token.SUB:
			r, okr = c.linP(x.X, nn).add(c.linP(x.Y, nn), -1), true
		case token.MUL:
			if k, ok := constInt(x.Y); ok && k > -(1<<30) && k < (1<<30) {
				r, okr = c.linP(x.X, nn).scale(k), true
			} else if k, ok := constInt(x.X); ok && k > -(1<<30) && k < (1<<30) {
				r, okr = c.linP(x.Y, nn).scale(k), true
			}
		case token.SHL:
			if k, ok := constInt(x.Y); ok && k >= 0 && k < 30 {
				r, okr = c.linP(x.X, nn).scale(int64(1)<<uint(k)), true
			}
		}
		if !okr {
			return self()
		}
		if isUnsignedT(x.Type()) {
			// exact only when the mathematical result provably stays inside the type
			if c.fitsType(r, x.Type()) {
				return r
			}
			if c.rp != nil {
				if in, ok := v.(ssa.Instruction); ok {
					_, hi, hasHi := c.typeBounds(x.Type())
					if !hasHi {
						hi = math.MaxInt64 / 4
					}
					if c.rp(in, r, 0, hi) {
						return r
					}
				}
			}
			return self()
		}
		if c.bitsOf(x.Type()) < c.intW {
			if c.fitsType(r, x.Type()) {
				return r
			}
			return self()
		}
		c.Assumed["arithmetic on int/int64 length expressions does not overflow"] = true
		return r
	case *ssa.Convert:
		if _, ok := intBasic(x.Type()); !ok {
			return self()
		}
		if _, ok := intBasic(x.X.Type()); !ok {
			return self()
		}
		inner := c.linP(x.X, nn)
		if c.fitsType(inner, x.Type()) {
			return inner
		}
		if c.rp != nil {
			// value-preserving when the operand is provably inside the target type at this point
			lo, hi, hasHi := c.typeBounds(x.Type())
			if !hasHi {
				hi = math.MaxInt64 // a 64-bit unsigned target holds every non-negative value of a narrower or signed source
			}
			if isUnsignedT(x.Type()) {
				lo = 0
			}
			if c.rp(x, inner, lo, hi) {
				return inner
			}
		}
		// widening conversions preserve the value regardless of the interval
		sb, tb := c.bitsOf(x.X.Type()), c.bitsOf(x.Type())
		su, tu := isUnsignedT(x.X.Type()), isUnsignedT(x.Type())
		if (su && tu && tb >= sb) || (su && !tu && tb > sb) || (!su && !tu && tb >= sb) {
			return inner
		}
		return self()
	case *ssa.Call:
		if b, ok := x.Call.Value.(*ssa.Builtin); ok {
			switch b.Name() {
			case "len":
				return c.LenLin(x.Call.Args[0])
			case "cap":
				return atomLin(c.atom(x.Call.Args[0], akCap))
			case "copy":
				// copy returns min(len(dst), len(src)); exact when both lengths are constants
				ld, ls := c.LenLin(x.Call.Args[0]), c.LenLin(x.Call.Args[1])
				if ld.isConst() && ls.isConst() {
					if ld.c < ls.c {
						return constLin(ld.c)
					}
					return constLin(ls.c)
				}
			}
		}
		return self()
	}
	return self()
}

// LenLin returns the linear form of len(v).
func (c *LinCtx) LenLin(v ssa.Value) Lin {
	v = c.res(v)
	if l, ok := c.lenMem[v]; ok {
		return l
	}
	l := c.lenCompute(v)
	c.lenMem[v] = l
	return l
}

func (c *LinCtx) lenCompute(v ssa.Value) Lin {
	switch t := v.Type().Underlying().(type) {
	case *types.Pointer:
		if a, ok := t.Elem().Underlying().(*types.Array); ok {
			return constLin(a.Len())
		}
	case *types.Array:
		return constLin(t.Len())
	}
	switch x := v.(type) {
	case *ssa.UnOp:
		// axiom A5: a package-level slice assigned only by its initialiser has the initialiser's length
		if g, ok := x.X.(*ssa.Global); ok && x.Op == token.MUL && c.p != nil {
			if vals, ok := c.p.constIntTable(g); ok && c.p.assignedOnlyByInit(g) {
				return constLin(int64(len(vals)))
			}
		}
	case *ssa.Const:
		if x.Value != nil && x.Value.Kind() == constant.String {
			return constLin(int64(len(constant.StringVal(x.Value))))
		}
		if x.Value == nil {
			return constLin(0)
		}
	case *ssa.Slice:
		lo := constLin(0)
		if x.Low != nil {
			lo = c.Lin(x.Low)
		}
		var hi Lin
		if x.High != nil {
			hi = c.Lin(x.High)
		} else {
			hi = c.LenLin(x.X)
		}
		return hi.add(lo, -1)
	case *ssa.MakeSlice:
		return c.Lin(x.Len)
	case *ssa.Convert:
		_, fromBasic := x.X.Type().Underlying().(*types.Basic)
		_, toBasic := x.Type().Underlying().(*types.Basic)
		if sl, ok := x.Type().Underlying().(*types.Slice); ok && fromBasic {
			if b, ok := sl.Elem().Underlying().(*types.Basic); ok && b.Kind() == types.Uint8 {
				return c.LenLin(x.X) // []byte(string)
			}
		}
		if sl, ok := x.X.Type().Underlying().(*types.Slice); ok && toBasic {
			if b, ok := sl.Elem().Underlying().(*types.Basic); ok && b.Kind() == types.Uint8 {
				return c.LenLin(x.X) // string([]byte)
			}
		}
	case *ssa.Call:
		if isBuiltin(&x.Call, "append") && len(x.Call.Args) == 2 {
			return c.LenLin(x.Call.Args[0]).add(c.LenLin(x.Call.Args[1]), 1)
		}
		if cal := x.Call.StaticCallee(); cal != nil {
			if n, ok := digestLen[cal.String()]; ok {
				return constLin(n)
			}
		}
		if c.retLen != nil {
			if l, ok := c.retLen(x, -1); ok {
				return l
			}
		}
	case *ssa.Extract:
		if call, ok := x.Tuple.(*ssa.Call); ok && c.retLen != nil {
			if l, ok := c.retLen(call, x.Index); ok {
				return l
			}
		}
	case *ssa.BinOp:
		if x.Op == token.ADD {
			if b, ok := x.Type().Underlying().(*types.Basic); ok && b.Info()&types.IsString != 0 {
				return c.LenLin(x.X).add(c.LenLin(x.Y), 1)
			}
		}
	}
	return atomLin(c.atom(v, akLen))
}

// digestLen: result lengths of digest helpers (axiom A7).
var digestLen = map[string]int64{
	"github.com/gcash/bchd/chaincfg/chainhash.DoubleHashB": 32,
	"github.com/gcash/bchd/chaincfg/chainhash.HashB":       32,
	ModPath + ".Hash160": 20,
	ModPath + ".Hash256": 32,
}

// ---- facts

type Facts struct {
	le []Lin
	ne []Lin
}

func (f *Facts) clone() *Facts {
	return &Facts{le: append([]Lin(nil), f.le...), ne: append([]Lin(nil), f.ne...)}
}

// CondFacts adds the linear consequences of cond being truth.
func (c *LinCtx) CondFacts(cond ssa.Value, truth bool, f *Facts, nn nonNegProver) {
	switch x := cond.(type) {
	case *ssa.UnOp:
		if x.Op == token.NOT {
			c.CondFacts(x.X, !truth, f, nn)
		}
		if x.Op == token.MUL {
			// a flag read from a constant table of booleans (filled at package initialisation): the index lies where
			// the table holds that flag, when that is one contiguous range
			if ia, ok := x.X.(*ssa.IndexAddr); ok {
				if g, ok := ia.X.(*ssa.Global); ok && c.p.assignedOnlyByInit(g) {
					if v, ok := c.p.initEval().globalValue(g); ok {
						if arr, ok := v.(*carray); ok {
							lo, hi, n := -1, -1, 0
							contiguous := true
							for i, cell := range arr.elems {
								b, isB := cell.v.(bool)
								if !isB {
									return
								}
								if b == truth {
									if lo < 0 {
										lo = i
									} else if hi != i-1 {
										contiguous = false
									}
									hi = i
									n++
								}
							}
							if n > 0 && contiguous {
								il := c.linP(ia.Index, nn)
								f.le = append(f.le, il.scale(-1).addConst(int64(lo))) // lo − idx ≤ 0
								f.le = append(f.le, il.addConst(-int64(hi)))          // idx − hi ≤ 0
							}
						}
					}
				}
			}
		}
		return
	case *ssa.Phi:
		// φ of boolean constants: the value identifies the incoming edge
		if c.phiDepth > 3 {
			return
		}
		match := -1
		for i, e := range x.Edges {
			bv, ok := constBool(e)
			if !ok {
				return
			}
			if bv == truth {
				if match >= 0 {
					return
				}
				match = i
			}
		}
		if match < 0 {
			return
		}
		pred := x.Block().Preds[match]
		c.phiDepth++
		for _, cd := range DomConds(pred) {
			c.CondFacts(cd.V, cd.Truth, f, nn)
		}
		if cd, ok := edgeCond(pred, x.Block()); ok {
			c.CondFacts(cd.V, cd.Truth, f, nn)
		}
		c.phiDepth--
		return
	case *ssa.BinOp:
		var xl, yl Lin
		// (u >> k) == 0 / != 0 on an unsigned u: u < 2^k / u ≥ 2^k
		if x.Op == token.EQL || x.Op == token.NEQ {
			for _, pr := range [][2]ssa.Value{{x.X, x.Y}, {x.Y, x.X}} {
				sh, ok := pr[0].(*ssa.BinOp)
				if !ok || sh.Op != token.SHR || !isUnsignedT(sh.X.Type()) {
					continue
				}
				z, isZ := constInt(pr[1])
				k, isK := constInt(sh.Y)
				if !isZ || z != 0 || !isK || k < 1 || k > 62 {
					continue
				}
				ul := c.linP(sh.X, nn)
				isZero := (x.Op == token.EQL) == truth
				if isZero {
					f.le = append(f.le, ul.addConst(-(int64(1)<<uint(k) - 1))) // u ≤ 2^k − 1
				} else {
					f.le = append(f.le, ul.scale(-1).addConst(int64(1)<<uint(k))) // 2^k − u ≤ 0
				}
			}
		}
		if _, ok := intBasic(x.X.Type()); ok {
			xl, yl = c.linP(x.X, nn), c.linP(x.Y, nn)
		} else if isNilConst(x.Y) || isNilConst(x.X) {
			// s == nil for slices:  nil ⇒ len 0 (only that direction)
			s := x.X
			if isNilConst(x.X) {
				s = x.Y
			}
			if _, isSl := s.Type().Underlying().(*types.Slice); isSl {
				if (x.Op == token.EQL && truth) || (x.Op == token.NEQ && !truth) {
					l := c.LenLin(s)
					f.le = append(f.le, l, l.scale(-1))
				}
			}
			return
		} else {
			return
		}
		d := xl.add(yl, -1)
		op := x.Op
		if !truth {
			switch op {
			case token.LSS:
				op = token.GEQ
			case token.LEQ:
				op = token.GTR
			case token.GTR:
				op = token.LEQ
			case token.GEQ:
				op = token.LSS
			case token.EQL:
				op = token.NEQ
			case token.NEQ:
				op = token.EQL
			}
		}
		switch op {
		case token.LSS:
			f.le = append(f.le, d.addConst(1))
		case token.LEQ:
			f.le = append(f.le, d)
		case token.GTR:
			f.le = append(f.le, d.scale(-1).addConst(1))
		case token.GEQ:
			f.le = append(f.le, d.scale(-1))
		case token.EQL:
			f.le = append(f.le, d, d.scale(-1))
		case token.NEQ:
			f.ne = append(f.ne, d)
		}
	}
}

// Intrinsic returns facts that hold for the atoms mentioned in ls by
// construction (types, len ≥ 0, division / modulo / mask axioms).
func (c *LinCtx) Intrinsic(ls []Lin, nn nonNegProver) []Lin {
	var out []Lin
	seen := map[int]bool{}
	var visit func(a int, depth int)
	visit = func(a int, depth int) {
		if seen[a] {
			return
		}
		seen[a] = true
		k := c.keys[a]
		al := atomLin(a)
		emit := func(l Lin) {
			out = append(out, l)
			if depth < 2 {
				for _, b := range l.atoms() {
					visit(b, depth+1)
				}
			}
		}
		lenMax := int64(1) << 50
		if c.intW == 32 {
			lenMax = int64(1)<<31 - 1
		}
		switch k.kind {
		case akLen:
			emit(al.scale(-1))
			emit(al.addConst(-lenMax))
			return
		case akCap:
			emit(al.scale(-1))
			emit(al.addConst(-lenMax))
			emit(atomLin(c.atom(k.v, akLen)).add(al, -1)) // len ≤ cap
			return
		case akShlQ:
			emit(al.scale(-1))
			return
		}
		v := k.v
		if _, ok := intBasic(v.Type()); !ok {
			return
		}
		lo, hi, hasHi := c.typeBounds(v.Type())
		if isUnsignedT(v.Type()) {
			emit(al.scale(-1))
			if hasHi {
				emit(al.addConst(-hi))
			}
		} else if c.bitsOf(v.Type()) < 64 {
			emit(al.addConst(-hi))
			emit(al.scale(-1).addConst(lo))
		}
		nonNeg := func(x ssa.Value) bool {
			if isUnsignedT(x.Type()) {
				return true
			}
			l, _, okLo, _ := c.bounds(c.linP(x, nn))
			return okLo && l >= 0
		}
		switch x := v.(type) {
		case *ssa.Call:
			if c.callFacts != nil {
				for _, l := range c.callFacts(x) {
					emit(l)
				}
			}
			if isBuiltin(&x.Call, "min") || isBuiltin(&x.Call, "max") {
				if _, isInt := intBasic(x.Type()); isInt {
					sign := int64(1) // min(…) ≤ every argument
					if isBuiltin(&x.Call, "max") {
						sign = -1 // max(…) ≥ every argument
					}
					for _, a := range x.Call.Args {
						emit(al.add(c.linP(a, nn), -1).scale(sign))
					}
				}
			}
			// (A9) 0 ≤ (*bytes.Reader).Len() ≤ len(b) for a Reader built by bytes.NewReader(b): the unread part of a
			// read-only view never exceeds what it was built over (documented behaviour of package bytes)
			if staticCalleeIs(&x.Call, "(*bytes.Reader).Len") && len(x.Call.Args) == 1 {
				emit(al.scale(-1))
				if mk, ok := x.Call.Args[0].(*ssa.Call); ok && staticCalleeIs(&mk.Call, "bytes.NewReader") && len(mk.Call.Args) == 1 {
					emit(al.add(c.LenLin(mk.Call.Args[0]), -1))
				}
			}
			if staticCalleeIs(&x.Call, "(*bytes.Buffer).Len") && len(x.Call.Args) == 1 {
				emit(al.scale(-1))
			}
			if isBuiltin(&x.Call, "copy") {
				// 0 ≤ copy(dst, src) ≤ len(dst), len(src)
				emit(al.scale(-1))
				emit(al.add(c.LenLin(x.Call.Args[0]), -1))
				emit(al.add(c.LenLin(x.Call.Args[1]), -1))
			}
		case *ssa.BinOp:
			switch x.Op {
			case token.QUO, token.SHR:
				var kk int64
				if ki, ok := constInt(x.Y); ok {
					if x.Op == token.QUO && ki > 0 && ki < (1<<30) {
						kk = ki
					}
					if x.Op == token.SHR && ki > 0 && ki < 30 {
						kk = 1 << uint(ki)
					}
				}
				if kk > 0 && nonNeg(x.X) {
					xl := c.linP(x.X, nn)
					emit(al.scale(kk).add(xl, -1))            // k·q ≤ x
					emit(xl.add(al, -kk).addConst(-(kk - 1))) // x ≤ k·q + k−1
				}
			case token.REM:
				if nonNeg(x.X) && nonNeg(x.Y) {
					emit(al.add(c.linP(x.Y, nn), -1).addConst(1)) // r ≤ y−1 (y ≠ 0 is a separate obligation)
					emit(al.add(c.linP(x.X, nn), -1))             // r ≤ x
					emit(al.scale(-1))
				}
			case token.AND:
				for _, pair := range [][2]ssa.Value{{x.X, x.Y}, {x.Y, x.X}} {
					mk, ok := constInt(pair[1])
					if !ok || mk < 0 {
						continue
					}
					emit(al.addConst(-mk)) // r ≤ mask
					emit(al.scale(-1))
					if nonNeg(pair[0]) {
						emit(al.add(c.linP(pair[0], nn), -1)) // r ≤ x
					}
					if mk > 0 && (mk&(mk+1)) == 0 && nonNeg(pair[0]) {
						// A8: x = k·q + r with q = x / k or x >> log2 k already an atom
						kq := mk + 1
						for qa, qk := range c.keys {
							if qk.kind != akVal {
								continue
							}
							qb, ok := qk.v.(*ssa.BinOp)
							if !ok || c.res(qb.X) != c.res(pair[0]) {
								continue
							}
							qi, ok := constInt(qb.Y)
							if !ok {
								continue
							}
							if (qb.Op == token.QUO && qi == kq) || (qb.Op == token.SHR && qi > 0 && qi < 30 && (int64(1)<<uint(qi)) == kq) {
								e := c.linP(pair[0], nn).add(atomLin(qa), -kq).add(al, -1)
								emit(e)
								emit(e.scale(-1))
							}
						}
					}
				}
			case token.MUL:
				// y·c on a w-bit unsigned type is (c·y) mod 2^w, which never exceeds c·y; for c = 2^k it is the shift below
				if isUnsignedT(x.Type()) {
					for _, pr := range [][2]ssa.Value{{x.X, x.Y}, {x.Y, x.X}} {
						ci, ok := constInt(pr[1])
						if !ok || ci <= 0 || ci >= (1<<30) {
							continue
						}
						if ci&(ci-1) == 0 && ci > 1 {
							m := atomLin(c.atom(v, akShlQ))
							e := al.add(m, -ci) // v = 2^k·m
							emit(e)
							emit(e.scale(-1))
							emit(m.add(c.linP(pr[0], nn), -1)) // m ≤ y
						} else {
							emit(al.add(c.linP(pr[0], nn).scale(ci), -1)) // v ≤ c·y
						}
						break
					}
				}
			case token.SHL:
				// y<<k on a w-bit unsigned type equals 2^k·(y mod 2^(w−k)): a multiple of 2^k not exceeding 2^k·y
				if ki, ok := constInt(x.Y); ok && ki > 0 && ki < 30 && isUnsignedT(x.Type()) {
					m := atomLin(c.atom(v, akShlQ))
					e := al.add(m, -(int64(1) << uint(ki))) // v = 2^k·m
					emit(e)
					emit(e.scale(-1))
					emit(m.add(c.linP(x.X, nn), -1)) // m ≤ y
				}
			}
		case *ssa.Convert:
			if _, ok := intBasic(x.X.Type()); ok && nonNeg(x.X) {
				// truncation of a non-negative value never increases it
				emit(al.add(c.linP(x.X, nn), -1))
			}
		}
	}
	for _, l := range ls {
		for _, a := range l.atoms() {
			visit(a, 0)
		}
	}
	return out
}

package main

import (
	"fmt"
	"go/token"
	"go/types"
	"os"
	"sort"
	"strings"

	"golang.org/x/tools/go/ssa"
)

func init() { register("C03", checkC03) }

// lfsrShape is what the recogniser extracts from a remainder function.
type lfsrShape struct {
	fn       *ssa.Function
	state    *ssa.Phi
	init     uint64
	topShift int64  // K: top = c >> K
	mask     uint64 // M: c & M
	shift    int64  // << 5
	taps     map[int]uint64
	finalXor uint64
	fullLoop bool
	why      string
}

// specification oracles (CashAddr spec; BIP173)
var cashaddrGen = []uint64{0x98f2bc8e61, 0x79b76d99e2, 0xf33e5fb3c4, 0xae2eabe2a8, 0x1e4f43e470}
var bech32Gen = []uint64{0x3b6a57b2, 0x26508e6d, 0x1ea119fa, 0x3d4233dd, 0x2a1462b3}

// gf32MulAlpha multiplies a GF(32) element by the primitive element (mod a^5+a^3+1).
func gf32MulAlpha(x uint64) uint64 {
	x <<= 1
	if x&32 != 0 {
		x ^= 41
	}
	return x & 31
}

// genConsistent: G_i = {2^i}·G_0 coefficient-wise over GF(32).
func genConsistent(g []uint64, ncoef int) bool {
	cur := g[0]
	for i := 1; i < len(g); i++ {
		var nxt uint64
		for c := 0; c < ncoef; c++ {
			co := (cur >> uint(5*c)) & 31
			nxt |= gf32MulAlpha(co) << uint(5*c)
		}
		if nxt != g[i] {
			return false
		}
		cur = nxt
	}
	return true
}

// bitTest parses a branch condition that tests bit i of `top`.
// Returns top value, the bit index (constant) or the index variable, and ok.
func bitTest(cond ssa.Value) (top ssa.Value, bit int64, bitVar ssa.Value, ok bool) {
	bo, isB := cond.(*ssa.BinOp)
	if !isB {
		return
	}
	k, isK := constInt(bo.Y)
	if !isK {
		return
	}
	and, isA := bo.X.(*ssa.BinOp)
	if !isA || and.Op != token.AND {
		return
	}
	m, isM := constInt(and.Y)
	if !isM {
		// form (c): top & (1 << i), either operand order
		for _, pr := range [][2]ssa.Value{{and.X, and.Y}, {and.Y, and.X}} {
			if shl, isS := pr[1].(*ssa.BinOp); isS && shl.Op == token.SHL {
				if one, isOne := constInt(shl.X); isOne && one == 1 && (bo.Op == token.GTR || bo.Op == token.NEQ) && k == 0 {
					return pr[0], -1, stripIntConv(shl.Y), true
				}
			}
		}
		return
	}
	nonZero := (bo.Op == token.GTR && k == 0) || (bo.Op == token.NEQ && k == 0) || (bo.Op == token.EQL && k == m && m > 0 && m&(m-1) == 0)
	if !nonZero {
		return
	}
	// form (a): top & 2^i
	if sh, isSh := and.X.(*ssa.BinOp); isSh && sh.Op == token.SHR && m == 1 {
		// form (b): (top >> i) & 1
		if ki, isKi := constInt(sh.Y); isKi {
			return sh.X, ki, nil, true
		}
		return sh.X, -1, stripIntConv(sh.Y), true
	}
	if m > 0 && m&(m-1) == 0 {
		i := int64(0)
		for (int64(1) << uint(i)) != m {
			i++
		}
		return and.X, i, nil, true
	}
	return
}

func recogniseLFSR(p *Program, fn *ssa.Function) *lfsrShape {
	sh := &lfsrShape{fn: fn, taps: map[int]uint64{}}
	if len(fn.Params) != 1 {
		sh.why = "remainder function does not take exactly one slice"
		return sh
	}
	param := fn.Params[0]
	// the state φ: an integer φ in a loop header whose entry operand is a constant and which is returned (possibly ^ const)
	rets := returnsOf(fn)
	if len(rets) != 1 || len(rets[0].Results) != 1 {
		sh.why = "not a single-return function"
		return sh
	}
	res := rets[0].Results[0]
	if bo, ok := res.(*ssa.BinOp); ok && bo.Op == token.XOR {
		if k, ok := constUint(bo.Y); ok {
			sh.finalXor = k
			res = bo.X
		}
	}
	st, ok := res.(*ssa.Phi)
	if !ok || !isLoopHeader(st.Block()) {
		sh.why = "returned value is not a loop-carried state"
		return sh
	}
	sh.state = st
	hdr := st.Block()
	// full-range loop over the parameter
	for _, in := range hdr.Instrs {
		if ph, ok := in.(*ssa.Phi); ok && ph != st {
			// go/ssa range lowering: φ(-1, i+1); the test is on i+1
			for _, ref := range *ph.Referrers() {
				if inc, ok := ref.(*ssa.BinOp); ok {
					if fullRangeInduction(inc, func(v ssa.Value) bool { return v == ssa.Value(param) }) == hdr {
						sh.fullLoop = true
					}
				}
			}
			if fullRangeInduction(ph, func(v ssa.Value) bool { return v == ssa.Value(param) }) == hdr {
				sh.fullLoop = true
			}
		}
	}
	// init and back-edge values
	var backs []struct {
		v    ssa.Value
		pred *ssa.BasicBlock
	}
	for i, e := range st.Edges {
		pred := hdr.Preds[i]
		if hdr.Dominates(pred) {
			backs = append(backs, struct {
				v    ssa.Value
				pred *ssa.BasicBlock
			}{e, pred})
		} else {
			k, ok := constUint(e)
			if !ok {
				sh.why = "initial state is not a constant"
				return sh
			}
			sh.init = k
		}
	}
	var top ssa.Value
	addTap := func(cond ssa.Value, g uint64) bool {
		t, bit, bv, ok := bitTest(cond)
		if !ok || bv != nil || bit < 0 {
			return false
		}
		if top == nil {
			top = t
		} else if top != t {
			return false
		}
		if _, dup := sh.taps[int(bit)]; dup {
			return false
		}
		sh.taps[int(bit)] = g
		return true
	}
	// condXor: (noVal from P, yesVal = noVal ^ G from T) with T's only pred P and P: if cond → T
	condXor := func(a, b ssa.Value, pa, pb *ssa.BasicBlock) (ssa.Value, bool) {
		for _, pr := range [][2]int{{0, 1}, {1, 0}} {
			vals := []ssa.Value{a, b}
			preds := []*ssa.BasicBlock{pa, pb}
			no, yes := vals[pr[0]], vals[pr[1]]
			pn, py := preds[pr[0]], preds[pr[1]]
			x, ok := yes.(*ssa.BinOp)
			if !ok || x.Op != token.XOR || x.X != no {
				continue
			}
			g, ok := constUint(x.Y)
			if !ok {
				continue
			}
			if len(py.Preds) != 1 || py.Preds[0] != pn {
				continue
			}
			iff, ok := lastInstr(pn).(*ssa.If)
			if !ok || pn.Succs[0] != py {
				continue
			}
			if !addTap(iff.Cond, g) {
				continue
			}
			return no, true
		}
		return nil, false
	}
	var cur ssa.Value
	switch len(backs) {
	case 1:
		cur = backs[0].v
	case 2:
		v, ok := condXor(backs[0].v, backs[1].v, backs[0].pred, backs[1].pred)
		if !ok {
			sh.why = "loop back edges are not a conditional generator xor"
			return sh
		}
		cur = v
	default:
		sh.why = "unexpected number of back edges"
		return sh
	}
	for depth := 0; depth < 16; depth++ {
		ph, ok := cur.(*ssa.Phi)
		if !ok || ph == st {
			break
		}
		// inner counted loop (table form)
		if isLoopHeader(ph.Block()) {
			base, ok := lfsrInnerLoop(p, sh, ph, &top)
			if !ok {
				return sh
			}
			cur = base
			continue
		}
		if len(ph.Edges) != 2 {
			break
		}
		v, ok := condXor(ph.Edges[0], ph.Edges[1], ph.Block().Preds[0], ph.Block().Preds[1])
		if !ok {
			sh.why = "a merge on the state path is not a conditional generator xor"
			return sh
		}
		cur = v
	}
	// base: ((c & M) << 5) ^ d
	bx, ok := cur.(*ssa.BinOp)
	if !ok || bx.Op != token.XOR {
		sh.why = "state update is not ((c & M) << s) ^ d"
		return sh
	}
	var shl *ssa.BinOp
	var dv ssa.Value
	for _, pr := range [][2]ssa.Value{{bx.X, bx.Y}, {bx.Y, bx.X}} {
		if s, ok := pr[0].(*ssa.BinOp); ok && s.Op == token.SHL {
			shl, dv = s, pr[1]
		}
	}
	if shl == nil {
		sh.why = "state update has no shift"
		return sh
	}
	sh.shift, _ = constInt(shl.Y)
	and, ok := shl.X.(*ssa.BinOp)
	if !ok || and.Op != token.AND || and.X != ssa.Value(st) {
		sh.why = "shifted value is not (state & mask)"
		return sh
	}
	sh.mask, _ = constUint(and.Y)
	// d is the current element of the parameter
	d := stripIntConv(dv)
	if ld, ok := d.(*ssa.UnOp); !ok || ld.Op != token.MUL {
		sh.why = "xored value is not an element of the input"
		return sh
	} else if ia, ok := ld.X.(*ssa.IndexAddr); !ok || ia.X != ssa.Value(param) {
		sh.why = "xored value is not an element of the parameter slice"
		return sh
	}
	// top = state >> K
	if top == nil {
		sh.why = "no feedback taps found"
		return sh
	}
	t := stripIntConv(top)
	tb, ok := t.(*ssa.BinOp)
	if !ok || tb.Op != token.SHR || tb.X != ssa.Value(st) {
		sh.why = "feedback bits are not taken from (state >> K)"
		return sh
	}
	sh.topShift, _ = constInt(tb.Y)
	return sh
}

// lfsrInnerLoop handles the table-driven forms of the feedback step:
//
//	for i := 0; i < n; i++ { if <bit i of top> { c ^= table[i] } }
//	for i, g := range table { if <bit i of top> { c ^= g } }
//
// with the bit test written (top>>i)&1 ≠ 0 or top&(1<<i) ≠ 0, the table a never-reassigned
// package-level array / slice of constants or a function-local array literal of constants, and the
// not-taken edge either merging first or going straight back to the loop header.
func lfsrInnerLoop(p *Program, sh *lfsrShape, ph *ssa.Phi, top *ssa.Value) (ssa.Value, bool) {
	hdr := ph.Block()
	var base ssa.Value
	var latches []ssa.Value
	for i, e := range ph.Edges {
		if hdr.Dominates(hdr.Preds[i]) {
			latches = append(latches, e)
		} else {
			if base != nil {
				sh.why = "inner loop state has more than one entry value"
				return nil, false
			}
			base = e
		}
	}
	if base == nil || len(latches) == 0 {
		sh.why = "inner loop state has no entry / back edge"
		return nil, false
	}
	// induction: iv runs 0 .. bound-1
	var iv ssa.Value
	var bound int64 = -1
	if iff, ok := lastInstr(hdr).(*ssa.If); ok {
		if c, ok := iff.Cond.(*ssa.BinOp); ok && c.Op == token.LSS {
			if k, ok := constInt(c.Y); ok {
				indOK := func(q *ssa.Phi, init int64, step ssa.Value) bool {
					if q.Block() != hdr {
						return false
					}
					okInit := false
					for i, e := range q.Edges {
						if !hdr.Dominates(hdr.Preds[i]) {
							if k0, ok := constInt(e); ok && k0 == init {
								okInit = true
							}
						} else if step != nil {
							if e != step {
								return false
							}
						} else {
							bo, ok := e.(*ssa.BinOp)
							if !ok || bo.Op != token.ADD || bo.X != ssa.Value(q) {
								return false
							}
							if k1, ok := constInt(bo.Y); !ok || k1 != 1 {
								return false
							}
						}
					}
					return okInit
				}
				if q, ok := c.X.(*ssa.Phi); ok && indOK(q, 0, nil) {
					iv, bound = q, k
				} else if inc, ok := c.X.(*ssa.BinOp); ok && inc.Op == token.ADD {
					if q, ok := inc.X.(*ssa.Phi); ok {
						if k1, ok := constInt(inc.Y); ok && k1 == 1 && indOK(q, -1, inc) {
							iv, bound = inc, k
						}
					}
				}
			}
		}
	}
	if iv == nil {
		sh.why = "inner loop is not a counted / range loop from 0 with a constant bound"
		return nil, false
	}
	// back-edge values: the state unchanged, a merge of (state, state ^ table[iv]), or state ^ table[iv] directly
	var xr *ssa.BinOp
	var xorBlock *ssa.BasicBlock
	for _, l := range latches {
		cands := []ssa.Value{l}
		var candBlocks []*ssa.BasicBlock
		if m, ok := l.(*ssa.Phi); ok && m != ph {
			cands = nil
			for i, e := range m.Edges {
				cands = append(cands, e)
				candBlocks = append(candBlocks, m.Block().Preds[i])
			}
		}
		for i, e := range cands {
			if e == ssa.Value(ph) {
				continue
			}
			x, ok := e.(*ssa.BinOp)
			if !ok || x.Op != token.XOR || (x.X != ssa.Value(ph) && x.Y != ssa.Value(ph)) {
				sh.why = "inner loop carries something other than the state or state ^ table[i]"
				return nil, false
			}
			if xr != nil && xr != x {
				sh.why = "inner loop has more than one xor"
				return nil, false
			}
			xr = x
			if candBlocks != nil {
				xorBlock = candBlocks[i]
			} else {
				xorBlock = x.Block()
			}
		}
	}
	if xr == nil || xorBlock == nil || len(xorBlock.Preds) != 1 {
		sh.why = "inner loop has no conditional xor"
		return nil, false
	}
	condBlk := xorBlock.Preds[0]
	iff, ok := lastInstr(condBlk).(*ssa.If)
	if !ok || condBlk.Succs[0] != xorBlock {
		sh.why = "inner xor is not taken on the passing edge of a bit test"
		return nil, false
	}
	t, _, bv, ok := bitTest(iff.Cond)
	if !ok || bv == nil || stripIntConv(bv) != stripIntConv(iv) {
		sh.why = "inner condition does not test bit i of the feedback value"
		return nil, false
	}
	*top = t
	// xored value: table[iv]
	tv := xr.Y
	if xr.Y == ssa.Value(ph) {
		tv = xr.X
	}
	var tableVal ssa.Value
	switch e := tv.(type) {
	case *ssa.UnOp:
		ia, ok := e.X.(*ssa.IndexAddr)
		if e.Op != token.MUL || !ok || stripIntConv(ia.Index) != stripIntConv(iv) {
			sh.why = "inner xor operand is not the table element at the bit number"
			return nil, false
		}
		tableVal = ia.X
	case *ssa.Index:
		if stripIntConv(e.Index) != stripIntConv(iv) {
			sh.why = "table is not indexed by the bit number"
			return nil, false
		}
		tableVal = e.X
	default:
		sh.why = "inner xor operand is not a table load"
		return nil, false
	}
	vals, ok := constTableOf(p, tableVal)
	if !ok {
		sh.why = "generator table is not a constant, never-reassigned table"
		return nil, false
	}
	if int64(len(vals)) < bound {
		sh.why = "generator table shorter than the bit loop"
		return nil, false
	}
	for i := int64(0); i < bound; i++ {
		sh.taps[int(i)] = uint64(vals[i])
	}
	return base, true
}

// constTableOf: v denotes a table of constants: a package-level variable (or a load of it) assigned only by
// its initialiser, or (a load of) a function-local array filled only by constant element stores.
func constTableOf(p *Program, v ssa.Value) ([]int64, bool) {
	if ld, ok := v.(*ssa.UnOp); ok && ld.Op == token.MUL {
		v = ld.X
	}
	switch x := v.(type) {
	case *ssa.Global:
		vals, ok := p.constIntTable(x)
		if !ok || !p.assignedOnlyByInit(x) {
			return nil, false
		}
		return vals, true
	case *ssa.Alloc:
		at, ok := derefType(x.Type()).Underlying().(*types.Array)
		if !ok {
			return nil, false
		}
		vals := make([]int64, at.Len())
		set := make([]bool, at.Len())
		for _, ref := range *x.Referrers() {
			switch r := ref.(type) {
			case *ssa.IndexAddr:
				k, isK := constInt(r.Index)
				if !isK || k < 0 || k >= at.Len() {
					return nil, false
				}
				for _, u := range *r.Referrers() {
					st, ok := u.(*ssa.Store)
					if !ok || st.Addr != ssa.Value(r) {
						return nil, false
					}
					c, isC := st.Val.(*ssa.Const)
					if !isC || c.Value == nil || set[k] {
						return nil, false
					}
					if u64, ok := constUint(c); ok {
						vals[k] = int64(u64)
					} else if i64, ok := constInt(c); ok {
						vals[k] = i64
					} else {
						return nil, false
					}
					set[k] = true
				}
			case *ssa.UnOp, *ssa.DebugRef:
			default:
				return nil, false
			}
		}
		return vals, true
	}
	return nil, false
}

func checkC03(p *Program, r *Report) {
	// round 6 (systematic): no unguarded mutable package-level state behind this property's functions (§2.9)
	sharedStateRule(p, r, NewEffects(p), "C03.shared", []string{"address.go", "bech32/bech32.go"})
	r.Floor("C03.shared", 0)
	r.Explain = "C03.lfsr: the two remainder functions are recognised, from their SSA, as the LFSRs of the CashAddr and BIP173 specifications — register " +
		"split (c >> K, (c & M) << 5), initial value, the five generator constants tied to the five feedback bits (unrolled or table + counted loop), final " +
		"xor — over every symbol of the input; the generator constants are also checked for internal consistency G_i = {2^i}·G_0 over GF(32). C03.accept: " +
		"acceptance compares the whole remainder (no mask, shift or narrowing) with the specified constant, over expand(prefix) ‖ payload with the payload " +
		"passed whole, and the prefix expansion has the specified shape. C03.inject: symbol decoding is injective (decode table inverts the alphabet, every " +
		"other entry rejects) and mixed case rejects. Given these, the minimum-distance statement is the theorem the specifications rely on (trusted mathematics)."
	r.Trusted = []string{"BCH code distance of the CashAddr generator (≥ 6 within 160 symbols... as stated by the specification) and of the BIP173 generator (≥ 5 within 89 symbols)",
		"generator constants of both specifications"}
	type target struct {
		name    string
		decoder *ssa.Function
		gen     []uint64
		K       int64
		M       uint64
		ncoef   int
	}
	targets := []target{
		{"CashAddr", p.Func("", "DecodeCashAddress"), cashaddrGen, 35, 0x07ffffffff, 8},
		{"bech32", p.Func("bech32", "Decode"), bech32Gen, 25, 0x1ffffff, 6},
	}
	for _, tg := range targets {
		if tg.decoder == nil {
			r.Unresolved("C03.lfsr", tg.name+" decoder")
			continue
		}
		gs := checkPolymodGuard(p, tg.decoder)
		var g *polyGuard
		for i := range gs {
			if gs[i].ok {
				g = &gs[i]
			}
		}
		if g == nil {
			r.Unresolved("C03.lfsr", "remainder test in "+FnName(tg.decoder))
			continue
		}
		for i := range gs {
			if !gs[i].ok {
				r.Add("C03.accept", FnName(tg.decoder), fmt.Sprintf("accepting return #%d is behind the whole-remainder comparison", i+1), tg.decoder.Pos(), false, gs[i].how)
			}
		}
		R := g.R
		sh := recogniseLFSR(p, R)
		fnm := FnName(R)
		if sh.why != "" {
			r.Undecided("C03.lfsr", fnm, tg.name+" remainder function has the LFSR shape", R.Pos(), sh.why+" (an unrecognised algorithm is reported as undecided, not as a behavioural finding)")
			continue
		}
		r.Add("C03.lfsr", fnm, tg.name+" remainder function has the LFSR shape", R.Pos(), true, fmt.Sprintf("top = c >> %d, c' = ((c & %#x) << %d) ^ d, %d taps", sh.topShift, sh.mask, sh.shift, len(sh.taps)))
		r.Add("C03.lfsr", fnm, "register split matches the specification", R.Pos(), sh.topShift == tg.K && sh.mask == tg.M && sh.shift == 5,
			fmt.Sprintf("K=%d M=%#x shift=%d, specified K=%d M=%#x shift=5", sh.topShift, sh.mask, sh.shift, tg.K, tg.M))
		r.Add("C03.lfsr", fnm, "initial register value is 1", R.Pos(), sh.init == 1, fmt.Sprintf("init=%d", sh.init))
		r.Add("C03.lfsr", fnm, "the loop visits every symbol of the input", R.Pos(), sh.fullLoop, "range / counted loop from 0 to len over the whole parameter")
		var bits []int
		for b := range sh.taps {
			bits = append(bits, b)
		}
		sort.Ints(bits)
		okBits := len(bits) == 5
		for i, b := range bits {
			if b != i {
				okBits = false
			}
		}
		r.Add("C03.lfsr", fnm, "feedback uses exactly bits 0..4 of the top symbol", R.Pos(), okBits, fmt.Sprintf("bits %v", bits))
		for i := 0; i < 5; i++ {
			gv, has := sh.taps[i]
			r.Add("C03.lfsr", fnm, fmt.Sprintf("generator term for feedback bit %d", i), R.Pos(), has && gv == tg.gen[i], fmt.Sprintf("%#x, specified %#x", gv, tg.gen[i]))
		}
		// oracle sanity
		r.Add("C03.lfsr", fnm, "specified generator terms are mutually consistent over GF(32)", R.Pos(), genConsistent(tg.gen, tg.ncoef), "G_i = {2^i}·G_0")
		// acceptance constant: compare constant K with final xor X must mean remainder == 1
		r.Add("C03.accept", FnName(tg.decoder), "acceptance means remainder = 1 (the specified constant), compared whole", tg.decoder.Pos(), (g.K^sh.finalXor) == 1,
			fmt.Sprintf("returns c ^ %d, compared with %d", sh.finalXor, g.K))
		// the argument: append(expand(prefix), payload…) with the payload whole
		c03argument(p, r, tg.name, g, R)
	}
	c03inject(p, r)
	// what reaches the checksum is the input: no Unicode case mapping of unchecked input, exact ASCII folding
	{
		var roots []*ssa.Function
		for _, n := range [][2]string{{"", "DecodeAddress"}, {"", "DecodeCashAddress"}, {"bech32", "Decode"}} {
			if fn := p.Func(n[0], n[1]); fn != nil {
				roots = append(roots, fn)
			}
		}
		wholeInputRule(p, r, "C03.inject")
		canonicalInput(p, r, "C03.inject", roots)
		asciiFoldExact(p, r, "C03.inject", roots)
	}
	r.Floor("C03.lfsr", 10)
	r.Floor("C03.accept", 4)
	r.Floor("C03.inject", 3)
}

// c03argument checks what is fed to the remainder function at the acceptance test.
func c03argument(p *Program, r *Report, name string, g *polyGuard, R *ssa.Function) {
	// the call of R inside the helper (or inline)
	var rcall *ssa.Call
	host := g.helper
	if host == nil {
		host = g.call.Parent()
		rcall = g.call
	} else {
		for _, b := range host.Blocks {
			for _, in := range b.Instrs {
				if c, ok := in.(*ssa.Call); ok && c.Call.StaticCallee() == R {
					rcall = c
				}
			}
		}
	}
	if rcall == nil {
		r.Unresolved("C03.accept", "call of the remainder function for "+name)
		return
	}
	arg := rcall.Call.Args[0]
	// unwrap in-repo concatenation helpers: f(x, y) = append(x, y...)
	var left, right ssa.Value
	if c, ok := arg.(*ssa.Call); ok {
		if isBuiltin(&c.Call, "append") && len(c.Call.Args) == 2 {
			left, right = c.Call.Args[0], c.Call.Args[1]
		} else if cal := c.Call.StaticCallee(); cal != nil && p.InRepo(cal) && len(cal.Params) == 2 && len(c.Call.Args) == 2 {
			if ret := returnsOf(cal); len(ret) == 1 && len(ret[0].Results) == 1 {
				if ap, ok := ret[0].Results[0].(*ssa.Call); ok && isBuiltin(&ap.Call, "append") && ap.Call.Args[0] == ssa.Value(cal.Params[0]) && ap.Call.Args[1] == ssa.Value(cal.Params[1]) {
					left, right = c.Call.Args[0], c.Call.Args[1]
				}
			}
		}
	}
	if left == nil {
		r.Add("C03.accept", FnName(host), name+": remainder is computed over expand(prefix) ‖ payload", rcall.Pos(), false, "argument is not a concatenation")
		return
	}
	// right: the payload parameter whole, or an element-wise converted copy of it (same length, full-range loop)
	payloadOK := false
	var payloadParam *ssa.Parameter
	if pa, ok := right.(*ssa.Parameter); ok {
		payloadOK, payloadParam = true, pa
	} else if ms, ok := right.(*ssa.MakeSlice); ok {
		if c, ok := ms.Len.(*ssa.Call); ok && isBuiltin(&c.Call, "len") {
			if pa, ok := c.Call.Args[0].(*ssa.Parameter); ok {
				// filled by a full-range loop over the parameter
				for _, ref := range *ms.Referrers() {
					if ia, ok := ref.(*ssa.IndexAddr); ok {
						if fullRangeInduction(ia.Index, func(v ssa.Value) bool { return v == ssa.Value(pa) }) != nil {
							payloadOK, payloadParam = true, pa
						}
					}
				}
			}
		}
	}
	r.Add("C03.accept", FnName(host), name+": every payload symbol enters the remainder", rcall.Pos(), payloadOK, "second part of the concatenation is the payload parameter whole (or a same-length element-wise copy)")
	// left: an in-repo expansion of the prefix parameter
	ec, ok := left.(*ssa.Call)
	expOK := false
	how := "first part is not an in-repo expansion of the prefix parameter"
	if ok && ec.Call.StaticCallee() != nil && p.InRepo(ec.Call.StaticCallee()) && len(ec.Call.Args) == 1 {
		if _, isParam := ec.Call.Args[0].(*ssa.Parameter); isParam {
			expOK, how = prefixExpansionShape(ec.Call.StaticCallee())
		}
	}
	r.Add("C03.accept", FnName(host), name+": prefix expansion has the specified shape (including the zero separator)", rcall.Pos(), expOK, how)
	// at the decoder's call of the helper the payload argument is the whole symbol array
	if g.helper != nil && payloadParam != nil {
		pi := paramIndex(g.helper, payloadParam)
		a := g.call.Call.Args[pi]
		whole := false
		switch x := a.(type) {
		case *ssa.MakeSlice:
			whole = true
		case *ssa.Extract:
			whole = true // result of the symbol decoder
		case *ssa.Slice:
			_ = x
		}
		r.Add("C03.accept", FnName(g.call.Parent()), name+": the decoder verifies over all decoded symbols", g.call.Pos(), whole, "payload argument is the complete symbol array, not a window of it: "+exprString(a))
		// round 6 (C03-agent6-m3): what is verified is what was read — every store into the symbol array is the
		// table value of an input character; a "canonicalisation" of padding bits between decoding and verification
		// takes those bits out of the checksum's protection
		if ms, ok := a.(*ssa.MakeSlice); ok {
			var foreign []string
			nst := 0
			for _, ref := range *ms.Referrers() {
				ia, ok := ref.(*ssa.IndexAddr)
				if !ok {
					continue
				}
				for _, r2 := range *ia.Referrers() {
					st, ok := r2.(*ssa.Store)
					if !ok || st.Addr != ssa.Value(ia) {
						continue
					}
					nst++
					v := stripIntConv(st.Val)
					fromTable := false
					if ld, ok := v.(*ssa.UnOp); ok && ld.Op == token.MUL {
						if tia, ok := ld.X.(*ssa.IndexAddr); ok {
							if _, isG := tia.X.(*ssa.Global); isG {
								fromTable = true
							}
						}
					}
					if ix, ok := v.(*ssa.Index); ok {
						if ld, ok := ix.X.(*ssa.UnOp); ok {
							if _, isG := ld.X.(*ssa.Global); isG {
								fromTable = true
							}
						}
					}
					if !fromTable {
						foreign = append(foreign, exprString(st.Val)+" at "+r.P.Pos(st.Pos()))
					}
				}
			}
			if nst > 0 {
				sort.Strings(foreign)
				r.Add("C03.accept", FnName(g.call.Parent()), name+": every symbol that is verified is the table value of an input character, unmodified", g.call.Pos(), len(foreign) == 0,
					"other stores into the symbol array before verification: "+strings.Join(foreign, "; "))
			}
		}
	}
}

// prefixExpansionShape recognises the two specified expansions:
//
//	CashAddr: [c & 31 for c in prefix] ‖ [0]
//	BIP173:   [c >> 5 for c in hrp] ‖ [0] ‖ [c & 31 for c in hrp]
func prefixExpansionShape(fn *ssa.Function) (bool, string) {
	if len(fn.Params) != 1 {
		return false, "expansion does not take one string"
	}
	pa := fn.Params[0]
	// the prefix itself, or its bytes (`for i, ch := range []byte(prefix)`)
	same := func(v ssa.Value) bool {
		if v == ssa.Value(pa) {
			return true
		}
		if cv, ok := v.(*ssa.Convert); ok && cv.X == ssa.Value(pa) {
			_, isSl := cv.Type().Underlying().(*types.Slice)
			return isSl
		}
		return false
	}
	elemOp := func(v ssa.Value) (string, bool) {
		v = stripIntConv(v)
		bo, ok := v.(*ssa.BinOp)
		if !ok {
			return "", false
		}
		x, idx, ok := elemRead(stripIntConv(bo.X))
		if !ok || !same(x) || fullRangeInduction(idx, same) == nil {
			return "", false
		}
		k, ok := constInt(bo.Y)
		if !ok {
			return "", false
		}
		if bo.Op == token.AND && k == 31 {
			return "low", true
		}
		if bo.Op == token.SHR && k == 5 {
			return "high", true
		}
		return "", false
	}
	// store form: ret := make(len+1); ret[i] = f(prefix[i]); ret[len] = 0
	for _, b := range fn.Blocks {
		for _, in := range b.Instrs {
			ms, ok := in.(*ssa.MakeSlice)
			if !ok {
				continue
			}
			lc := NewLinCtx(nil, fn)
			ln := lc.Lin(ms.Len)
			want := lc.LenLin(pa).addConst(1)
			if !linEq(ln, want) {
				if os.Getenv("BCHVERIF_DEBUG") != "" {
					fmt.Fprintf(os.Stderr, "prefixExpansionShape: make len %s want %s\n", lc.Format(ln), lc.Format(want))
				}
				continue
			}
			low, zero := false, false
			for _, ref := range *ms.Referrers() {
				ia, ok := ref.(*ssa.IndexAddr)
				if !ok {
					continue
				}
				for _, u := range *ia.Referrers() {
					st, ok := u.(*ssa.Store)
					if !ok {
						continue
					}
					kind, okE := elemOp(st.Val)
					if os.Getenv("BCHVERIF_DEBUG") != "" {
						fmt.Fprintf(os.Stderr, "prefixExpansionShape store %s: elemOp=%q,%v fullRange=%v\n", exprString(st.Val), kind, okE, fullRangeInduction(ia.Index, same) != nil)
					}
					if okE && kind == "low" && fullRangeInduction(ia.Index, same) != nil {
						low = true
					}
					if k, ok := constInt(st.Val); ok && k == 0 && linEq(lc.Lin(ia.Index), lc.LenLin(pa)) {
						zero = true
					}
				}
			}
			// a fresh make is zero-filled: an explicit store of 0 is not required, the extra slot is
			if low {
				_ = zero
				return true, "make(len(prefix)+1); out[i] = prefix[i] & 31 for every i; final slot 0"
			}
		}
	}
	// append form: three append sites in order: high bits loop, 0, low bits loop
	var kinds []string
	for _, b := range fn.DomPreorder() {
		for _, in := range b.Instrs {
			c, ok := in.(*ssa.Call)
			if !ok || !isBuiltin(&c.Call, "append") {
				continue
			}
			sl, ok := c.Call.Args[1].(*ssa.Slice)
			if !ok {
				continue
			}
			al, ok := sl.X.(*ssa.Alloc)
			if !ok {
				continue
			}
			for _, ref := range *al.Referrers() {
				ia, ok := ref.(*ssa.IndexAddr)
				if !ok {
					continue
				}
				for _, u := range *ia.Referrers() {
					if st, ok := u.(*ssa.Store); ok {
						if k, ok := constInt(st.Val); ok && k == 0 {
							kinds = append(kinds, "zero")
						} else if kind, ok := elemOp(st.Val); ok {
							kinds = append(kinds, kind)
						} else {
							kinds = append(kinds, "other")
						}
					}
				}
			}
		}
	}
	if len(kinds) == 3 && kinds[0] == "high" && kinds[1] == "zero" && kinds[2] == "low" {
		return true, "[c>>5 …] ‖ [0] ‖ [c&31 …] over the whole hrp"
	}
	return false, fmt.Sprintf("expansion parts %v do not match a specified shape", kinds)
}

var c03InjectRule = "C03.inject"

func c03inject(p *Program, r *Report) {
	// CashAddr decode table: a package-level int8 array indexed by input characters in DecodeCashAddress
	dc := p.Func("", "DecodeCashAddress")
	if dc == nil {
		r.Unresolved(c03InjectRule, "DecodeCashAddress")
		return
	}
	var table *ssa.Global
	for _, b := range dc.Blocks {
		for _, in := range b.Instrs {
			if ia, ok := in.(*ssa.IndexAddr); ok {
				if g, ok := ia.X.(*ssa.Global); ok {
					if at, ok := derefType(g.Type()).Underlying().(*types.Array); ok && at.Len() == 128 {
						table = g
					}
				}
			}
		}
	}
	if table == nil {
		r.Unresolved(c03InjectRule, "CashAddr decode table")
		return
	}
	vals, ok := p.constIntTable(table)
	if !ok {
		r.Undecided(c03InjectRule, FnName(dc), "decode table is constant", dc.Pos(), "initialiser is not a constant composite literal")
		return
	}
	// round 7 (C03-agent7-m2): a character that is not in the alphabet is REFUSED — some branch in the decoder tests the
	// signed table entry for "no symbol" (== -1, < 0) and its true edge can only end in an error.  `v := byte(tab[c]);
	// if v < 0` compiles, is never true, and lets b, i, o and 1 through as the value 255.
	{
		rej := rejectingBlocks(dc)
		okNeg := false
		for _, b := range dc.Blocks {
			iff, isIf := lastInstr(b).(*ssa.If)
			if !isIf {
				continue
			}
			var scan func(v ssa.Value, truth bool, depth int)
			scan = func(v ssa.Value, truth bool, depth int) {
				if depth > 3 {
					return
				}
				if u, isU := v.(*ssa.UnOp); isU && u.Op == token.NOT {
					scan(u.X, !truth, depth+1)
					return
				}
				bo, isB := v.(*ssa.BinOp)
				if !isB {
					return
				}
				// operand: the table entry, possibly widened — but never through an unsigned type
				entry := func(x ssa.Value) bool {
					for {
						cv, isCv := x.(*ssa.Convert)
						if !isCv {
							break
						}
						if isUnsignedT(cv.Type()) {
							return false
						}
						x = cv.X
					}
					ld, isL := x.(*ssa.UnOp)
					if !isL || ld.Op != token.MUL {
						return false
					}
					ia, isIA := ld.X.(*ssa.IndexAddr)
					return isIA && ia.X == ssa.Value(table)
				}
				k, isK := constInt(bo.Y)
				if !isK || !entry(bo.X) {
					return
				}
				neg := (bo.Op == token.EQL && k == -1) || (bo.Op == token.LSS && k == 0) || (bo.Op == token.LEQ && k == -1)
				if !neg {
					return
				}
				succ := b.Succs[0]
				if !truth {
					succ = b.Succs[1]
				}
				if rejectingVia(rej, b, succ, 0) {
					okNeg = true
				}
			}
			scan(iff.Cond, true, 0)
		}
		r.Add(c03InjectRule, FnName(dc), "a character outside the alphabet (table entry −1) is refused", dc.Pos(), okNeg,
			"a test of the signed table entry for −1 / < 0 whose true edge only leads to an error")
	}
	// the encoder's alphabet: constant string indexed on the encode path
	alpha := ""
	if obj := p.Pkg("").Members["Charset"]; obj != nil {
		if c, ok := obj.(*ssa.NamedConst); ok {
			alpha, _ = constString(c.Value)
		}
	}
	if enc := p.Func("", "(*AddressPubKeyHash).EncodeAddress"); enc != nil {
		idx, _ := constStringUses(p, enc)
		for _, s := range idx {
			if len(s) == 32 {
				alpha = s
			}
		}
	}
	r.Add(c03InjectRule, "bchutil", "CashAddr alphabet equals the specification's", dc.Pos(), alpha == bip173Charset, "32 distinct symbols")
	bad := ""
	n := 0
	if len(alpha) == 32 {
		seen := map[int]bool{}
		for i := 0; i < 32; i++ {
			lo := int(alpha[i])
			if vals[lo] != int64(i) {
				bad = fmt.Sprintf("table[%q]=%d want %d", alpha[i], vals[lo], i)
			}
			seen[lo] = true
			n++
			if alpha[i] >= 'a' && alpha[i] <= 'z' {
				up := lo - 32
				if vals[up] != int64(i) {
					bad = fmt.Sprintf("table[%q]=%d want %d", rune(up), vals[up], i)
				}
				seen[up] = true
				n++
			}
		}
		for c, v := range vals {
			if !seen[c] && v != -1 {
				bad = fmt.Sprintf("table[%d]=%d for a character outside the alphabet", c, v)
			}
		}
	} else {
		bad = "alphabet not found"
	}
	r.Add(c03InjectRule, FnName(dc), "symbol decoding is injective: the table inverts the alphabet (both cases), everything else is −1", dc.Pos(), bad == "" && p.assignedOnlyByInit(table),
		fmt.Sprintf("%d entries agree; %s", n, bad))
	// mixed case: both decoders
	exact, rej, why := caseFlagsExact(p, dc, dc.Params[0])
	r.Add(c03InjectRule, FnName(dc), "mixed-case CashAddr strings reject", dc.Pos(), exact && rej, "flags cover exactly a..z and A..Z; both set leads only to error returns "+why)
	if bd := p.Func("bech32", "Decode"); bd != nil {
		ok, how := mixedCaseRejects(p, bd)
		r.Add(c03InjectRule, FnName(bd), "mixed-case bech32 strings reject", bd.Pos(), ok, how)
		// bech32 symbol decoding: position in the searched charset, or a reverse table that inverts it
		_, srch := constStringUses(p, bd)
		d := ""
		for _, s := range srch {
			if len(s) == 32 {
				d = s
			}
		}
		if d != "" {
			r.Add(c03InjectRule, FnName(bd), "bech32 symbol decoding is injective: position in the searched 32-symbol charset", bd.Pos(), d == bip173Charset && distinctChars(d), "strings.IndexByte over distinct symbols; −1 rejects")
			if foreignSymbolRejects(p, r, c03InjectRule, bd, "bech32") == 0 {
				r.Unresolved(c03InjectRule, "test of the strings.IndexByte result on the bech32 decode path")
			}
		} else if !reverseTableRule(p, r, c03InjectRule, bd, bip173Charset, "bech32") {
			r.Unresolved(c03InjectRule, "bech32 symbol decoding (searched charset or reverse table)")
		}
	}
}

// mixedCaseRejects recognises either the ToLower/ToUpper comparison form or the
// per-character flag form with exact letter ranges.
func mixedCaseRejects(p *Program, fn *ssa.Function) (bool, string) {
	param := fn.Params[0]
	var lowerNE, upperNE []*ssa.BasicBlock
	for _, b := range fn.Blocks {
		iff, ok := lastInstr(b).(*ssa.If)
		if !ok {
			continue
		}
		bo, ok := iff.Cond.(*ssa.BinOp)
		if !ok || bo.Op != token.NEQ {
			continue
		}
		for _, pr := range [][2]ssa.Value{{bo.X, bo.Y}, {bo.Y, bo.X}} {
			if pr[0] != ssa.Value(param) {
				continue
			}
			if c, ok := pr[1].(*ssa.Call); ok && len(c.Call.Args) == 1 && c.Call.Args[0] == ssa.Value(param) {
				if staticCalleeIs(&c.Call, "strings.ToLower") {
					lowerNE = append(lowerNE, b)
				}
				if staticCalleeIs(&c.Call, "strings.ToUpper") {
					upperNE = append(upperNE, b)
				}
			}
		}
	}
	for _, lb := range lowerNE {
		for _, ub := range upperNE {
			for _, pr := range [][2]*ssa.BasicBlock{{lb, ub}, {ub, lb}} {
				outer, inner := pr[0], pr[1]
				if outer.Succs[0] == inner && len(inner.Preds) == 1 && !canReachAccept(fn, inner.Succs[0]) {
					return true, "input ≠ lower(input) ∧ input ≠ upper(input) leads only to error returns"
				}
			}
		}
	}
	exact, rej, why := caseFlagsExact(p, fn, param)
	if exact && rej {
		return true, "per-character flags cover exactly a..z and A..Z; both set leads only to error returns"
	}
	if why == "" {
		why = "neither the lower/upper comparison nor exact per-character case flags found"
	}
	return false, why
}

package main

import (
	"fmt"
	"go/ast"
	"go/token"
	"go/types"
	"sort"
	"strings"

	"golang.org/x/tools/go/ssa"
)

func init() { register("C20", checkC20) }

// C20 — concurrent use of bloom.Filter; immutability of gcs.Filter.
//
// C20.guarded  every access to the guarded state of bloom.Filter (all fields
//
//	that are not the mutex, and everything reached through them)
//	happens with the filter's mutex held, on every path.
//
// C20.section  every exported method is one critical section: the lock is
//
//	released on every return, never acquired twice, never
//	re-acquired after a release.
//
// C20.reentry  no call of a function that acquires the lock while it is held.
// C20.gcs      methods of gcs.Filter write nothing reachable from the receiver;
//
//	the stored data slice is freshly allocated at construction.
func checkC20(p *Program, r *Report) {
	// round 6 (systematic): no unguarded mutable package-level state behind this property's functions (§2.9)
	sharedStateRule(p, r, NewEffects(p), "C20.shared", []string{"bloom/filter.go", "gcs/gcs.go"})
	r.Floor("C20.shared", 0)
	r.Explain = "Lockset analysis over all paths of every function that touches bloom.Filter's guarded state " +
		"(C20.guarded), every unexported helper that requires the lock is only called with it held, in the mode it needs (C20.required), critical-section shape of every exported method (C20.section), no re-entrant acquisition " +
		"(C20.reentry), and an effect analysis showing gcs.Filter methods never write receiver-reachable memory " +
		"(C20.gcs). Covers all interleavings because mutual exclusion of every access is established per path; " +
		"does not decide use of the *wire.MsgFilterLoad after it was handed out by MsgFilterLoad() or handed in by " +
		"LoadFilter/Reload (caller's responsibility, documented API)."
	r.Trusted = []string{"sync.Mutex / sync.RWMutex provide mutual exclusion", "go/ssa lowering of defer / closures",
		"out-of-repo callees do not unlock a mutex they were not handed", "kkdai/bstream readers only re-slice the buffer they are given"}
	r.Assume = []string{"callers do not mutate a *wire.MsgFilterLoad concurrently after passing it to LoadFilter/Reload or obtaining it from MsgFilterLoad()"}

	bloomPkg := p.Pkg("bloom")
	if bloomPkg == nil {
		r.Unresolved("C20.guarded", "package bloom")
		return
	}
	ft, _ := bloomPkg.Members["Filter"].(*ssa.Type)
	if ft == nil {
		r.Unresolved("C20.guarded", "type bloom.Filter")
		return
	}
	st, ok := ft.Type().Underlying().(*types.Struct)
	if !ok {
		r.Unresolved("C20.guarded", "bloom.Filter is not a struct")
		return
	}
	la := NewLockAnalysis(p)
	guardPath := ""
	selfMutex := la.isMutexType(ft.Type())
	var mutexFields, guardedFields []string
	guarded := map[*types.Var]bool{}
	for i := 0; i < st.NumFields(); i++ {
		f := st.Field(i)
		if la.isMutexType(f.Type()) {
			mutexFields = append(mutexFields, f.Name())
			if guardPath == "" && !selfMutex {
				guardPath = "." + f.Name()
			}
		} else {
			guarded[f] = true
			guardedFields = append(guardedFields, f.Name())
		}
	}
	if len(mutexFields) == 0 {
		r.Unresolved("C20.guarded", "bloom.Filter has no mutex field")
		return
	}
	if len(guardedFields) == 0 {
		r.Unresolved("C20.guarded", "bloom.Filter has no guarded field")
		return
	}
	r.Note("bloom.Filter: mutex field(s) %v guard field(s) %v", mutexFields, guardedFields)
	isFilterPtr := func(t types.Type) bool {
		et := derefType(t)
		return et != nil && types.Identical(et, ft.Type())
	}
	guardKey := func(base ssa.Value) lockKey { return lockKey{canonRoot(base), guardPath} }

	// ---- collect accesses per function
	type access struct {
		in    ssa.Instruction
		base  ssa.Value // canonical root of the Filter pointer
		write bool
		what  string
	}
	accesses := map[*ssa.Function][]access{}
	// derived: values loaded from guarded fields (and addresses computed from them)
	for _, fn := range p.Funcs {
		derived := map[ssa.Value]ssa.Value{} // value -> base
		var acc []access
		changed := true
		for changed {
			changed = false
			for _, b := range fn.Blocks {
				for _, in := range b.Instrs {
					v, isVal := in.(ssa.Value)
					if !isVal {
						continue
					}
					if _, done := derived[v]; done {
						continue
					}
					var from ssa.Value
					switch x := in.(type) {
					case *ssa.FieldAddr:
						if isFilterPtr(x.X.Type()) && guarded[fieldOfAddr(x)] {
							derived[v] = canonRoot(x.X)
							changed = true
							continue
						}
						from = x.X
					case *ssa.IndexAddr:
						from = x.X
					case *ssa.Slice:
						from = x.X
					case *ssa.UnOp:
						if x.Op == token.MUL {
							from = x.X
						}
					case *ssa.ChangeType:
						from = x.X
					case *ssa.Convert:
						from = x.X
					case *ssa.Phi:
						for _, e := range x.Edges {
							if bse, ok := derived[e]; ok {
								derived[v] = bse
								changed = true
								break
							}
						}
						continue
					case *ssa.Field:
						from = x.X
					case *ssa.Index:
						from = x.X
					case *ssa.Lookup:
						from = x.X
					case *ssa.MakeInterface:
						from = x.X
					}
					if from != nil {
						if bse, ok := derived[from]; ok {
							derived[v] = bse
							changed = true
						}
					}
				}
			}
		}
		for _, b := range fn.Blocks {
			for _, in := range b.Instrs {
				switch x := in.(type) {
				case *ssa.UnOp:
					if x.Op != token.MUL {
						continue
					}
					if bse, ok := derived[x.X]; ok {
						acc = append(acc, access{in, bse, false, "read " + describeAddr(x.X)})
					} else if isFilterPtr(x.X.Type()) {
						acc = append(acc, access{in, canonRoot(x.X), false, "copy of the whole Filter struct"})
					}
				case *ssa.Store:
					if bse, ok := derived[x.Addr]; ok {
						acc = append(acc, access{in, bse, true, "write " + describeAddr(x.Addr)})
					} else if isFilterPtr(x.Addr.Type()) {
						acc = append(acc, access{in, canonRoot(x.Addr), true, "overwrite of the whole Filter struct"})
					}
				case *ssa.Lookup:
					if bse, ok := derived[x.X]; ok {
						acc = append(acc, access{in, bse, false, "read element via " + describeAddr(x.X)})
					}
				case *ssa.MapUpdate:
					if bse, ok := derived[x.Map]; ok {
						acc = append(acc, access{in, bse, true, "map write via " + describeAddr(x.Map)})
					}
				case ssa.CallInstruction:
					com := x.Common()
					if isBuiltin(com, "len") || isBuiltin(com, "cap") {
						continue // the header was loaded; that load is the access
					}
					cal := com.StaticCallee()
					if cal != nil && p.InRepo(cal) && len(cal.Blocks) > 0 {
						// in-repo callee: its own accesses are analysed in the callee, which
						// receives a pointer into guarded memory only through its parameters;
						// treat as an access here so the lock must be held across the call.
					}
					for _, a := range com.Args {
						if bse, ok := derived[a]; ok && pointerLike(a.Type()) {
							w := false
							if isBuiltin(com, "copy") && a == com.Args[0] || isBuiltin(com, "append") && a == com.Args[0] {
								w = true
							}
							acc = append(acc, access{in, bse, w, "guarded memory " + describeAddr(a) + " passed to " + calleeShort(com)})
						}
					}
				}
			}
		}
		if len(acc) > 0 {
			accesses[fn] = acc
		}
	}

	// ---- classification fix-point: lock-required(fn, param)
	type req struct {
		fn  *ssa.Function
		idx int // parameter index (>=0) or free variable -(j+1)
	}
	required := map[req]string{} // -> first reason
	reqWrite := map[req]bool{}   // the function (transitively) writes guarded state, so a shared lock is not enough
	type finding struct {
		fn   *ssa.Function
		in   ssa.Instruction
		what string
		how  string
		ok   bool
	}
	var findings []finding
	okStatus := func(s lstatus, write bool) bool {
		return s == stH || (s == stHS && !write)
	}
	// direct accesses
	var fnsWithAcc []*ssa.Function
	for fn := range accesses {
		fnsWithAcc = append(fnsWithAcc, fn)
	}
	sort.Slice(fnsWithAcc, func(i, j int) bool { return fnKey(fnsWithAcc[i]) < fnKey(fnsWithAcc[j]) })
	for _, fn := range fnsWithAcc {
		res := la.Analyze(fn)
		for _, a := range accesses[fn] {
			st := res.before[a.in]
			var s lstatus
			if st != nil {
				s = st.get(guardKey(a.base))
			}
			switch {
			case okStatus(s, a.write):
				findings = append(findings, finding{fn, a.in, a.what, "lock " + s.String(), true})
			case s == stE:
				if _, isAlloc := a.base.(*ssa.Alloc); isAlloc {
					findings = append(findings, finding{fn, a.in, a.what, "object under construction (not yet shared)", true})
				} else if idx, ok := rootIndex(fn, a.base); ok {
					if _, dup := required[req{fn, idx}]; !dup {
						required[req{fn, idx}] = a.what
					}
					if a.write {
						reqWrite[req{fn, idx}] = true
					}
					findings = append(findings, finding{fn, a.in, a.what, "lock-required: caller must hold the lock", true})
				} else {
					findings = append(findings, finding{fn, a.in, a.what, "lock not held (filter pointer is " + a.base.Name() + ", not a parameter)", false})
				}
			default:
				findings = append(findings, finding{fn, a.in, a.what, "lock " + s.String() + " at this point", false})
			}
		}
	}
	// propagate through call sites
	type callFinding struct {
		fn     *ssa.Function
		in     ssa.Instruction
		callee *ssa.Function
		ok     bool
		how    string
	}
	var callFindings map[string]callFinding
	for changed := true; changed; {
		changed = false
		callFindings = map[string]callFinding{}
		for _, fn := range p.Funcs {
			var res *fnLocks
			for _, b := range fn.Blocks {
				for _, in := range b.Instrs {
					ci, ok := in.(ssa.CallInstruction)
					if !ok {
						continue
					}
					com := ci.Common()
					var callees []*ssa.Function
					if cal := com.StaticCallee(); cal != nil {
						callees = append(callees, cal)
					} else if com.IsInvoke() {
						callees = p.implementations(com)
					}
					for _, cal := range callees {
						for rq := range required {
							if rq.fn != cal {
								continue
							}
							var actual ssa.Value
							if rq.idx >= 0 {
								args := com.Args
								if com.IsInvoke() {
									args = append([]ssa.Value{com.Value}, com.Args...)
								}
								if rq.idx >= len(args) {
									continue
								}
								actual = args[rq.idx]
							} else if mc, ok := com.Value.(*ssa.MakeClosure); ok {
								j := -rq.idx - 1
								if a, ok := mc.Bindings[j].(*ssa.Alloc); ok {
									actual = singleStore(a)
								} else {
									actual = mc.Bindings[j]
								}
							}
							key := fmt.Sprintf("%p|%p|%d", in, cal, rq.idx)
							if actual == nil {
								callFindings[key] = callFinding{fn, in, cal, false, "cannot resolve the filter argument"}
								continue
							}
							base := canonRoot(actual)
							if _, isGo := in.(*ssa.Go); isGo {
								callFindings[key] = callFinding{fn, in, cal, false, "lock-required function started as a goroutine"}
								continue
							}
							if res == nil {
								res = la.Analyze(fn)
							}
							var s lstatus
							if _, isDefer := in.(*ssa.Defer); isDefer {
								// evaluated where the deferred calls run: use the weakest status over all RunDefers
								s = stH
								found := false
								for rin, stt := range res.before {
									if _, ok := rin.(*ssa.RunDefers); ok {
										found = true
										if v := stt.get(guardKey(base)); v != stH {
											s = v
										}
									}
								}
								if !found {
									s = stE
								}
								if s == stH {
									// deferred unlocks registered earlier run later (LIFO) only if registered before; be conservative
									s = stT
								}
							} else if stt := res.before[in]; stt != nil {
								s = stt.get(guardKey(base))
							}
							switch {
							case s == stH:
								callFindings[key] = callFinding{fn, in, cal, true, "lock held"}
							case s == stHS && !reqWrite[rq]:
								callFindings[key] = callFinding{fn, in, cal, true, "read lock held; callee only reads guarded state"}
							case s == stHS:
								callFindings[key] = callFinding{fn, in, cal, false, "only a read lock is held but the callee writes guarded state"}
							case s == stE:
								if _, isAlloc := base.(*ssa.Alloc); isAlloc {
									callFindings[key] = callFinding{fn, in, cal, true, "object under construction"}
								} else if idx, ok := rootIndex(fn, base); ok {
									if _, dup := required[req{fn, idx}]; !dup {
										required[req{fn, idx}] = "calls lock-required " + FnName(cal)
										changed = true
									}
									if reqWrite[rq] && !reqWrite[req{fn, idx}] {
										reqWrite[req{fn, idx}] = true
										changed = true
									}
									callFindings[key] = callFinding{fn, in, cal, true, "caller is itself lock-required"}
								} else {
									callFindings[key] = callFinding{fn, in, cal, false, "lock not held for " + base.Name()}
								}
							default:
								callFindings[key] = callFinding{fn, in, cal, false, "lock " + s.String()}
							}
						}
					}
				}
			}
		}
	}

	for _, f := range findings {
		r.Add("C20.guarded", FnName(f.fn), f.what, p.InstrPos(f.in), f.ok, f.how)
	}
	var cks []string
	for k := range callFindings {
		cks = append(cks, k)
	}
	sort.Slice(cks, func(i, j int) bool {
		a, b := callFindings[cks[i]], callFindings[cks[j]]
		if FnName(a.fn) != FnName(b.fn) {
			return FnName(a.fn) < FnName(b.fn)
		}
		return a.in.Pos() < b.in.Pos()
	})
	seenCall := map[string]int{}
	for _, k := range cks {
		f := callFindings[k]
		c := "call of lock-required " + FnName(f.callee)
		seenCall[FnName(f.fn)+c]++
		if n := seenCall[FnName(f.fn)+c]; n > 1 {
			c += fmt.Sprintf(" #%d", n)
		}
		r.Add("C20.guarded", FnName(f.fn), c, p.InstrPos(f.in), f.ok, f.how)
	}

	// lock-required functions must be unexported and never used as values
	var reqFns []*ssa.Function
	reqSeen := map[*ssa.Function]bool{}
	for rq := range required {
		if !reqSeen[rq.fn] {
			reqSeen[rq.fn] = true
			reqFns = append(reqFns, rq.fn)
		}
	}
	sort.Slice(reqFns, func(i, j int) bool { return fnKey(reqFns[i]) < fnKey(reqFns[j]) })
	for _, f := range reqFns {
		exported := f.Object() != nil && f.Object().Exported() && f.Parent() == nil
		reason := ""
		for rq, why := range required {
			if rq.fn == f {
				reason = why
			}
		}
		r.Add("C20.required", FnName(f), "lock-required helper is unexported", f.Pos(), !exported,
			"touches guarded state without taking the lock ("+reason+"); every call site is checked")
		if f.Parent() != nil {
			continue
		}
		// used as a value?
		for _, g := range p.Funcs {
			for _, b := range g.Blocks {
				for _, in := range b.Instrs {
					var buf [10]*ssa.Value
					for _, op := range in.Operands(buf[:0]) {
						if *op != ssa.Value(f) {
							continue
						}
						if ci, ok := in.(ssa.CallInstruction); ok && ci.Common().Value == ssa.Value(f) {
							continue
						}
						r.Add("C20.required", FnName(g), "lock-required "+FnName(f)+" used as a function value", p.InstrPos(in), false, "its callers cannot be checked")
					}
				}
			}
		}
	}
	r.Floor("C20.required", 5)

	// ---- C20.section / C20.reentry on every function of package bloom that has Filter roots
	selfLocking := 0
	argEf := NewEffects(p)
	for _, fn := range p.Funcs {
		if fn.Pkg != bloomPkg && !(fn.Parent() != nil && p.InRepo(fn)) {
			// lock events anywhere in the repo on Filter locks are still collected below
		}
		res := la.Analyze(fn)
		if res == nil {
			continue
		}
		touches := false
		for _, ev := range res.events {
			if !la.isFilterKey(ev.key, ft.Type(), guardPath) && ev.kind != "defers-unknown" && ev.kind != "mutex-escape" {
				continue
			}
			touches = true
			switch ev.kind {
			case "double-lock":
				r.Add("C20.reentry", FnName(fn), "acquire while "+ev.note, p.InstrPos(ev.instr), false, "sync.Mutex is not re-entrant: self-deadlock")
			case "deadlock-call":
				r.Add("C20.reentry", FnName(fn), "call while the lock is held: "+ev.note, p.InstrPos(ev.instr), false, "sync.Mutex is not re-entrant: self-deadlock")
			case "unlock-not-held":
				r.Add("C20.section", FnName(fn), "release of a lock that is not held", p.InstrPos(ev.instr), false, ev.note)
			case "reacquire":
				if isExportedMethodOf(fn, ft.Type()) {
					r.Add("C20.section", FnName(fn), "lock re-acquired after release: operation is not one critical section", p.InstrPos(ev.instr), false, "not atomic")
				}
			case "mutex-escape":
				if la.isFilterKey(ev.key, ft.Type(), guardPath) || ev.key.root == nil && fn.Pkg == bloomPkg {
					r.Add("C20.section", FnName(fn), "mutex escapes the analysis: "+ev.note, p.InstrPos(ev.instr), false, "kind=undecided")
				}
			case "defers-unknown":
				if fn.Pkg == bloomPkg {
					r.Add("C20.section", FnName(fn), "deferred calls differ between paths", p.InstrPos(ev.instr), false, "kind=undecided")
				}
			}
		}
		_ = touches
		if !isMethodOf(fn, ft.Type()) || fn.Parent() != nil || fn.Synthetic != "" {
			continue
		}
		recv := fn.Params[0]
		gk := lockKey{recv, guardPath}
		final := res.final[gk]
		exported := fn.Object() != nil && fn.Object().Exported()
		acquires := res.sum.mayLock[sumKey{0, guardPath}]
		if exported {
			switch {
			case acquires && final == stN:
				selfLocking++
				r.Add("C20.section", FnName(fn), "exported method is one critical section", fn.Pos(), true, "lock acquired once and released on every return")
			case acquires:
				r.Add("C20.section", FnName(fn), "exported method is one critical section", fn.Pos(), false, "lock status at return: "+final.String())
			case final != stE:
				r.Add("C20.section", FnName(fn), "exported method is one critical section", fn.Pos(), false, "lock status at return: "+final.String())
			default:
				// takes no lock: must not be lock-required
				_, isReq := required[req{fn, 0}]
				r.Add("C20.section", FnName(fn), "exported method is one critical section", fn.Pos(), !isReq, "takes no lock and touches no guarded state")
			}
		} else if final != stE {
			r.Add("C20.section", FnName(fn), "helper leaves the lock state unchanged", fn.Pos(), false, "lock status at return: "+final.String())
		}
		// C20.args (round 5): an exported, self-locking method does nothing to what its ARGUMENTS point to before it holds
		// the lock or after it has released it.  Two goroutines may hand the same object (a *bchutil.Tx whose hash is
		// filled lazily, a *wire.MsgFilterLoad) to one filter; inside the critical section their work on it is
		// serialised, outside it is a data race (C20-agent5-m2: tx.Hash() resolved before Lock; m3: the message
		// "clamped" in place before Lock).
		if exported && acquires {
			nargs := 0
			for _, b := range fn.Blocks {
				for _, in := range b.Instrs {
					stt := res.before[in]
					held := stt != nil && (stt.get(gk) == stH || stt.get(gk) == stHS)
					if held {
						continue
					}
					var hits []string
					note := func(rs RootSet, what string) {
						for rt := range rs {
							if (rt.Kind == rkParam && rt.Idx >= 1) || rt.Kind == rkUnknown {
								hits = append(hits, what+" → "+rt.String())
							}
						}
					}
					switch x := in.(type) {
					case *ssa.Store:
						note(argEf.Src(x.Addr), "store")
					case *ssa.MapUpdate:
						note(argEf.Src(x.Map), "map update")
					case ssa.CallInstruction:
						com := x.Common()
						if _, isDefer := in.(*ssa.Defer); isDefer {
							continue // runs at RunDefers, where the state is looked at again
						}
						if _, prim := la.primitive(com); prim {
							continue
						}
						if bi, ok := com.Value.(*ssa.Builtin); ok {
							switch bi.Name() {
							case "copy", "append", "clear", "delete":
								note(argEf.Src(com.Args[0]), bi.Name())
							}
							continue
						}
						cal := com.StaticCallee()
						switch {
						case cal != nil && p.InRepo(cal) && len(cal.Blocks) > 0:
							for _, we := range argEf.WriteEffects(cal) {
								note(argEf.substitute(we.Root, com, in, fn), "via "+FnName(cal)+": "+we.What)
							}
						case cal != nil:
							for _, i := range externalWriters[cal.String()] {
								if i < len(com.Args) {
									note(argEf.Src(com.Args[i]), "passed to writer "+cal.Name())
								}
							}
						case com.IsInvoke():
							for _, impl := range p.implementations(com) {
								if p.InRepo(impl) && len(impl.Blocks) > 0 {
									pc := &ssa.CallCommon{Value: impl, Args: append([]ssa.Value{com.Value}, com.Args...)}
									for _, we := range argEf.WriteEffects(impl) {
										note(argEf.substitute(we.Root, pc, in, fn), "via "+FnName(impl)+": "+we.What)
									}
								}
							}
							if invokeMutatesReceiver[com.Method.Name()] {
								note(argEf.Src(com.Value), "state changed by "+com.Method.Name())
							}
						}
					default:
						continue
					}
					if len(hits) > 0 {
						sort.Strings(hits)
						r.Add("C20.args", FnName(fn), "nothing an argument points to is written outside the critical section: "+describeInstr(in), p.InstrPos(in), false, strings.Join(dedup(hits), "; "))
						nargs++
					}
				}
			}
			if nargs == 0 {
				r.Add("C20.args", FnName(fn), "nothing an argument points to is written outside the critical section", fn.Pos(), true, "every store, writer call and in-repo callee with write effects on argument memory runs with the filter lock held")
			}
		}
		// reentry obligations: every call made while holding the lock
		for _, b := range fn.Blocks {
			for _, in := range b.Instrs {
				ci, ok := in.(*ssa.Call)
				if !ok {
					continue
				}
				stt := res.before[in]
				if stt == nil || !(stt.get(gk) == stH || stt.get(gk) == stHS) {
					continue
				}
				cal := ci.Call.StaticCallee()
				if cal == nil || !p.InRepo(cal) || len(cal.Blocks) == 0 {
					continue
				}
				if _, prim := la.primitive(&ci.Call); prim {
					continue
				}
				bad := false
				for _, ev := range res.events {
					if ev.instr == in && ev.kind == "deadlock-call" {
						bad = true
					}
				}
				if !bad {
					r.Add("C20.reentry", FnName(fn), "call of "+FnName(cal)+" under the lock", p.InstrPos(in), true, "callee never acquires the filter lock")
				}
			}
		}
	}
	r.Note("classification: %d self-locking exported methods, %d lock-required helpers", selfLocking, len(reqFns))
	r.extra["self_locking_methods"] = selfLocking
	r.extra["lock_required_helpers"] = len(reqFns)
	if selfLocking < 10 {
		r.Add("C20.section", "-", fmt.Sprintf("vacuity: %d self-locking exported methods found, floor 10", selfLocking), token.NoPos, false, "kind=below-floor")
	}
	r.Floor("C20.guarded", 20)
	r.Floor("C20.section", 10)
	r.Floor("C20.reentry", 6)
	r.Floor("C20.args", 5)
	// C20.private (round 6, C20-agent6-m2): the lock of a filter protects the state reachable from THAT filter.  A second
	// Filter built around the message of the first (LoadFilter(f.MsgFilterLoad()) to "pin" the current message) has
	// its own mutex over the same bit array: everything done through it runs outside the first filter's critical
	// sections.  At every store into a guarded field, anywhere in the repository (closed over in-repo callees), the
	// stored pointer does not come out of a guarded field of a filter.
	{
		sfEf := NewEffects(p)
		nst := 0
		for _, fn := range p.Funcs {
			if fn.Parent() != nil {
				continue
			}
			for _, sf := range sfEf.StoreFacts(fn) {
				if sf.Field == nil || !guarded[sf.Field] {
					continue
				}
				nst++
				var shared []string
				for v := range sf.Vals {
					for gf := range guarded {
						if strings.Contains(v.Path, "."+gf.Name()) {
							shared = append(shared, v.String())
						}
					}
				}
				sort.Strings(shared)
				r.Add("C20.private", FnName(fn), "the state stored into "+sf.Field.Name()+" of a filter is not the guarded state of a filter", sf.Pos, len(shared) == 0,
					"stored value may be "+strings.Join(dedup(shared), ", ")+": two mutexes over one bit array")
			}
		}
		if nst == 0 {
			r.Unresolved("C20.private", "stores into the guarded field of bloom.Filter")
		}
		r.Floor("C20.private", 2)
	}

	checkC20gcs(p, r)
}

func (la *LockAnalysis) isFilterKey(k lockKey, ft types.Type, guardPath string) bool {
	if k.root == nil || k.path != guardPath {
		return false
	}
	t := k.root.Type()
	if fv, ok := k.root.(*ssa.FreeVar); ok {
		if pt := derefType(fv.Type()); pt != nil {
			if _, isPtr := pt.Underlying().(*types.Pointer); isPtr {
				t = pt
			}
		}
	}
	et := derefType(t)
	return et != nil && types.Identical(et, ft)
}

func isMethodOf(fn *ssa.Function, t types.Type) bool {
	if fn.Signature.Recv() == nil || len(fn.Params) == 0 {
		return false
	}
	rt := fn.Signature.Recv().Type()
	if pt, ok := rt.(*types.Pointer); ok {
		rt = pt.Elem()
	}
	return types.Identical(rt, t)
}

func isExportedMethodOf(fn *ssa.Function, t types.Type) bool {
	return isMethodOf(fn, t) && fn.Object() != nil && fn.Object().Exported()
}

func calleeShort(c *ssa.CallCommon) string {
	if f := c.StaticCallee(); f != nil {
		return FnName(f)
	}
	if b, ok := c.Value.(*ssa.Builtin); ok {
		return b.Name()
	}
	if c.IsInvoke() {
		return "interface method " + c.Method.Name()
	}
	return "function value"
}

// describeAddr renders an address / value expression as a canonical access path.
func describeAddr(v ssa.Value) string {
	switch x := v.(type) {
	case *ssa.FieldAddr:
		return describeAddr(x.X) + "." + fieldOfAddr(x).Name()
	case *ssa.Field:
		return describeAddr(x.X) + "." + fieldOfVal(x).Name()
	case *ssa.IndexAddr:
		return describeAddr(x.X) + "[·]"
	case *ssa.Index:
		return describeAddr(x.X) + "[·]"
	case *ssa.Lookup:
		return describeAddr(x.X) + "[·]"
	case *ssa.Slice:
		return describeAddr(x.X) + "[:]"
	case *ssa.UnOp:
		if x.Op == token.MUL {
			if _, ok := x.X.(*ssa.Alloc); ok {
				return describeAddr(canonRoot(x))
			}
			if _, ok := x.X.(*ssa.FreeVar); ok {
				return x.X.Name()
			}
			return describeAddr(x.X)
		}
	case *ssa.ChangeType:
		return describeAddr(x.X)
	case *ssa.Convert:
		return describeAddr(x.X)
	case *ssa.MakeInterface:
		return describeAddr(x.X)
	case *ssa.Parameter:
		if x.Parent() != nil && len(x.Parent().Params) > 0 && x.Parent().Params[0] == x && x.Parent().Signature.Recv() != nil {
			return "recv"
		}
		return fmt.Sprintf("param%d", paramIndex(x.Parent(), x))
	case *ssa.Global:
		return x.Name()
	case *ssa.Alloc:
		return "local"
	case *ssa.Phi:
		return "φ"
	}
	return "·"
}

func checkC20gcs(p *Program, r *Report) {
	gp := p.Pkg("gcs")
	if gp == nil {
		r.Unresolved("C20.gcs", "package gcs")
		return
	}
	ft, _ := gp.Members["Filter"].(*ssa.Type)
	if ft == nil {
		r.Unresolved("C20.gcs", "type gcs.Filter")
		return
	}
	ef := NewEffects(p)
	methods := p.Methods("gcs", "Filter")
	for _, m := range methods {
		var bad []string
		for _, e := range ef.WriteEffects(m) {
			if e.Root.Kind == rkParam && e.Root.Idx == 0 {
				bad = append(bad, fmt.Sprintf("%s %s at %s", e.What, e.Root, p.Pos(e.Pos)))
			}
			if e.Root.Kind == rkUnknown {
				bad = append(bad, fmt.Sprintf("%s (unresolved target) at %s", e.What, p.Pos(e.Pos)))
			}
		}
		sort.Strings(bad)
		how := "no store, copy, append or writer call targets memory reachable from the receiver"
		if len(bad) > 0 {
			how = strings.Join(bad, "; ")
		}
		r.Add("C20.gcs", FnName(m), "method does not write receiver-reachable memory", m.Pos(), len(bad) == 0, how)
	}
	gcsQueryRule(p, r, ef, "C20.gcs")
	// construction: every store to a []byte field of Filter outside methods stores a fresh slice
	st := ft.Type().Underlying().(*types.Struct)
	nstores := 0
	for _, fn := range p.Funcs {
		for _, b := range fn.Blocks {
			for _, in := range b.Instrs {
				s, ok := in.(*ssa.Store)
				if !ok {
					continue
				}
				fa, ok := s.Addr.(*ssa.FieldAddr)
				if !ok {
					continue
				}
				et := derefType(fa.X.Type())
				if et == nil || !types.Identical(et, ft.Type()) {
					continue
				}
				f := fieldOfAddr(fa)
				if _, isSlice := f.Type().Underlying().(*types.Slice); !isSlice {
					continue
				}
				_ = st
				nstores++
				src := ef.Src(s.Val)
				fresh := true
				for root := range src {
					if root.Kind != rkFresh {
						fresh = false
					}
				}
				// the receiver object itself must be under construction (fresh) unless this is a method (then C20.gcs above fails)
				r.Add("C20.gcs", FnName(fn), "stored "+f.Name()+" slice is freshly allocated", s.Pos(), fresh, "origin "+src.String())
			}
		}
	}
	r.Floor("C20.gcs", 12)
	if nstores < 2 {
		r.Add("C20.gcs", "-", fmt.Sprintf("vacuity: %d construction stores of the data slice found, floor 2", nstores), token.NoPos, false, "kind=below-floor")
	}
}

// gcsQueryRule: what a gcs.Filter hands out and what it is handed.  (a) No exported method writes memory reachable from
// its arguments (a query list compacted or sorted in place is shared with the caller's other goroutines and with its
// next query).  (b) No exported method returns memory reachable from the receiver: a caller that scrubs or reuses the
// slice it got from Bytes() would change what every later query decodes.  Filed by C20 (immutability) and by C13 (a
// member stays a member for the life of the filter).
func gcsQueryRule(p *Program, r *Report, ef *Effects, rule string) {
	n := 0
	for _, m := range p.Methods("gcs", "Filter") {
		if !ast.IsExported(m.Name()) {
			continue
		}
		n++
		var bad []string
		for _, e := range ef.WriteEffects(m) {
			if e.Root.Kind == rkParam && e.Root.Idx >= 1 {
				bad = append(bad, fmt.Sprintf("%s %s at %s", e.What, e.Root, p.Pos(e.Pos)))
			}
		}
		sort.Strings(bad)
		bad = dedup(bad)
		how := "no store, copy, append or in-place helper targets memory reachable from an argument"
		if len(bad) > 0 {
			how = strings.Join(bad, "; ")
		}
		r.Add(rule, FnName(m), "method leaves its arguments untouched", m.Pos(), len(bad) == 0, how)
		var leaks []string
		for i, rs := range ef.returnSummary(m) {
			for root := range rs {
				if root.Kind == rkParam && root.Idx == 0 {
					leaks = append(leaks, fmt.Sprintf("result #%d may be %s", i, root))
				}
			}
		}
		sort.Strings(leaks)
		how = "every reference it returns is to memory allocated by the call"
		if len(leaks) > 0 {
			how = strings.Join(dedup(leaks), "; ") + " — the filter's own storage"
		}
		r.Add(rule, FnName(m), "method hands out no reference into the filter", m.Pos(), len(leaks) == 0, how)
	}
	if n == 0 {
		r.Unresolved(rule, "exported methods of gcs.Filter")
	}
}

func describeInstr(in ssa.Instruction) string {
	if v, ok := in.(ssa.Value); ok {
		return exprString(v)
	}
	if c, ok := in.(ssa.CallInstruction); ok {
		return "call " + calleeShort(c.Common())
	}
	return in.String()
}

package main

import (
	"fmt"
	"go/token"
	"go/types"
	"math/big"
	"path/filepath"
	"sort"
	"strings"

	"golang.org/x/tools/go/ssa"
)

func init() { register("C07", checkC07) }

const bitcoinAlphabet = "123456789ABCDEFGHJKLMNPQRSTUVWXYZabcdefghijkmnopqrstuvwxyz" // Bitcoin base58 (oracle)
const bip173Charset = "qpzry9x8gf2tvdw0s3jn54khce6mua7l"                             // BIP173 / CashAddr (oracle)

// canReachAccept: some accept point of fn is reachable from block b.
func canReachAccept(fn *ssa.Function, b *ssa.BasicBlock) bool {
	aps := acceptPoints(fn)
	seen := reachableFrom(b, nil)
	for _, ap := range aps {
		if ap.Pred != nil {
			if seen[ap.Pred] {
				return true
			}
		} else if seen[ap.Block] {
			return true
		}
	}
	return false
}

// purityCheck adds one obligation: fn's transitive write effects contain no
// parameter-rooted (or unresolved) target.
func purityCheck(p *Program, r *Report, ef *Effects, rule string, fn *ssa.Function) {
	var bad []string
	for _, e := range ef.WriteEffects(fn) {
		switch e.Root.Kind {
		case rkParam, rkFreeVar:
			bad = append(bad, fmt.Sprintf("%s → %s at %s", e.What, e.Root, p.Pos(e.Pos)))
		case rkUnknown:
			bad = append(bad, fmt.Sprintf("%s → unresolved target at %s", e.What, p.Pos(e.Pos)))
		}
	}
	sort.Strings(bad)
	bad = dedup(bad)
	how := "no store, copy, append or writer call targets memory reachable from a parameter (all paths, in-repo callees included)"
	if len(bad) > 0 {
		how = strings.Join(bad, "; ")
	}
	r.Add(rule, FnName(fn), "does not write memory reachable from its arguments", fn.Pos(), len(bad) == 0, how)
}

// purityCheckArgs is purityCheck for methods: writes to the receiver's own fields are the method's business, writes
// through the other arguments are not.
func purityCheckArgs(p *Program, r *Report, ef *Effects, rule string, fn *ssa.Function) {
	var bad []string
	for _, e := range ef.WriteEffects(fn) {
		if e.Root.Kind == rkParam && e.Root.Idx >= 1 {
			bad = append(bad, fmt.Sprintf("%s → %s at %s", e.What, e.Root, p.Pos(e.Pos)))
		}
	}
	sort.Strings(bad)
	bad = dedup(bad)
	how := "no store, copy, append or writer call targets memory reachable from a non-receiver argument"
	if len(bad) > 0 {
		how = strings.Join(bad, "; ")
	}
	r.Add(rule, FnName(fn), "does not write memory reachable from its arguments", fn.Pos(), len(bad) == 0, how)
}

// sharedStateRule: the functions declared in the given files keep no mutable package-level state: no store, copy,
// append, map update or state-changing method call (closed over in-repo callees) targets memory reachable from a
// package-level variable, unless a package-level mutex is held at the writing instruction.  Package initialisers are
// not entered (they fill the tables once, before any call).  This is what lets two goroutines, or two successive
// calls, use the codec without seeing each other: a scratch big.Int, hash state or buffer hoisted into a variable, or
// a cached slice handed out with spare capacity, is such a write.
func sharedStateRule(p *Program, r *Report, ef *Effects, rule string, files []string) int {
	nilNilRule(p, r, strings.Replace(rule, ".shared", ".results", 1), files)
	want := map[string]bool{}
	for _, f := range files {
		want[filepath.Join(p.Repo, f)] = true
	}
	n := 0
	var fns []*ssa.Function
	for _, fn := range p.Funcs {
		if fn.Parent() != nil || fn.Synthetic != "" || strings.HasPrefix(fn.Name(), "init") {
			continue
		}
		if !want[p.Fset.Position(fn.Pos()).Filename] {
			continue
		}
		fns = append(fns, fn)
	}
	sort.Slice(fns, func(i, j int) bool { return FnName(fns[i]) < FnName(fns[j]) })
	for _, fn := range fns {
		var bad []string
		for _, e := range ef.WriteEffects(fn) {
			if e.Root.Kind != rkGlobal {
				continue
			}
			if e.In != nil && strings.HasPrefix(e.In.Name(), "init") {
				continue
			}
			if writeUnderGlobalLock(e) {
				continue
			}
			bad = append(bad, fmt.Sprintf("%s → %s at %s", e.What, e.Root, p.Pos(e.Pos)))
		}
		sort.Strings(bad)
		bad = dedup(bad)
		how := "no write reaches package-level memory (all paths, in-repo callees included)"
		if len(bad) > 0 {
			how = strings.Join(bad, "; ")
		}
		r.Analysed(FnName(fn))
		r.Add(rule, FnName(fn), "keeps no unguarded mutable package-level state", fn.Pos(), len(bad) == 0, how)
		n++
	}
	return n
}

// writeUnderGlobalLock: the writing instruction is dominated by Lock() on a package-level mutex with no Unlock() of it
// in between (same function).
func writeUnderGlobalLock(e Effect) bool {
	fn := e.In
	if fn == nil {
		return false
	}
	var w ssa.Instruction
	for _, b := range fn.Blocks {
		for _, in := range b.Instrs {
			if in.Pos() == e.Pos && e.Pos.IsValid() {
				w = in
			}
		}
	}
	if w == nil {
		return false
	}
	before := func(a, b ssa.Instruction) bool { // a executes before b on every path to b
		if a.Block() == b.Block() {
			for _, in := range a.Block().Instrs {
				if in == a {
					return true
				}
				if in == b {
					return false
				}
			}
		}
		return a.Block().Dominates(b.Block())
	}
	type ev struct {
		in  ssa.Instruction
		mu  *ssa.Global
		rel bool
	}
	var evs []ev
	for _, b := range fn.Blocks {
		for _, in := range b.Instrs {
			c, ok := in.(ssa.CallInstruction)
			if !ok {
				continue
			}
			cal := c.Common().StaticCallee()
			if cal == nil || len(c.Common().Args) == 0 {
				continue
			}
			name := cal.String()
			isLock := name == "(*sync.Mutex).Lock" || name == "(*sync.RWMutex).Lock"
			isUnlock := name == "(*sync.Mutex).Unlock" || name == "(*sync.RWMutex).Unlock"
			if !isLock && !isUnlock {
				continue
			}
			if g, ok := canonRoot(c.Common().Args[0]).(*ssa.Global); ok {
				if _, deferred := in.(*ssa.Defer); deferred {
					continue // runs at exit
				}
				evs = append(evs, ev{in, g, isUnlock})
			}
		}
	}
	for _, l := range evs {
		if l.rel || !before(l.in, w) {
			continue
		}
		held := true
		for _, u := range evs {
			if u.rel && u.mu == l.mu && before(l.in, u.in) && before(u.in, w) {
				held = false
			}
		}
		if held {
			return true
		}
	}
	return false
}

func checkC07(p *Program, r *Report) {
	// C07.bounds: the codecs reject, they do not panic: the panic-freedom obligations of C08 for everything reachable
	// from the exported functions of base58 and bech32
	{
		var roots []*ssa.Function
		// (base58.Encode indexes the alphabet with a math/big remainder modulo 58: in range by the meaning of DivMod,
		// which the prover does not model; the encoders take any byte string and have nothing to reject)
		for _, e := range [][2]string{{"base58", "Decode"}, {"base58", "CheckDecode"}, {"bech32", "Encode"}, {"bech32", "Decode"}, {"bech32", "ConvertBits"}} {
			if fn := p.Func(e[0], e[1]); fn != nil {
				roots = append(roots, fn)
			}
		}
		c08Scope(p, r, p.Reachable(roots), "C07.bounds")
		r.Floor("C07.bounds", 10)
	}
	radixBufferRule(p, r, "C07.exact")
	if radixWrapRule(p, r, "C07.exact", []string{"base58", "bech32"}) == 0 {
		r.Note("C07.exact: no fixed-width positional accumulator in base58 / bech32 (decoding uses math/big)")
	}
	sharedStateRule(p, r, NewEffects(p), "C07.shared", []string{"base58/base58.go", "base58/base58check.go", "bech32/bech32.go"})
	r.Floor("C07.shared", 5)
	r.Explain = "C07.pure: write-effect analysis — no path of base58.Encode/Decode/CheckEncode/CheckDecode, bech32.Encode/Decode/ConvertBits " +
		"(or their in-repo callees) stores, copies, appends or hands to a writer any memory reachable from an argument. C07.tables: the Base58 " +
		"alphabet and decode table agree symbol by symbol and equal Bitcoin's; the bech32 charset equals BIP173's on both sides. C07.checksum: " +
		"every accepting return of CheckDecode lies behind a 4-byte SHA256d comparison over input[:len−4] (and len ≥ 5); bech32.Decode behind the " +
		"remainder test. C07.strict: bech32 length / separator / character-range / single-case guards and the padding rejection of ConvertBits " +
		"are on every accepting path. Not decided: bijectivity and exactness of the radix / regrouping arithmetic (value level)."
	r.Trusted = []string{"out-of-repo callees are read-only on their slice arguments except the writer table (copy, append, hash.Sum, io.Reader.Read, binary.Put*, hex.Encode/Decode dst, rand.Read, big.Int.FillBytes, sort.*)",
		"Bitcoin base58 alphabet and BIP173 charset (specification constants)"}
	ef := NewEffects(p)

	type ep struct{ pkg, name string }
	eps := []ep{{"base58", "Encode"}, {"base58", "Decode"}, {"base58", "CheckEncode"}, {"base58", "CheckDecode"},
		{"bech32", "Encode"}, {"bech32", "Decode"}, {"bech32", "ConvertBits"}}
	fns := map[string]*ssa.Function{}
	for _, e := range eps {
		fn := p.Func(e.pkg, e.name)
		if fn == nil {
			r.Unresolved("C07.pure", e.pkg+"."+e.name)
			continue
		}
		fns[e.pkg+"."+e.name] = fn
		purityCheck(p, r, ef, "C07.pure", fn)
	}
	r.Floor("C07.pure", 7)

	c07tables(p, r, fns)
	c07checksum(p, r, fns)
	c07strict(p, r, fns)
	var roots []*ssa.Function
	for _, n := range []string{"base58.Decode", "base58.CheckDecode", "bech32.Decode"} {
		if fns[n] != nil {
			roots = append(roots, fns[n])
		}
	}
	canonicalInput(p, r, "C07.strict", roots)
	// round 6 (C07-agent6-m1): a hand-written case folding touches upper-case letters only (c|0x20 on every byte below 'a' maps @[\\]^_ of a human-readable part onto `{|}~DEL)
	asciiFoldExact(p, r, "C07.strict", roots)
	base58ByteLookup(p, r, "C07.tables")
}

// constStringUses finds constant strings used as lookup tables in the functions
// reachable from fn: indexed (s[i]) or searched (strings.IndexByte(s, c)).
func constStringUses(p *Program, fn *ssa.Function) (indexed, searched []string) {
	for _, f := range p.Reachable([]*ssa.Function{fn}) {
		for _, b := range f.Blocks {
			for _, in := range b.Instrs {
				switch x := in.(type) {
				case *ssa.Lookup:
					if s, ok := constString(x.X); ok && len(s) > 1 {
						indexed = append(indexed, s)
					}
				case *ssa.Index:
					if s, ok := constString(x.X); ok && len(s) > 1 {
						indexed = append(indexed, s)
					}
				case *ssa.Call:
					if staticCalleeIs(&x.Call, "strings.IndexByte", "strings.IndexRune", "strings.Index") {
						if s, ok := constString(x.Call.Args[0]); ok && len(s) > 1 {
							searched = append(searched, s)
						}
					}
				}
			}
		}
	}
	return
}

func distinctChars(s string) bool {
	seen := map[byte]bool{}
	for i := 0; i < len(s); i++ {
		if seen[s[i]] {
			return false
		}
		seen[s[i]] = true
	}
	return true
}

var c07TablesRule = "C07.tables"

func c07tables(p *Program, r *Report, fns map[string]*ssa.Function) {
	enc, dec := fns["base58.Encode"], fns["base58.Decode"]
	if enc != nil && dec != nil {
		idx, _ := constStringUses(p, enc)
		alpha := ""
		for _, s := range idx {
			if len(s) > len(alpha) {
				alpha = s
			}
		}
		if alpha == "" {
			r.Unresolved(c07TablesRule, "constant alphabet indexed by base58.Encode")
		} else {
			r.Add(c07TablesRule, FnName(enc), "encode alphabet equals Bitcoin's base58 alphabet", enc.Pos(), alpha == bitcoinAlphabet, fmt.Sprintf("%d symbols, distinct=%v", len(alpha), distinctChars(alpha)))
		}
		// decode table: global array indexed by a byte of the input string
		var table *ssa.Global
		var sentinel int64 = -1
		var tablePos token.Pos
		for _, b := range dec.Blocks {
			for _, in := range b.Instrs {
				ia, ok := in.(*ssa.IndexAddr)
				if !ok {
					continue
				}
				g, ok := ia.X.(*ssa.Global)
				if !ok {
					continue
				}
				// index derives from a Lookup on the string parameter
				if lx, _, ok := elemRead(stripIntConv(ia.Index)); ok && lx == ssa.Value(dec.Params[0]) {
					table = g
					tablePos = ia.Pos()
					// the loaded entry compared with a constant that leads to the empty result
					for _, ref := range *ia.Referrers() {
						ld, ok := ref.(*ssa.UnOp)
						if !ok {
							continue
						}
						for _, u := range *ld.Referrers() {
							if bo, ok := u.(*ssa.BinOp); ok && bo.Op == token.EQL {
								if k, ok := constInt(bo.Y); ok {
									sentinel = k
								}
							}
						}
					}
				}
			}
		}
		if table == nil {
			r.Unresolved(c07TablesRule, "decode table indexed by the input bytes in base58.Decode")
		} else if vals, ok := p.constIntTable(table); !ok {
			r.Undecided(c07TablesRule, FnName(dec), "decode table "+table.Name()+" is a constant table", tablePos, "initialiser is not a constant composite literal")
		} else {
			okInit := p.assignedOnlyByInit(table)
			r.Add(c07TablesRule, FnName(dec), "decode table "+table.Name()+" is never reassigned", tablePos, okInit, "no store outside the package initialiser")
			bad := ""
			n := 0
			if alpha != "" {
				inAlpha := map[int]bool{}
				for i := 0; i < len(alpha); i++ {
					inAlpha[int(alpha[i])] = true
					if int(alpha[i]) >= len(vals) || vals[alpha[i]] != int64(i) {
						bad = fmt.Sprintf("table[%q] = %d, want %d", alpha[i], vals[alpha[i]], i)
					} else {
						n++
					}
				}
				for c, v := range vals {
					if !inAlpha[c] && (v != sentinel || sentinel < int64(len(alpha))) {
						bad = fmt.Sprintf("table[%d] = %d for a character outside the alphabet (rejection sentinel %d)", c, v, sentinel)
					}
				}
			}
			r.Add(c07TablesRule, FnName(dec), "decode table inverts the encode alphabet symbol by symbol; every other entry rejects", tablePos, bad == "" && alpha != "",
				fmt.Sprintf("%d symbols agree, %d other entries hold the sentinel %d; %s", n, len(vals)-n, sentinel, bad))
		}
		// leading-zero character: the constant compared against input characters in Decode and appended in Encode equals alphabet[0]
		if alpha != "" {
			zc := int64(alpha[0])
			foundDec, foundEnc := false, false
			for _, b := range dec.Blocks {
				for _, in := range b.Instrs {
					if bo, ok := in.(*ssa.BinOp); ok && (bo.Op == token.NEQ || bo.Op == token.EQL) {
						if lx, _, ok := elemRead(bo.X); ok && lx == ssa.Value(dec.Params[0]) {
							if k, ok := constInt(bo.Y); ok {
								foundDec = true
								r.Add(c07TablesRule, FnName(dec), "leading-zero character equals alphabet[0]", bo.Pos(), k == zc, fmt.Sprintf("compares with %q", rune(k)))
							}
						}
					}
				}
			}
			for _, b := range enc.Blocks {
				for _, in := range b.Instrs {
					if st, ok := in.(*ssa.Store); ok {
						if k, ok := constInt(st.Val); ok && k > 0 {
							if ia, ok := st.Addr.(*ssa.IndexAddr); ok {
								if _, isAlloc := ia.X.(*ssa.Alloc); isAlloc {
									// varargs array of append(answer, <const>)
									foundEnc = true
									r.Add(c07TablesRule, FnName(enc), "character emitted for a leading zero byte equals alphabet[0]", st.Pos(), k == zc, fmt.Sprintf("appends %q", rune(k)))
								}
							}
						}
					}
				}
			}
			if !foundDec {
				r.Unresolved(c07TablesRule, "leading-zero comparison in base58.Decode")
			}
			if !foundEnc {
				r.Unresolved(c07TablesRule, "leading-zero character appended in base58.Encode")
			}
		}
	}
	// bech32 charset
	benc, bdec := fns["bech32.Encode"], fns["bech32.Decode"]
	if benc != nil && bdec != nil {
		idx, _ := constStringUses(p, benc)
		_, srch := constStringUses(p, bdec)
		pick := func(ss []string) string {
			for _, s := range ss {
				if len(s) == 32 {
					return s
				}
			}
			return ""
		}
		e, d := pick(idx), pick(srch)
		if e == "" {
			r.Unresolved(c07TablesRule, "32-symbol constant indexed on the bech32 encode path")
		} else {
			r.Add(c07TablesRule, FnName(benc), "bech32 encode charset equals BIP173's", benc.Pos(), e == bip173Charset && distinctChars(e), "32 distinct symbols")
		}
		if d == "" {
			// the other way of decoding a symbol: a reverse table indexed by the character
			if !reverseTableRule(p, r, c07TablesRule, bdec, e, "bech32") {
				r.Unresolved(c07TablesRule, "32-symbol constant searched (or reverse table indexed) on the bech32 decode path")
			}
		} else {
			r.Add(c07TablesRule, FnName(bdec), "bech32 decode charset equals BIP173's and the encoder's", bdec.Pos(), d == bip173Charset && d == e, "searched with strings.IndexByte: position = value")
			foreignSymbolRejects(p, r, "C07.strict", bdec, "bech32")
		}
	}
	r.Floor(c07TablesRule, 7)
}

// radixWrapRule: a positional value accumulated in a fixed-width integer (acc = acc·K + digit in a loop over the
// characters) wraps silently once K^digits exceeds the width.  For every such accumulator in the given packages the
// number of digits must be provably small enough: len(input) ≤ ⌊width / log2 K⌋, from the branch conditions that
// dominate the loop or, when the input is a parameter, from those that dominate every call.  (The repository decodes
// with math/big; the rule is there for the day a word-sized fast path appears.)  Returns the number of accumulators.
func radixWrapRule(p *Program, r *Report, rule string, pkgs []string) int {
	n := 0
	callers := map[*ssa.Function][]*ssa.Call{}
	for _, fn := range p.Funcs {
		for _, b := range fn.Blocks {
			for _, in := range b.Instrs {
				if c, ok := in.(*ssa.Call); ok {
					if cal := c.Call.StaticCallee(); cal != nil {
						callers[cal] = append(callers[cal], c)
					}
				}
			}
		}
	}
	for _, rel := range pkgs {
		pk := p.Pkg(rel)
		if pk == nil {
			continue
		}
		for _, fn := range p.Funcs {
			if fn.Pkg != pk {
				continue
			}
			for _, b := range fn.Blocks {
				for _, in := range b.Instrs {
					ph, ok := in.(*ssa.Phi)
					if !ok || !isLoopHeader(b) {
						continue
					}
					bt, ok := ph.Type().Underlying().(*types.Basic)
					if !ok || bt.Info()&types.IsInteger == 0 {
						continue
					}
					// back-edge value acc*K (+ d)
					var K int64
					for i, e := range ph.Edges {
						if !b.Dominates(b.Preds[i]) {
							continue
						}
						v := e
						if add, ok := v.(*ssa.BinOp); ok && (add.Op == token.ADD || add.Op == token.OR) {
							if m, ok := add.X.(*ssa.BinOp); ok && m.Op == token.MUL {
								v = m
							} else if m, ok := add.Y.(*ssa.BinOp); ok && m.Op == token.MUL {
								v = m
							}
						}
						if m, ok := v.(*ssa.BinOp); ok && m.Op == token.MUL {
							if k, ok := constInt(m.Y); ok && m.X == ssa.Value(ph) && k >= 2 {
								K = k
							}
							if k, ok := constInt(m.X); ok && m.Y == ssa.Value(ph) && k >= 2 {
								K = k
							}
						}
					}
					if K == 0 {
						continue
					}
					n++
					width := int64(64)
					switch bt.Kind() {
					case types.Int8, types.Uint8:
						width = 8
					case types.Int16, types.Uint16:
						width = 16
					case types.Int32, types.Uint32:
						width = 32
					}
					if bt.Info()&types.IsUnsigned == 0 {
						width--
					}
					// largest L with K^L ≤ 2^width
					L := int64(0)
					for pow := new(big.Int).SetInt64(1); ; L++ {
						pow.Mul(pow, big.NewInt(K))
						if pow.Cmp(new(big.Int).Lsh(big.NewInt(1), uint(width))) > 0 {
							break
						}
					}
					// the loop's bound: a len() the loop test compares the index with
					var lenCall *ssa.Call
					if iff, ok := lastInstr(b).(*ssa.If); ok {
						if c, ok := iff.Cond.(*ssa.BinOp); ok {
							for _, side := range []ssa.Value{c.X, c.Y} {
								if lc, ok := side.(*ssa.Call); ok && isBuiltin(&lc.Call, "len") {
									lenCall = lc
								}
							}
						}
					}
					okW, how := false, fmt.Sprintf("accumulator of %d bits, radix %d: at most %d digits fit; no bound on the number of digits was found", width, K, L)
					if lenCall != nil {
						lc := NewLinCtx(p, fn)
						goal := lc.Lin(lenCall).addConst(-L)
						if lc.Entails(lc.FactsOf(MustCondsAtBlock(fn, b)), goal) {
							okW, how = true, fmt.Sprintf("%d-bit accumulator, radix %d: the loop runs at most %d times (conditions dominating the loop)", width, K, L)
						} else if pi := paramIndex(fn, lenCall.Call.Args[0]); pi >= 0 && len(callers[fn]) > 0 {
							all := true
							for _, cs := range callers[fn] {
								cf := cs.Parent()
								var callerLen *ssa.Call
								for _, cb := range cf.Blocks {
									for _, ci := range cb.Instrs {
										if l2, ok := ci.(*ssa.Call); ok && isBuiltin(&l2.Call, "len") && l2.Call.Args[0] == cs.Call.Args[pi] {
											callerLen = l2
										}
									}
								}
								if callerLen == nil {
									all = false
									continue
								}
								lc2 := NewLinCtx(p, cf)
								if !lc2.Entails(lc2.FactsOf(MustCondsAtBlock(cf, cs.Block())), lc2.Lin(callerLen).addConst(-L)) {
									all = false
									how = fmt.Sprintf("%d-bit accumulator, radix %d: at most %d digits fit, but the call at %s allows longer input: the value wraps modulo 2^%d", width, K, L, p.Pos(cs.Pos()), width)
								}
							}
							if all {
								okW, how = true, fmt.Sprintf("%d-bit accumulator, radix %d: every call passes at most %d digits", width, K, L)
							}
						}
					}
					r.Add(rule, FnName(fn), "positional accumulation in a machine word cannot wrap", ph.Pos(), okW, how)
				}
			}
		}
	}
	return n
}

// foreignSymbolRejects: on the decode path below root, the edge on which a character was found to be outside the
// charset (strings.IndexByte(charset, c) < 0, or == -1) cannot reach an accepting return of its function: a foreign
// character is refused there and then, not remembered in some side structure that may forget it.
func foreignSymbolRejects(p *Program, r *Report, rule string, root *ssa.Function, what string) int {
	n := 0
	for _, fn := range p.Reachable([]*ssa.Function{root}) {
		for _, b := range fn.Blocks {
			iff, ok := lastInstr(b).(*ssa.If)
			if !ok {
				continue
			}
			bo, ok := iff.Cond.(*ssa.BinOp)
			if !ok {
				continue
			}
			c, ok := bo.X.(*ssa.Call)
			if !ok || calleeName(&c.Call) != "strings.IndexByte" {
				continue
			}
			if cs, isC := constString(c.Call.Args[0]); !isC || len(cs) != 32 {
				continue
			}
			k, isK := constInt(bo.Y)
			if !isK {
				continue
			}
			// which edge means "not in the charset"
			var bad *ssa.BasicBlock
			switch {
			case bo.Op == token.LSS && k == 0, bo.Op == token.EQL && k == -1, bo.Op == token.LEQ && k == -1:
				bad = b.Succs[0]
			case bo.Op == token.GEQ && k == 0, bo.Op == token.NEQ && k == -1, bo.Op == token.GTR && k == -1:
				bad = b.Succs[1]
			default:
				continue
			}
			n++
			rej := !canReachAccept(fn, bad)
			r.Add(rule, FnName(fn), what+": a character outside the charset is refused on the spot", bo.Pos(), rej,
				map[bool]string{true: "the not-found edge reaches only rejecting returns", false: "from the not-found edge an accepting return is still reachable: whether the string is refused depends on bookkeeping done elsewhere"}[rej])
		}
	}
	return n
}

// reverseTableRule: on the decode path below root a package-level table is indexed by a character of a string; its
// contents (after package initialisation, consteval.go / initeval.go) must invert alpha symbol by symbol, and every
// other entry must satisfy one of the rejection tests applied to the loaded entry.  Returns false if no such table
// is found.
func reverseTableRule(p *Program, r *Report, rule string, root *ssa.Function, alpha, what string) bool {
	found := false
	for _, fn := range p.Reachable([]*ssa.Function{root}) {
		for _, b := range fn.Blocks {
			for _, in := range b.Instrs {
				ia, ok := in.(*ssa.IndexAddr)
				if !ok {
					continue
				}
				g, ok := ia.X.(*ssa.Global)
				if !ok {
					continue
				}
				sx, _, ok := elemRead(stripIntConv(ia.Index))
				if !ok || !isStringType(sx.Type()) {
					continue
				}
				found = true
				vals, ok := p.constIntTable(g)
				if !ok {
					r.Undecided(rule, FnName(fn), what+" reverse table "+g.Name()+" has known contents", ia.Pos(), "neither a constant literal nor an initialisation that folds to constants")
					continue
				}
				r.Add(rule, FnName(fn), what+" reverse table "+g.Name()+" is never reassigned", ia.Pos(), p.assignedOnlyByInit(g), "no store outside package initialisation")
				// rejection tests on the loaded entry
				type rej struct {
					op token.Token
					k  int64
				}
				var rejs []rej
				for _, ref := range *ia.Referrers() {
					ld, ok := ref.(*ssa.UnOp)
					if !ok || ld.Op != token.MUL {
						continue
					}
					var uses []ssa.Instruction
					uses = append(uses, *ld.Referrers()...)
					for _, u := range *ld.Referrers() {
						if cv, ok := u.(*ssa.Convert); ok {
							uses = append(uses, *cv.Referrers()...)
						}
					}
					for _, u := range uses {
						if bo, ok := u.(*ssa.BinOp); ok {
							if k, ok := constInt(bo.Y); ok {
								switch bo.Op {
								case token.LSS, token.EQL, token.GEQ, token.GTR, token.NEQ, token.LEQ:
									rejs = append(rejs, rej{bo.Op, k})
								}
							}
						}
					}
				}
				// other loads of the same table entry in the function (the test and the use are separate loads)
				for _, b2 := range fn.Blocks {
					for _, in2 := range b2.Instrs {
						ia2, ok := in2.(*ssa.IndexAddr)
						if !ok || ia2 == ia || ia2.X != ia.X {
							continue
						}
						for _, ref := range *ia2.Referrers() {
							if ld, ok := ref.(*ssa.UnOp); ok && ld.Op == token.MUL {
								for _, u := range *ld.Referrers() {
									if bo, ok := u.(*ssa.BinOp); ok {
										if k, ok := constInt(bo.Y); ok {
											rejs = append(rejs, rej{bo.Op, k})
										}
									}
								}
							}
						}
					}
				}
				holds := func(v int64, t rej) bool {
					switch t.op {
					case token.LSS:
						return v < t.k
					case token.LEQ:
						return v <= t.k
					case token.EQL:
						return v == t.k
					case token.GEQ:
						return v >= t.k
					case token.GTR:
						return v > t.k
					}
					return false
				}
				// which tests are rejections: those no alphabet position satisfies
				var rejecting []rej
				for _, t := range rejs {
					if t.op == token.NEQ {
						continue
					}
					any := false
					for i := range alpha {
						if holds(int64(i), t) {
							any = true
						}
					}
					if !any {
						rejecting = append(rejecting, t)
					}
				}
				bad := ""
				inAlpha := map[int]bool{}
				for i := 0; i < len(alpha); i++ {
					c := int(alpha[i])
					inAlpha[c] = true
					if c >= len(vals) || vals[c] != int64(i) {
						got := int64(-999)
						if c < len(vals) {
							got = vals[c]
						}
						bad = fmt.Sprintf("table[%q] = %d, want %d", alpha[i], got, i)
					}
				}
				nrej := 0
				for c, v := range vals {
					if inAlpha[c] {
						continue
					}
					rejected := false
					for _, t := range rejecting {
						if holds(v, t) {
							rejected = true
						}
					}
					if !rejected {
						bad = fmt.Sprintf("table[%d] = %d for a character outside the alphabet passes every rejection test", c, v)
					} else {
						nrej++
					}
				}
				r.Add(rule, FnName(fn), what+" reverse table inverts the alphabet symbol by symbol; every other entry is rejected", ia.Pos(), bad == "" && len(rejecting) > 0,
					fmt.Sprintf("%d symbols agree, %d other entries rejected by %d test(s); %s", len(alpha), nrej, len(rejecting), bad))
			}
		}
	}
	return found
}

func isStringType(t types.Type) bool {
	b, ok := t.Underlying().(*types.Basic)
	return ok && b.Info()&types.IsString != 0
}

func stripIntConv(v ssa.Value) ssa.Value {
	for {
		switch x := v.(type) {
		case *ssa.Convert:
			if _, ok := intBasic(x.Type()); ok {
				v = x.X
				continue
			}
		case *ssa.ChangeType:
			v = x.X
			continue
		}
		return v
	}
}

func c07checksum(p *Program, r *Report, fns map[string]*ssa.Function) {
	if fn := fns["base58.CheckDecode"]; fn != nil {
		res := check4ByteChecksum(p, fn)
		for i, cr := range res {
			r.Add("C07.checksum", FnName(fn), fmt.Sprintf("accepting return #%d is checksum-guarded", i+1), fn.Pos(), cr.ok, cr.how)
		}
		if len(res) == 0 {
			r.Unresolved("C07.checksum", "accepting return of base58.CheckDecode")
		}
		// minimum length guard: len(decoded) ≥ 5 on every accepting path
		lc := NewLinCtx(p, fn)
		for i, ap := range acceptPoints(fn) {
			f := lc.FactsOf(MustConds(fn, ap))
			ok := false
			for a := range lc.keys {
				if lc.keys[a].kind == akLen {
					if lc.Entails(f, atomLin(a).scale(-1).addConst(5)) {
						ok = true
					}
				}
			}
			r.Add("C07.checksum", FnName(fn), fmt.Sprintf("accepting return #%d requires at least version + 4 checksum bytes", i+1), fn.Pos(), ok, "len(decoded) ≥ 5 holds on every path")
		}
	}
	if fn := fns["bech32.Decode"]; fn != nil {
		gs := checkPolymodGuard(p, fn)
		for i, g := range gs {
			ok := g.ok && g.K == 1
			how := g.how
			if g.ok && g.K != 1 {
				how += " — BIP173 requires the remainder 1"
			}
			r.Add("C07.checksum", FnName(fn), fmt.Sprintf("accepting return #%d is behind the BIP173 remainder test", i+1), fn.Pos(), ok, how)
		}
		if len(gs) == 0 {
			r.Unresolved("C07.checksum", "accepting return of bech32.Decode")
		}
	}
	r.Floor("C07.checksum", 3)
}

func c07strict(p *Program, r *Report, fns map[string]*ssa.Function) {
	fn := fns["bech32.Decode"]
	if fn != nil {
		lc := NewLinCtx(p, fn)
		param := fn.Params[0]
		plen := lc.LenLin(param)
		aps := acceptPoints(fn)
		for i, ap := range aps {
			conds := MustConds(fn, ap)
			f := lc.FactsOf(conds)
			tag := fmt.Sprintf("accepting return #%d: ", i+1)
			r.Add("C07.strict", FnName(fn), tag+"8 ≤ len(input) ≤ 90", ap.Ret.Pos(),
				lc.Entails(f, plen.scale(-1).addConst(8)) && lc.Entails(f, plen.addConst(-90)), "length bounds of BIP173 on every path")
			// separator: a call sep = LastIndexByte(s, '1') with sep ≥ 1 and sep+7 ≤ len(s)
			okSep := false
			for _, b := range fn.Blocks {
				for _, in := range b.Instrs {
					c, ok := in.(*ssa.Call)
					if !ok || !staticCalleeIs(&c.Call, "strings.LastIndexByte", "strings.LastIndex") {
						continue
					}
					if k, ok := constInt(c.Call.Args[1]); !ok || k != '1' {
						if s, ok := constString(c.Call.Args[1]); !ok || s != "1" {
							continue
						}
					}
					sep := lc.Lin(c)
					sl := lc.LenLin(c.Call.Args[0])
					if lc.Entails(f, sep.scale(-1).addConst(1)) && lc.Entails(f, sep.addConst(7).add(sl, -1)) {
						okSep = true
					}
				}
			}
			r.Add("C07.strict", FnName(fn), tag+"separator is the last '1', hrp non-empty, ≥ 6 checksum symbols follow", ap.Ret.Pos(), okSep, "1 ≤ sep ∧ sep+7 ≤ len")
		}
		// character range: a full-range loop over the input whose out-of-range edges reject
		lowOK, highOK := false, false
		for _, b := range fn.Blocks {
			iff, ok := lastInstr(b).(*ssa.If)
			if !ok {
				continue
			}
			bo, ok := iff.Cond.(*ssa.BinOp)
			if !ok {
				continue
			}
			lx, lidx, ok := elemRead(bo.X)
			if !ok || lx != ssa.Value(param) {
				continue
			}
			if fullRangeInduction(lidx, func(v ssa.Value) bool { return v == ssa.Value(param) }) == nil {
				continue
			}
			k, ok := constInt(bo.Y)
			if !ok {
				continue
			}
			rej := func(truth bool) bool {
				s := b.Succs[0]
				if !truth {
					s = b.Succs[1]
				}
				return !canReachAccept(fn, s)
			}
			switch {
			case bo.Op == token.LSS && k == 33 && rej(true), bo.Op == token.LEQ && k == 32 && rej(true):
				lowOK = true
			case bo.Op == token.GTR && k == 126 && rej(true), bo.Op == token.GEQ && k == 127 && rej(true):
				highOK = true
			}
		}
		if !lowOK || !highOK {
			// any other spelling (a switch case `c < 33 || c > 126`, mirrored comparisons, a hoisted local): in a loop over
			// the whole input, every path that goes on to the next character knows 33 ≤ c ≤ 126, and leaving the loop
			// early cannot lead to an accepting return
			lcr := NewLinCtx(p, fn)
			for _, h := range fn.Blocks {
				if !isLoopHeader(h) {
					continue
				}
				var elems []ssa.Value
				for _, b := range fn.Blocks {
					if !h.Dominates(b) {
						continue
					}
					for _, in := range b.Instrs {
						v, ok := in.(ssa.Value)
						if !ok {
							continue
						}
						if x, idx, ok := elemRead(v); ok && x == ssa.Value(param) && fullRangeInduction(idx, func(w ssa.Value) bool { return w == ssa.Value(param) }) != nil {
							elems = append(elems, v)
						}
					}
				}
				if len(elems) == 0 {
					continue
				}
				lo, hi := true, true
				nLatch := 0
				for _, pb := range h.Preds {
					if !h.Dominates(pb) {
						continue
					}
					nLatch++
					f := lcr.FactsOf(MustCondsAtBlock(fn, pb))
					okLo, okHi := false, false
					for _, e := range elems {
						if lcr.Entails(f, lcr.Lin(e).scale(-1).addConst(33)) {
							okLo = true
						}
						if lcr.Entails(f, lcr.Lin(e).addConst(-126)) {
							okHi = true
						}
					}
					lo, hi = lo && okLo, hi && okHi
				}
				// early exits of the loop body reject
				exitsReject := true
				for _, b := range fn.Blocks {
					if b == h || !h.Dominates(b) {
						continue
					}
					inLoop := false
					for _, pb := range h.Preds {
						if h.Dominates(pb) && reachableFrom(b, map[*ssa.BasicBlock]bool{h: true})[pb] {
							inLoop = true
						}
					}
					if !inLoop {
						continue
					}
					for _, sb := range b.Succs {
						stillIn := sb == h
						for _, pb := range h.Preds {
							if h.Dominates(pb) && reachableFrom(sb, map[*ssa.BasicBlock]bool{h: true})[pb] {
								stillIn = true
							}
						}
						if !stillIn && canReachAccept(fn, sb) {
							exitsReject = false
						}
					}
				}
				if nLatch > 0 && exitsReject {
					lowOK, highOK = lowOK || lo, highOK || hi
				}
			}
		}
		r.Add("C07.strict", FnName(fn), "every input character below 33 rejects", fn.Pos(), lowOK, "loop over the whole input")
		r.Add("C07.strict", FnName(fn), "every input character above 126 rejects", fn.Pos(), highOK, "loop over the whole input")
		okCase, howCase := mixedCaseRejects(p, fn)
		r.Add("C07.strict", FnName(fn), "mixed-case input rejects", fn.Pos(), okCase, howCase)
	}
	// ConvertBits: the two shape tests that stood here ("leftover ≠ 0 rejects", "leftover count > 4 rejects") recognised only
	// the spellings `!= 0` and `> 4` / `>= 5` and flagged `nextByte > 0`; they are subsumed by the finite decision of the
	// whole tail (c07convertTail), which evaluates any comparison over the classes of the domain
	c07rangesExact(p, r, fns["bech32.Decode"], fns["bech32.ConvertBits"])
	if cb := fns["bech32.ConvertBits"]; cb != nil {
		c07convertTail(p, r, cb)
	}
	r.Floor("C07.strict", 7)
}

// radixBufferRule (round 6: C05-agent6-m3, C06-agent6-m2, C06-agent6-m3).  A big.Int-free radix conversion writes its
// digits into a buffer of FIXED length n·K1/K2 + c.  For unbounded n that is enough only if K1/K2 is at least the
// exact ratio of the digit sizes: log 58 / log 256 = 0.73219… bytes per base-58 digit when decoding, log 256 / log 58 =
// 1.36565… digits per byte when encoding.  (Bitcoin Core uses 733/1000 and 138/100.)  73/100 and 136/100 look right and
// are one digit short from 63 resp. 36 symbols on — the carry out of the top position is then dropped.  A capacity hint
// (make(T, 0, n·136/100) + append) is not a fixed length and is not subject to this.  Decided for every make() in the
// packages' functions whose length is a non-constant quotient form; which ratio applies follows from whether the
// function is reachable from the decoding or the encoding entry point (both: the larger).
func radixBufferRule(p *Program, r *Report, rule string) int {
	enc, dec := p.Func("base58", "Encode"), p.Func("base58", "Decode")
	if enc == nil || dec == nil {
		r.Unresolved(rule, "base58.Encode / base58.Decode")
		return 0
	}
	inEnc, inDec := map[*ssa.Function]bool{}, map[*ssa.Function]bool{}
	for _, f := range p.Reachable([]*ssa.Function{enc}) {
		inEnc[f] = true
	}
	for _, f := range p.Reachable([]*ssa.Function{dec}) {
		inDec[f] = true
	}
	// K1·den ≥ K2·num  ⇔  K1/K2 ≥ num/den, with num/den a rational just ABOVE nothing: compare in floating point
	// against the exact irrational with a margin-free test (the candidates are small integers; no tie is possible
	// because the ratio is irrational)
	const decRatio = 0.7321969544112429 // ln 58 / ln 256
	const encRatio = 1.3656582196497152 // ln 256 / ln 58
	n := 0
	for _, fn := range p.Funcs {
		if !inEnc[fn] && !inDec[fn] {
			continue
		}
		if fn.Pkg != p.Pkg("base58") {
			continue
		}
		for _, b := range fn.Blocks {
			for _, in := range b.Instrs {
				ms, ok := in.(*ssa.MakeSlice)
				if !ok {
					continue
				}
				if _, isK := constInt(ms.Len); isK {
					continue
				}
				k1, k2, form := ratioForm(ms.Len)
				if !form {
					continue
				}
				n++
				need := 0.0
				dir := ""
				if inDec[fn] {
					need, dir = decRatio, "bytes per base-58 digit (decoding)"
				}
				if inEnc[fn] && encRatio > need {
					need, dir = encRatio, "base-58 digits per byte (encoding)"
				}
				got := float64(k1) / float64(k2)
				r.Add(rule, FnName(fn), fmt.Sprintf("fixed-length digit buffer %s is long enough for every input", exprString(ms.Len)), ms.Pos(), got >= need,
					fmt.Sprintf("length grows by %d/%d = %.4f per input symbol; %s need %.5f", k1, k2, got, dir, need))
			}
		}
	}
	return n
}

// ratioForm: v = (E·K1)/K2 [+ c]  (or E·K1/K2 spelled with the constant on either side); K2 = 1 for a plain product.
func ratioForm(v ssa.Value) (k1, k2 int64, ok bool) {
	for {
		switch x := v.(type) {
		case *ssa.Convert:
			v = x.X
			continue
		case *ssa.ChangeType:
			v = x.X
			continue
		case *ssa.BinOp:
			if x.Op == token.ADD || x.Op == token.SUB {
				if _, isK := constInt(x.Y); isK {
					v = x.X
					continue
				}
				if _, isK := constInt(x.X); isK && x.Op == token.ADD {
					v = x.Y
					continue
				}
			}
		}
		break
	}
	q, isQ := v.(*ssa.BinOp)
	if !isQ || q.Op != token.QUO {
		return 0, 0, false
	}
	d, isK := constInt(q.Y)
	if !isK || d <= 0 {
		return 0, 0, false
	}
	m, isM := q.X.(*ssa.BinOp)
	if !isM || m.Op != token.MUL {
		return 0, 0, false
	}
	if k, isK := constInt(m.Y); isK && k > 0 {
		return k, d, true
	}
	if k, isK := constInt(m.X); isK && k > 0 {
		return k, d, true
	}
	return 0, 0, false
}

// nilNilRule (mutation sweep: `return nil, err` turned into `return nil, nil` on a rare error path): a function of the
// given files that returns (pointer-like value, error) never returns the nil value together with a nil error — the
// caller, seeing no error, dereferences nil.  Accepting returns (error constant nil) hand out a non-nil first result.
func nilNilRule(p *Program, r *Report, rule string, files []string) int {
	n := 0
	errT := types.Universe.Lookup("error").Type()
	for _, fn := range p.Funcs {
		if fn.Parent() != nil || len(fn.Blocks) == 0 {
			continue
		}
		pos := p.Fset.Position(fn.Pos())
		inFile := false
		for _, f := range files {
			if strings.HasSuffix(pos.Filename, "/"+f) {
				inFile = true
			}
		}
		res := fn.Signature.Results()
		if !inFile || res.Len() != 2 || !types.Identical(res.At(1).Type(), errT) {
			continue
		}
		ptrLike := pointerLike(res.At(0).Type())
		_, isSl := res.At(0).Type().Underlying().(*types.Slice)
		for _, ret := range returnsOf(fn) {
			if !isNilConst(ret.Results[1]) {
				// `if err == nil { return nil, err }` (an inverted error test): the error handed out is known to be nil
				// on this path, so the nil value goes out as a success — for slices as well
				knownNil := false
				for _, c := range MustCondsAtBlock(fn, ret.Block()) {
					if bo, truth, ok := condBinOp(c); ok && ((bo.Op == token.EQL && truth) || (bo.Op == token.NEQ && !truth)) {
						if (bo.X == ret.Results[1] && isNilConst(bo.Y)) || (bo.Y == ret.Results[1] && isNilConst(bo.X)) {
							knownNil = true
						}
					}
				}
				if knownNil {
					n++
					zero := false
					if k, isK := ret.Results[0].(*ssa.Const); isK && k.Value == nil {
						zero = true // nil, or the zero value of an array / struct type (chainhash.Hash{})
					}
					r.Add(rule, FnName(fn), "an error that is known to be nil is not returned with a zero value", ret.Pos(), !zero, "the error test is inverted: success returns nothing and the failure falls through")
				}
				continue
			}
			if isSl || !ptrLike {
				continue // an empty result is a legitimate nil slice
			}
			n++
			r.Add(rule, FnName(fn), "a return without an error hands out a value", ret.Pos(), !isNilConst(ret.Results[0]), "returns (nil, nil): the caller sees no error and a nil result")
		}
	}
	return n
}

package main

import (
	"fmt"
	"go/token"
	"go/types"
	"regexp"
	"sort"
	"strings"

	"golang.org/x/tools/go/ssa"
)

func init() { register("C01", checkC01) }

// encInfo: what an address type's EncodeAddress hands to the packer / Base58Check.
type encInfo struct {
	typ       *types.Named
	method    *ssa.Function
	format    string // "cash" | "legacy"
	addrType  int64  // cash: the AddressType constant
	payload   *BSeq
	arriving  int64 // bytes that arrive at the packer (-1 unknown)
	hashLen   int64 // size of the type's hash array (-1 if none)
	site      ssa.Instruction
	versionOf *types.Var // legacy: field supplying the version byte
}

func arrayFieldLen(t *types.Named) int64 {
	st, ok := t.Underlying().(*types.Struct)
	if !ok {
		return -1
	}
	for i := 0; i < st.NumFields(); i++ {
		if a, ok := st.Field(i).Type().Underlying().(*types.Array); ok {
			if b, ok := a.Elem().Underlying().(*types.Basic); ok && b.Kind() == types.Uint8 {
				return a.Len()
			}
		}
	}
	return -1
}

// bseqLen returns the constant length of a term if it has one.
func bseqLen(b *BSeq) int64 {
	switch b.Kind {
	case "val":
		if et := derefType(b.Val.Type()); et != nil {
			if a, ok := et.Underlying().(*types.Array); ok {
				return a.Len()
			}
		}
		if a, ok := b.Val.Type().Underlying().(*types.Array); ok {
			return a.Len()
		}
	case "win":
		if b.ToEnd {
			if n := bseqLen(b.Of); n >= 0 && b.Lo.isConst() {
				return n - b.Lo.c
			}
			return -1
		}
		if b.Lo.isConst() && b.Hi.isConst() {
			return b.Hi.c - b.Lo.c
		}
	case "hash":
		switch b.Alg {
		case "sha256":
			return 32
		case "ripemd160":
			return 20
		case "sha512":
			return 64
		}
	}
	return -1
}

// findPacker: the function that builds the CashAddr version byte: it shifts an
// AddressType-typed parameter left by 3.
func findPacker(p *Program) (fn *ssa.Function, typeIdx, hashIdx int) {
	for _, f := range pkgFuncs(p, "") {
		for _, b := range f.Blocks {
			for _, in := range b.Instrs {
				bo, ok := in.(*ssa.BinOp)
				if !ok {
					continue
				}
				// type << 3, or the same thing spelled type * 8 (either operand order)
				var tv ssa.Value
				switch bo.Op {
				case token.SHL:
					if k, ok := constInt(bo.Y); ok && k == 3 {
						tv = bo.X
					}
				case token.MUL:
					if k, ok := constInt(bo.Y); ok && k == 8 {
						tv = bo.X
					} else if k, ok := constInt(bo.X); ok && k == 8 {
						tv = bo.Y
					}
				}
				if tv == nil {
					continue
				}
				pa, ok := stripIntConv(tv).(*ssa.Parameter)
				if !ok {
					continue
				}
				fn, typeIdx, hashIdx = f, paramIndex(f, pa), -1
				for i, q := range f.Params {
					if _, ok := q.Type().Underlying().(*types.Slice); ok {
						hashIdx = i
					}
				}
				return
			}
		}
	}
	return nil, -1, -1
}

// constEvalRejects: with parameter pi fixed to the constant k, does fn reach an
// error return before any branch that does not depend only on pi?
func constEvalRejects(fn *ssa.Function, pi int, k int64) (rejects bool, decided bool) {
	pa := fn.Params[pi]
	b := fn.Blocks[0]
	for steps := 0; steps < 64; steps++ {
		switch t := lastInstr(b).(type) {
		case *ssa.Return:
			ei := errResultIndex(fn)
			if ei >= 0 && ei < len(t.Results) {
				return !isNilConst(t.Results[ei]), true
			}
			return false, true
		case *ssa.Jump:
			b = b.Succs[0]
		case *ssa.If:
			bo, ok := t.Cond.(*ssa.BinOp)
			if !ok || stripIntConv(bo.X) != ssa.Value(pa) {
				// past the tests that depend on the fixed parameter alone: not rejected on its account
				return false, true
			}
			c, ok := constInt(bo.Y)
			if !ok {
				return false, false
			}
			var v bool
			switch bo.Op {
			case token.EQL:
				v = k == c
			case token.NEQ:
				v = k != c
			case token.LSS:
				v = k < c
			case token.GTR:
				v = k > c
			case token.LEQ:
				v = k <= c
			case token.GEQ:
				v = k >= c
			default:
				return false, false
			}
			if v {
				b = b.Succs[0]
			} else {
				b = b.Succs[1]
			}
		default:
			return false, false
		}
	}
	return false, false
}

func checkC01(p *Program, r *Report) {
	// round 6 (systematic): the Base58 / Base58Check layer this property's strings go through is C07's — its table,
	// checksum, exactness and purity clauses are necessary here too (§2.11)
	r.Borrow("C07", func(o *Ob) (string, bool) {
		switch o.Rule {
		case "C07.tables", "C07.checksum", "C07.exact", "C07.pure":
			if strings.Contains(o.Func, "bech32") || strings.Contains(o.Construct, "bech32") {
				return "", false
			}
			return "C01.base58", true
		}
		return "", false
	})
	r.Floor("C01.base58", 5)
	prefixWindowRule(p, r, "C01.prefix")
	r.Floor("C01.prefix", 2)
	if n := sharedStateRule(p, r, NewEffects(p), "C01.shared", []string{"address.go", "hash160.go", "hash256.go", "base58/base58check.go", "base58/base58.go"}); n > 0 {
		r.Floor("C01.shared", 20)
	}
	r.Explain = "C01.tables: CashAddr and Base58 alphabets and decode tables agree symbol by symbol and equal the specifications'. C01.kinds: for every address type, " +
		"what EncodeAddress hands to the packer / Base58Check (address-type constant, number of hash bytes that arrive after every re-slice) is accepted by the " +
		"packer, loses no byte of the type's hash array, and is mapped back by a reachable decode arm of DecodeAddress to the same Go type; version bytes agree " +
		"between packer and classifier. C01.membership: IsForNet tests the Params field the constructors stored. C01.hashing: script-taking constructors hash " +
		"with RIPEMD160(SHA256(·)) for 20-byte kinds and SHA256(SHA256(·)) for P2SH32 and reject no script themselves. C01.stages: in DecodeAddress a return " +
		"before the public-key and Base58Check stages happens only behind err == nil of the CashAddr decoder (or the entry length guard), so the CashAddr stage " +
		"never gives a verdict on a legacy or public-key string. Not decided: string equality for every hash (value level), convertBits " +
		"arithmetic, Base58 radix conversion."
	r.Trusted = []string{"CashAddr / Base58Check specification constants", "bchd chaincfg.Params field names (external API)"}
	root := p.Pkg("")
	if root == nil {
		r.Unresolved("C01.kinds", "root package")
		return
	}
	// ---- tables (shared recognisers, reported under this property's rule)
	c07TablesRule, c03InjectRule = "C01.tables", "C01.tables"
	fns := map[string]*ssa.Function{}
	for _, n := range []string{"Encode", "Decode"} {
		if f := p.Func("base58", n); f != nil {
			fns["base58."+n] = f
		}
	}
	c07tables(p, r, fns)
	c03inject(p, r)
	c07TablesRule, c03InjectRule = "C07.tables", "C03.inject"
	r.Floor("C01.tables", 7)

	// ---- address types
	addrIface, _ := root.Members["Address"].(*ssa.Type)
	if addrIface == nil {
		r.Unresolved("C01.kinds", "interface bchutil.Address")
		return
	}
	iface := addrIface.Type().Underlying().(*types.Interface)
	var addrTypes []*types.Named
	for _, m := range root.Members {
		t, ok := m.(*ssa.Type)
		if !ok {
			continue
		}
		n, ok := t.Type().(*types.Named)
		if !ok || types.IsInterface(n) {
			continue
		}
		if types.Implements(types.NewPointer(n), iface) {
			addrTypes = append(addrTypes, n)
		}
	}
	sort.Slice(addrTypes, func(i, j int) bool { return addrTypes[i].Obj().Name() < addrTypes[j].Obj().Name() })
	packer, typeIdx, hashIdx := findPacker(p)
	if packer == nil || hashIdx < 0 {
		r.Unresolved("C01.kinds", "CashAddr packer (function shifting the address type by 3)")
		return
	}
	checkEncode := p.Func("base58", "CheckEncode")

	// ---- enc side
	var encs []*encInfo
	for _, nt := range addrTypes {
		m := p.Func("", "(*"+nt.Obj().Name()+").EncodeAddress")
		if m == nil {
			r.Unresolved("C01.kinds", nt.Obj().Name()+".EncodeAddress")
			continue
		}
		lc := NewLinCtx(p, m)
		ev := NewBSeqEval(p, lc)
		ei := &encInfo{typ: nt, method: m, arriving: -1, hashLen: arrayFieldLen(nt)}
		var trace func(fn *ssa.Function, env *bsEnv, depth int)
		trace = func(fn *ssa.Function, env *bsEnv, depth int) {
			if depth > 5 || ei.format != "" {
				return
			}
			for _, b := range fn.Blocks {
				for _, in := range b.Instrs {
					c, ok := in.(*ssa.Call)
					if !ok {
						continue
					}
					cal := c.Call.StaticCallee()
					if cal == nil || !p.InRepo(cal) || len(cal.Blocks) == 0 {
						continue
					}
					if cal == packer {
						ei.format = "cash"
						ei.site = c
						tv, _ := ev.resolve(c.Call.Args[typeIdx], env)
						if k, ok := constInt(tv); ok {
							ei.addrType = k
						} else {
							ei.addrType = -1
						}
						ei.payload = ev.eval(c.Call.Args[hashIdx], env, 0)
						ei.arriving = bseqLen(ei.payload)
						return
					}
					if cal == checkEncode {
						ei.format = "legacy"
						ei.site = c
						ei.payload = ev.eval(c.Call.Args[0], env, 0)
						ei.arriving = bseqLen(ei.payload)
						vv, _ := ev.resolve(c.Call.Args[1], env)
						if f, _, ok := fieldLoad(vv); ok {
							ei.versionOf = f
						}
						return
					}
					if cal.Pkg != root {
						continue
					}
					nenv := &bsEnv{params: map[*ssa.Parameter]*bsBinding{}, parent: env, site: c}
					for i, pa := range cal.Params {
						if i < len(c.Call.Args) {
							nenv.params[pa] = &bsBinding{c.Call.Args[i], env}
						}
					}
					trace(cal, nenv, depth+1)
					if ei.format != "" {
						return
					}
				}
			}
		}
		trace(m, nil, 0)
		if ei.format == "" {
			r.Unresolved("C01.kinds", "encoder reached from "+FnName(m))
			continue
		}
		encs = append(encs, ei)
	}

	// ---- classifier and decode arms
	da := p.Func("", "DecodeAddress")
	if da == nil {
		r.Unresolved("C01.kinds", "DecodeAddress")
		return
	}
	var classifier *ssa.Function
	for _, b := range da.Blocks {
		for _, in := range b.Instrs {
			if c, ok := in.(*ssa.Call); ok {
				if cal := c.Call.StaticCallee(); cal != nil && cal.Pkg == root && cal.Signature.Results().Len() == 4 {
					classifier = cal
				}
			}
		}
	}
	classLens := map[int64]bool{}
	classTypes := map[int64]bool{}
	if classifier == nil {
		r.Unresolved("C01.kinds", "payload classifier called by DecodeAddress")
	} else {
		lc := NewLinCtx(p, classifier)
		ev := NewBSeqEval(p, lc)
		for _, ap := range acceptPoints(classifier) {
			if n := bseqLen(ev.Eval(ap.Ret.Results[0])); n >= 0 {
				classLens[n] = true
			} else {
				// an open-ended window (data[1:]): its length follows from the conditions on the way to this return
				ll := lc.LenLin(ap.Ret.Results[0])
				blk := ap.Block
				if ap.Pred != nil {
					blk = ap.Pred
				}
				facts := lc.FactsOf(MustCondsAtBlock(classifier, blk))
				for n := int64(0); n <= 64; n++ {
					if lc.EntailsEq(facts, ll.addConst(-n)) {
						classLens[n] = true
						break
					}
				}
			}
			var collect func(v ssa.Value, d int)
			collect = func(v ssa.Value, d int) {
				if d > 4 {
					return
				}
				if k, ok := constInt(v); ok {
					classTypes[k] = true
				}
				if ph, ok := v.(*ssa.Phi); ok {
					for _, e := range ph.Edges {
						collect(e, d+1)
					}
				}
			}
			collect(ap.Ret.Results[2], 0)
		}
		// version byte ↔ type agreement: each matched constant c sets type T with c == T<<3 (size code 0 = 20 bytes)
		for _, ch := range findEqChains(classifier) {
			for i, blk := range ch.blocks {
				_, c, match, _, _ := eqCompare(blk)
				// the type constant assigned on the matching arm: a φ edge from `match`
				for _, b2 := range classifier.Blocks {
					for _, in := range b2.Instrs {
						ph, ok := in.(*ssa.Phi)
						if !ok {
							continue
						}
						for j, e := range ph.Edges {
							if b2.Preds[j] != match {
								continue
							}
							if T, ok := constInt(e); ok {
								if _, isT := ph.Type().(*types.Named); isT {
									r.Add("C01.kinds", FnName(classifier), fmt.Sprintf("version byte %#02x maps to the address type the packer encodes as that byte", c), ph.Pos(), c == T<<3,
										fmt.Sprintf("classifier: %#02x → type %d; packer: type %d → %#02x for a 20-byte hash", c, T, T, T<<3))
								}
							}
						}
					}
				}
				_ = i
			}
		}
	}
	type decArm struct {
		length, addrType int64
		family           string
		result           *types.Named
		ctor             *ssa.Function
		pos              token.Pos
	}
	var arms []decArm
	{
		// order of the classifier calls: first = cash prefix, second = SLP prefix
		var calls []*ssa.Call
		for _, b := range da.DomPreorder() {
			for _, in := range b.Instrs {
				if c, ok := in.(*ssa.Call); ok && c.Call.StaticCallee() == classifier && classifier != nil {
					calls = append(calls, c)
				}
			}
		}
		isEq := func(cd Cond) (*ssa.BinOp, bool) {
			bo, truth, ok := condBinOp(cd)
			if !ok {
				return nil, false
			}
			if bo.Op == token.EQL && truth || bo.Op == token.NEQ && !truth {
				return bo, true
			}
			return nil, false
		}
		// classify: what a compared value stands for — the payload length / the address type of classifier call #ci,
		// or the payload length of the Base58Check decoder; subst maps a helper's parameters to the caller's arguments
		type meaning struct {
			kind string // "len" | "type" | "legacylen"
			ci   int
		}
		var meaningOf func(v ssa.Value, subst map[ssa.Value]ssa.Value) (meaning, bool)
		meaningOf = func(v ssa.Value, subst map[ssa.Value]ssa.Value) (meaning, bool) {
			if w, ok := subst[v]; ok {
				return meaningOf(w, nil)
			}
			if lc, ok := v.(*ssa.Call); ok && isBuiltin(&lc.Call, "len") {
				arg := lc.Call.Args[0]
				if w, ok := subst[arg]; ok {
					arg = w
				}
				if ex, ok := arg.(*ssa.Extract); ok && ex.Index == 0 {
					for ci, c := range calls {
						if ex.Tuple == ssa.Value(c) {
							return meaning{"len", ci}, true
						}
					}
					if c, ok := ex.Tuple.(*ssa.Call); ok && c.Call.StaticCallee() != classifier {
						return meaning{"legacylen", 0}, true
					}
				}
				return meaning{}, false
			}
			if ex, ok := v.(*ssa.Extract); ok && ex.Index == 2 {
				for ci, c := range calls {
					if ex.Tuple == ssa.Value(c) {
						return meaning{"type", ci}, true
					}
				}
			}
			return meaning{}, false
		}
		var collect func(fn *ssa.Function, subst map[ssa.Value]ssa.Value, outer decArm, depth int)
		collect = func(fn *ssa.Function, subst map[ssa.Value]ssa.Value, outer decArm, depth int) {
			for _, ap := range acceptPoints(fn) {
				if ap.Delegate == nil {
					continue
				}
				ctor := ap.Delegate.Call.StaticCallee()
				if ctor == nil || ctor.Signature.Results().Len() == 0 {
					continue
				}
				arm := outer
				arm.ctor, arm.pos = ctor, ap.Ret.Pos()
				arm.result = namedOf(ctor.Signature.Results().At(0).Type())
				conds := MustConds(fn, ap)
				// a helper's boolean parameter that the caller passed as a constant prunes the arms it excludes
				feasible := true
				for _, cd := range conds {
					v, truth := cd.V, cd.Truth
					if u, ok := v.(*ssa.UnOp); ok && u.Op == token.NOT {
						v, truth = u.X, !truth
					}
					if w, ok := subst[v]; ok {
						if bv, isB := constBool(w); isB && bv != truth {
							feasible = false
						}
					}
				}
				if !feasible {
					continue
				}
				for _, cd := range conds {
					bo, ok := isEq(cd)
					if !ok {
						continue
					}
					for _, pr := range [][2]ssa.Value{{bo.X, bo.Y}, {bo.Y, bo.X}} {
						k, isK := constInt(pr[1])
						if !isK {
							continue
						}
						m, ok := meaningOf(pr[0], subst)
						if !ok {
							continue
						}
						switch m.kind {
						case "len":
							arm.length = k
							arm.family = []string{"cash", "slp"}[min(m.ci, 1)]
						case "legacylen":
							arm.length, arm.family = k, "legacy"
						case "type":
							arm.addrType = k
						}
					}
				}
				// an in-repo helper that builds the address from (payload, type): look inside, with its parameters
				// standing for the caller's arguments
				if p.InRepo(ctor) && len(ctor.Blocks) > 0 && depth < 2 && ctor.Signature.Results().Len() > 0 {
					if _, isIface := ctor.Signature.Results().At(0).Type().Underlying().(*types.Interface); isIface {
						sub := map[ssa.Value]ssa.Value{}
						for i, a := range ap.Delegate.Call.Args {
							if i < len(ctor.Params) {
								if w, ok := subst[a]; ok {
									a = w
								}
								sub[ctor.Params[i]] = a
							}
						}
						collect(ctor, sub, arm, depth+1)
						continue
					}
				}
				if arm.family == "" {
					arm.family = "pubkey"
				}
				arms = append(arms, arm)
			}
		}
		collect(da, nil, decArm{length: -1, addrType: -1}, 0)
	}

	// ---- obligations per type
	for _, e := range encs {
		name := e.typ.Obj().Name()
		switch e.format {
		case "cash":
			rej, dec := constEvalRejects(packer, typeIdx, e.addrType)
			r.Add("C01.kinds", FnName(e.method), "the packer accepts the address type "+name+" encodes with", e.site.Pos(), dec && !rej,
				fmt.Sprintf("AddressType %d passed to %s", e.addrType, FnName(packer)))
			r.Add("C01.kinds", FnName(e.method), "every byte of "+name+"'s hash reaches the packer", e.site.Pos(), e.arriving == e.hashLen && e.hashLen > 0,
				fmt.Sprintf("hash array has %d bytes, %d arrive after re-slicing", e.hashLen, e.arriving))
			for _, fam := range []string{"cash", "slp"} {
				found := false
				for _, a := range arms {
					if a.family == fam && a.length == e.hashLen && a.addrType == e.addrType && a.result == e.typ {
						found = true
					}
				}
				r.Add("C01.kinds", FnName(da), fmt.Sprintf("%s-prefixed %s decodes back to %s", fam, name, name), da.Pos(), found,
					fmt.Sprintf("decode arm for (%d bytes, type %d) constructing *%s", e.hashLen, e.addrType, name))
			}
		case "legacy":
			if e.hashLen > 0 {
				r.Add("C01.kinds", FnName(e.method), "every byte of "+name+"'s hash reaches Base58Check", e.site.Pos(), e.arriving == e.hashLen,
					fmt.Sprintf("hash array has %d bytes, %d arrive", e.hashLen, e.arriving))
				found := false
				for _, a := range arms {
					if a.family == "legacy" && a.length == e.hashLen && a.result == e.typ {
						found = true
					}
				}
				r.Add("C01.kinds", FnName(da), "legacy "+name+" decodes back to "+name, da.Pos(), found, fmt.Sprintf("Base58Check arm for %d bytes constructing *%s", e.hashLen, name))
			} else {
				// raw public key: EncodeAddress gives a P2PKH of the key; String() is the round-trip form
				r.Add("C01.kinds", FnName(e.method), name+" encodes the 20-byte hash of its serialisation", e.site.Pos(), e.arriving == 20, fmt.Sprintf("%d bytes arrive at Base58Check", e.arriving))
			}
		}
	}
	// decode arms reachable
	for _, a := range arms {
		if a.family != "cash" && a.family != "slp" {
			continue
		}
		ok := classLens[a.length] && classTypes[a.addrType]
		r.Add("C01.kinds", FnName(da), fmt.Sprintf("%s decode arm for (%d bytes, type %d) is reachable", a.family, a.length, a.addrType), a.pos, ok,
			fmt.Sprintf("classifier returns payload lengths %v and types %v", keysOf(classLens), keysOf(classTypes)))
	}
	// raw public key hex arm: lengths are twice the key lengths; String and ScriptAddress share the serialiser
	c01pubkey(p, r, da)
	c01stages(p, r, da)
	rejectionVocabulary(p, r, "C01.accepts", da, c01AcceptsAllow, "the stage results: CashAddr payload length and type, hex / Base58Check decoding errors, payload length and the registry's kind of the version byte")
	r.Floor("C01.accepts", 5)
	r.Floor("C01.kinds", 20)

	c01membership(p, r, addrTypes)
	c01hashing(p, r, addrTypes)
	c01total(p, r, addrTypes)
	c01slpPrefix(p, r)
	// round 7 (C01-agent7-m3): a setter of an address type stores its argument on every path (a range guard that is off by
	// one silently dropped SetFormat(PKFHybrid), so the hybrid rendering could not be reached any more)
	for _, nt := range addrTypes {
		for _, m := range p.Methods("", nt.Obj().Name()) {
			if m.Signature.Results().Len() != 0 || len(m.Params) != 2 || m.Object() == nil || !m.Object().Exported() {
				continue
			}
			arg := ssa.Value(m.Params[1])
			stores := 0
			for _, b := range m.Blocks {
				for _, in := range b.Instrs {
					st, ok := in.(*ssa.Store)
					if !ok || st.Val != arg {
						continue
					}
					if _, isF := st.Addr.(*ssa.FieldAddr); !isF {
						continue
					}
					stores++
					r.Add("C01.setter", FnName(m), "the setter stores its argument on every path", st.Pos(), dominatesAllReturns(m, b), "the store is skipped on some path: the requested value is silently ignored")
				}
			}
			// second sweep (the only statement of SetFormat deleted): a method without results whose one argument has the
			// type of a field of the receiver is a setter, and a setter stores
			if st, ok := nt.Underlying().(*types.Struct); ok && stores == 0 && len(m.Blocks) > 0 {
				for i := 0; i < st.NumFields(); i++ {
					if types.Identical(st.Field(i).Type(), arg.Type()) {
						r.Add("C01.setter", FnName(m), "the setter stores its argument on every path", m.Pos(), false, "no store of the argument into the receiver at all")
						break
					}
				}
			}
		}
	}
	// round 7 (C01-agent7-m1): NewAddressPubKey refuses a serialised key only because the curve package's parser does
	// (or for its format byte) — a hybrid-key "parity check" reading byte 32 refused half of all hybrid keys
	if nk := p.Func("", "NewAddressPubKey"); nk != nil {
		if rejectionVocabulary(p, r, "C01.accepts", nk, []string{`call .*bchec\.ParsePubKey#\d`, `call .*bchec\.ParsePubKey`, `param \w+\[0\]`},
			"the parser's verdict and the format byte") == 0 {
			r.Unresolved("C01.accepts", "refusals of NewAddressPubKey")
		}
	}
	addrPureRule(p, r, "C01.pure", addrTypes)
	r.Floor("C01.pure", 10)
	// round 6 (C01-agent6-m1/m2): "decoding … the lower-case, upper-case and prefix-qualified renderings" rests on how
	// DecodeAddress prepares its input for the CashAddr decoder — C02's whole-input, own-prefix and canonical-input
	// clauses are C01's as much as C02's
	r.Borrow("C02", func(o *Ob) (string, bool) {
		switch o.Rule {
		case "C02.whole", "C02.net", "C02.canon":
			return "C01.input", true
		}
		return "", false
	})
	r.Floor("C01.input", 4)
	// round 5 (C01-agent5-m2): a public-key serialisation assembled from big.Int.Bytes() loses leading zero bytes
	padObligations(p, r, "C01.pad", pkgFuncs(p, ""))
	r.Floor("C01.pad", 0)
	// lazily cached renderings must follow what they were computed from
	for _, nt := range addrTypes {
		memoCoherence(p, r, "C01.memo", "", nt.Obj().Name(), nil)
	}
}

func keysOf(m map[int64]bool) []int64 {
	var out []int64
	for k := range m {
		out = append(out, k)
	}
	sort.Slice(out, func(i, j int) bool { return out[i] < out[j] })
	return out
}

func c01pubkey(p *Program, r *Report, da *ssa.Function) {
	// constants compared with len(addr) on the path to hex.DecodeString
	var consts []int64
	for _, b := range da.Blocks {
		for _, in := range b.Instrs {
			c, ok := in.(*ssa.Call)
			if !ok || !staticCalleeIs(&c.Call, "encoding/hex.DecodeString") {
				continue
			}
			// the comparisons guarding this block: len(param) == K chains
			for _, pb := range da.Blocks {
				iff, ok := lastInstr(pb).(*ssa.If)
				if !ok {
					continue
				}
				bo, ok := iff.Cond.(*ssa.BinOp)
				if !ok || bo.Op != token.EQL {
					continue
				}
				lc, ok := bo.X.(*ssa.Call)
				if !ok || !isBuiltin(&lc.Call, "len") || lc.Call.Args[0] != ssa.Value(da.Params[0]) {
					continue
				}
				if k, ok := constInt(bo.Y); ok && reachableFrom(pb.Succs[0], nil)[b] {
					consts = append(consts, k)
				}
			}
		}
	}
	sort.Slice(consts, func(i, j int) bool { return consts[i] < consts[j] })
	want := []int64{}
	if pk := p.TPkg(""); pk != nil {
		for _, imp := range pk.Types.Imports() {
			if imp.Path() == "github.com/gcash/bchd/bchec" {
				for _, n := range []string{"PubKeyBytesLenCompressed", "PubKeyBytesLenUncompressed"} {
					if c, ok := imp.Scope().Lookup(n).(*types.Const); ok {
						var v int64
						fmt.Sscan(c.Val().String(), &v)
						want = append(want, 2*v)
					}
				}
			}
		}
	}
	sort.Slice(want, func(i, j int) bool { return want[i] < want[j] })
	r.Add("C01.kinds", FnName(da), "hex arm accepts exactly twice the compressed / uncompressed key lengths", da.Pos(), fmt.Sprint(consts) == fmt.Sprint(want) && len(want) == 2,
		fmt.Sprintf("lengths %v, curve package says %v", consts, want))
	// String() and ScriptAddress() go through the same serialiser
	s := p.Func("", "(*AddressPubKey).String")
	sa := p.Func("", "(*AddressPubKey).ScriptAddress")
	if s == nil || sa == nil {
		r.Unresolved("C01.kinds", "(*AddressPubKey).String / ScriptAddress")
		return
	}
	helper := func(fn *ssa.Function) *ssa.Function {
		for _, b := range fn.Blocks {
			for _, in := range b.Instrs {
				if c, ok := in.(*ssa.Call); ok {
					if cal := c.Call.StaticCallee(); cal != nil && p.InRepo(cal) && isMethodOf(cal, derefType(fn.Params[0].Type())) {
						return cal
					}
				}
			}
		}
		return nil
	}
	h1, h2 := helper(s), helper(sa)
	r.Add("C01.kinds", FnName(s), "String() and ScriptAddress() serialise through the same format-dispatching helper", s.Pos(), h1 != nil && h1 == h2, "hex(String) is the script payload")
}

func c01membership(p *Program, r *Report, addrTypes []*types.Named) {
	root := p.Pkg("")
	for _, nt := range addrTypes {
		name := nt.Obj().Name()
		isf := p.Func("", "(*"+name+").IsForNet")
		if isf == nil {
			r.Unresolved("C01.membership", name+".IsForNet")
			continue
		}
		var F, G *types.Var
		for _, b := range isf.Blocks {
			for _, in := range b.Instrs {
				bo, ok := in.(*ssa.BinOp)
				if !ok || bo.Op != token.EQL {
					continue
				}
				for _, pr := range [][2]ssa.Value{{bo.X, bo.Y}, {bo.Y, bo.X}} {
					f1, b1, ok1 := fieldLoad(pr[0])
					f2, b2, ok2 := fieldLoad(pr[1])
					if ok1 && ok2 && b1 == ssa.Value(isf.Params[0]) && b2 == ssa.Value(isf.Params[1]) {
						F, G = f1, f2
					}
				}
			}
		}
		if F == nil {
			r.Undecided("C01.membership", FnName(isf), "membership compares a stored field with a Params field", isf.Pos(), "comparison not recognised")
			continue
		}
		// every store into field F anywhere in the package: the Params field it comes from
		srcs := map[string]bool{}
		var walkVal func(v ssa.Value, fn *ssa.Function, depth int)
		walkVal = func(v ssa.Value, fn *ssa.Function, depth int) {
			if depth > 3 {
				return
			}
			if g, _, ok := fieldLoad(v); ok {
				if n := namedOf(g.Pkg().Scope().Lookup("Params").Type()); n != nil || true {
					srcs[g.Name()] = true
				}
				return
			}
			if pa, ok := v.(*ssa.Parameter); ok {
				pi := paramIndex(fn, pa)
				for _, g := range pkgFuncs(p, "") {
					for _, b := range g.Blocks {
						for _, in := range b.Instrs {
							if c, ok := in.(*ssa.Call); ok && c.Call.StaticCallee() == fn && pi < len(c.Call.Args) {
								walkVal(c.Call.Args[pi], g, depth+1)
							}
						}
					}
				}
				return
			}
			if ex, ok := v.(*ssa.Extract); ok {
				srcs["<decoded:"+exprString(ex)+">"] = true
				return
			}
			srcs["<"+exprString(v)+">"] = true
		}
		for _, fn := range pkgFuncs(p, "") {
			if fn.Pkg != root {
				continue
			}
			for _, b := range fn.Blocks {
				for _, in := range b.Instrs {
					st, ok := in.(*ssa.Store)
					if !ok {
						continue
					}
					fa, ok := st.Addr.(*ssa.FieldAddr)
					if !ok || fieldOfAddr(fa) != F {
						continue
					}
					walkVal(st.Val, fn, 0)
				}
			}
		}
		var names []string
		okAll := srcs[G.Name()]
		for s := range srcs {
			names = append(names, s)
			if s == G.Name() || s == "SlpAddressPrefix" || strings.HasPrefix(s, "<decoded:") {
				continue
			}
			okAll = false
		}
		sort.Strings(names)
		r.Add("C01.membership", FnName(isf), name+".IsForNet tests the Params field its constructors store", isf.Pos(), okAll,
			fmt.Sprintf("field %s compared with Params.%s; stored from %v (the SLP constructors store the SLP prefix; decoded version bytes come from the string)", F.Name(), G.Name(), names))
	}
	r.Floor("C01.membership", 6)
}

func c01hashing(p *Program, r *Report, addrTypes []*types.Named) {
	root := p.Pkg("")
	n := 0
	for _, fn := range pkgFuncs(p, "") {
		if fn.Pkg != root || fn.Parent() != nil || fn.Object() == nil || !fn.Object().Exported() || fn.Signature.Recv() != nil || len(fn.Params) == 0 {
			continue
		}
		res := fn.Signature.Results()
		if res.Len() == 0 {
			continue
		}
		nt := namedOf(res.At(0).Type())
		isAddr := false
		for _, a := range addrTypes {
			if a == nt {
				isAddr = true
			}
		}
		if !isAddr {
			continue
		}
		if _, ok := fn.Params[0].Type().Underlying().(*types.Slice); !ok {
			continue
		}
		// does it hash its first parameter through an in-repo helper?
		lc := NewLinCtx(p, fn)
		ev := NewBSeqEval(p, lc)
		for _, b := range fn.Blocks {
			for _, in := range b.Instrs {
				c, ok := in.(*ssa.Call)
				if !ok || c.Call.StaticCallee() == nil || !p.InRepo(c.Call.StaticCallee()) || len(c.Call.Args) != 1 || c.Call.Args[0] != ssa.Value(fn.Params[0]) {
					continue
				}
				if _, isSl := c.Type().Underlying().(*types.Slice); !isSl {
					continue
				}
				n++
				t := ev.Eval(c)
				hl := arrayFieldLen(nt)
				want := "ripemd160(sha256(script))"
				ok2 := false
				if hl == 32 {
					want = "sha256(sha256(script))"
					if x, ok := isDoubleSHA256Of(t); ok && x.Kind == "val" && x.Val == ssa.Value(fn.Params[0]) {
						ok2 = true
					}
				} else if t.Kind == "hash" && t.Alg == "ripemd160" && len(t.Parts) == 1 {
					in := t.Parts[0]
					if in.Kind == "hash" && in.Alg == "sha256" && len(in.Parts) == 1 && in.Parts[0].Kind == "val" && in.Parts[0].Val == ssa.Value(fn.Params[0]) {
						ok2 = true
					}
				}
				r.Add("C01.hashing", FnName(fn), fmt.Sprintf("script is hashed as %s for the %d-byte kind", want, hl), c.Pos(), ok2, "computed: "+ev.Pretty(t))
				// the constructor is total on scripts: it rejects nothing itself, only the hash-taking constructor it delegates to can
				ei := errResultIndex(fn)
				for _, ret := range returnsOf(fn) {
					if ei < 0 || ei >= len(ret.Results) {
						continue
					}
					ev2 := ret.Results[ei]
					okTotal := isNilConst(ev2)
					how := "error result " + exprString(ev2)
					if ex, ok := ev2.(*ssa.Extract); ok {
						if dc, ok := ex.Tuple.(*ssa.Call); ok && dc.Call.StaticCallee() != nil && p.InRepo(dc.Call.StaticCallee()) {
							// the delegate receives the hash computed above
							for _, a := range dc.Call.Args {
								if a == ssa.Value(c) {
									okTotal = true
									how = "error comes from " + FnName(dc.Call.StaticCallee()) + " applied to the hash"
								}
							}
						}
					}
					r.Add("C01.hashing", FnName(fn), "the script-taking constructor accepts every script (no rejection of its own)", ret.Pos(), okTotal, how)
				}
			}
		}
	}
	if n < 3 {
		r.Add("C01.hashing", "-", fmt.Sprintf("vacuity: %d script-taking constructors found, floor 3", n), token.NoPos, false, "kind=below-floor")
	}
	r.Floor("C01.hashing", 6)
}

// c01stages: DecodeAddress tries the formats in turn; a stage may give a verdict (return) only on a
// string it has recognised, otherwise the string must fall through to the later stages, or legacy
// and public-key strings (which never pass the CashAddr checksum) stop decoding.
func c01stages(p *Program, r *Report, da *ssa.Function) {
	cash := p.Func("", "checkDecodeCashAddress")
	b58 := p.Func("base58", "CheckDecode")
	if cash == nil || b58 == nil {
		r.Unresolved("C01.stages", "checkDecodeCashAddress / base58.CheckDecode")
		return
	}
	var laterBlocks []*ssa.BasicBlock
	cashErr := map[ssa.Value]bool{} // error results of the CashAddr stage calls
	for _, b := range da.Blocks {
		for _, in := range b.Instrs {
			c, ok := in.(*ssa.Call)
			if !ok {
				continue
			}
			switch {
			case c.Call.StaticCallee() == cash:
				for _, ref := range *c.Referrers() {
					if ex, ok := ref.(*ssa.Extract); ok && ex.Index == errResultIndex(cash) {
						cashErr[ex] = true
					}
				}
			case c.Call.StaticCallee() == b58 || staticCalleeIs(&c.Call, "encoding/hex.DecodeString"):
				laterBlocks = append(laterBlocks, b)
			}
		}
	}
	if len(cashErr) == 0 || len(laterBlocks) < 2 {
		r.Unresolved("C01.stages", "the CashAddr, hex and Base58Check stages of DecodeAddress")
		return
	}
	n := 0
	for _, ret := range returnsOf(da) {
		rb := ret.Block()
		inLater := false
		for _, lb := range laterBlocks {
			if lb.Dominates(rb) {
				inLater = true
			}
		}
		if inLater {
			continue
		}
		n++
		conds := MustCondsAtBlock(da, rb)
		recognised := false
		onlyLength := len(conds) > 0
		for _, cd := range conds {
			bo, truth, ok := condBinOp(cd)
			if !ok {
				onlyLength = false
				continue
			}
			if (bo.Op == token.EQL && truth || bo.Op == token.NEQ && !truth) && (cashErr[bo.X] && isNilConst(bo.Y) || cashErr[bo.Y] && isNilConst(bo.X)) {
				recognised = true
			}
			isLen := func(v ssa.Value) bool {
				c, ok := v.(*ssa.Call)
				return ok && isBuiltin(&c.Call, "len") && c.Call.Args[0] == ssa.Value(da.Params[0])
			}
			if !isLen(bo.X) && !isLen(bo.Y) {
				onlyLength = false
			}
		}
		if !onlyLength && len(rb.Preds) > 0 {
			// short-circuit guard: every edge into the return is a comparison on len(addr), evaluated before any stage ran
			onlyLength = true
			for _, pb := range rb.Preds {
				cd, ok := edgeCond(pb, rb)
				bo, _, ok2 := condBinOp(cd)
				if !ok || !ok2 {
					onlyLength = false
					continue
				}
				isLen := func(v ssa.Value) bool {
					c, ok := v.(*ssa.Call)
					return ok && isBuiltin(&c.Call, "len") && c.Call.Args[0] == ssa.Value(da.Params[0])
				}
				if !isLen(bo.X) && !isLen(bo.Y) {
					onlyLength = false
				}
				for _, lb := range laterBlocks {
					if reachableFrom(lb, nil)[pb] {
						onlyLength = false
					}
				}
				for ce := range cashErr {
					if reachableFrom(ce.(*ssa.Extract).Block(), nil)[pb] {
						onlyLength = false
					}
				}
			}
		}
		what := "a CashAddr-stage return happens only after the CashAddr checksum accepted the string"
		switch {
		case recognised:
			r.Add("C01.stages", FnName(da), what, ret.Pos(), true, "dominated by err == nil of checkDecodeCashAddress")
		case onlyLength:
			r.Except("C01.stages", FnName(da), what, ret.Pos(), "entry length guard: only conditions on len(addr) lead here; premise: every legacy, public-key and CashAddr string is longer than the longest prefix plus two")
		default:
			r.Add("C01.stages", FnName(da), what, ret.Pos(), false, "a string the CashAddr stage did not recognise is rejected before the public-key and Base58Check stages run")
		}
	}
	if n == 0 {
		r.Unresolved("C01.stages", "returns of the CashAddr stage")
	}
	// the public-key stage is entered for every string of a key length the CashAddr stage passed on: nothing but the
	// length of the string (and the CashAddr stage's own outcome) stands between the two
	for _, b := range da.Blocks {
		for _, in := range b.Instrs {
			c, ok := in.(*ssa.Call)
			if !ok || !staticCalleeIs(&c.Call, "encoding/hex.DecodeString") {
				continue
			}
			var foreign []string
			for _, cd := range MustCondsAtBlock(da, b) {
				for _, l := range condLeaves(cd.V) {
					okL := false
					for _, a := range []string{`len\(param addr\)`, `len\(field CashAddressPrefix\)`, `len\(field SlpAddressPrefix\)`, `call .*bchutil\.checkDecodeCashAddress#[0-3]`, `global ErrChecksumMismatch`,
						`call strings\.EqualFold`, `field SlpAddressPrefix`, `field CashAddressPrefix`} {
						if regexp.MustCompile("^(?:" + a + ")$").MatchString(l) {
							okL = true
						}
					}
					if !okL {
						foreign = append(foreign, l)
					}
				}
			}
			sort.Strings(foreign)
			foreign = dedup(foreign)
			r.Add("C01.stages", FnName(da), "the public-key stage is gated by the string's length alone", c.Pos(), len(foreign) == 0,
				"further conditions on the way to the hex decoder read {"+strings.Join(foreign, ", ")+"}: some rendering of a public key may be passed on to Base58Check instead")
		}
	}
	r.Floor("C01.stages", 3)
}

// c01AcceptsAllow: what DecodeAddress may base a refusal on.
var c01AcceptsAllow = []string{
	`len\(param addr\)`, `len\(field CashAddressPrefix\)`, `len\(field SlpAddressPrefix\)`, // entry length guard
	`call .*bchutil\.checkDecodeCashAddress#[0-3]`, `len\(call .*bchutil\.checkDecodeCashAddress#0\)`, // CashAddr stage results
	`call encoding/hex\.DecodeString#1`,                                                                                           // public-key stage
	`call .*base58\.CheckDecode#[0-2]`, `len\(call .*base58\.CheckDecode#0\)`, `global ErrChecksum`, `global ErrChecksumMismatch`, // Base58Check stage
	`call .*chaincfg\.IsPubKeyHashAddrID`, `call .*chaincfg\.IsScriptHashAddrID`, // the registry's kind of the version byte
}

// opaqueUses lists the uses of v (a byte slice) that look at its CONTENT other than by copying it out: an element
// read, a comparison, a hand-over to code outside the repository.  len(v), copy(dst, v), append(dst, v...), re-slicing
// and hand-over to an in-repo function (followed into that function's parameter) are content-blind.
func opaqueUses(p *Program, v ssa.Value, depth int, seen map[ssa.Value]bool) []string {
	if seen[v] || depth > 6 {
		return nil
	}
	seen[v] = true
	var out []string
	refs := v.Referrers()
	if refs == nil {
		return nil
	}
	for _, ref := range *refs {
		switch x := ref.(type) {
		case *ssa.DebugRef:
		case *ssa.Slice:
			if x.X == v {
				out = append(out, opaqueUses(p, x, depth, seen)...)
			}
		case *ssa.Phi:
			out = append(out, opaqueUses(p, x, depth, seen)...)
		case *ssa.ChangeType:
			out = append(out, opaqueUses(p, x, depth, seen)...)
		case *ssa.Call:
			com := &x.Call
			if b, ok := com.Value.(*ssa.Builtin); ok {
				switch b.Name() {
				case "len", "cap":
					continue
				case "copy":
					if len(com.Args) == 2 && com.Args[1] == v && com.Args[0] != v {
						continue
					}
				case "append":
					if len(com.Args) == 2 && com.Args[1] == v && com.Args[0] != v {
						continue
					}
				}
				out = append(out, fmt.Sprintf("%s(…) at %s", b.Name(), p.Pos(x.Pos())))
				continue
			}
			cal := com.StaticCallee()
			if cal != nil && p.InRepo(cal) && len(cal.Blocks) > 0 {
				for i, a := range com.Args {
					if a == v && i < len(cal.Params) {
						out = append(out, opaqueUses(p, cal.Params[i], depth+1, seen)...)
					}
				}
				continue
			}
			out = append(out, fmt.Sprintf("handed to %s at %s", calleeName(com), p.Pos(x.Pos())))
		case *ssa.IndexAddr:
			out = append(out, fmt.Sprintf("element access at %s", p.Pos(x.Pos())))
		case *ssa.Store:
			if x.Val == v {
				// kept in a variable or a field: follow loads of a local, refuse anything else
				if al, ok := x.Addr.(*ssa.Alloc); ok {
					for _, r2 := range *al.Referrers() {
						if ld, ok := r2.(*ssa.UnOp); ok && ld.Op == token.MUL {
							out = append(out, opaqueUses(p, ld, depth, seen)...)
						}
					}
					continue
				}
				out = append(out, fmt.Sprintf("stored at %s", p.Pos(x.Pos())))
			}
		case *ssa.BinOp:
			if isNilConst(x.X) || isNilConst(x.Y) {
				continue
			}
			out = append(out, fmt.Sprintf("compared at %s", p.Pos(x.Pos())))
		case *ssa.Range, *ssa.Lookup, *ssa.Index:
			out = append(out, fmt.Sprintf("element access at %s", p.Pos(ref.Pos())))
		case *ssa.MakeInterface, *ssa.Convert:
			out = append(out, fmt.Sprintf("converted at %s", p.Pos(ref.Pos())))
		case *ssa.SliceToArrayPointer:
			// [N]byte(v) / (*[N]byte)(v): a copy-out of the whole value when only loaded once; treat the pointer's loads as copy
			continue
		default:
			out = append(out, fmt.Sprintf("%T at %s", ref, p.Pos(ref.Pos())))
		}
	}
	return out
}

// c01total (round 5, C01-agent5-m3): the hash-taking constructors accept every hash of the right length — they treat
// the bytes as opaque.  A constructor (or a validation helper it calls) that looks at the content can refuse a hash
// that the format encodes perfectly well (the all-zero "burn" hash), and then that address no longer round-trips.
func c01total(p *Program, r *Report, addrTypes []*types.Named) {
	root := p.Pkg("")
	n := 0
	for _, fn := range pkgFuncs(p, "") {
		if fn.Pkg != root || fn.Parent() != nil || fn.Signature.Recv() != nil || len(fn.Params) == 0 || errResultIndex(fn) < 0 {
			continue
		}
		nt := namedOf(fn.Signature.Results().At(0).Type())
		isAddr := false
		for _, a := range addrTypes {
			if a == nt {
				isAddr = true
			}
		}
		if !isAddr || arrayFieldLen(nt) <= 0 {
			continue
		}
		sl, ok := fn.Params[0].Type().Underlying().(*types.Slice)
		if !ok {
			continue
		}
		if b, ok := sl.Elem().Underlying().(*types.Basic); !ok || b.Kind() != types.Uint8 {
			continue
		}
		// script-taking constructors hash their argument (C01.hashing decides those)
		hashes := false
		for _, ref := range *fn.Params[0].Referrers() {
			if c, ok := ref.(*ssa.Call); ok && c.Call.StaticCallee() != nil && len(c.Call.Args) == 1 {
				if _, isSl := c.Type().Underlying().(*types.Slice); isSl {
					hashes = true
				}
			}
		}
		if hashes {
			continue
		}
		n++
		uses := opaqueUses(p, fn.Params[0], 0, map[ssa.Value]bool{})
		sort.Strings(uses)
		uses = dedup(uses)
		how := "the hash is only measured (len) and copied into the address"
		if len(uses) > 0 {
			how = "content-dependent uses: " + strings.Join(uses, "; ")
		}
		r.Add("C01.total", FnName(fn), "the hash-taking constructor treats the hash bytes as opaque (every hash of the right length is accepted)", fn.Pos(), len(uses) == 0, how)
		// sweep survivor (`len(hash) != size` turned into `==`): an accepting return knows the hash has exactly the size of
		// the type's hash array — unless the constructor only delegates to another one that is checked here
		{
			lcx := NewLinCtx(p, fn)
			want := arrayFieldLen(nt)
			for i, ap := range acceptPoints(fn) {
				if ap.Delegate != nil {
					continue
				}
				delegated := false
				if ex, ok := ap.Ret.Results[0].(*ssa.Extract); ok {
					if _, isC := ex.Tuple.(*ssa.Call); isC {
						delegated = true
					}
				}
				// a result that came out of another constructor of the family (the SLP variants re-label it)
				for _, b := range fn.Blocks {
					for _, in := range b.Instrs {
						if c, ok := in.(*ssa.Call); ok && c.Call.StaticCallee() != nil && p.InRepo(c.Call.StaticCallee()) {
							for _, a := range c.Call.Args {
								if a == ssa.Value(fn.Params[0]) {
									delegated = true
								}
							}
						}
					}
				}
				if delegated {
					continue
				}
				f := lcx.FactsOf(MustConds(fn, ap))
				okLen := lcx.EntailsEq(f, lcx.LenLin(fn.Params[0]).addConst(-want))
				r.Add("C01.total", FnName(fn), fmt.Sprintf("accepting return #%d knows the hash has exactly %d bytes", i+1, want), ap.Ret.Pos(), okLen, "len(hash) == size of the hash array on every accepting path")
				// second sweep (the `copy(addr.hash[:], hash)` statement deleted in the P2SH32 constructor, unnoticed by the
				// suite): the address handed out has been filled from the hash argument — a copy (or store) whose
				// destination lies in the returned object and whose source is the parameter, before the return
				filled := false
				for _, b := range fn.Blocks {
					if !(b == ap.Ret.Block() || b.Dominates(ap.Ret.Block())) {
						continue
					}
					for _, in := range b.Instrs {
						// `addr.hash = [N]byte(hash)` / `*(*[N]byte)(hash)`: a store of the converted argument
						if st, isSt := in.(*ssa.Store); isSt {
							if fa, isFA := st.Addr.(*ssa.FieldAddr); isFA && canonRoot(fa.X) == canonRoot(ap.Ret.Results[0]) {
								v := st.Val
								for k := 0; k < 6; k++ {
									switch x := v.(type) {
									case *ssa.UnOp:
										v = x.X
									case *ssa.SliceToArrayPointer:
										v = x.X
									case *ssa.Convert:
										v = x.X
									case *ssa.ChangeType:
										v = x.X
									case *ssa.Slice:
										v = x.X
									}
								}
								if v == ssa.Value(fn.Params[0]) {
									filled = true
								}
								// `var h [N]byte; copy(h[:], hash); return &T{hash: h, …}` (benign round 4, C01-y1): the stored
								// value is a load of a local array that a copy from the argument filled
								if ld, isLd := st.Val.(*ssa.UnOp); isLd && ld.Op == token.MUL {
									if la, isAl := ld.X.(*ssa.Alloc); isAl {
										for _, bb := range fn.Blocks {
											for _, ii := range bb.Instrs {
												cc, ok := ii.(*ssa.Call)
												if !ok || !isBuiltin(&cc.Call, "copy") || len(cc.Call.Args) != 2 {
													continue
												}
												dsl, ok := cc.Call.Args[0].(*ssa.Slice)
												if !ok || dsl.X != ssa.Value(la) {
													continue
												}
												src := cc.Call.Args[1]
												if ssl, isSl := src.(*ssa.Slice); isSl {
													src = ssl.X
												}
												if src == ssa.Value(fn.Params[0]) && (bb == b || bb.Dominates(b)) {
													filled = true
												}
											}
										}
									}
								}
							}
							continue
						}
						c, ok := in.(*ssa.Call)
						if !ok || !isBuiltin(&c.Call, "copy") || len(c.Call.Args) != 2 {
							continue
						}
						dst, src := c.Call.Args[0], c.Call.Args[1]
						fromParam := src == ssa.Value(fn.Params[0])
						if sl, isSl := src.(*ssa.Slice); isSl && sl.X == ssa.Value(fn.Params[0]) {
							fromParam = true
						}
						intoResult := false
						if sl, isSl := dst.(*ssa.Slice); isSl {
							if fa, isFA := sl.X.(*ssa.FieldAddr); isFA && canonRoot(fa.X) == canonRoot(ap.Ret.Results[0]) {
								intoResult = true
							}
						}
						if fromParam && intoResult {
							filled = true
						}
					}
				}
				r.Add("C01.total", FnName(fn), fmt.Sprintf("accepting return #%d hands out an address filled from the hash argument", i+1), ap.Ret.Pos(), filled, "copy(<result>.hash[:], hash) on the way to the return")
			}
		}
	}
	if n == 0 {
		r.Unresolved("C01.total", "hash-taking address constructors")
	}
	r.Floor("C01.total", 3)
	// second sweep: a conversion method that builds another address kind itself (AddressPubKey.AddressPubKeyHash) fills
	// the object it returns with the hash it computed — `copy(addr.hash[:], Hash160(a.serialize()))` deleted leaves an
	// all-zero hash and passes the suite
	for _, nt := range addrTypes {
		for _, m := range p.Methods("", nt.Obj().Name()) {
			if len(m.Blocks) == 0 || m.Signature.Results().Len() != 1 || len(m.Params) != 1 {
				continue
			}
			rt := namedOf(m.Signature.Results().At(0).Type())
			isAddr := false
			for _, a := range addrTypes {
				if a == rt && a != nt {
					isAddr = true
				}
			}
			if !isAddr || arrayFieldLen(rt) <= 0 {
				continue
			}
			for _, ret := range returnsOf(m) {
				al, isAlloc := canonRoot(ret.Results[0]).(*ssa.Alloc)
				if !isAlloc {
					continue // delegates to a constructor
				}
				filled := false
				for _, b := range m.Blocks {
					if !(b == ret.Block() || b.Dominates(ret.Block())) {
						continue
					}
					for _, in := range b.Instrs {
						c, ok := in.(*ssa.Call)
						if !ok || !isBuiltin(&c.Call, "copy") || len(c.Call.Args) != 2 {
							continue
						}
						sl, isSl := c.Call.Args[0].(*ssa.Slice)
						if !isSl {
							continue
						}
						fa, isFA := sl.X.(*ssa.FieldAddr)
						if !isFA || canonRoot(fa.X) != ssa.Value(al) {
							continue
						}
						if hc, isCall := c.Call.Args[1].(*ssa.Call); isCall && hc.Call.StaticCallee() != nil && p.InRepo(hc.Call.StaticCallee()) {
							filled = true
						}
					}
				}
				r.Add("C01.hashing", FnName(m), "the converted address is filled with the hash computed from the receiver", ret.Pos(), filled, "copy(<result>.hash[:], <hash of the serialised key>) on the way to the return")
			}
		}
	}
}

// addrPureRule (round 6, C02-agent6-m3): decoding, converting and rendering an address write nothing the caller can
// see.  Functions of the root package that take or return an address write no memory reachable from their arguments;
// methods of the address types write at most a field of their own receiver (setters).  A conversion helper that
// "copies" a decoded address by copying the POINTER and then sets the prefix re-labels the caller's address.
func addrPureRule(p *Program, r *Report, rule string, addrTypes []*types.Named) int {
	ef := NewEffects(p)
	root := p.Pkg("")
	isAddrT := func(t types.Type) bool {
		nt := namedOf(t)
		if nt == nil {
			return false
		}
		if nt.Obj().Pkg() != nil && nt.Obj().Pkg().Path() == ModPath && nt.Obj().Name() == "Address" {
			return true
		}
		for _, a := range addrTypes {
			if a == nt {
				return true
			}
		}
		return false
	}
	n := 0
	for _, fn := range pkgFuncs(p, "") {
		if fn.Pkg != root || fn.Parent() != nil || fn.Synthetic != "" || fn.Object() == nil || !fn.Object().Exported() {
			continue
		}
		touches := false
		for _, pa := range fn.Params {
			if isAddrT(pa.Type()) {
				touches = true
			}
		}
		res := fn.Signature.Results()
		for i := 0; i < res.Len(); i++ {
			if isAddrT(res.At(i).Type()) {
				touches = true
			}
		}
		if !touches {
			continue
		}
		n++
		isMethod := fn.Signature.Recv() != nil
		var bad []string
		for _, e := range ef.WriteEffects(fn) {
			switch e.Root.Kind {
			case rkParam:
				if isMethod && e.Root.Idx == 0 && strings.HasPrefix(e.Root.Path, "*.") && !strings.Contains(e.Root.Path[2:], "*") && !strings.Contains(e.Root.Path[2:], ".") {
					continue // a field of the receiver itself
				}
				bad = append(bad, fmt.Sprintf("%s → %s at %s", e.What, e.Root, p.Pos(e.Pos)))
			case rkGlobal:
				bad = append(bad, fmt.Sprintf("%s → package-level %s at %s", e.What, e.Root, p.Pos(e.Pos)))
			}
		}
		sort.Strings(bad)
		bad = dedup(bad)
		how := "no store, copy or writer call targets memory reachable from an argument"
		if len(bad) > 0 {
			how = strings.Join(bad, "; ")
		}
		r.Add(rule, FnName(fn), "the operation leaves its arguments (and package-level state) untouched", fn.Pos(), len(bad) == 0, how)
	}
	return n
}

// c01slpPrefix (sweep survivor, address.go NewSlpAddressScriptHash32FromHash `addr != nil` → `== nil`): a constructor that
// re-labels an address with the network's SLP prefix does so for EVERY address it hands out — no return is reachable,
// around the store, on a path that has not established that the address is nil.
func c01slpPrefix(p *Program, r *Report) {
	n := 0
	relabels := map[*ssa.Function]bool{}
	defer func() {
		// second sweep (the re-labelling statement deleted): every exported NewSlp… constructor of the root package
		// re-labels, or returns what another one that does has built
		for _, fn := range pkgFuncs(p, "") {
			if fn.Pkg != p.Pkg("") || fn.Parent() != nil || fn.Object() == nil || !fn.Object().Exported() || !strings.HasPrefix(fn.Name(), "NewSlp") || relabels[fn] {
				continue
			}
			delegates := false
			for _, b := range fn.Blocks {
				for _, in := range b.Instrs {
					if c, ok := in.(*ssa.Call); ok && c.Call.StaticCallee() != nil && relabels[c.Call.StaticCallee()] {
						delegates = true
					}
				}
			}
			r.Add("C01.membership", FnName(fn), "the SLP constructor re-labels every address it returns", fn.Pos(), delegates, "no store of Params.SlpAddressPrefix into the result and no call of a constructor that stores it")
		}
	}()
	for _, fn := range pkgFuncs(p, "") {
		if fn.Pkg != p.Pkg("") || fn.Parent() != nil {
			continue
		}
		for _, b := range fn.Blocks {
			for _, in := range b.Instrs {
				st, ok := in.(*ssa.Store)
				if !ok {
					continue
				}
				f, _, isF := fieldLoad(st.Val)
				if !isF || f.Name() != "SlpAddressPrefix" {
					continue
				}
				fa, ok := st.Addr.(*ssa.FieldAddr)
				if !ok {
					continue
				}
				obj := fa.X // the address being re-labelled
				n++
				relabels[fn] = true
				// search: entry → return, never entering b, never taking an edge that says obj == nil
				type stt struct{ blk *ssa.BasicBlock }
				seen := map[*ssa.BasicBlock]bool{}
				var bad *ssa.Return
				var walk func(x *ssa.BasicBlock)
				walk = func(x *ssa.BasicBlock) {
					if seen[x] || x == b || bad != nil {
						return
					}
					seen[x] = true
					if ret, isR := lastInstr(x).(*ssa.Return); isR {
						if len(ret.Results) > 0 && !isNilConst(ret.Results[0]) {
							bad = ret
						}
						return
					}
					iff, isIf := lastInstr(x).(*ssa.If)
					for k, nx := range x.Succs {
						if isIf {
							if bo, isB := iff.Cond.(*ssa.BinOp); isB && (bo.Op == token.EQL || bo.Op == token.NEQ) {
								if (bo.X == obj && isNilConst(bo.Y)) || (bo.Y == obj && isNilConst(bo.X)) {
									saysNil := (bo.Op == token.EQL) == (k == 0)
									if saysNil {
										continue // on this edge the address is nil: nothing to re-label
									}
								}
							}
						}
						walk(nx)
					}
				}
				walk(fn.Blocks[0])
				how := "every return that can hand out an address passes the store of the SLP prefix"
				pos := st.Pos()
				if bad != nil {
					how = "a return at " + p.Pos(bad.Pos()) + " can hand out an address that was not given the SLP prefix"
				}
				r.Add("C01.membership", FnName(fn), "the SLP constructor re-labels every address it returns", pos, bad == nil, how)
			}
		}
	}
	if n == 0 {
		r.Unresolved("C01.membership", "constructors storing Params.SlpAddressPrefix")
	}
}

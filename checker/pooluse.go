package main

import (
	"fmt"
	"go/token"
	"os"

	"golang.org/x/tools/go/ssa"
)

// sync.Pool discipline.
//
// An object taken from a sync.Pool is recycled memory: whoever put it there may still hold it, and it comes with
// whatever contents it was put back with.  The origin analysis therefore treats the result of Get as *unknown* memory,
// and every write into it fails the purity rules.  That is right for the misuses the mutation rounds produced (a
// slice of the pooled buffer returned after a deferred Put, a reader built over it handed out, a pooled map only
// partly wiped) and wrong for the honest use: take an object, use it, put it back, keep nothing.  poolDiscipline decides
// the honest use, per Get call, inside the calling function:
//
//	(1) nothing derived from the object by aliasing (type assertion, load of the pointer it holds, slice, element or
//	    field address, φ, the result of a library call that keeps or returns its argument) is returned, stored into
//	    memory that is not itself derived from the object, captured by a closure or goroutine, or handed to an
//	    in-repo callee that retains it;
//	(2) no use of anything derived can run after a Put of the object that is not deferred.
//
// When both hold, the Get result is scratch memory private to the call: its origin is a fresh site, marked *pooled*
// (Effects.Pooled) so that rules which need fresh *contents* (an index that must start empty) still refuse it.
func (e *Effects) poolDiscipline(get *ssa.Call) bool {
	if v, ok := e.poolOK[get]; ok {
		return v
	}
	if e.poolOK == nil {
		e.poolOK = map[*ssa.Call]bool{}
	}
	e.poolOK[get] = false // while computing
	fn := get.Parent()
	derived := map[ssa.Value]bool{get: true}
	for changed := true; changed; {
		changed = false
		add := func(v ssa.Value) {
			if !derived[v] {
				derived[v] = true
				changed = true
			}
		}
		for _, b := range fn.Blocks {
			for _, in := range b.Instrs {
				switch x := in.(type) {
				case *ssa.TypeAssert:
					if derived[x.X] {
						add(x)
					}
				case *ssa.Extract:
					if derived[x.Tuple] {
						add(x)
					}
				case *ssa.ChangeType:
					if derived[x.X] {
						add(x)
					}
				case *ssa.ChangeInterface:
					if derived[x.X] {
						add(x)
					}
				case *ssa.MakeInterface:
					if derived[x.X] {
						add(x)
					}
				case *ssa.UnOp:
					if x.Op == token.MUL && derived[x.X] && carriesRefs(x.Type()) {
						add(x)
					}
				case *ssa.Slice:
					if derived[x.X] {
						add(x)
					}
				case *ssa.IndexAddr:
					if derived[x.X] {
						add(x)
					}
				case *ssa.FieldAddr:
					if derived[x.X] {
						add(x)
					}
				case *ssa.Phi:
					for _, ed := range x.Edges {
						if derived[ed] {
							add(x)
						}
					}
				case *ssa.Store:
					// a local variable (also the spilled result variable of a function with defers) holding it
					if al, ok := x.Addr.(*ssa.Alloc); ok && !al.Heap && derived[x.Val] {
						add(al)
					}
				case *ssa.Call:
					if bi, ok := x.Call.Value.(*ssa.Builtin); ok && bi.Name() == "append" && derived[x.Call.Args[0]] {
						add(x) // may still be the same array
					}
					// a call outside the repository (or through an interface) that is handed the object and returns
					// something that can hold a reference: the result may be, or keep, the object (hash.Hash.Sum(b),
					// bytes.NewBuffer(b), (*big.Int).SetBytes …)
					if _, isB := x.Call.Value.(*ssa.Builtin); !isB {
						cal := x.Call.StaticCallee()
						if cal == nil || !e.p.InRepo(cal) || len(cal.Blocks) == 0 {
							if carriesRefs(x.Type()) {
								for _, a := range x.Call.Args {
									if derived[a] {
										add(x)
									}
								}
								if x.Call.IsInvoke() && derived[x.Call.Value] {
									add(x)
								}
							}
						}
					}
				}
			}
		}
	}
	isPut := func(in ssa.Instruction) (ssa.CallInstruction, bool) {
		ci, ok := in.(ssa.CallInstruction)
		if !ok {
			return nil, false
		}
		cal := ci.Common().StaticCallee()
		if cal == nil || cal.String() != "(*sync.Pool).Put" || len(ci.Common().Args) < 2 {
			return nil, false
		}
		return ci, derived[ci.Common().Args[1]]
	}
	var puts []ssa.Instruction
	for _, b := range fn.Blocks {
		for _, in := range b.Instrs {
			// (1) escapes
			switch x := in.(type) {
			case *ssa.Return:
				for _, rv := range x.Results {
					if derived[rv] {
						return poolFail(get, 1)
					}
				}
			case *ssa.Store:
				if derived[x.Val] && !derived[x.Addr] {
					// a local variable that only this function reads is fine (its loads are tracked below)
					if al, ok := x.Addr.(*ssa.Alloc); ok && !al.Heap {
						derived[al] = true
						continue
					}
					return poolFail(get, 2)
				}
			case *ssa.MapUpdate:
				if (derived[x.Value] || derived[x.Key]) && !derived[x.Map] {
					return poolFail(get, 3)
				}
			case *ssa.Send:
				if derived[x.X] {
					return poolFail(get, 4)
				}
			case *ssa.MakeClosure:
				for _, bnd := range x.Bindings {
					if derived[bnd] {
						return poolFail(get, 5)
					}
				}
			case *ssa.Go:
				for _, a := range x.Call.Args {
					if derived[a] {
						return poolFail(get, 6)
					}
				}
			}
			if ci, ok := in.(ssa.CallInstruction); ok {
				if _, put := isPut(in); put {
					if _, deferred := in.(*ssa.Defer); !deferred {
						puts = append(puts, in)
					}
					continue
				}
				if _, isDefer := in.(*ssa.Defer); isDefer {
					if cal := ci.Common().StaticCallee(); cal != nil && cal.String() == "(*sync.Pool).Put" {
						continue
					}
				}
				cal := ci.Common().StaticCallee()
				if cal != nil && e.p.InRepo(cal) && len(cal.Blocks) > 0 {
					for ai, a := range ci.Common().Args {
						if !derived[a] {
							continue
						}
						// the callee must not keep it: no store of that parameter into other memory, not returned
						for _, sf := range e.StoreFacts(cal) {
							for r := range sf.Vals {
								if r.Kind == rkParam && r.Idx == ai {
									return poolFail(get, 7)
								}
							}
						}
						for _, rs := range e.returnSummary(cal) {
							for r := range rs {
								if r.Kind == rkParam && r.Idx == ai {
									return poolFail(get, 8)
								}
							}
						}
					}
				}
				if _, isBuiltin := ci.Common().Value.(*ssa.Builtin); cal == nil && !ci.Common().IsInvoke() && !isBuiltin {
					for _, a := range ci.Common().Args {
						if derived[a] {
							return poolFail(get, 9) // handed to an unknown function value
						}
					}
				}
			}
		}
	}
	// loads of local variables that hold the object
	for changed := true; changed; {
		changed = false
		for _, b := range fn.Blocks {
			for _, in := range b.Instrs {
				if u, ok := in.(*ssa.UnOp); ok && u.Op == token.MUL && derived[u.X] && !derived[u] {
					if _, isAlloc := u.X.(*ssa.Alloc); isAlloc {
						derived[u] = true
						changed = true
					}
				}
			}
		}
	}
	// (2) no use after a non-deferred Put
	for _, p := range puts {
		after := map[*ssa.BasicBlock]bool{}
		for _, s := range p.Block().Succs {
			for b := range reachableFrom(s, nil) {
				after[b] = true
			}
		}
		usedAfter := func(in ssa.Instruction) bool {
			if _, put := isPut(in); put {
				return poolFail(get, 10)
			}
			for _, op := range in.Operands(nil) {
				if *op != nil && derived[*op] {
					return true
				}
			}
			return poolFail(get, 11)
		}
		seenP := false
		for _, in := range p.Block().Instrs {
			if in == p {
				seenP = true
				continue
			}
			if seenP && usedAfter(in) {
				return poolFail(get, 12)
			}
		}
		for b := range after {
			for _, in := range b.Instrs {
				if b == p.Block() && !after[p.Block()] {
					continue
				}
				if usedAfter(in) {
					return poolFail(get, 13)
				}
			}
		}
	}
	e.poolOK[get] = true
	return true
}

func poolFail(get *ssa.Call, n int) bool {
	if os.Getenv("BCHVERIF_POOLDEBUG") != "" {
		fmt.Fprintf(os.Stderr, "pool discipline of %s in %s fails at check %d\n", get.String(), get.Parent().String(), n)
	}
	return false
}

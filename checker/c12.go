package main

import (
	"fmt"
	"go/token"
	"go/types"
	"sort"
	"strings"

	"golang.org/x/tools/go/ssa"
)

func init() { register("C12", checkC12) }

// fieldLoadsOf lists loads of recv.<f> in fn.
func fieldLoadsOf(fn *ssa.Function, recv ssa.Value, f *types.Var) []*ssa.UnOp {
	var out []*ssa.UnOp
	for _, b := range fn.Blocks {
		for _, in := range b.Instrs {
			u, ok := in.(*ssa.UnOp)
			if !ok || u.Op != token.MUL {
				continue
			}
			fa, ok := u.X.(*ssa.FieldAddr)
			if !ok || canonRoot(fa.X) != recv || fieldOfAddr(fa) != f {
				continue
			}
			out = append(out, u)
		}
	}
	return out
}

// isCeilDiv8 matches (x+7)/8 or (x+7)>>3 and returns x.
func isCeilDiv8(v ssa.Value) (ssa.Value, bool) {
	bo, ok := v.(*ssa.BinOp)
	if !ok {
		return nil, false
	}
	k, isK := constInt(bo.Y)
	if !isK || !(bo.Op == token.QUO && k == 8 || bo.Op == token.SHR && k == 3) {
		return nil, false
	}
	add, ok := bo.X.(*ssa.BinOp)
	if !ok || add.Op != token.ADD {
		return nil, false
	}
	if k, ok := constInt(add.Y); ok && k == 7 {
		return add.X, true
	}
	if k, ok := constInt(add.X); ok && k == 7 {
		return add.Y, true
	}
	return nil, false
}

func checkC12(p *Program, r *Report) {
	// round 6 (systematic): no unguarded mutable package-level state behind this property's functions (§2.9)
	sharedStateRule(p, r, NewEffects(p), "C12.shared", []string{"merkleblock/decode.go"})
	r.Floor("C12.shared", 0)
	// round 5 (C12-agent5-m3): the extractor walks the tree the builders write: its width function, right-child guard
	// and recursion tuple are compared with theirs under C11.shape / C11.width; an extractor that invents a right
	// child for the unpaired last transaction accepts a surplus hash as a leaf at position numTx
	defer func() {
		r.Borrow("C11", func(o *Ob) (string, bool) {
			if (o.Rule == "C11.shape" || o.Rule == "C11.width") && (strings.Contains(o.Func, "PartialBlock") || strings.Contains(o.Construct, "extract") || strings.Contains(o.Construct, "decoder") || strings.Contains(o.Func, "-")) {
				return "C12.shape", true
			}
			return "", false
		})
		r.Floor("C12.shape", 2)
	}()
	r.Explain = "C12.facts: every non-nil return of ExtractMatches lies, on all paths, behind the rejection tests the statement lists — " +
		"numTx ≠ 0, numTx ≤ MaxTxnCount, #hashes ≤ numTx, #bits ≥ #hashes, and, evaluated after the traversal, latch clear, ⌈bitsUsed/8⌉ = ⌈#bits/8⌉, " +
		"hashesUsed = #hashes — each with exactly the stated relation (linear entailment from must-pass-through branch facts). C12.cursor: in the " +
		"traversal both cursor reads are in range on every path and the out-of-range edges set the latch and return; equal children set the latch. " +
		"C12.latch: the failure latch is only ever set to true after construction (or reset to false at the start of an extraction). C12.fresh: ExtractMatches resets both cursors, the latch " +
		"and the two result lists before the traversal, so asking the same object twice cannot resume from a rejected traversal. Not decided: that the returned root equals an independent hash evaluation."
	r.Trusted = []string{"blockchain.HashMerkleBranches, chainhash.Hash.IsEqual", "wire.MsgMerkleBlock field semantics"}
	ctor := p.Func("merkleblock", "NewMerkleBlockFromMsg")
	ext := p.Func("merkleblock", "(*PartialBlock).ExtractMatches")
	if ctor == nil || ext == nil {
		r.Unresolved("C12.facts", "merkleblock.NewMerkleBlockFromMsg / (*PartialBlock).ExtractMatches")
		return
	}
	// C12.unpack: the constructor turns flag byte k, bit b into flag number 8k+b, all of them
	flagPackRule(p, r, "C12.unpack", []*ssa.Function{ctor}, 1, 1)
	c12bitsLength(p, r, ctor)
	recv := ssa.Value(ext.Params[0])
	// the traversal: the in-repo callee of ExtractMatches that calls itself
	var T *ssa.Function
	var tcall *ssa.Call
	for _, b := range ext.Blocks {
		for _, in := range b.Instrs {
			c, ok := in.(*ssa.Call)
			if !ok {
				continue
			}
			cal := c.Call.StaticCallee()
			if cal == nil || !p.InRepo(cal) {
				continue
			}
			for _, bb := range cal.Blocks {
				for _, ii := range bb.Instrs {
					if cc, ok := ii.(*ssa.Call); ok && cc.Call.StaticCallee() == cal {
						T, tcall = cal, c
					}
				}
			}
		}
	}
	if T == nil {
		r.Unresolved("C12.cursor", "recursive traversal called by ExtractMatches")
		return
	}
	trecv := ssa.Value(T.Params[0])
	// roles from the traversal: cursor reads slice[cursor]
	var bitsF, hashesF, bitCur, hashCur, latch, numTx *types.Var
	type read struct {
		ia     *ssa.IndexAddr
		slice  *types.Var
		cursor *types.Var
	}
	var reads []read
	for _, b := range T.Blocks {
		for _, in := range b.Instrs {
			ia, ok := in.(*ssa.IndexAddr)
			if !ok {
				continue
			}
			sf, sb, ok1 := fieldLoad(ia.X)
			cf, cb, ok2 := fieldLoad(stripIntConv(ia.Index))
			if !ok1 || !ok2 || sb != trecv || cb != trecv {
				continue
			}
			reads = append(reads, read{ia, sf, cf})
			if sl, ok := sf.Type().Underlying().(*types.Slice); ok {
				if bt, ok := sl.Elem().Underlying().(*types.Basic); ok && bt.Kind() == types.Uint8 {
					bitsF, bitCur = sf, cf
				} else {
					hashesF, hashCur = sf, cf
				}
			}
		}
		for _, in := range b.Instrs {
			if st, ok := in.(*ssa.Store); ok {
				if fa, ok := st.Addr.(*ssa.FieldAddr); ok && canonRoot(fa.X) == trecv {
					if bt, ok := fieldOfAddr(fa).Type().Underlying().(*types.Basic); ok && bt.Kind() == types.Bool {
						latch = fieldOfAddr(fa)
					}
				}
			}
		}
	}
	// numTx: the field the constructor fills from the message's transaction count
	for _, b := range ctor.Blocks {
		for _, in := range b.Instrs {
			if st, ok := in.(*ssa.Store); ok {
				if fa, ok := st.Addr.(*ssa.FieldAddr); ok && strings.Contains(exprString(st.Val), ".Transactions") {
					numTx = fieldOfAddr(fa)
				}
			}
		}
	}
	missing := []string{}
	for n, f := range map[string]*types.Var{"flag-bit slice": bitsF, "hash slice": hashesF, "bit cursor": bitCur, "hash cursor": hashCur, "failure latch": latch, "transaction count": numTx} {
		if f == nil {
			missing = append(missing, n)
		}
	}
	if len(missing) > 0 {
		sort.Strings(missing)
		r.Unresolved("C12.facts", "fields with roles "+strings.Join(missing, ", "))
		return
	}
	r.Note("roles: numTx=%s hashes=%s bits=%s bitCursor=%s hashCursor=%s latch=%s traversal=%s", numTx.Name(), hashesF.Name(), bitsF.Name(), bitCur.Name(), hashCur.Name(), latch.Name(), FnName(T))

	// ---- C12.facts
	av := NewAvail(p)
	lc := NewLinCtx(p, ext)
	lc.alias = av.Run(ext)
	afterCall := func(in ssa.Instruction) bool { return instrDominates(tcall, in) }
	pick := func(f *types.Var, after bool) ssa.Value {
		for _, ld := range fieldLoadsOf(ext, recv, f) {
			if afterCall(ld) == after {
				return lc.res(ld)
			}
		}
		return nil
	}
	// uint32(len(load f))
	convLen := func(f *types.Var) ssa.Value {
		for _, b := range ext.Blocks {
			for _, in := range b.Instrs {
				cv, ok := in.(*ssa.Convert)
				if !ok {
					continue
				}
				c, ok := cv.X.(*ssa.Call)
				if !ok || !isBuiltin(&c.Call, "len") {
					continue
				}
				if lf, lb, ok := fieldLoad(c.Call.Args[0]); ok && lf == f && lb == recv {
					return cv
				}
			}
		}
		return nil
	}
	var maxLoad ssa.Value
	for _, b := range ext.Blocks {
		for _, in := range b.Instrs {
			if u, ok := in.(*ssa.UnOp); ok && u.Op == token.MUL {
				if g, ok := u.X.(*ssa.Global); ok && g.Pkg == ext.Pkg && g.Object() != nil && g.Object().Exported() {
					if _, isInt := intBasic(u.Type()); isInt {
						maxLoad = lc.res(u)
					}
				}
			}
		}
	}
	nt := pick(numTx, false)
	H, B := convLen(hashesF), convLen(bitsF)
	n := 0
	for _, ap := range acceptPoints(ext) {
		if len(ap.Ret.Results) == 1 && isNilConst(ap.Ret.Results[0]) {
			continue
		}
		n++
		tag := fmt.Sprintf("non-nil return #%d: ", n)
		conds := MustConds(ext, ap)
		f := lc.FactsOf(conds)
		pos := ap.Ret.Pos()
		fn := FnName(ext)
		if nt == nil {
			r.Add("C12.facts", fn, tag+"transaction count ≠ 0", pos, false, "the count field is never read before the traversal")
		} else {
			ntl := lc.Lin(nt)
			r.Add("C12.facts", fn, tag+"transaction count ≠ 0", pos, lc.Entails(f, ntl.scale(-1).addConst(1)), "zero transactions must fail")
			if maxLoad == nil {
				r.Add("C12.facts", fn, tag+"transaction count ≤ MaxTxnCount", pos, false, "the exported limit is not read")
			} else {
				r.Add("C12.facts", fn, tag+"transaction count ≤ MaxTxnCount", pos, lc.Entails(f, ntl.add(lc.Lin(maxLoad), -1)), "too many transactions must fail (≤ or < accepted)")
			}
			if H == nil {
				r.Add("C12.facts", fn, tag+"#hashes ≤ transaction count", pos, false, "uint32(len(hashes)) is never formed")
			} else {
				r.Add("C12.facts", fn, tag+"#hashes ≤ transaction count", pos, lc.Entails(f, lc.Lin(H).add(ntl, -1)), "more hashes than transactions must fail")
			}
		}
		if H == nil || B == nil {
			r.Add("C12.facts", fn, tag+"#bits ≥ #hashes", pos, false, "lengths are never compared")
		} else {
			r.Add("C12.facts", fn, tag+"#bits ≥ #hashes", pos, lc.Entails(f, lc.Lin(H).add(lc.Lin(B), -1)), "fewer flag bits than hashes must fail")
		}
		// latch clear after the traversal
		okLatch := false
		for _, cd := range conds {
			v, truth := cd.V, cd.Truth
			if u, ok := v.(*ssa.UnOp); ok && u.Op == token.NOT {
				v, truth = u.X, !truth
			}
			if lf, lb, ok := fieldLoad(v); ok && lf == latch && lb == recv && !truth {
				if in, ok := v.(ssa.Instruction); ok && afterCall(in) {
					okLatch = true
				}
			}
		}
		r.Add("C12.facts", fn, tag+"failure latch is clear after the traversal", pos, okLatch, "tested on a load that follows the traversal call")
		// all bits (modulo byte padding) consumed
		okBits := false
		for _, cd := range conds {
			bo, truth, ok := condBinOp(cd)
			if !ok || !(bo.Op == token.EQL && truth || bo.Op == token.NEQ && !truth) {
				continue
			}
			x1, ok1 := isCeilDiv8(bo.X)
			x2, ok2 := isCeilDiv8(bo.Y)
			if !ok1 || !ok2 {
				continue
			}
			for _, pr := range [][2]ssa.Value{{x1, x2}, {x2, x1}} {
				lf, lb, ok := fieldLoad(pr[0])
				if !ok || lf != bitCur || lb != recv {
					continue
				}
				if in, ok := pr[0].(ssa.Instruction); !ok || !afterCall(in) {
					continue
				}
				if B != nil && lc.canonKey(pr[1], 0) == lc.canonKey(B, 0) {
					okBits = true
				}
			}
		}
		r.Add("C12.facts", fn, tag+"⌈bitsUsed/8⌉ = ⌈#bits/8⌉ after the traversal", pos, okBits, "an unused whole byte of flag bits must fail")
		// all hashes consumed
		okH := false
		if hu := pick(hashCur, true); hu != nil && H != nil {
			okH = lc.EntailsEq(f, lc.Lin(hu).add(lc.Lin(H), -1))
		}
		r.Add("C12.facts", fn, tag+"hashesUsed = #hashes after the traversal", pos, okH, "an unused hash must fail")
	}
	if n == 0 {
		r.Unresolved("C12.facts", "non-nil return of ExtractMatches")
	}
	r.Floor("C12.facts", 7)

	// ---- C12.height: the traversal starts at the height of the whole tree: the loop that computes it is left only when
	// the level is one node wide (a cap on the height makes the root of a larger tree an inner node of the real one)
	{
		var hphi *ssa.Phi
		if len(tcall.Call.Args) >= 2 {
			hphi, _ = tcall.Call.Args[1].(*ssa.Phi)
		}
		if hphi == nil || !isLoopHeader(hphi.Block()) {
			r.Unresolved("C12.height", "loop computing the tree height handed to the traversal")
		} else {
			h := hphi.Block()
			var tails []*ssa.BasicBlock
			for _, pr := range h.Preds {
				if h.Dominates(pr) {
					tails = append(tails, pr)
				}
			}
			body := loopBody(h, tails)
			var bad []string
			nExit := 0
			for b := range body {
				iff, ok := lastInstr(b).(*ssa.If)
				if !ok {
					continue
				}
				if body[b.Succs[0]] && body[b.Succs[1]] {
					continue
				}
				nExit++
				for _, leaf := range condLeaves(iff.Cond) {
					if !strings.HasPrefix(leaf, "call ") || !strings.Contains(leaf, "merkleblock") {
						bad = append(bad, leaf)
					}
				}
				if bo, ok := iff.Cond.(*ssa.BinOp); !ok || !(bo.Op == token.GTR || bo.Op == token.LSS || bo.Op == token.LEQ || bo.Op == token.GEQ || bo.Op == token.NEQ || bo.Op == token.EQL) {
					bad = append(bad, "exit test is not a comparison of the level width")
				} else if k, isK := constInt(bo.Y); !isK || k != 1 {
					if k2, isK2 := constInt(bo.X); !isK2 || k2 != 1 {
						bad = append(bad, "the level width is not compared with 1")
					}
				}
			}
			sort.Strings(bad)
			bad = dedup(bad)
			how := "the only exit test compares the width of the level with 1"
			if len(bad) > 0 {
				how = "the loop can also be left because of: " + strings.Join(bad, ", ")
			}
			r.Add("C12.height", FnName(ext), "the height loop is left only when the level is one node wide", hphi.Pos(), len(bad) == 0 && nExit == 1, how)
		}
		r.Floor("C12.height", 1)
	}
	// ---- C12.matches: what is recorded as a match depends on the node's height and flag bit only
	{
		roles := map[string]bool{bitsF.Name(): true, hashesF.Name(): true, bitCur.Name(): true, hashCur.Name(): true, numTx.Name(): true}
		n := 0
		for _, b := range T.Blocks {
			for _, in := range b.Instrs {
				st, ok := in.(*ssa.Store)
				if !ok {
					continue
				}
				fa, ok := st.Addr.(*ssa.FieldAddr)
				if !ok || canonRoot(fa.X) != ssa.Value(T.Params[0]) {
					continue
				}
				c, ok := st.Val.(*ssa.Call)
				if !ok || !isBuiltin(&c.Call, "append") {
					continue
				}
				f := fieldOfAddr(fa)
				n++
				var foreign []string
				for _, cd := range MustCondsAtBlock(T, b) {
					for _, leaf := range condLeaves(cd.V) {
						okLeaf := strings.HasPrefix(leaf, "param ")
						for role := range roles {
							if leaf == "field "+role || leaf == "field "+role+"[·]" || leaf == "len(field "+role+")" {
								okLeaf = true
							}
						}
						if !okLeaf {
							foreign = append(foreign, leaf)
						}
					}
				}
				sort.Strings(foreign)
				foreign = dedup(foreign)
				r.Add("C12.matches", FnName(T), "an entry is appended to "+f.Name()+" for every node at height 0 whose flag bit is set: the recording depends on the height, the flag bit and the cursors only", st.Pos(),
					len(foreign) == 0, map[bool]string{true: "the guarding conditions read the height parameter, the flag bit and the cursors only", false: "conditions also look at: " + strings.Join(foreign, ", ")}[len(foreign) == 0])
			}
		}
		if n == 0 {
			r.Unresolved("C12.matches", "appends to the result lists in "+FnName(T))
		}
		r.Floor("C12.matches", 1)
	}
	// ---- C12.cursor
	tlc := NewLinCtx(p, T)
	tlc.alias = av.Run(T)
	for _, rd := range reads {
		what := "hash read"
		if rd.slice == bitsF {
			what = "flag-bit read"
		}
		f := tlc.FactsOf(DomConds(rd.ia.Block()))
		idx := tlc.Lin(rd.ia.Index)
		inRange := tlc.Entails(f, idx.addConst(1).add(tlc.LenLin(rd.ia.X), -1)) && tlc.Entails(f, idx.scale(-1))
		r.Add("C12.cursor", FnName(T), what+" is within the slice on every path", rd.ia.Pos(), inRange, "cursor < len dominates the read")
		// the out-of-range edge sets the latch and returns
		okRej := false
		for _, b := range T.Blocks {
			iff, ok := lastInstr(b).(*ssa.If)
			if !ok || !b.Dominates(rd.ia.Block()) {
				continue
			}
			bo, ok := iff.Cond.(*ssa.BinOp)
			if !ok {
				continue
			}
			cf, cb, ok := fieldLoad(stripIntConv(bo.X))
			if !ok || cf != rd.cursor || cb != trecv {
				cf, cb, ok = fieldLoad(stripIntConv(bo.Y))
				if !ok || cf != rd.cursor || cb != trecv {
					continue
				}
			}
			for k := 0; k < 2; k++ {
				s := b.Succs[k]
				if s.Dominates(rd.ia.Block()) {
					continue
				}
				sets, rets := false, false
				for _, in := range s.Instrs {
					if st, ok := in.(*ssa.Store); ok {
						if fa, ok := st.Addr.(*ssa.FieldAddr); ok && fieldOfAddr(fa) == latch {
							if v, ok := constBool(st.Val); ok && v {
								sets = true
							}
						}
					}
					if _, ok := in.(*ssa.Return); ok {
						rets = true
					}
				}
				if sets && rets {
					okRej = true
				}
			}
		}
		r.Add("C12.cursor", FnName(T), "running out on a "+what+" sets the latch and returns", rd.ia.Pos(), okRej, "out-of-range edge: latch = true; return")
	}
	// equal children set the latch
	okEq := false
	eqHow := "IsEqual(left, right) true edge: latch = true"
	var eqPos token.Pos
	var rec []*ssa.Call
	for _, b := range T.Blocks {
		for _, in := range b.Instrs {
			if c, ok := in.(*ssa.Call); ok && c.Call.StaticCallee() == T {
				rec = append(rec, c)
			}
		}
	}
	for _, b := range T.Blocks {
		iff, ok := lastInstr(b).(*ssa.If)
		if !ok {
			continue
		}
		c, ok := iff.Cond.(*ssa.Call)
		if !ok || c.Call.StaticCallee() == nil || c.Call.StaticCallee().Name() != "IsEqual" || len(c.Call.Args) != 2 {
			continue
		}
		isRec := func(v ssa.Value) bool {
			for _, rc := range rec {
				if v == ssa.Value(rc) {
					return true
				}
			}
			return false
		}
		if !isRec(c.Call.Args[0]) || !isRec(c.Call.Args[1]) || c.Call.Args[0] == c.Call.Args[1] {
			continue
		}
		eqPos = c.Pos()
		// compared at every inner node that has a right child: no branch between computing the right child and the comparison
		sameBlock := false
		for _, rc := range rec {
			if (c.Call.Args[0] == ssa.Value(rc) || c.Call.Args[1] == ssa.Value(rc)) && rc.Block() == b {
				sameBlock = true
			}
		}
		if !sameBlock {
			eqHow = "the comparison of the two children is skipped on some path after the right child has been computed"
			continue
		}
		for _, in := range b.Succs[0].Instrs {
			if st, ok := in.(*ssa.Store); ok {
				if fa, ok := st.Addr.(*ssa.FieldAddr); ok && fieldOfAddr(fa) == latch {
					if v, ok := constBool(st.Val); ok && v {
						okEq = true
					}
				}
			}
		}
	}
	r.Add("C12.cursor", FnName(T), "an inner node with two equal children sets the latch (CVE-2012-2459)", eqPos, okEq, eqHow)
	r.Floor("C12.cursor", 5)

	// ---- C12.fresh: every extraction starts from the initial traversal state (an object may be asked twice)
	{
		// traversal state = the cursors, the latch, and every list field the traversal appends to
		state := []*types.Var{bitCur, hashCur, latch}
		for _, b := range T.Blocks {
			for _, in := range b.Instrs {
				st, ok := in.(*ssa.Store)
				if !ok {
					continue
				}
				fa, ok := st.Addr.(*ssa.FieldAddr)
				if !ok || canonRoot(fa.X) != trecv {
					continue
				}
				if c, ok := st.Val.(*ssa.Call); ok && isBuiltin(&c.Call, "append") {
					dup := false
					for _, f := range state {
						if f == fieldOfAddr(fa) {
							dup = true
						}
					}
					if !dup {
						state = append(state, fieldOfAddr(fa))
					}
				}
			}
		}
		for _, f := range state {
			okReset, how := false, "not reset before the traversal: a second call resumes where the first one stopped"
			for _, b := range ext.Blocks {
				for _, in := range b.Instrs {
					st, ok := in.(*ssa.Store)
					if !ok || !instrDominates(st, tcall) {
						continue
					}
					fa, ok := st.Addr.(*ssa.FieldAddr)
					if !ok || fieldOfAddr(fa) != f || canonRoot(fa.X) != recv {
						continue
					}
					switch v := st.Val.(type) {
					case *ssa.Const:
						if k, isK := constInt(v); isK && k == 0 {
							okReset, how = true, "set to 0 before the traversal"
						} else if bv, isB := constBool(v); isB && !bv {
							okReset, how = true, "set to false before the traversal"
						} else if v.Value == nil {
							okReset, how = true, "set to nil before the traversal"
						}
					case *ssa.MakeSlice:
						if k, isK := constInt(v.Len); isK && k == 0 {
							okReset, how = true, "replaced by a fresh empty list before the traversal"
						}
					case *ssa.Slice:
						// x[:0] of a fresh allocation only
						if _, isAlloc := v.X.(*ssa.Alloc); isAlloc {
							if k, isK := constInt(v.High); v.High != nil && isK && k == 0 {
								okReset, how = true, "replaced by a fresh empty list before the traversal"
							}
						}
					}
				}
			}
			if !okReset {
				// reset by an in-package helper called on the receiver before the traversal (stores in its entry block)
				for _, b := range ext.Blocks {
					for _, in := range b.Instrs {
						hc, ok := in.(*ssa.Call)
						if !ok || hc == tcall || !instrDominates(hc, tcall) {
							continue
						}
						cal := hc.Call.StaticCallee()
						if cal == nil || !p.InRepo(cal) || len(cal.Blocks) == 0 || len(hc.Call.Args) == 0 || canonRoot(hc.Call.Args[0]) != recv {
							continue
						}
						for _, in2 := range cal.Blocks[0].Instrs {
							st, ok := in2.(*ssa.Store)
							if !ok {
								continue
							}
							fa, ok := st.Addr.(*ssa.FieldAddr)
							if !ok || fieldOfAddr(fa) != f || canonRoot(fa.X) != ssa.Value(cal.Params[0]) {
								continue
							}
							if isZeroValue(st.Val) {
								okReset, how = true, "reset by "+FnName(cal)+" before the traversal"
							} else if ms, ok := st.Val.(*ssa.MakeSlice); ok {
								if k, isK := constInt(ms.Len); isK && k == 0 {
									okReset, how = true, "replaced by a fresh empty list in "+FnName(cal)+" before the traversal"
								}
							} else if sl, ok := st.Val.(*ssa.Slice); ok {
								if _, isAlloc := sl.X.(*ssa.Alloc); isAlloc && sl.High != nil {
									if k, isK := constInt(sl.High); isK && k == 0 {
										okReset, how = true, "replaced by a fresh empty list in "+FnName(cal)+" before the traversal"
									}
								}
							}
						}
					}
				}
			}
			r.Add("C12.fresh", FnName(ext), "traversal state "+f.Name()+" starts from its initial value on every extraction", tcall.Pos(), okReset, how)
		}
	}
	r.Floor("C12.fresh", 5)

	// ---- C12.latch
	for _, fn := range p.Funcs {
		for _, b := range fn.Blocks {
			for _, in := range b.Instrs {
				st, ok := in.(*ssa.Store)
				if !ok {
					continue
				}
				fa, ok := st.Addr.(*ssa.FieldAddr)
				if !ok || fieldOfAddr(fa) != latch {
					continue
				}
				if _, isAlloc := canonRoot(fa.X).(*ssa.Alloc); isAlloc {
					continue // construction of a new object
				}
				v, isC := constBool(st.Val)
				if isC && !v && fn == ext && instrDominates(st, tcall) && canonRoot(fa.X) == recv {
					r.Add("C12.latch", FnName(fn), "the failure latch is cleared only at the start of an extraction, before the traversal", st.Pos(), true, "reset together with the cursors (C12.fresh)")
					continue
				}
				if isC && !v && fn != ext {
					// a reset helper: every call of it is made by the extraction entry point before the traversal
					callers, okCallers := 0, true
					for _, g := range p.Funcs {
						for _, gb := range g.Blocks {
							for _, gi := range gb.Instrs {
								if hc, ok := gi.(*ssa.Call); ok && hc.Call.StaticCallee() == fn {
									callers++
									if g == ctor {
										continue // the constructor may share the helper to initialise a fresh object
									}
									if g != ext || !instrDominates(hc, tcall) {
										okCallers = false
									}
								}
							}
						}
					}
					if callers > 0 && okCallers && (fn.Object() == nil || !fn.Object().Exported()) {
						r.Add("C12.latch", FnName(fn), "the failure latch is cleared only at the start of an extraction, before the traversal", st.Pos(), true, "reset helper called only by "+FnName(ext)+" ahead of the traversal")
						continue
					}
				}
				r.Add("C12.latch", FnName(fn), "store to the failure latch sets it", st.Pos(), isC && v, "the latch is monotone within an extraction: once bad, always bad")
			}
		}
	}
	r.Floor("C12.latch", 3)
}

// c12bitsLength: the constructor expands every flag byte: the flag-bit slice it stores has 8·len(Flags) entries and
// is not re-sliced afterwards ("a whole byte of unused flag bits rejects" is decided against this length).
func c12bitsLength(p *Program, r *Report, ctor *ssa.Function) {
	tb := NewTermBuilder(p, ctor)
	found := false
	for _, b := range ctor.Blocks {
		for _, in := range b.Instrs {
			st, ok := in.(*ssa.Store)
			if !ok {
				continue
			}
			fa, ok := st.Addr.(*ssa.FieldAddr)
			if !ok || fieldOfAddr(fa).Name() != "bits" {
				continue
			}
			found = true
			ms, isMake := st.Val.(*ssa.MakeSlice)
			how := "the stored flag-bit slice is not a make() result: " + exprString(st.Val)
			ok2 := false
			if isMake {
				t := anonymise(tb.Term(ms.Len))
				how = "len = " + tb.Term(ms.Len).String()
				ok2 = (strings.HasPrefix(t, "*(len(") && strings.HasSuffix(t, ",#8)")) || (strings.HasPrefix(t, "*(#8,len(")) || (strings.HasPrefix(t, "<<(len(") && strings.HasSuffix(t, ",#3)"))
				if ok2 && !strings.Contains(tb.Term(ms.Len).String(), "Flags") {
					ok2 = false
					how += " (not the length of the message's Flags)"
				}
			}
			r.Add("C12.unpack", FnName(ctor), "the flag-bit slice has 8·len(Flags) entries", st.Pos(), ok2, how)
		}
	}
	if !found {
		r.Unresolved("C12.unpack", "store of the flag-bit slice in NewMerkleBlockFromMsg")
	}
}

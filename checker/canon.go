package main

import (
	"fmt"
	"go/token"
	"strings"

	"golang.org/x/tools/go/ssa"
)

// Canonical-input rules shared by the string decoders (C02, C05, C06, C07):
// the characters the symbol decoder sees are the caller's characters.

// normalisers rewrite a string beyond the documented ASCII case folding.
var normalisers = map[string]bool{
	"strings.TrimSpace": true, "strings.Trim": true, "strings.TrimLeft": true, "strings.TrimRight": true, "strings.TrimFunc": true,
	"strings.TrimLeftFunc": true, "strings.TrimRightFunc": true, "strings.Replace": true, "strings.ReplaceAll": true, "strings.Fields": true,
	"strings.FieldsFunc": true, "strings.Map": true, "strings.Title": true, "strings.ToTitle": true, "strings.ToValidUTF8": true,
	"(*strings.Replacer).Replace": true, "bytes.TrimSpace": true, "bytes.Trim": true, "bytes.TrimLeft": true, "bytes.TrimRight": true,
	"bytes.Replace": true, "bytes.ReplaceAll": true, "bytes.Fields": true, "bytes.Map": true, "bytes.ToValidUTF8": true,
	"strings.TrimPrefix": false, "strings.TrimSuffix": false,
}

// unicodeCaseMappers map non-ASCII characters onto ASCII ones (U+212A KELVIN SIGN → 'k', U+017F → 's').
var unicodeCaseMappers = map[string]bool{
	"strings.ToLower": true, "strings.ToUpper": true, "bytes.ToLower": true, "bytes.ToUpper": true,
	"strings.ToLowerSpecial": true, "strings.ToUpperSpecial": true, "unicode.ToLower": true, "unicode.ToUpper": true, "unicode.SimpleFold": true,
}

// asciiGuarded: the call is dominated by a loop over the whole of the same
// string whose "character above 126/127" edge leads only to error returns.
func asciiGuarded(fn *ssa.Function, call *ssa.Call, str ssa.Value) bool {
	for _, b := range fn.Blocks {
		iff, ok := lastInstr(b).(*ssa.If)
		if !ok {
			continue
		}
		bo, ok := iff.Cond.(*ssa.BinOp)
		if !ok {
			continue
		}
		x, idx, ok := elemRead(bo.X)
		if !ok || x != str {
			continue
		}
		hdr := fullRangeInduction(idx, func(v ssa.Value) bool { return v == str })
		if hdr == nil {
			continue
		}
		k, ok := constInt(bo.Y)
		if !ok {
			continue
		}
		if !((bo.Op == token.GTR && k <= 127 && k >= 122) || (bo.Op == token.GEQ && k <= 128 && k >= 123)) {
			continue
		}
		if canReachAccept(fn, b.Succs[0]) {
			continue
		}
		if hdr.Dominates(call.Block()) && hdr != call.Block() {
			return true
		}
	}
	// any other spelling of the range check
	for _, h := range rangeLoopsEntailing(fn, str, func(lc *LinCtx, e ssa.Value) Lin { return lc.Lin(e).addConst(-127) }) {
		if h.Dominates(call.Block()) && h != call.Block() {
			return true
		}
	}
	return false
}

// rangeLoopsEntailing returns the headers of loops over the whole of str in which every path that goes on to the
// next character entails goal(element) ≤ 0 and every early way out of the loop cannot reach an accepting return.
func rangeLoopsEntailing(fn *ssa.Function, str ssa.Value, goal func(lc *LinCtx, e ssa.Value) Lin) []*ssa.BasicBlock {
	var out []*ssa.BasicBlock
	lcr := NewLinCtx(nil, fn)
	for _, h := range fn.Blocks {
		if !isLoopHeader(h) {
			continue
		}
		inLoop := func(b *ssa.BasicBlock) bool {
			if b == h {
				return true
			}
			if !h.Dominates(b) {
				return false
			}
			for _, pb := range h.Preds {
				if h.Dominates(pb) && reachableFrom(b, map[*ssa.BasicBlock]bool{h: true})[pb] {
					return true
				}
			}
			return false
		}
		var elems []ssa.Value
		for _, b := range fn.Blocks {
			if !inLoop(b) {
				continue
			}
			for _, in := range b.Instrs {
				if v, ok := in.(ssa.Value); ok {
					if x, idx, ok := elemRead(v); ok && x == str && fullRangeInduction(idx, func(w ssa.Value) bool { return w == str }) != nil {
						elems = append(elems, v)
					}
				}
			}
		}
		if len(elems) == 0 {
			continue
		}
		all, nLatch := true, 0
		for _, pb := range h.Preds {
			if !h.Dominates(pb) {
				continue
			}
			nLatch++
			f := lcr.FactsOf(MustCondsAtBlock(fn, pb))
			okL := false
			for _, e := range elems {
				if lcr.Entails(f, goal(lcr, e)) {
					okL = true
				}
			}
			all = all && okL
		}
		if nLatch == 0 || !all {
			continue
		}
		exitsReject := true
		for _, b := range fn.Blocks {
			if b == h || !inLoop(b) {
				continue
			}
			for _, sb := range b.Succs {
				if !inLoop(sb) && canReachAccept(fn, sb) {
					exitsReject = false
				}
			}
		}
		if exitsReject {
			out = append(out, h)
		}
	}
	return out
}

// canonicalInput adds obligations for every normalising / Unicode case-mapping
// call in the functions reachable from the given decoders.
func canonicalInput(p *Program, r *Report, rule string, roots []*ssa.Function) int {
	n := 0
	for _, fn := range p.Reachable(roots) {
		cnt := map[string]int{}
		for _, b := range fn.Blocks {
			for _, in := range b.Instrs {
				c, ok := in.(*ssa.Call)
				if !ok {
					continue
				}
				cal := c.Call.StaticCallee()
				if cal == nil {
					continue
				}
				name := cal.String()
				if normalisers[name] {
					n++
					cnt[name]++
					cn := "input is not rewritten by " + name
					if cnt[name] > 1 {
						cn += fmt.Sprintf(" #%d", cnt[name])
					}
					r.Add(rule, FnName(fn), cn, c.Pos(), false, "strings differing only in what "+name+" removes or rewrites would decode to the same value; only ASCII case folding and the optional prefix are documented normalisations")
					continue
				}
				if unicodeCaseMappers[name] {
					// constant or in-repo-produced strings are fine; input-derived ones need an ASCII guard
					arg := c.Call.Args[0]
					if _, isConst := arg.(*ssa.Const); isConst {
						continue
					}
					n++
					cnt[name]++
					cn := "case mapping by " + strings.TrimPrefix(name, "strings.") + " only sees ASCII input"
					if cnt[name] > 1 {
						cn += fmt.Sprintf(" #%d", cnt[name])
					}
					ok := asciiGuarded(fn, c, arg)
					how := "a loop over the whole string rejects every character above 126 before the call"
					if !ok {
						how = "Unicode case mapping turns non-ASCII characters into ASCII ones (U+212A KELVIN SIGN → 'k'): a non-ASCII string can be accepted and re-encodes differently; no ASCII-range check of the whole string dominates the call"
					}
					r.Add(rule, FnName(fn), cn, c.Pos(), ok, how)
				}
			}
		}
	}
	return n
}

// asciiFoldExact: wherever a function reachable from the decoders rewrites a byte of a copy of a string in place
// (b := []byte(s); b[i] = f(b[i])), the rewriting happens only for bytes proved to be in 'A'..'Z' by the branch
// conditions on the way to the store.  Folding case with c|0x20 on any other byte maps control characters onto
// digits and punctuation onto letters: a string outside the alphabet would be rewritten into a valid one.
func asciiFoldExact(p *Program, r *Report, rule string, roots []*ssa.Function) int {
	n := 0
	for _, fn := range p.Reachable(roots) {
		if !p.InRepo(fn) {
			continue
		}
		var lc *LinCtx
		for _, b := range fn.Blocks {
			for _, in := range b.Instrs {
				st, ok := in.(*ssa.Store)
				if !ok {
					continue
				}
				ia, ok := st.Addr.(*ssa.IndexAddr)
				if !ok {
					continue
				}
				cv, ok := ia.X.(*ssa.Convert)
				if !ok || !isStringType(cv.X.Type()) {
					continue
				}
				// the byte being rewritten: a load of the same slice at the same index
				var elem ssa.Value
				for _, bb := range fn.Blocks {
					for _, ii := range bb.Instrs {
						if ld, ok := ii.(*ssa.UnOp); ok && ld.Op == token.MUL {
							if ia2, ok := ld.X.(*ssa.IndexAddr); ok && ia2.X == ia.X && ia2.Index == ia.Index {
								elem = ld
							}
						}
					}
				}
				if elem == nil {
					continue
				}
				n++
				if lc == nil {
					lc = NewLinCtx(p, fn)
				}
				lo, hi, okLo, okHi := charInterval(lc, MustCondsAtBlock(fn, b), elem)
				exact := okLo && okHi && lo >= 'A' && hi <= 'Z'
				how := fmt.Sprintf("the store is reached only for bytes in [%d, %d] ⊆ ['A', 'Z']", lo, hi)
				if !exact {
					how = "bytes outside 'A'..'Z' are rewritten too (no branch condition confines the byte to the upper-case letters): control characters and punctuation can be folded onto alphabet characters"
				}
				r.Add(rule, FnName(fn), "in-place case folding of the input touches upper-case ASCII letters only", st.Pos(), exact, how)
			}
		}
	}
	return n
}

// charInterval returns the tightest integer interval known for value c from conditions.
func charInterval(lc *LinCtx, conds []Cond, c ssa.Value) (lo, hi int64, okLo, okHi bool) {
	f := &Facts{}
	for _, cd := range conds {
		lc.CondFacts(cd.V, cd.Truth, f, nil)
	}
	cl := lc.Lin(c)
	if len(cl.coef) != 1 {
		return
	}
	var a int
	for k := range cl.coef {
		a = k
	}
	for _, l := range f.le {
		if len(l.coef) != 1 {
			continue
		}
		co, has := l.coef[a]
		if !has {
			continue
		}
		if co == 1 { // c + k ≤ 0 → c ≤ −k
			if !okHi || -l.c < hi {
				hi, okHi = -l.c, true
			}
		}
		if co == -1 { // −c + k ≤ 0 → c ≥ k
			if !okLo || l.c > lo {
				lo, okLo = l.c, true
			}
		}
	}
	return
}

// caseFlags: in fn, bool φ flags set to true exactly for characters in a..z and
// A..Z of the (whole) input string; and the block where both are set rejects.
// Returns (found both flags with exact bounds, both-set rejects).
func caseFlagsExact(p *Program, fn *ssa.Function, str ssa.Value) (exact bool, rejects bool, why string) {
	lc := NewLinCtx(p, fn)
	var lowerFlag, upperFlag *ssa.Phi
	for _, b := range fn.Blocks {
		for _, in := range b.Instrs {
			ph, ok := in.(*ssa.Phi)
			if !ok || !isBoolPhi(ph) {
				continue
			}
			for i, e := range ph.Edges {
				v, isC := constBool(e)
				if !isC || !v {
					continue
				}
				pred := b.Preds[i]
				conds := DomConds(pred)
				if cd, ok := edgeCond(pred, b); ok {
					conds = append(conds, cd)
				}
				// `lo <= c && c <= hi` used as a value (tagless switch case) arrives as a short-circuit φ
				for k, n := 0, len(conds); k < n; k++ {
					conds = append(conds, impliedByBoolPhi(conds[k], 0)...)
				}
				// the character tested
				for _, cd := range conds {
					bo, _, ok := condBinOp(cd)
					if !ok {
						continue
					}
					x, idx, ok := elemRead(bo.X)
					if !ok || x != str || fullRangeInduction(idx, func(v ssa.Value) bool { return v == str }) == nil {
						continue
					}
					lo, hi, okLo, okHi := charInterval(lc, conds, bo.X)
					if !okLo || !okHi {
						continue
					}
					switch {
					case lo == 'a' && hi == 'z':
						lowerFlag = rootFlag(ph)
					case lo == 'A' && hi == 'Z':
						upperFlag = rootFlag(ph)
					case lo >= 'a' && hi <= 'z' || lo >= 'A' && hi <= 'Z':
						why = fmt.Sprintf("a case flag is set only for characters %q..%q", rune(lo), rune(hi))
					}
				}
			}
		}
	}
	if lowerFlag == nil || upperFlag == nil {
		if why == "" {
			why = "no pair of flags set exactly for a..z and A..Z over the whole input"
		}
		return false, false, why
	}
	// both set → reject
	for _, b := range fn.Blocks {
		iff, ok := lastInstr(b).(*ssa.If)
		if !ok {
			continue
		}
		ph1, ok := iff.Cond.(*ssa.Phi)
		if !ok {
			continue
		}
		inner := b.Succs[0]
		iff2, ok := lastInstr(inner).(*ssa.If)
		if !ok || len(inner.Preds) != 1 {
			continue
		}
		ph2, ok := iff2.Cond.(*ssa.Phi)
		if !ok {
			continue
		}
		r1, r2 := rootFlag(ph1), rootFlag(ph2)
		if (r1 == lowerFlag && r2 == upperFlag || r1 == upperFlag && r2 == lowerFlag) && !canReachAccept(fn, inner.Succs[0]) {
			return true, true, ""
		}
	}
	return true, false, "the state where both case flags are set can reach an accepting return"
}

// rootFlag follows a bool φ to the loop-header φ of its variable.
func rootFlag(ph *ssa.Phi) *ssa.Phi {
	seen := map[*ssa.Phi]bool{}
	cur := ph
	for i := 0; i < 8 && cur != nil && !seen[cur]; i++ {
		seen[cur] = true
		if isLoopHeader(cur.Block()) {
			return cur
		}
		var next *ssa.Phi
		for _, e := range cur.Edges {
			if q, ok := e.(*ssa.Phi); ok && q.Comment == cur.Comment {
				next = q
			}
		}
		// or a user of cur that is the header φ
		if next == nil {
			for _, ref := range *cur.Referrers() {
				if q, ok := ref.(*ssa.Phi); ok && q.Comment == cur.Comment && isLoopHeader(q.Block()) {
					return q
				}
			}
		}
		cur = next
	}
	return ph
}

// base58ByteLookup: the Base58 decode table is indexed by single bytes of the
// input string (not by runes truncated to a byte).
func base58ByteLookup(p *Program, r *Report, rule string) {
	dec := p.Func("base58", "Decode")
	if dec == nil {
		r.Unresolved(rule, "base58.Decode")
		return
	}
	found := false
	for _, b := range dec.Blocks {
		for _, in := range b.Instrs {
			ia, ok := in.(*ssa.IndexAddr)
			if !ok {
				continue
			}
			if _, ok := ia.X.(*ssa.Global); !ok {
				continue
			}
			found = true
			idx := ia.Index
			okByte := false
			how := "table index is " + exprString(idx)
			if x, _, ok := elemRead(stripIntConv(idx)); ok && x == ssa.Value(dec.Params[0]) {
				okByte = true
				how = "table indexed by input[i], one byte at a time"
			} else if cv, ok := idx.(*ssa.Convert); ok {
				lcx := NewLinCtx(p, dec)
				if lcx.bitsOf(cv.X.Type()) > 8 {
					how = "table indexed by a " + shortType(cv.X.Type()) + " truncated to a byte: multi-byte characters whose low byte is in the alphabet are accepted"
				}
			}
			r.Add(rule, FnName(dec), "Base58 symbols are looked up byte by byte", ia.Pos(), okByte, how)
		}
	}
	if !found {
		r.Unresolved(rule, "decode table lookup in base58.Decode")
	}
}

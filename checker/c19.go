package main

import (
	"fmt"
	"go/token"
	"go/types"
	"strings"

	"golang.org/x/tools/go/ssa"
)

func init() { register("C19", checkC19) }

var listInsert = map[string]bool{"PushBack": true, "PushFront": true, "InsertBefore": true, "InsertAfter": true}
var listRemove = map[string]bool{"Remove": true}
var listOther = map[string]bool{"Init": true, "PushBackList": true, "PushFrontList": true, "MoveToFront": false, "MoveToBack": false, "MoveBefore": false, "MoveAfter": false}

// coinAccessorCall: v is <coin>.Name() for an interface method; returns the coin value.
func coinAccessorCall(v ssa.Value, name string) (ssa.Value, bool) {
	c, ok := v.(*ssa.Call)
	if !ok {
		return nil, false
	}
	if c.Call.IsInvoke() && c.Call.Method.Name() == name {
		return c.Call.Value, true
	}
	return nil, false
}

func checkC19(p *Program, r *Report) {
	// round 6 (systematic): no unguarded mutable package-level state behind this property's functions (§2.9)
	sharedStateRule(p, r, NewEffects(p), "C19.shared", []string{"coinset/coins.go"})
	r.Floor("C19.shared", 0)
	r.Explain = "C19.pair: every mutation of a coin set's underlying list happens in a function that, in the same straight-line region, adds (for an insertion) or " +
		"subtracts (for a removal) that same coin's Value() and ValueAge() to both running totals exactly once, and no other function stores to the totals " +
		"(apart from zero initialisation of a fresh set) — so the totals cannot drift under any sequence of pushes, pops and shifts. C19.order: a transaction " +
		"built from a set spends coins[i] at input i. C19.maxinputs: the prefix scan pushes a coin only while n < MaxInputs. C19.desc: the min-number and " +
		"max-value-age selectors sort a fresh copy descending by Value() resp. ValueAge() and delegate to the prefix selector with unchanged limits. " +
		"C19.target / C19.maxinputs / C19.avg: a forward data-flow over every CoinSelect method tracks, per coin set, whether the target predicate and the " +
		"average test hold for the current contents (established only by the passing edge of satisfiesTargetValue(targetValue, s.MinChangeAmount, set.TotalValue()), " +
		"the failing edge of TotalValueAge()/Num() < MinAvg, undoing the one pending push, a nested selection made with the same parameters, or the complement " +
		"composition of the low-priority top-up with a rounded-up share) and a linear upper bound on the coin count; every success return must hold them. " +
		"C19.prefix: the prefix scan pushes coins[n] for n = 0, 1, … without skipping and tests the target after every push. C19.cache: any further field a " +
		"CoinSet keeps about its contents is written whenever the list changes. Not decided: distinctness of the coins, arithmetic overflow of the totals."
	r.Trusted = []string{"container/list.List semantics", "sort.Sort / sort.Reverse"}
	cp := p.Pkg("coinset")
	if cp == nil {
		r.Unresolved("C19.pair", "package coinset")
		return
	}
	cst, _ := cp.Members["CoinSet"].(*ssa.Type)
	if cst == nil {
		r.Unresolved("C19.pair", "type coinset.CoinSet")
		return
	}
	st := cst.Type().Underlying().(*types.Struct)
	var listF *types.Var
	var totals []*types.Var
	for i := 0; i < st.NumFields(); i++ {
		f := st.Field(i)
		if isNamed(f.Type(), "container/list", "List") {
			listF = f
		} else if _, ok := intBasic(f.Type()); ok {
			totals = append(totals, f)
		}
	}
	if listF == nil || len(totals) < 2 {
		r.Unresolved("C19.pair", "list field / two integer totals of CoinSet")
		return
	}
	// which total tracks which accessor: from the insertion site
	accessorOf := map[*types.Var]string{}
	// ---- mutation sites
	nMut := 0
	for _, fn := range p.Funcs {
		for _, b := range fn.Blocks {
			for _, in := range b.Instrs {
				c, ok := in.(*ssa.Call)
				if !ok || c.Call.StaticCallee() == nil || !strings.HasPrefix(c.Call.StaticCallee().String(), "(*container/list.List).") {
					continue
				}
				mname := c.Call.StaticCallee().Name()
				ins, rem := listInsert[mname], listRemove[mname]
				other, isOther := listOther[mname]
				if !ins && !rem && !(isOther && other) {
					continue
				}
				// on the set's list?
				lf, base, ok := fieldLoad(c.Call.Args[0])
				if !ok || lf != listF {
					continue
				}
				if _, isAlloc := base.(*ssa.Alloc); isAlloc {
					continue
				}
				nMut++
				if isOther && other {
					r.Add("C19.pair", FnName(fn), "list mutation "+mname+" keeps the totals in step", c.Pos(), false, "bulk mutation without a matching update of the totals")
					continue
				}
				// the coin involved
				var coin ssa.Value
				if ins {
					for _, a := range c.Call.Args[1:] {
						if mi, ok := a.(*ssa.MakeInterface); ok {
							coin = mi.X
						} else if _, isIface := a.Type().Underlying().(*types.Interface); isIface {
							coin = a
						}
					}
					if ci, ok := coin.(*ssa.ChangeInterface); ok {
						coin = ci.X
					}
				} else {
					// removed element e: the coin is e.Value.(Coin)
					e := c.Call.Args[1]
					for _, bb := range fn.Blocks {
						for _, ii := range bb.Instrs {
							if ta, ok := ii.(*ssa.TypeAssert); ok {
								if f, eb, ok := fieldLoad(ta.X); ok && f.Name() == "Value" && eb == e {
									coin = ta
								}
							}
						}
					}
				}
				if coin == nil {
					r.Undecided("C19.pair", FnName(fn), "list mutation "+mname+" keeps the totals in step", c.Pos(), "cannot identify the coin inserted / removed")
					continue
				}
				for _, tf := range totals {
					var stores []*ssa.Store
					for _, bb := range fn.Blocks {
						for _, ii := range bb.Instrs {
							if s2, ok := ii.(*ssa.Store); ok {
								if fa, ok := s2.Addr.(*ssa.FieldAddr); ok && fieldOfAddr(fa) == tf && canonRoot(fa.X) == base {
									stores = append(stores, s2)
								}
							}
						}
					}
					okT, how := false, fmt.Sprintf("%d store(s) to %s in this function", len(stores), tf.Name())
					if len(stores) == 1 {
						s2 := stores[0]
						sameRegion := s2.Block() == b || (b.Dominates(s2.Block()) && postDominates(fn, s2.Block(), b))
						bo, isB := s2.Val.(*ssa.BinOp)
						if isB && sameRegion {
							wantOp := token.ADD
							if rem {
								wantOp = token.SUB
							}
							f0, b0, okL := fieldLoad(bo.X)
							var acc string
							var cv ssa.Value
							for _, nm := range []string{"Value", "ValueAge"} {
								if v, ok := coinAccessorCall(stripIntConv(bo.Y), nm); ok {
									acc, cv = nm, v
								}
							}
							if ci, ok := cv.(*ssa.ChangeInterface); ok {
								cv = ci.X
							}
							switch {
							case bo.Op != wantOp:
								how = fmt.Sprintf("%s is updated with %s, expected %s", tf.Name(), bo.Op, wantOp)
							case !okL || f0 != tf || b0 != base:
								how = tf.Name() + " is not updated from its own previous value"
							case acc == "":
								how = tf.Name() + " is not updated by the coin's Value()/ValueAge()"
							case cv != coin:
								how = "the totals are updated with a different coin than the one " + map[bool]string{true: "inserted", false: "removed"}[ins]
							default:
								if prev, seen := accessorOf[tf]; seen && prev != acc {
									how = fmt.Sprintf("%s tracks %s() here but %s() elsewhere", tf.Name(), acc, prev)
								} else {
									accessorOf[tf] = acc
									okT, how = true, fmt.Sprintf("%s %s= coin.%s(), once, on every path through the mutation", tf.Name(), wantOp, acc)
								}
							}
						} else if !sameRegion {
							how = tf.Name() + " is not updated on every path through the mutation"
						}
					}
					r.Add("C19.pair", FnName(fn), fmt.Sprintf("%s: total %s follows the list", mname, tf.Name()), c.Pos(), okT, how)
				}
			}
		}
	}
	// the two totals track different accessors
	if len(accessorOf) == 2 {
		var as []string
		for _, tf := range totals {
			as = append(as, tf.Name()+"←"+accessorOf[tf]+"()")
		}
		r.Add("C19.pair", "coinset.CoinSet", "the two totals track Value() and ValueAge() respectively", cst.Pos(), accessorOf[totals[0]] != accessorOf[totals[1]], strings.Join(as, ", "))
	}
	// no other writer of the totals
	for _, fn := range p.Funcs {
		for _, b := range fn.Blocks {
			for _, in := range b.Instrs {
				s2, ok := in.(*ssa.Store)
				if !ok {
					continue
				}
				fa, ok := s2.Addr.(*ssa.FieldAddr)
				if !ok {
					continue
				}
				isTotal := false
				for _, tf := range totals {
					if fieldOfAddr(fa) == tf {
						isTotal = true
					}
				}
				if !isTotal {
					continue
				}
				if _, isAlloc := canonRoot(fa.X).(*ssa.Alloc); isAlloc {
					k, isK := constInt(s2.Val)
					r.Add("C19.pair", FnName(fn), "a fresh set starts with zero "+fieldOfAddr(fa).Name(), s2.Pos(), isK && k == 0, "constructor")
					continue
				}
				// must be in a function with a list mutation
				hasMut := false
				for _, bb := range fn.Blocks {
					for _, ii := range bb.Instrs {
						if c, ok := ii.(*ssa.Call); ok && c.Call.StaticCallee() != nil && strings.HasPrefix(c.Call.StaticCallee().String(), "(*container/list.List).") {
							nm := c.Call.StaticCallee().Name()
							if listInsert[nm] || listRemove[nm] {
								hasMut = true
							}
						}
					}
				}
				if !hasMut {
					r.Add("C19.pair", FnName(fn), "total "+fieldOfAddr(fa).Name()+" is written only together with a list mutation", s2.Pos(), false, "the total changes while the list does not")
				}
			}
		}
	}
	if nMut < 2 {
		r.Add("C19.pair", "-", fmt.Sprintf("vacuity: %d list mutation sites, floor 2", nMut), token.NoPos, false, "kind=below-floor")
	}
	r.Floor("C19.pair", 4)

	// ---- C19.order
	if fn := p.Func("coinset", "NewMsgTxWithInputCoins"); fn != nil {
		okOrder := false
		var pos token.Pos
		for _, b := range fn.Blocks {
			for _, in := range b.Instrs {
				s2, ok := in.(*ssa.Store)
				if !ok {
					continue
				}
				ia, ok := s2.Addr.(*ssa.IndexAddr)
				if !ok || !strings.Contains(exprString(ia.X), "TxIn") {
					continue
				}
				pos = s2.Pos()
				// the stored TxIn's Hash/Index come from coins[i] with the same i
				al, ok := s2.Val.(*ssa.Alloc)
				if !ok {
					continue
				}
				hashOK, idxOK := false, false
				for _, bb := range fn.Blocks {
					for _, ii := range bb.Instrs {
						s3, ok := ii.(*ssa.Store)
						if !ok {
							continue
						}
						path := exprString(s3.Addr)
						root := s3.Addr
						for {
							if fa, ok := root.(*ssa.FieldAddr); ok {
								root = fa.X
								continue
							}
							break
						}
						if root != ssa.Value(al) {
							continue
						}
						coinOf := func(v ssa.Value, name string) bool {
							if ld, ok := v.(*ssa.UnOp); ok && ld.Op == token.MUL {
								v = ld.X
							}
							cv, ok := coinAccessorCall(v, name)
							if !ok {
								return false
							}
							// cv = coins[i] with the loop's index
							if ld, ok := cv.(*ssa.UnOp); ok {
								if cia, ok := ld.X.(*ssa.IndexAddr); ok && cia.Index == ia.Index {
									return true
								}
							}
							return false
						}
						if strings.HasSuffix(path, ".Hash") && coinOf(s3.Val, "Hash") {
							hashOK = true
						}
						if strings.HasSuffix(path, ".Index") && coinOf(s3.Val, "Index") {
							idxOK = true
						}
					}
				}
				okOrder = hashOK && idxOK
			}
		}
		r.Add("C19.order", FnName(fn), "input i spends coins[i] (hash and index from the same coin)", pos, okOrder, "TxIn[i].PreviousOutPoint = (coins[i].Hash(), coins[i].Index())")
	} else {
		r.Unresolved("C19.order", "coinset.NewMsgTxWithInputCoins")
	}

	// ---- C19.maxinputs
	prefix := p.Func("coinset", "(MinIndexCoinSelector).CoinSelect")
	if prefix == nil {
		r.Unresolved("C19.maxinputs", "(MinIndexCoinSelector).CoinSelect")
	} else {
		av := NewAvail(p)
		lc := NewLinCtx(p, prefix)
		lc.alias = av.Run(prefix)
		found := false
		for _, b := range prefix.Blocks {
			for _, in := range b.Instrs {
				c, ok := in.(*ssa.Call)
				if !ok || c.Call.StaticCallee() == nil || c.Call.StaticCallee().Name() != "PushCoin" {
					continue
				}
				found = true
				f := lc.FactsOf(MustCondsAtBlock(prefix, b))
				okMax := false
				// some field load of the selector (MaxInputs) bounds the index of the pushed coin
				var idx ssa.Value
				if ld, ok := c.Call.Args[1].(*ssa.UnOp); ok {
					if ia, ok := ld.X.(*ssa.IndexAddr); ok {
						idx = ia.Index
					}
				}
				for _, bb := range prefix.Blocks {
					for _, ii := range bb.Instrs {
						if u, ok := ii.(*ssa.UnOp); ok {
							if fl, _, ok := fieldLoad(u); ok && fl.Name() == "MaxInputs" && idx != nil {
								if lc.Entails(f, lc.Lin(idx).addConst(1).add(lc.Lin(u), -1)) {
									okMax = true
								}
							}
						}
					}
				}
				r.Add("C19.maxinputs", FnName(prefix), "a coin is pushed only while the count is below MaxInputs", c.Pos(), okMax, "n < MaxInputs on every path to the push")
			}
		}
		if !found {
			r.Unresolved("C19.maxinputs", "push in the prefix scan")
		}
	}

	// ---- C19.desc
	ef := NewEffects(p)
	for _, spec := range []struct{ sel, acc string }{{"MinNumberCoinSelector", "Value"}, {"MaxValueAgeCoinSelector", "ValueAge"}} {
		fn := p.Func("coinset", "("+spec.sel+").CoinSelect")
		if fn == nil {
			r.Unresolved("C19.desc", spec.sel+".CoinSelect")
			continue
		}
		okSort, okDelegate := false, false
		how := ""
		for _, b := range fn.Blocks {
			for _, in := range b.Instrs {
				c, ok := in.(*ssa.Call)
				if !ok {
					continue
				}
				if staticCalleeIs(&c.Call, "sort.Sort", "sort.Stable") {
					// sort.Reverse(T(copy))
					rv, ok := c.Call.Args[0].(*ssa.Call)
					if !ok || !staticCalleeIs(&rv.Call, "sort.Reverse") {
						how = "not sorted in descending order (no sort.Reverse)"
						continue
					}
					mi, ok := rv.Call.Args[0].(*ssa.MakeInterface)
					if !ok {
						continue
					}
					v := mi.X
					var nt *types.Named
					if ct, ok := v.(*ssa.ChangeType); ok {
						nt, _ = ct.Type().(*types.Named)
						v = ct.X
					}
					fresh := true
					for root := range ef.Src(v) {
						if root.Kind != rkFresh {
							fresh = false
						}
					}
					if !fresh {
						how = "the offered list itself is sorted (origin " + ef.Src(v).String() + ")"
						continue
					}
					if nt == nil {
						continue
					}
					less := p.Func("coinset", "("+nt.Obj().Name()+").Less")
					if less == nil {
						continue
					}
					// Less is a[i].Acc() < a[j].Acc() (or the mirrored a[j].Acc() > a[i].Acc())
					if lessAscendingBy(less, spec.acc) {
						okSort = true
					} else {
						how = "comparator does not order ascending by " + spec.acc + "() (reversed for the sort)"
					}
				}
				if cal := c.Call.StaticCallee(); cal != nil && cal == p.Func("coinset", "(MinIndexCoinSelector).CoinSelect") {
					// receiver is the selector converted as a whole; target value unchanged
					recv := c.Call.Args[0]
					if ct, ok := recv.(*ssa.ChangeType); ok {
						recv = ct.X
					}
					if ld, ok := recv.(*ssa.UnOp); ok {
						if al, ok := ld.X.(*ssa.Alloc); ok && singleStore(al) == ssa.Value(fn.Params[0]) {
							okDelegate = c.Call.Args[1] == ssa.Value(fn.Params[1])
						}
					}
					if recv == ssa.Value(fn.Params[0]) {
						okDelegate = c.Call.Args[1] == ssa.Value(fn.Params[1])
					}
				}
			}
		}
		r.Add("C19.desc", FnName(fn), "sorts a fresh copy of the offered coins descending by "+spec.acc+"()", fn.Pos(), okSort, how)
		r.Add("C19.desc", FnName(fn), "delegates to the prefix selector with the same limits and target", fn.Pos(), okDelegate, "MinIndexCoinSelector(s).CoinSelect(targetValue, sorted)")
	}
	r.Floor("C19.order", 1)
	r.Floor("C19.desc", 4)
	c19selectors(p, r)
	c19prefix(p, r)
	c19cache(p, r, cst, listF)
}

// postDominates: every path from b to a function exit passes through a.
func postDominates(fn *ssa.Function, a, b *ssa.BasicBlock) bool {
	pd := postDominators(fn)
	return pd[b][a]
}

// lessAscendingBy: every return of the comparator is acc(a[i]) < acc(a[j]) or acc(a[j]) > acc(a[i]).
func lessAscendingBy(less *ssa.Function, acc string) bool {
	rets := returnsOf(less)
	if len(rets) == 0 || len(less.Params) != 3 {
		return false
	}
	side := func(v ssa.Value) int {
		cv, ok := coinAccessorCall(v, acc)
		if !ok {
			return -1
		}
		if elemIndexIs(cv, less.Params[1]) {
			return 0
		}
		if elemIndexIs(cv, less.Params[2]) {
			return 1
		}
		return -1
	}
	for _, ret := range rets {
		bo, ok := ret.Results[0].(*ssa.BinOp)
		if !ok {
			return false
		}
		l, r := side(bo.X), side(bo.Y)
		switch {
		case bo.Op == token.LSS && l == 0 && r == 1:
		case bo.Op == token.GTR && l == 1 && r == 0:
		default:
			return false
		}
	}
	return true
}

package main

import (
	"fmt"
	"go/token"
	"go/types"
	"os"
	"sort"
	"strings"

	"golang.org/x/tools/go/ssa"
)

// c08Exceptions: see DESIGN §7.3.  Filled in as the prover's residue is triaged.
var c08Exceptions = []c08Exception{
	{
		fn: "bchutil.NewAddressPubKey", construct: "index serializedPubKey[0]",
		reason: "bchec.ParsePubKey succeeds only for 33- or 65-byte input (external post-condition len ≥ 33)",
		premise: func(pr *Prover, in ssa.Instruction) (bool, string) {
			ia, ok := in.(*ssa.IndexAddr)
			if !ok {
				return false, "not an index"
			}
			for _, c := range DomConds(in.Block()) {
				bo, truth, ok := condBinOp(c)
				if !ok || !(bo.Op == token.NEQ && !truth || bo.Op == token.EQL && truth) {
					continue
				}
				for _, side := range []ssa.Value{bo.X, bo.Y} {
					ex, ok := side.(*ssa.Extract)
					if !ok {
						continue
					}
					call, ok := ex.Tuple.(*ssa.Call)
					if ok && staticCalleeIs(&call.Call, "github.com/gcash/bchd/bchec.ParsePubKey") && call.Call.Args[0] == ia.X {
						return true, "dominated by err == nil of ParsePubKey on the same slice"
					}
				}
			}
			return false, "no successful ParsePubKey of the same slice dominates the read"
		},
	},
	{
		fn: "bech32.Decode", construct: "slice bech32.toBytes(*", // however the argument is spelled: the premise does the work
		reason:  "toBytes returns one byte per input character on success (loop-count fact outside the prover's domain)",
		premise: bech32DataLenPremise,
	},
	{
		fn: "bech32.Decode", construct: "slice bech32.toBytes(*", // (the second slice of the same value; the premise identifies it)
		reason:  "toBytes returns one byte per input character on success (loop-count fact outside the prover's domain)",
		premise: bech32DataLenPremise,
	},
	{
		fn: "(*bloom.Filter).hash", construct: "division (bloom.MurmurHash3(*", // any spelling of the divisor (<<3, *8, hoisted locals): the premise does the work
		reason:  "divisor uint32(len(filter))<<3 is non-zero when 0 < len(filter) < 2^29: non-emptiness is proved at every call site; the upper bound is the statement's 'within the wire limits' (36000 bytes)",
		premise: nonEmptyAtCallSites,
	},
	{
		fn: "(*bchutil.Block).Transactions", construct: "index b.msgBlock.Transactions[*",
		reason:  "class invariant of bchutil.Block: the per-index cache is only ever made with len(msg.Transactions) (C16.index), so an index ranging over the cache is in range of the message's list",
		premise: blockCachePremise,
	},
	{
		fn: "(*merkleblock.PartialBlock).ExtractMatches", construct: "loop #1 terminates",
		reason: "height search: (numTx + 2^h − 1) >> h ≤ 1 as soon as 2^h ≥ numTx, and a uint32 shift by h ≥ 32 yields 0, so h ≤ 32 (non-linear argument)",
	},
}

// bech32DataLenPremise: the sliced value is the result of an in-repo call on a
// string whose length is proved ≥ 6 at this point, and that callee appends
// exactly one byte per character of its argument on its only success path.
func bech32DataLenPremise(pr *Prover, in ssa.Instruction) (bool, string) {
	sl, ok := in.(*ssa.Slice)
	if !ok {
		return false, "not a slice"
	}
	ex, ok := sl.X.(*ssa.Extract)
	if !ok {
		return false, "sliced value is not a call result"
	}
	call, ok := ex.Tuple.(*ssa.Call)
	if !ok || call.Call.StaticCallee() == nil || !pr.p.InRepo(call.Call.StaticCallee()) || len(call.Call.Args) != 1 {
		return false, "sliced value is not the result of an in-repo one-argument call"
	}
	if !onePerChar(call.Call.StaticCallee()) {
		return false, "callee does not return exactly one byte per input character"
	}
	arg := call.Call.Args[0]
	if ok, _ := pr.Prove(in.Block(), constLin(6).add(pr.lc.LenLin(arg), -1)); !ok {
		return false, "cannot prove len(argument) ≥ 6"
	}
	return true, "len(" + exprString(arg) + ") ≥ 6 proved; callee appends one byte per character"
}

// onePerChar: fn(chars string) ([]byte, error): result starts empty, a full-range
// counted loop over chars appends exactly one element per iteration on the
// path that continues, and the success return returns that slice.
func onePerChar(fn *ssa.Function) bool {
	if len(fn.Params) != 1 {
		return false
	}
	pa := fn.Params[0]
	same := func(v ssa.Value) bool { return v == ssa.Value(pa) }
	// the other spelling: the result is made with the argument's length and filled by index, so every success return
	// hands out a value whose length IS len(argument) as a linear term
	{
		lcx := NewLinCtx(nil, fn)
		want := lcx.LenLin(pa)
		n, all := 0, true
		for _, ret := range returnsOf(fn) {
			if len(ret.Results) != 2 || !isNilConst(ret.Results[1]) {
				continue
			}
			n++
			if isNilConst(ret.Results[0]) || !linEq(lcx.LenLin(ret.Results[0]), want) {
				all = false
			}
		}
		if n > 0 && all {
			return true
		}
	}
	for _, b := range fn.Blocks {
		for _, in := range b.Instrs {
			ph, ok := in.(*ssa.Phi)
			if !ok {
				continue
			}
			// result φ: (make(…,0,…), append(φ, one))
			if len(ph.Edges) != 2 {
				continue
			}
			var init, step ssa.Value
			for i, e := range ph.Edges {
				if ph.Block().Dominates(ph.Block().Preds[i]) {
					step = e
				} else {
					init = e
				}
			}
			ms, ok := init.(*ssa.MakeSlice)
			if !ok {
				continue
			}
			if k, ok := constInt(ms.Len); !ok || k != 0 {
				continue
			}
			ap, ok := step.(*ssa.Call)
			if !ok || !isBuiltin(&ap.Call, "append") || ap.Call.Args[0] != ssa.Value(ph) {
				continue
			}
			lcx := NewLinCtx(nil, fn)
			if l := lcx.LenLin(ap.Call.Args[1]); !l.isConst() || l.c != 1 {
				continue
			}
			// the loop is a full-range counted loop over the parameter in the φ's block
			okLoop := false
			for _, in2 := range ph.Block().Instrs {
				if idx, ok := in2.(*ssa.Phi); ok && idx != ph {
					if fullRangeInduction(idx, same) == ph.Block() {
						okLoop = true
					}
				}
			}
			if !okLoop {
				continue
			}
			// success return returns the φ
			for _, ret := range returnsOf(fn) {
				if len(ret.Results) == 2 && isNilConst(ret.Results[1]) && ret.Results[0] == ssa.Value(ph) {
					return true
				}
			}
		}
	}
	return false
}

// ---- return facts

// retFacts exports, for in-repo callees, linear facts about an integer result
// in terms of parameters and of lengths / values of memory reachable from the
// callee's parameters, and instantiates them at call sites (DESIGN §2.3
// "Return facts").  A summary is computed for single-return callees that do
// not (transitively) store to any field on the exported paths.
type retAtom struct {
	kind  byte // 'r' result, 'p' parameter value, 'l' len(path), 'v' value(path)
	param int
	path  int // index into summary.paths
}

type retSummary struct {
	paths []pathSpec
	atoms []retAtom // exported atom i
	facts []Lin     // over exported atom indices
}

type retFacts struct {
	p    *Program
	av   *Avail
	sums map[*ssa.Function]*retSummary
	busy map[*ssa.Function]bool
}

func newRetFacts(p *Program, av *Avail) *retFacts {
	rf := &retFacts{p: p, av: av, sums: map[*ssa.Function]*retSummary{}, busy: map[*ssa.Function]bool{}}
	av.pathsAtCall = func(c ssa.CallInstruction) []pathSpec {
		cal := c.Common().StaticCallee()
		if cal == nil || !p.InRepo(cal) || len(cal.Blocks) == 0 {
			return nil
		}
		if s := rf.summary(cal); s != nil {
			return s.paths
		}
		return nil
	}
	return rf
}

// pathOfLoad expresses a load as a parameter-rooted path of (field, load) steps.
func pathOfLoad(fn *ssa.Function, v ssa.Value) (pathSpec, bool) {
	var fields []*types.Var
	for i := 0; i < 8; i++ {
		u, ok := v.(*ssa.UnOp)
		if !ok || u.Op != token.MUL {
			return pathSpec{}, false
		}
		fa, ok := u.X.(*ssa.FieldAddr)
		if !ok {
			return pathSpec{}, false
		}
		fields = append([]*types.Var{fieldOfAddr(fa)}, fields...)
		if pa, ok := fa.X.(*ssa.Parameter); ok {
			return pathSpec{Param: paramIndex(fn, pa), Fields: fields}, true
		}
		v = fa.X
	}
	return pathSpec{}, false
}

func (rf *retFacts) summary(fn *ssa.Function) *retSummary {
	if s, ok := rf.sums[fn]; ok {
		return s
	}
	if rf.busy[fn] {
		return nil
	}
	rf.busy[fn] = true
	defer func() { rf.busy[fn] = false }()
	rf.sums[fn] = nil
	rets := returnsOf(fn)
	if len(rets) != 1 || len(rets[0].Results) != 1 {
		return nil
	}
	res := rets[0].Results[0]
	if _, isInt := intBasic(res.Type()); !isInt {
		return nil
	}
	// a recursive function has no summary
	for _, b := range fn.Blocks {
		for _, in := range b.Instrs {
			if ci, ok := in.(ssa.CallInstruction); ok && ci.Common().StaticCallee() == fn {
				return nil
			}
		}
	}
	save := rf.av.pathsAtCall
	rf.av.pathsAtCall = nil // summaries are one level deep
	lc := NewLinCtx(rf.p, fn)
	lc.alias = rf.av.Run(fn)
	rf.av.pathsAtCall = save
	pr := NewProver(rf.p, fn, lc)
	R := lc.Lin(res)
	facts := pr.factsAt(rets[0].Block()).le
	seed := append([]Lin{R}, facts...)
	for round := 0; round < 4; round++ {
		more := lc.Intrinsic(seed, nil)
		n := len(facts)
		facts = append(facts, more...)
		seed = append(seed, more...)
		if len(facts) == n {
			break
		}
	}
	// exportable atoms
	sum := &retSummary{}
	export := map[int]int{}
	pathIdx := map[string]int{}
	mods := rf.av.mods[fn]
	for a, k := range lc.keys {
		switch v := lc.res(k.v).(type) {
		case *ssa.Parameter:
			if k.kind == akVal {
				export[a] = len(sum.atoms)
				sum.atoms = append(sum.atoms, retAtom{kind: 'p', param: paramIndex(fn, v)})
			} else if k.kind == akLen {
				export[a] = len(sum.atoms)
				sum.atoms = append(sum.atoms, retAtom{kind: 'L', param: paramIndex(fn, v)})
			}
		case *ssa.UnOp:
			ps, ok := pathOfLoad(fn, v)
			if !ok {
				continue
			}
			clean := true
			for _, f := range ps.Fields {
				if mods[f] || rf.av.escaping[f] {
					clean = false
				}
			}
			if !clean {
				continue
			}
			pi, ok := pathIdx[ps.String()]
			if !ok {
				pi = len(sum.paths)
				pathIdx[ps.String()] = pi
				sum.paths = append(sum.paths, ps)
			}
			kind := byte('v')
			if k.kind == akLen {
				kind = 'l'
			} else if k.kind != akVal {
				continue
			}
			export[a] = len(sum.atoms)
			sum.atoms = append(sum.atoms, retAtom{kind: kind, path: pi})
		}
	}
	// the result: introduce a fresh atom index standing for it, tied to R
	resAtom := len(lc.keys) + 1
	tie := atomLin(resAtom).add(R, -1)
	facts = append(facts, tie, tie.scale(-1))
	export[resAtom] = len(sum.atoms)
	sum.atoms = append(sum.atoms, retAtom{kind: 'r'})
	proj := projectLin(facts, export)
	if os.Getenv("BCHVERIF_RF") != "" {
		fmt.Printf("retfacts %s: keep=%v resAtom=%d nproj=%d\n", FnName(fn), export, resAtom, len(proj))
	}
	for _, l := range proj {
		if _, has := l.coef[export[resAtom]]; has {
			sum.facts = append(sum.facts, l)
		}
	}
	if os.Getenv("BCHVERIF_RF") != "" {
		fmt.Printf("retfacts %s: R=%s paths=%v atoms=%v\n", FnName(fn), lc.Format(R), sum.paths, sum.atoms)
		for _, f := range facts {
			fmt.Printf("   fact %s\n", lc.Format(f))
		}
		for _, f := range sum.facts {
			fmt.Printf("   export %s\n", f.format(func(i int) string { return fmt.Sprintf("x%d", i) }))
		}
	}
	if len(sum.facts) == 0 {
		return nil
	}
	rf.sums[fn] = sum
	return sum
}

// projectLin eliminates (Fourier–Motzkin) every atom not in keep and renames
// the kept atoms through keep.
func projectLin(facts []Lin, keep map[int]int) []Lin {
	cur := make([]Lin, 0, len(facts))
	for _, f := range facts {
		cur = append(cur, tighten(f.clone()))
	}
	dedupLins := func(in []Lin) []Lin {
		seen := map[string]bool{}
		out := in[:0]
		for _, l := range in {
			k := l.format(func(i int) string { return fmt.Sprint(i) })
			if !seen[k] {
				seen[k] = true
				out = append(out, l)
			}
		}
		return out
	}
	for iter := 0; iter < 64; iter++ {
		cur = dedupLins(cur)
		elim := -1
		bestCost := 1 << 30
		cnt := map[int][2]int{}
		for _, l := range cur {
			for a, v := range l.coef {
				if _, k := keep[a]; k {
					continue
				}
				c := cnt[a]
				if v > 0 {
					c[0]++
				} else {
					c[1]++
				}
				cnt[a] = c
			}
		}
		for a, c := range cnt {
			if cost := c[0] * c[1]; cost < bestCost || (cost == bestCost && a < elim) {
				elim, bestCost = a, cost
			}
		}
		if elim < 0 {
			break
		}
		var pos, neg, rest []Lin
		for _, l := range cur {
			if v := l.coef[elim]; v > 0 {
				pos = append(pos, l)
			} else if v < 0 {
				neg = append(neg, l)
			} else {
				rest = append(rest, l)
			}
		}
		if len(pos)*len(neg) > 400 {
			// give up on this atom: drop every fact mentioning it (sound: fewer facts)
			cur = rest
			continue
		}
		for _, p := range pos {
			for _, n := range neg {
				a, b := p.coef[elim], -n.coef[elim]
				g := gcd64(a, b)
				r := p.scale(b/g).add(n, a/g)
				delete(r.coef, elim)
				if r.isConst() {
					continue
				}
				rest = append(rest, tighten(r))
			}
		}
		cur = rest
	}
	var out []Lin
	seen := map[string]bool{}
	for _, l := range cur {
		n := constLin(l.c)
		ok := true
		for a, v := range l.coef {
			na, k := keep[a]
			if !k {
				ok = false
				break
			}
			n.coef[na] = v
		}
		if !ok || n.isConst() {
			continue
		}
		key := n.format(func(i int) string { return fmt.Sprint(i) })
		if !seen[key] {
			seen[key] = true
			out = append(out, n)
		}
	}
	return out
}

// install makes lc emit the callee's return facts for call atoms.
func (rf *retFacts) install(lc *LinCtx) {
	lc.callFacts = func(c *ssa.Call) []Lin {
		cal := c.Call.StaticCallee()
		if cal == nil || !rf.p.InRepo(cal) {
			return nil
		}
		sum := rf.summary(cal)
		if sum == nil {
			return nil
		}
		reps := rf.av.CallPaths[c]
		inst := make([]Lin, len(sum.atoms))
		okAtom := make([]bool, len(sum.atoms))
		for i, ra := range sum.atoms {
			switch ra.kind {
			case 'r':
				inst[i], okAtom[i] = atomLin(lc.atom(c, akVal)), true
			case 'p':
				if ra.param < len(c.Call.Args) {
					inst[i], okAtom[i] = lc.Lin(c.Call.Args[ra.param]), true
				}
			case 'L':
				if ra.param < len(c.Call.Args) {
					inst[i], okAtom[i] = lc.LenLin(c.Call.Args[ra.param]), true
				}
			case 'l', 'v':
				if ra.path < len(reps) && reps[ra.path] != nil {
					if ra.kind == 'l' {
						inst[i] = lc.LenLin(reps[ra.path])
					} else {
						inst[i] = lc.Lin(reps[ra.path])
					}
					okAtom[i] = true
				}
			}
		}
		var out []Lin
		for _, f := range sum.facts {
			l := constLin(f.c)
			ok := true
			for a, co := range f.coef {
				if !okAtom[a] {
					ok = false
					break
				}
				l = l.add(inst[a], co)
			}
			if ok {
				out = append(out, l)
			}
		}
		return out
	}
}

// sortClosureAxioms (axiom A6): fn is a closure passed as the `less` argument
// of sort.Slice(s, less); its two index parameters are in range of s, provided
// the captured slice variable is not assigned after the closure was created.
func sortClosureAxioms(p *Program, fn *ssa.Function, lc *LinCtx) []Lin {
	if fn.Parent() == nil || len(fn.Params) != 2 {
		return nil
	}
	var out []Lin
	parent := fn.Parent()
	for _, b := range parent.Blocks {
		for _, in := range b.Instrs {
			c, ok := in.(*ssa.Call)
			if !ok || !staticCalleeIs(&c.Call, "sort.Slice", "sort.SliceStable") || len(c.Call.Args) != 2 {
				continue
			}
			mc, ok := c.Call.Args[1].(*ssa.MakeClosure)
			if !ok || mc.Fn != ssa.Value(fn) {
				continue
			}
			mi, ok := c.Call.Args[0].(*ssa.MakeInterface)
			if !ok {
				continue
			}
			ld, ok := mi.X.(*ssa.UnOp)
			if !ok || ld.Op != token.MUL {
				continue
			}
			a, ok := ld.X.(*ssa.Alloc)
			if !ok {
				continue
			}
			// which free variable is bound to a?
			for j, bnd := range mc.Bindings {
				if bnd != ssa.Value(a) {
					continue
				}
				// no store to a after the closure creation (in the parent) and none in the closure
				if freeVarStored(fn, j) {
					continue
				}
				// no store to the captured variable can execute once the closure exists
				stable := true
				after := reachableFrom(mc.Block(), nil)
				for _, ref := range *a.Referrers() {
					st, ok := ref.(*ssa.Store)
					if !ok || st.Addr != ssa.Value(a) {
						continue
					}
					if st.Block() == mc.Block() {
						if instrDominates(mc, st) {
							stable = false
						}
						// the block may also be re-entered through a cycle
						for _, sx := range mc.Block().Succs {
							if reachableFrom(sx, nil)[mc.Block()] {
								stable = false
							}
						}
					} else if after[st.Block()] {
						stable = false
					}
				}
				if !stable {
					continue
				}
				fv := fn.FreeVars[j]
				for _, ref := range *fv.Referrers() {
					l2, ok := ref.(*ssa.UnOp)
					if !ok || l2.Op != token.MUL {
						continue
					}
					ln := lc.LenLin(l2)
					for _, pa := range fn.Params {
						if _, isInt := intBasic(pa.Type()); !isInt {
							continue
						}
						pl := lc.Lin(pa)
						out = append(out, pl.scale(-1), pl.addConst(1).add(ln, -1))
					}
				}
			}
		}
	}
	return out
}

var _ = types.Typ

// paramEntryFacts: for an unexported in-repo function that is never used as a
// value, a parameter that receives a constant at every call site is bounded by
// the smallest and largest of those constants (inter-procedural constant facts).
func paramEntryFacts(p *Program, fn *ssa.Function, lc *LinCtx) []Lin {
	if fn.Parent() != nil || fn.Object() == nil || fn.Object().Exported() || fn.Signature.Recv() != nil && fn.Object().Exported() {
		return nil
	}
	type rng struct {
		lo, hi int64
		n      int
		ok     bool
	}
	rs := make([]rng, len(fn.Params))
	for i := range rs {
		rs[i].ok = true
	}
	sites := 0
	for _, g := range p.Funcs {
		for _, b := range g.Blocks {
			for _, in := range b.Instrs {
				var buf [12]*ssa.Value
				isCallOfFn := false
				if ci, ok := in.(ssa.CallInstruction); ok && ci.Common().StaticCallee() == fn {
					isCallOfFn = true
					sites++
					for i := range fn.Params {
						if i >= len(ci.Common().Args) {
							rs[i].ok = false
							continue
						}
						k, ok := constInt(ci.Common().Args[i])
						if !ok {
							rs[i].ok = false
							continue
						}
						if rs[i].n == 0 || k < rs[i].lo {
							rs[i].lo = k
						}
						if rs[i].n == 0 || k > rs[i].hi {
							rs[i].hi = k
						}
						rs[i].n++
					}
				}
				for _, op := range in.Operands(buf[:0]) {
					if *op == ssa.Value(fn) {
						if ci, ok := in.(ssa.CallInstruction); ok && isCallOfFn && ci.Common().Value == ssa.Value(fn) {
							continue
						}
						return nil // used as a value
					}
				}
			}
		}
	}
	if sites == 0 {
		return nil
	}
	var out []Lin
	for i, r := range rs {
		if !r.ok || r.n == 0 {
			continue
		}
		if _, isInt := intBasic(fn.Params[i].Type()); !isInt {
			continue
		}
		pl := lc.Lin(fn.Params[i])
		out = append(out, pl.scale(-1).addConst(r.lo), pl.addConst(-r.hi))
	}
	return out
}

// c08ctx gives exception premises access to the whole-program analyses.
var c08ctx struct {
	p  *Program
	av *Avail
	rf *retFacts
}

// nonEmptyAtCallSites: the divisor of `in` is (uintN(len(S)) << k) or
// uintN(len(S))·c for a slice S loaded from a parameter-rooted path that the
// function never modifies, and at every call site of the function in the
// repository the prover shows len(S) ≥ 1 for the caller's view of that path.
func nonEmptyAtCallSites(pr *Prover, in ssa.Instruction) (bool, string) {
	bo, ok := in.(*ssa.BinOp)
	if !ok {
		return false, "not a division"
	}
	d := bo.Y
	if sh, ok := d.(*ssa.BinOp); ok && (sh.Op == token.SHL || sh.Op == token.MUL) {
		if _, isC := constInt(sh.Y); isC {
			d = sh.X
		}
	}
	d = stripIntConv(d)
	lenCall, ok := d.(*ssa.Call)
	if !ok || !isBuiltin(&lenCall.Call, "len") {
		return false, "divisor is not derived from a len()"
	}
	fn := in.Parent()
	ps, ok := pathOfLoad(fn, pr.lc.res(lenCall.Call.Args[0]))
	if !ok {
		// the alias may have replaced the load by another load of the same path
		ps, ok = pathOfLoad(fn, lenCall.Call.Args[0])
		if !ok {
			return false, "the slice is not loaded from a parameter-rooted path"
		}
	}
	for _, f := range ps.Fields {
		if c08ctx.av.mods[fn][f] {
			return false, "the function modifies " + f.Name()
		}
	}
	if fn.Object() != nil && fn.Object().Exported() {
		return false, "the function is exported: external callers are not checked"
	}
	sites := 0
	for _, g := range c08ctx.p.Funcs {
		var glc *LinCtx
		var gpr *Prover
		for _, b := range g.Blocks {
			for _, ins := range b.Instrs {
				var buf [10]*ssa.Value
				ci, isCall := ins.(ssa.CallInstruction)
				for _, op := range ins.Operands(buf[:0]) {
					if *op == ssa.Value(fn) && !(isCall && ci.Common().Value == ssa.Value(fn)) {
						return false, "the function is used as a value in " + FnName(g)
					}
				}
				if !isCall || ci.Common().StaticCallee() != fn {
					continue
				}
				sites++
				if glc == nil {
					glc = NewLinCtx(c08ctx.p, g)
					save := c08ctx.av.pathsAtCall
					// materialise exactly this path before the call: ask for it at every call of fn
					c08ctx.av.pathsAtCall = func(c ssa.CallInstruction) []pathSpec {
						if c.Common().StaticCallee() == fn {
							return []pathSpec{ps}
						}
						if save != nil {
							return save(c)
						}
						return nil
					}
					glc.alias = c08ctx.av.Run(g)
					c08ctx.av.pathsAtCall = save
					gpr = NewProver(c08ctx.p, g, glc)
				}
				reps := c08ctx.av.CallPaths[ci]
				if len(reps) == 0 || reps[0] == nil {
					return false, "cannot name the path at the call in " + FnName(g)
				}
				if _, synth := reps[0].(*synthLoad); synth {
					return false, "the path is not loaded (and tested) before the call in " + FnName(g)
				}
				if ok, _ := gpr.Prove(ins.Block(), constLin(1).add(glc.LenLin(reps[0]), -1)); !ok {
					return false, "cannot prove len(" + ps.String() + ") ≥ 1 at the call in " + FnName(g)
				}
			}
		}
	}
	if sites == 0 {
		return false, "no call site found"
	}
	return true, fmt.Sprintf("len(%s) ≥ 1 proved at all %d call sites", ps.String(), sites)
}

// blockCachePremise: the index is proved in range with the class invariant len(cache) = len(msg.Transactions)
// added (the invariant's own premise, every make of the cache being sized len(msg.Transactions), is checked
// repository-wide here as well as by C16.index).
func blockCachePremise(pr *Prover, in ssa.Instruction) (bool, string) {
	ia, ok := in.(*ssa.IndexAddr)
	if !ok {
		return false, "not an index"
	}
	fn := in.Parent()
	if len(fn.Params) == 0 {
		return false, "no receiver"
	}
	recv := ssa.Value(fn.Params[0])
	st, ok := derefType(recv.Type()).Underlying().(*types.Struct)
	if !ok {
		return false, "receiver is not a struct pointer"
	}
	var extra []Lin
	for i := 0; i < st.NumFields(); i++ {
		cf := st.Field(i)
		sl, isSl := cf.Type().Underlying().(*types.Slice)
		if !isSl {
			continue
		}
		if _, isPtr := sl.Elem().Underlying().(*types.Pointer); !isPtr {
			continue
		}
		// every make stored into this field anywhere is sized by len(….Transactions)
		for _, g := range pr.p.Funcs {
			for _, b := range g.Blocks {
				for _, in2 := range b.Instrs {
					s2, ok := in2.(*ssa.Store)
					if !ok {
						continue
					}
					fa, ok := s2.Addr.(*ssa.FieldAddr)
					if !ok || fieldOfAddr(fa) != cf {
						continue
					}
					if _, fresh := canonRoot(fa.X).(*ssa.Alloc); fresh && isNilConst(s2.Val) {
						continue
					}
					ms, ok := s2.Val.(*ssa.MakeSlice)
					if !ok {
						return false, "the cache field " + cf.Name() + " is assigned something other than a fresh make in " + FnName(g)
					}
					c, ok := stripIntConv(ms.Len).(*ssa.Call)
					if !ok || !isBuiltin(&c.Call, "len") || !strings.Contains(exprString(c.Call.Args[0]), ".Transactions") {
						return false, "the cache field " + cf.Name() + " is made with a length other than len(msg.Transactions) in " + FnName(g)
					}
				}
			}
		}
		extra = append(extra, cacheInvariant(pr.lc, fn, recv, cf)...)
	}
	g1, _ := pr.ProveWith(in.Block(), extra, pr.lc.Lin(ia.Index).scale(-1))
	g2, _ := pr.ProveWith(in.Block(), extra, pr.lc.Lin(ia.Index).addConst(1).add(pr.lc.LenLin(ia.X), -1))
	if g1 && g2 {
		return true, "proved with len(cache) = len(msg.Transactions)"
	}
	return false, "not provable even with the cache invariant"
}

// liftToCallSites: an obligation of an unexported helper that cannot be proved inside it is a precondition of the
// helper; it is discharged when it is provable at every call site, with the helper's parameters (and fields loaded
// through them) replaced by the caller's arguments.  Only goals whose terms are parameters, lengths of parameters,
// or values / lengths loaded through an unmodified field path of a parameter can be lifted.
func liftToCallSites(pr *Prover, in ssa.Instruction, goals []Lin, extraFor func(g *ssa.Function, glc *LinCtx) []Lin) (bool, string) {
	fn := in.Parent()
	if fn.Object() == nil || fn.Object().Exported() || fn.Parent() != nil {
		return false, ""
	}
	type term struct {
		kind string // "param" | "lenparam" | "valpath" | "lenpath"
		pi   int
		ps   pathSpec
	}
	terms := map[int]term{}
	var specs []pathSpec
	specIdx := map[string]int{}
	for _, g := range goals {
		for _, a := range g.atoms() {
			if _, done := terms[a]; done {
				continue
			}
			k := pr.lc.keys[a]
			switch {
			case k.kind == akVal || k.kind == akLen:
				if pa, ok := k.v.(*ssa.Parameter); ok {
					kind := "param"
					if k.kind == akLen {
						kind = "lenparam"
					}
					terms[a] = term{kind: kind, pi: paramIndex(fn, pa)}
					continue
				}
				ps, ok := pathOfLoad(fn, k.v)
				if !ok {
					return false, ""
				}
				for _, f := range ps.Fields {
					if c08ctx.av.mods[fn][f] {
						return false, ""
					}
				}
				kind := "valpath"
				if k.kind == akLen {
					kind = "lenpath"
				}
				if _, seen := specIdx[ps.String()]; !seen {
					specIdx[ps.String()] = len(specs)
					specs = append(specs, ps)
				}
				terms[a] = term{kind: kind, ps: ps}
			default:
				return false, ""
			}
		}
	}
	sites := 0
	for _, g := range c08ctx.p.Funcs {
		var glc *LinCtx
		var gpr *Prover
		for _, b := range g.Blocks {
			for _, ins := range b.Instrs {
				var buf [10]*ssa.Value
				ci, isCall := ins.(ssa.CallInstruction)
				for _, op := range ins.Operands(buf[:0]) {
					if *op == ssa.Value(fn) && !(isCall && ci.Common().Value == ssa.Value(fn)) {
						return false, "the function is used as a value in " + FnName(g)
					}
				}
				if !isCall || ci.Common().StaticCallee() != fn {
					continue
				}
				sites++
				if glc == nil {
					glc = NewLinCtx(c08ctx.p, g)
					save := c08ctx.av.pathsAtCall
					c08ctx.av.pathsAtCall = func(c ssa.CallInstruction) []pathSpec {
						if c.Common().StaticCallee() == fn {
							return specs
						}
						if save != nil {
							return save(c)
						}
						return nil
					}
					glc.alias = c08ctx.av.Run(g)
					c08ctx.av.pathsAtCall = save
					c08ctx.rf.install(glc)
					gpr = NewProver(c08ctx.p, g, glc)
				}
				reps := c08ctx.av.CallPaths[ci]
				if len(reps) < len(specs) {
					return false, "cannot name the paths at the call in " + FnName(g)
				}
				args := ci.Common().Args
				var extra []Lin
				if extraFor != nil {
					extra = extraFor(g, glc)
				}
				for gi, goal := range goals {
					cg := constLin(goal.c)
					for _, a := range goal.atoms() {
						t := terms[a]
						var l Lin
						switch t.kind {
						case "param":
							if t.pi >= len(args) {
								return false, ""
							}
							l = glc.Lin(args[t.pi])
						case "lenparam":
							if t.pi >= len(args) {
								return false, ""
							}
							l = glc.LenLin(args[t.pi])
						case "valpath", "lenpath":
							rep := reps[specIdx[t.ps.String()]]
							if rep == nil {
								return false, "cannot name " + t.ps.String() + " at the call in " + FnName(g)
							}
							if t.kind == "lenpath" {
								l = glc.LenLin(rep)
							} else {
								l = glc.Lin(rep)
							}
						}
						cg = cg.add(l, goal.coef[a])
					}
					if ok, _ := gpr.ProveWith(ins.Block(), extra, cg); !ok {
						return false, fmt.Sprintf("precondition #%d of %s is not provable at the call in %s [%s ≤ 0]", gi+1, FnName(fn), FnName(g), glc.Format(cg))
					}
				}
			}
		}
	}
	if sites == 0 {
		return false, ""
	}
	return true, fmt.Sprintf("a precondition of the unexported helper, proved at all %d call site(s)", sites)
}

// blockCacheFacts: for a method of a struct that keeps a per-index cache of a wire message's list (bchutil.Block), the
// class invariant len(cache) = len(msg.Transactions) as linear facts — provided every make of the cache anywhere is
// sized by len(….Transactions) (checked here, and by C16.index).
func blockCacheFacts(p *Program, g *ssa.Function, glc *LinCtx) []Lin {
	if len(g.Params) == 0 || g.Signature.Recv() == nil {
		return nil
	}
	recv := ssa.Value(g.Params[0])
	dt := derefType(recv.Type())
	if dt == nil {
		return nil
	}
	st, ok := dt.Underlying().(*types.Struct)
	if !ok {
		return nil
	}
	var extra []Lin
	for i := 0; i < st.NumFields(); i++ {
		cf := st.Field(i)
		sl, isSl := cf.Type().Underlying().(*types.Slice)
		if !isSl {
			continue
		}
		if _, isPtr := sl.Elem().Underlying().(*types.Pointer); !isPtr {
			continue
		}
		okField := true
		for _, h := range p.Funcs {
			for _, b := range h.Blocks {
				for _, in2 := range b.Instrs {
					s2, ok := in2.(*ssa.Store)
					if !ok {
						continue
					}
					fa, ok := s2.Addr.(*ssa.FieldAddr)
					if !ok || fieldOfAddr(fa) != cf {
						continue
					}
					if _, fresh := canonRoot(fa.X).(*ssa.Alloc); fresh && isNilConst(s2.Val) {
						continue
					}
					ms, ok := s2.Val.(*ssa.MakeSlice)
					if !ok {
						okField = false
						continue
					}
					c, ok := stripIntConv(ms.Len).(*ssa.Call)
					if !ok || !isBuiltin(&c.Call, "len") || !strings.Contains(exprString(c.Call.Args[0]), ".Transactions") {
						okField = false
					}
				}
			}
		}
		if okField {
			extra = append(extra, cacheInvariant(glc, g, recv, cf)...)
		}
	}
	return extra
}

// c08NilAfterError (round 7, C08-agent7-m3): an out-of-repo function that returns (pointer, error) returns a nil pointer
// with the error.  Its pointer result may be dereferenced, have a method called on it or be handed on only where the
// error was tested (err == nil on the path) or the pointer itself was.  `ch, _ := chainhash.NewHashFromStr(tv);
// ch.CloneBytes()` behind a mere length test panics on a 64-character string that is not hex.
func c08NilAfterError(p *Program, r *Report, fn *ssa.Function) int {
	n := 0
	errT := types.Universe.Lookup("error").Type()
	for _, b := range fn.Blocks {
		for _, in := range b.Instrs {
			c, ok := in.(*ssa.Call)
			if !ok {
				continue
			}
			cal := c.Call.StaticCallee()
			if cal == nil || p.InRepo(cal) || cal.Signature.Results().Len() != 2 {
				continue
			}
			if _, isPtr := cal.Signature.Results().At(0).Type().Underlying().(*types.Pointer); !isPtr {
				continue
			}
			if !types.Identical(cal.Signature.Results().At(1).Type(), errT) {
				continue
			}
			var ptr, errv ssa.Value
			for _, ref := range *c.Referrers() {
				if ex, ok := ref.(*ssa.Extract); ok {
					if ex.Index == 0 {
						ptr = ex
					} else {
						errv = ex
					}
				}
			}
			if ptr == nil {
				continue
			}
			var bad []string
			nuse := 0
			for _, u := range *ptr.Referrers() {
				what := ""
				switch x := u.(type) {
				case *ssa.UnOp:
					if x.Op == token.MUL {
						what = "dereferenced"
					}
				case *ssa.FieldAddr:
					what = "field accessed"
				case *ssa.IndexAddr:
					what = "indexed"
				case *ssa.Slice:
					what = "sliced"
				case *ssa.Call:
					if len(x.Call.Args) > 0 && x.Call.Args[0] == ptr && x.Call.StaticCallee() != nil && x.Call.StaticCallee().Signature.Recv() != nil {
						what = "used as the receiver of " + x.Call.StaticCallee().Name()
					}
				}
				if what == "" {
					continue
				}
				nuse++
				ok := false
				for _, cd := range MustCondsAtBlock(fn, u.Block()) {
					bo, isB := cd.V.(*ssa.BinOp)
					if !isB {
						continue
					}
					for _, v := range []ssa.Value{errv, ptr} {
						if v == nil {
							continue
						}
						if (bo.X == v && isNilConst(bo.Y)) || (bo.Y == v && isNilConst(bo.X)) {
							wantNil := v == errv // err == nil, ptr != nil
							isEq := (bo.Op == token.EQL && cd.Truth) || (bo.Op == token.NEQ && !cd.Truth)
							if isEq == wantNil {
								ok = true
							}
						}
					}
				}
				if !ok {
					bad = append(bad, what+" at "+p.Pos(u.Pos()))
				}
			}
			if nuse == 0 {
				continue
			}
			n++
			sort.Strings(bad)
			r.Add("C08.nil", FnName(fn), "the pointer result of "+calleeName(&c.Call)+" is used only where its error was tested", c.Pos(), len(bad) == 0,
				strings.Join(bad, "; ")+" without err == nil (or a nil test of the pointer) on the path")
		}
	}
	return n
}

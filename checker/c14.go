package main

import (
	"fmt"
	"go/constant"
	"go/token"
	"go/types"
	"os"
	"regexp"
	"sort"
	"strings"

	"golang.org/x/tools/go/ssa"
)

func init() { register("C14", checkC14) }

// constsReaching follows a value up through the call chain: fn's parameter i
// receives, at every in-repo call site reachable from root, a value that
// resolves to a constant; returns the set of constants (and ok=false if some
// site passes a non-constant).
func constsReachingParam(p *Program, root *ssa.Function, fn *ssa.Function, pi int, depth int) (map[int64]bool, bool) {
	out := map[int64]bool{}
	if depth > 8 {
		return out, false
	}
	okAll := true
	found := false
	for _, g := range p.Reachable([]*ssa.Function{root}) {
		for _, b := range g.Blocks {
			for _, in := range b.Instrs {
				c, ok := in.(*ssa.Call)
				if !ok || c.Call.StaticCallee() != fn || pi >= len(c.Call.Args) {
					continue
				}
				found = true
				a := c.Call.Args[pi]
				if k, ok := constInt(a); ok {
					out[k] = true
					continue
				}
				if pa, ok := a.(*ssa.Parameter); ok {
					sub, ok := constsReachingParam(p, root, g, paramIndex(g, pa), depth+1)
					if !ok {
						okAll = false
					}
					for k := range sub {
						out[k] = true
					}
					continue
				}
				okAll = false
			}
		}
	}
	return out, okAll && found
}

// bufferWrites lists, in dominance order, the writer calls on a local
// bytes.Buffer (or the element stores into a fresh slice) of fn, as strings.
func bufferWrites(p *Program, fn *ssa.Function) []string {
	tb := NewTermBuilder(p, fn)
	var out []string
	for _, b := range fn.DomPreorder() {
		for _, in := range b.Instrs {
			c, ok := in.(*ssa.Call)
			if !ok {
				continue
			}
			cal := c.Call.StaticCallee()
			if cal == nil {
				continue
			}
			switch cal.String() {
			case "github.com/gcash/bchd/wire.WriteVarInt":
				out = append(out, "varint "+anonymise(tb.Term(c.Call.Args[2])))
			case "(*bytes.Buffer).Write":
				out = append(out, "bytes "+anonymise(tb.Term(c.Call.Args[1])))
			case "(*bytes.Buffer).WriteByte":
				out = append(out, "byte "+anonymise(tb.Term(c.Call.Args[1])))
			}
		}
	}
	return out
}

func checkC14(p *Program, r *Report) {
	// round 7: the constructors of package gcs refuse a filter for P only when P > 32 (C14-agent7-m1: `P >= maxP` in
	// FromBytes refused what BuildGCSFilter had produced), and BuildGCSFilter refuses for nothing but P (C13-agent7-m2: an
	// "overflow guard" N > MaxUint32/M refused every set with N·M ≥ 2^32)
	for _, name := range []string{"BuildGCSFilter", "FromBytes", "FromNBytes", "FromPBytes", "FromNPBytes"} {
		gf := p.Func("gcs", name)
		if gf == nil {
			continue
		}
		var pp *ssa.Parameter
		for _, pa := range gf.Params {
			if bt, ok := pa.Type().Underlying().(*types.Basic); ok && bt.Kind() == types.Uint8 {
				pp = pa
			}
		}
		if pp == nil {
			continue
		}
		pv := ssa.Value(pp)
		refusalsOutside(p, r, "C14.range", gf, func(v ssa.Value) bool { return v == pv }, func(lc *LinCtx) (Lin, bool) { return lc.Lin(pv), true }, 0, 32, "0..32")
		if name == "BuildGCSFilter" {
			gcsBuildRefusals(p, r, "C14.range", gf, pp)
		}
	}
	// mutation sweep (`p > 32` → `p >= 32` in the fluent builder): SetP / SetM refuse — by storing an error in the builder —
	// only outside 0..32 resp. 0..2^32−1
	for _, e := range []struct {
		name string
		hi   int64
		what string
	}{{"(*GCSBuilder).SetP", 32, "0..32"}, {"(*GCSBuilder).SetM", 1<<32 - 1, "0..2^32-1"}} {
		sf := p.Func("gcs/builder", e.name)
		if sf == nil || len(sf.Params) < 2 {
			r.Unresolved("C14.range", "builder."+e.name)
			continue
		}
		rej := map[*ssa.BasicBlock]bool{}
		for _, b := range sf.Blocks {
			for _, in := range b.Instrs {
				if st, ok := in.(*ssa.Store); ok && isErrorValue(st.Val) {
					if _, isF := st.Addr.(*ssa.FieldAddr); isF {
						rej[b] = true
					}
				}
			}
		}
		pv := ssa.Value(sf.Params[1])
		if refusalsOutsideRej(p, r, "C14.range", sf, rej, func(v ssa.Value) bool { return v == pv }, func(lc *LinCtx) (Lin, bool) { return lc.Lin(pv), true }, 0, e.hi, e.what) == 0 {
			r.Unresolved("C14.range", "refusal of builder."+e.name+" that stores an error in the builder")
		}
	}
	r.Floor("C14.range", 2)
	// round 6 (systematic): no unguarded mutable package-level state behind this property's functions (§2.9)
	sharedStateRule(p, r, NewEffects(p), "C14.shared", []string{"gcs/gcs.go", "gcs/builder/builder.go"})
	r.Floor("C14.shared", 0)
	r.Explain = "C14.const: DefaultP = 19, DefaultM = 784931, and the block-filter path reaches the parameter setters with exactly these constants; the key is bytes " +
		"[0,16) of the block hash. C14.order: NBytes = VarInt(N) ‖ data, NPBytes = VarInt(N) ‖ P ‖ data, PBytes = P ‖ data; FromNBytes reads the VarInt and hands " +
		"the rest to FromBytes. C14.content: the block-filter function adds spent outpoints only for non-coinbase transactions and output scripts only when " +
		"non-empty, through a map keyed by the entry bytes (de-duplication). C14.hash: filter hash = SHA256d(NBytes), header = SHA256d(filter hash ‖ previous " +
		"header). C14.latch: every chain method of the builder tests the error latch first and returns the builder untouched on error; P > 32 and M > 2^32−1 " +
		"set the latch. C14.mulhi: the range reduction is PROVED equal to ⌊v·(nHi·2^32+nLo) / 2^64⌋ by exact polynomial normalisation over 32-bit digits and floor terms, with every 64-bit addition and multiplication shown not to wrap (c14algebra.go; limb code the normaliser cannot handle is reported as undecided; math/bits.Mul64 is accepted as such). " +
		"Not decided: the Golomb–Rice bit stream (value level)."
	r.Trusted = []string{"wire.WriteVarInt/ReadVarInt = CompactSize", "chainhash.DoubleHashH", "BIP158-style constants stated in the property"}
	bp := p.Pkg("gcs/builder")
	if bp == nil {
		r.Unresolved("C14.const", "package gcs/builder")
		return
	}
	// ---- C14.const
	cval := func(name string) (int64, bool) {
		if c, ok := bp.Members[name].(*ssa.NamedConst); ok && c.Value.Value != nil && c.Value.Value.Kind() == constant.Int {
			v, ok := constant.Int64Val(c.Value.Value)
			return v, ok
		}
		return 0, false
	}
	dp, ok1 := cval("DefaultP")
	dm, ok2 := cval("DefaultM")
	r.Add("C14.const", "builder", "DefaultP is 19", token.NoPos, ok1 && dp == 19, fmt.Sprintf("%d", dp))
	r.Add("C14.const", "builder", "DefaultM is 784931", token.NoPos, ok2 && dm == 784931, fmt.Sprintf("%d", dm))
	basic := p.Func("gcs/builder", "BuildBasicFilter")
	mempool := p.Func("gcs/builder", "BuildMempoolFilter")
	if basic == nil || mempool == nil {
		r.Unresolved("C14.const", "BuildBasicFilter / BuildMempoolFilter")
		return
	}
	// setters: methods of the builder storing a parameter into a uint8 / uint64 field
	var builderT types.Type
	if t, ok := bp.Members["GCSBuilder"].(*ssa.Type); ok {
		builderT = t.Type()
	}
	if builderT == nil {
		r.Unresolved("C14.latch", "type GCSBuilder")
		return
	}
	for _, m := range p.Methods("gcs/builder", "GCSBuilder") {
		for _, b := range m.Blocks {
			for _, in := range b.Instrs {
				st, ok := in.(*ssa.Store)
				if !ok {
					continue
				}
				fa, ok := st.Addr.(*ssa.FieldAddr)
				if !ok {
					continue
				}
				pa, ok := st.Val.(*ssa.Parameter)
				if !ok {
					continue
				}
				bt, ok := fieldOfAddr(fa).Type().Underlying().(*types.Basic)
				if !ok {
					continue
				}
				var want int64
				switch bt.Kind() {
				case types.Uint8:
					want = 19
				case types.Uint64:
					want = 784931
				default:
					continue
				}
				for _, root := range []*ssa.Function{basic, mempool} {
					ks, ok := constsReachingParam(p, root, m, paramIndex(m, pa), 0)
					okC := ok && len(ks) == 1 && ks[want]
					r.Add("C14.const", FnName(root), fmt.Sprintf("the filter is built with %s = %d", fieldOfAddr(fa).Name(), want), m.Pos(), okC, fmt.Sprintf("constants reaching %s: %v", FnName(m), keysOf(ks)))
				}
			}
		}
	}
	// key derivation: first 16 bytes of the hash
	for _, fn := range pkgFuncs(p, "gcs/builder") {
		if fn.Signature.Recv() != nil || len(fn.Params) != 1 || !isNamed(fn.Params[0].Type(), "github.com/gcash/bchd/chaincfg/chainhash", "Hash") {
			continue
		}
		if a, ok := fn.Signature.Results().At(0).Type().Underlying().(*types.Array); !ok || a.Len() != 16 || fn.Signature.Results().Len() != 1 {
			continue
		}
		lc := NewLinCtx(p, fn)
		ev := NewBSeqEval(p, lc)
		for _, ret := range returnsOf(fn) {
			t := ev.Eval(ret.Results[0])
			okK := false
			desc := ev.Pretty(t)
			if t.Kind == "win" && t.Lo.isConst() && t.Lo.c == 0 && !t.ToEnd && t.Hi.isConst() && t.Hi.c == 16 {
				// the windowed thing is the hash's bytes
				if strings.Contains(desc, "CloneBytes") || strings.Contains(desc, "keyHash") || t.Of.Kind == "val" {
					okK = true
				}
			}
			r.Add("C14.const", FnName(fn), "the filter key is the first 16 bytes of the block hash", ret.Pos(), okK, desc)
		}
	}
	r.Floor("C14.const", 7)

	// ---- C14.every: the builder hashes every item and encodes exactly the sorted list
	if bld := p.Func("gcs", "BuildGCSFilter"); bld != nil {
		scope := p.Reachable([]*ssa.Function{bld})
		inScope := map[*ssa.Function]bool{}
		var sc []*ssa.Function
		for _, fn := range scope {
			if fn.Pkg == bld.Pkg || (fn.Parent() != nil && fn.Parent().Pkg == bld.Pkg) {
				inScope[fn] = true
				sc = append(sc, fn)
			}
		}
		everyRule, everyOnly = "C14.every", true
		c13extra(p, r, sc, inScope)
		everyRule, everyOnly = "C13.every", false
		c14encodesSorted(p, r, bld)
	} else {
		r.Unresolved("C14.every", "gcs.BuildGCSFilter")
	}
	// ---- C14.accepts: FromNBytes / FromNPBytes / FromBytes refuse for the format's own reasons only
	for _, name := range []string{"FromNBytes", "FromNPBytes", "FromPBytes", "FromBytes"} {
		if fn := p.Func("gcs", name); fn != nil {
			rejectionVocabulary(p, r, "C14.accepts", fn, []string{`call .*ReadVarInt#\d`, `call .*ReadVarInt`, `call .*ReadByte#\d`, `call .*Read#\d`, `call .*ReadFull#\d`, `param P`, `param M`, `param N`, `call .*FromBytes#\d`, `call .*FromNBytes#\d`},
				"read errors of the header, the 2^32 bound on N and the bound on P")
		}
	}
	// ---- C14.data: the filter's bytes are the writer's bytes
	c14dataIsWriterBytes(p, r)
	// ---- C14.order
	want := map[string][]string{
		"NBytes":  {"varint B.‹uint32›", "bytes B.‹[]byte›"},
		"NPBytes": {"varint B.‹uint32›", "byte B.‹uint8›", "bytes B.‹[]byte›"},
	}
	for _, name := range []string{"NBytes", "NPBytes"} {
		fn := p.Func("gcs", "(*Filter)."+name)
		if fn == nil {
			r.Unresolved("C14.order", "(*gcs.Filter)."+name)
			continue
		}
		got := bufferWrites(p, fn)
		r.Add("C14.order", FnName(fn), name+" writes "+strings.Join(want[name], " ‖ "), fn.Pos(), strings.Join(got, "|") == strings.Join(want[name], "|"), strings.Join(got, " ‖ "))
	}
	if fn := p.Func("gcs", "(*Filter).PBytes"); fn != nil {
		// make(len(data)+1); [0] = p; copy([1:], data)
		tb := NewTermBuilder(p, fn)
		var parts []string
		for _, b := range fn.DomPreorder() {
			for _, in := range b.Instrs {
				switch x := in.(type) {
				case *ssa.MakeSlice:
					parts = append(parts, "make "+anonymise(tb.Term(x.Len)))
				case *ssa.Store:
					if ia, ok := x.Addr.(*ssa.IndexAddr); ok {
						parts = append(parts, "["+tb.Term(ia.Index).String()+"]="+anonymise(tb.Term(x.Val)))
					}
				case *ssa.Call:
					if isBuiltin(&x.Call, "copy") {
						parts = append(parts, "copy "+anonymise(tb.Term(x.Call.Args[0]))+" <- "+anonymise(tb.Term(x.Call.Args[1])))
					}
				}
			}
		}
		got := strings.Join(parts, "; ")
		okP := strings.Contains(got, "make +(#1,len(B.‹[]byte›))") && strings.Contains(got, "[#0]=B.‹uint8›") && strings.Contains(got, ",#1,_) <- B.‹[]byte›")
		// any other construction (benign round 4, C14-y1: make(0, 1+len) and two appends): the returned byte sequence,
		// evaluated symbolically, is the one byte p followed by the filter's bytes
		if !okP {
			lcx := NewLinCtx(p, fn)
			ev := NewBSeqEval(p, lcx)
			all := true
			nret := 0
			pretty := ""
			for _, ret := range returnsOf(fn) {
				if len(ret.Results) == 0 || isNilConst(ret.Results[0]) {
					continue
				}
				nret++
				pretty = ev.Pretty(ev.Eval(ret.Results[0]))
				if os.Getenv("BCHVERIF_DEBUG") != "" {
					fmt.Println("PBytes bseq:", pretty)
				}
				if !pbytesSeq(pretty) {
					all = false
				}
			}
			if nret > 0 && all {
				okP, got = true, "byte sequence "+pretty
			}
		}
		r.Add("C14.order", FnName(fn), "PBytes is P at offset 0 followed by the filter bytes", fn.Pos(), okP, got)
	} else {
		r.Unresolved("C14.order", "(*gcs.Filter).PBytes")
	}
	if fn := p.Func("gcs", "FromNBytes"); fn != nil {
		// buffer over the input; ReadVarInt(buffer) before buffer.Bytes(); the rest goes to the plain deserialiser with N = the varint
		var rd, rest, from *ssa.Call
		for _, b := range fn.DomPreorder() {
			for _, in := range b.Instrs {
				if c, ok := in.(*ssa.Call); ok && c.Call.StaticCallee() != nil {
					switch c.Call.StaticCallee().String() {
					case "github.com/gcash/bchd/wire.ReadVarInt":
						rd = c
					case "(*bytes.Buffer).Bytes":
						rest = c
					}
					if p.InRepo(c.Call.StaticCallee()) {
						from = c
					}
				}
			}
		}
		okF := rd != nil && rest != nil && from != nil && instrDominates(rd, rest) && len(from.Call.Args) == 4 && from.Call.Args[3] == ssa.Value(rest)
		if okF {
			// N argument derives from the varint
			n := stripIntConv(from.Call.Args[0])
			ex, ok := n.(*ssa.Extract)
			src := rd.Call.Args[0]
			if mi, isMI := src.(*ssa.MakeInterface); isMI {
				src = mi.X
			}
			okF = ok && ex.Tuple == ssa.Value(rd) && ex.Index == 0 && src == rest.Call.Args[0]
		}
		r.Add("C14.order", FnName(fn), "FromNBytes reads CompactSize N, then hands the remaining bytes to FromBytes with that N", fn.Pos(), okF, "ReadVarInt(buffer) precedes buffer.Bytes(); both on the same buffer")
	} else {
		r.Unresolved("C14.order", "gcs.FromNBytes")
	}
	r.Floor("C14.order", 4)

	// ---- C14.content
	var content *ssa.Function
	for _, b := range basic.Blocks {
		for _, in := range b.Instrs {
			if c, ok := in.(*ssa.Call); ok && c.Call.StaticCallee() != nil && c.Call.StaticCallee().Pkg == bp {
				content = c.Call.StaticCallee()
			}
		}
	}
	if content == nil {
		r.Unresolved("C14.content", "block-filter content function")
	} else {
		cname := FnName(content)
		_, txIdx, _ := rangeLoopOver(content, "Transactions")
		// round 7 (C14-agent7-m2): every transaction, input and output is looked at — the loops over them are left only
		// when the list is exhausted (a `break` on the first empty script dropped every later output)
		for _, fld := range []string{"Transactions", "TxIn", "TxOut"} {
			hs, _ := rangeLoopsOver(content, fld)
			for _, h := range hs {
				ex := earlyLoopExits(content, h)
				if fld == "TxIn" && txIdx != nil && len(ex) > 0 {
					// benign variant C14-x2: `if isCoinbase { break }` inside the input loop — leaving the loop over the inputs
					// of the transaction with index 0 skips nothing that belongs in the filter
					in := loopBlocks(content, h)
					lcx := NewLinCtx(p, content)
					var rest []*ssa.BasicBlock
					for _, e := range ex {
						okExit := false
						if _, isRet := lastInstr(e).(*ssa.Return); !isRet {
							okExit = true
							for _, sx := range e.Succs {
								if in[sx] {
									continue
								}
								cs := MustCondsAtBlock(content, e)
								if ec, ok := edgeCond(e, sx); ok {
									cs = append(cs, ec)
								}
								if !lcx.Entails(lcx.FactsOf(cs), lcx.Lin(txIdx)) {
									okExit = false
								}
							}
						}
						if !okExit {
							rest = append(rest, e)
						}
					}
					ex = rest
				}
				how := "no break / return inside the loop"
				if len(ex) > 0 {
					how = "the loop is also left at " + p.Pos(p.InstrPos(lastInstr(ex[0])))
				}
				r.Add("C14.content", cname, "the loop over "+fld+" visits every element", p.InstrPos(h.Instrs[0]), len(ex) == 0, how)
			}
		}
		var nIn, nOut int
		for _, b := range content.Blocks {
			for _, in := range b.Instrs {
				c, ok := in.(*ssa.Call)
				if !ok || c.Call.StaticCallee() == nil || c.Call.StaticCallee().Pkg != bp || len(c.Call.Args) != 2 {
					continue
				}
				if _, isSl := c.Call.Args[1].Type().Underlying().(*types.Slice); !isSl {
					continue
				}
				arg := exprString(c.Call.Args[1])
				conds := MustCondsAtBlock(content, b)
				lc := NewLinCtx(p, content)
				lc.alias = NewAvail(p).Run(content)
				f := lc.FactsOf(conds)
				if strings.Contains(arg, "PkScript") {
					nOut++
					okNE := lc.Entails(f, lc.LenLin(c.Call.Args[1]).scale(-1).addConst(1))
					r.Add("C14.content", cname, "output scripts are added only when non-empty", c.Pos(), okNE, "len(script) ≥ 1 on every path to the insertion")
					// … and for no other reason: the only condition on this output is the emptiness test
					extra := ""
					for _, cd := range conds {
						s := exprString(cd.V)
						if !strings.Contains(s, "PkScript") {
							continue
						}
						bo, _, isB := condBinOp(cd)
						isLenTest := false
						if isB {
							if lc2, ok := bo.X.(*ssa.Call); ok && isBuiltin(&lc2.Call, "len") {
								if k, ok := constInt(bo.Y); ok && k == 0 {
									isLenTest = true
								}
							}
						}
						if !isLenTest {
							extra = s
						}
					}
					r.Add("C14.content", cname, "every non-empty output script is included", c.Pos(), extra == "", "additional exclusion condition: "+extra)
				} else {
					nIn++
					okCB := false
					if txIdx != nil {
						il := lc.Lin(txIdx)
						for _, ne := range f.ne {
							if linEq(ne, il) || linEq(ne, il.scale(-1)) {
								okCB = true
							}
						}
						if lc.Entails(f, il.scale(-1).addConst(1)) {
							okCB = true
						}
					}
					ser := strings.Contains(arg, "Bytes") || strings.Contains(arg, "buf")
					r.Add("C14.content", cname, "spent outpoints are added only for non-coinbase transactions (index ≠ 0)", c.Pos(), okCB && ser, "transaction index ≠ 0 on every path to the insertion; entry is the serialised outpoint")
				}
			}
		}
		if nIn == 0 || nOut == 0 {
			r.Add("C14.content", cname, "both inputs and outputs contribute entries", content.Pos(), false, fmt.Sprintf("%d input insertion(s), %d output insertion(s)", nIn, nOut))
		}
		// de-duplication: the entry method stores into a map keyed by the entry bytes
		okMap := false
		for _, m := range p.Methods("gcs/builder", "GCSBuilder") {
			for _, b := range m.Blocks {
				for _, in := range b.Instrs {
					if mu, ok := in.(*ssa.MapUpdate); ok {
						if cv, ok := mu.Key.(*ssa.Convert); ok {
							if _, isParam := cv.X.(*ssa.Parameter); isParam {
								okMap = true
							}
						}
					}
				}
			}
		}
		r.Add("C14.content", "builder.(*GCSBuilder)", "entries are de-duplicated through a map keyed by the entry bytes", content.Pos(), okMap, "data[string(entry)] = struct{}{}")
		c14builderOwnsEntries(p, r)
		// round 7 (C14-agent7-m3): every parameter of an exported constructor / option of package builder is used — a
		// WithKeyPM that forwards DefaultM instead of its m argument builds a filter no reader with (p, m) can query
		for _, bf := range p.Funcs {
			if bf.Pkg != p.Pkg("gcs/builder") || bf.Parent() != nil || bf.Object() == nil || !bf.Object().Exported() || len(bf.Blocks) == 0 {
				continue
			}
			for _, pa := range bf.Params {
				used := false
				for _, ref := range *pa.Referrers() {
					if _, isDbg := ref.(*ssa.DebugRef); !isDbg {
						used = true
					}
				}
				if pa.Name() == "_" {
					continue
				}
				r.Add("C14.forward", FnName(bf), "parameter "+pa.Name()+" is used", pa.Pos(), used, "the argument is accepted and ignored: the caller's value never reaches the builder")
			}
		}
		r.Floor("C14.forward", 10)
		// round 6 (C14-agent6-m3): "a filter rebuilt from [a serialisation] … answers every query identically" for as long
		// as it lives: the rebuilt filter keeps its own copy of the bytes (C20's construction clause for gcs.Filter)
		r.Borrow("C20", func(o *Ob) (string, bool) {
			if o.Rule == "C20.gcs" && strings.Contains(o.Construct, "freshly allocated") {
				return "C14.copy", true
			}
			return "", false
		})
		r.Floor("C14.copy", 2)
		c14modulus(p, r)
	}
	r.Floor("C14.content", 4)
	c14mulhi(p, r)

	// ---- C14.hash
	if gh := p.Func("gcs/builder", "GetFilterHash"); gh != nil {
		okH := false
		for _, ret := range returnsOf(gh) {
			if c, ok := ret.Results[0].(*ssa.Call); ok && c.Call.StaticCallee() != nil && strings.HasSuffix(c.Call.StaticCallee().String(), "chainhash.DoubleHashH") {
				if ex, ok := c.Call.Args[0].(*ssa.Extract); ok {
					if nb, ok := ex.Tuple.(*ssa.Call); ok && nb.Call.StaticCallee() == p.Func("gcs", "(*Filter).NBytes") {
						okH = true
					}
				}
			}
		}
		r.Add("C14.hash", FnName(gh), "filter hash is the double SHA-256 of the N-prefixed serialisation", gh.Pos(), okH, "DoubleHashH(filter.NBytes())")
		// and nothing else: every return without an error yields that digest (no special-cased filter)
		ei := errResultIndex(gh)
		for _, ret := range returnsOf(gh) {
			if ei < 0 || !isNilConst(ret.Results[ei]) {
				continue
			}
			okR := false
			if c, ok := ret.Results[0].(*ssa.Call); ok && c.Call.StaticCallee() != nil && strings.HasSuffix(c.Call.StaticCallee().String(), "chainhash.DoubleHashH") {
				okR = true
			}
			r.Add("C14.hash", FnName(gh), "every successful return of the filter hash is that digest", ret.Pos(), okR, "returns "+exprString(ret.Results[0]))
		}
	} else {
		r.Unresolved("C14.hash", "builder.GetFilterHash")
	}
	if mh := p.Func("gcs/builder", "MakeHeaderForFilter"); mh != nil {
		var buf *ssa.Alloc
		okD := false
		type cp struct {
			off int64
			src string
		}
		var cps []cp
		for _, b := range mh.DomPreorder() {
			for _, in := range b.Instrs {
				c, ok := in.(*ssa.Call)
				if !ok {
					continue
				}
				if isBuiltin(&c.Call, "copy") {
					dst := c.Call.Args[0]
					off := int64(0)
					for {
						sl, ok := dst.(*ssa.Slice)
						if !ok {
							break
						}
						if sl.Low != nil {
							k, _ := constInt(sl.Low)
							off += k
						}
						dst = sl.X
					}
					if al, ok := dst.(*ssa.Alloc); ok {
						buf = al
					}
					// source: the filter hash (result of the in-repo hash function) or the previous-header parameter
					src := "?"
					sv := c.Call.Args[1]
					for {
						sl, ok := sv.(*ssa.Slice)
						if !ok {
							break
						}
						sv = sl.X
					}
					if al, ok := sv.(*ssa.Alloc); ok {
						if w := singleStore(al); w != nil {
							if pa, ok := w.(*ssa.Parameter); ok {
								src = fmt.Sprintf("param%d", paramIndex(mh, pa))
							} else if ex, ok := w.(*ssa.Extract); ok {
								if cc, ok := ex.Tuple.(*ssa.Call); ok && cc.Call.StaticCallee() == p.Func("gcs/builder", "GetFilterHash") {
									src = "filterhash"
								}
							}
						}
					}
					cps = append(cps, cp{off, src})
				}
				if c.Call.StaticCallee() != nil && strings.HasSuffix(c.Call.StaticCallee().String(), "chainhash.DoubleHashH") {
					if sl, ok := c.Call.Args[0].(*ssa.Slice); ok && buf != nil && sl.X == ssa.Value(buf) {
						okD = true
					}
				}
			}
		}
		size := int64(-1)
		if buf != nil {
			if at, ok := derefType(buf.Type()).Underlying().(*types.Array); ok {
				size = at.Len()
			}
		}
		okL := size == 64 && len(cps) == 2 && cps[0] == (cp{0, "filterhash"}) && cps[1] == (cp{32, "param1"})
		got := fmt.Sprintf("%v", cps)
		if !(okL && okD) {
			// append form: DoubleHashH(append(append(base[:0], filterHash[:]...), prevHeader[:]...))
			classify := func(v ssa.Value) string {
				for {
					sl, ok := v.(*ssa.Slice)
					if !ok {
						break
					}
					v = sl.X
				}
				if al, ok := v.(*ssa.Alloc); ok {
					if w := singleStore(al); w != nil {
						if pa, ok := w.(*ssa.Parameter); ok {
							return fmt.Sprintf("param%d", paramIndex(mh, pa))
						}
						if ex, ok := w.(*ssa.Extract); ok {
							if c, ok := ex.Tuple.(*ssa.Call); ok && c.Call.StaticCallee() != nil && c.Call.StaticCallee().Name() == "GetFilterHash" {
								return "filterhash"
							}
						}
					}
				}
				return "?"
			}
			lcx := NewLinCtx(p, mh)
			for _, b := range mh.Blocks {
				for _, in := range b.Instrs {
					c, ok := in.(*ssa.Call)
					if !ok || c.Call.StaticCallee() == nil || !strings.HasSuffix(c.Call.StaticCallee().String(), "chainhash.DoubleHashH") {
						continue
					}
					var pieces []ssa.Value
					cur := c.Call.Args[0]
					for {
						ap, ok := cur.(*ssa.Call)
						if !ok || !isBuiltin(&ap.Call, "append") || len(ap.Call.Args) != 2 {
							break
						}
						pieces = append([]ssa.Value{ap.Call.Args[1]}, pieces...)
						cur = ap.Call.Args[0]
					}
					if l0 := lcx.LenLin(cur); len(pieces) != 2 || !l0.isConst() || l0.c != 0 {
						continue
					}
					l1, l2 := lcx.LenLin(pieces[0]), lcx.LenLin(pieces[1])
					got = fmt.Sprintf("append chain: %s (%s bytes) ‖ %s (%s bytes)", classify(pieces[0]), lcx.Format(l1), classify(pieces[1]), lcx.Format(l2))
					if l1.isConst() && l1.c == 32 && l2.isConst() && l2.c == 32 && classify(pieces[0]) == "filterhash" && classify(pieces[1]) == "param1" {
						okL, okD, size = true, true, 64
					}
				}
			}
		}
		r.Add("C14.hash", FnName(mh), "filter header is the double SHA-256 of filter hash ‖ previous header", mh.Pos(), okL && okD, fmt.Sprintf("%d-byte buffer; copies %s", size, got))
	} else {
		r.Unresolved("C14.hash", "builder.MakeHeaderForFilter")
	}
	r.Floor("C14.hash", 3)

	// ---- C14.latch
	var errField *types.Var
	st := builderT.Underlying().(*types.Struct)
	for i := 0; i < st.NumFields(); i++ {
		if types.Identical(st.Field(i).Type(), types.Universe.Lookup("error").Type()) {
			errField = st.Field(i)
		}
	}
	if errField == nil {
		r.Unresolved("C14.latch", "error latch field of GCSBuilder")
		return
	}
	for _, m := range p.Methods("gcs/builder", "GCSBuilder") {
		res := m.Signature.Results()
		if res.Len() == 0 {
			continue
		}
		returnsBuilder := res.Len() == 1 && types.Identical(derefTypeOrSelf(res.At(0).Type()), builderT)
		recv := ssa.Value(m.Params[0])
		// entry: if recv.err != nil { return recv }  (or return …, recv.err)
		iff, ok := lastInstr(m.Blocks[0]).(*ssa.If)
		okL := false
		if ok {
			if bo, ok := iff.Cond.(*ssa.BinOp); ok && bo.Op == token.NEQ && isNilConst(bo.Y) {
				if f, base, ok := fieldLoad(bo.X); ok && f == errField && base == recv {
					tblk := m.Blocks[0].Succs[0]
					if ret, ok := lastInstr(tblk).(*ssa.Return); ok {
						noStore := true
						for _, in := range append(append([]ssa.Instruction{}, m.Blocks[0].Instrs...), tblk.Instrs...) {
							if st, isSt := in.(*ssa.Store); isSt {
								if _, isLocal := st.Addr.(*ssa.Alloc); !isLocal {
									noStore = false
								}
							}
							if _, isMU := in.(*ssa.MapUpdate); isMU {
								noStore = false
							}
						}
						if returnsBuilder {
							okL = noStore && ret.Results[0] == recv
						} else {
							// returns the latched error
							last := ret.Results[len(ret.Results)-1]
							f2, b2, ok2 := fieldLoad(last)
							okL = noStore && ok2 && f2 == errField && b2 == recv
						}
					}
				}
			}
		}
		what := "chain method leaves the builder untouched once an error is latched"
		if !returnsBuilder {
			what = "terminal method reports the latched error"
		}
		r.Add("C14.latch", FnName(m), what, m.Pos(), okL, "first action: if b.err != nil { return … }")
	}
	// parameter bounds set the latch
	for _, m := range p.Methods("gcs/builder", "GCSBuilder") {
		for _, b := range m.Blocks {
			iff, ok := lastInstr(b).(*ssa.If)
			if !ok {
				continue
			}
			bo, ok := iff.Cond.(*ssa.BinOp)
			if !ok || bo.Op != token.GTR {
				continue
			}
			if _, isParam := bo.X.(*ssa.Parameter); !isParam {
				continue
			}
			k, ok := constInt(bo.Y)
			if !ok {
				continue
			}
			sets := false
			for _, in := range b.Succs[0].Instrs {
				if st, ok := in.(*ssa.Store); ok {
					if fa, ok := st.Addr.(*ssa.FieldAddr); ok && fieldOfAddr(fa) == errField && !isNilConst(st.Val) {
						sets = true
					}
				}
			}
			bits := NewLinCtx(p, m).bitsOf(bo.X.Type())
			wantK := int64(32)
			if bits == 64 {
				wantK = 1<<32 - 1
			}
			r.Add("C14.latch", FnName(m), fmt.Sprintf("parameter above %d latches an error", wantK), bo.Pos(), sets && k == wantK, fmt.Sprintf("bound %d", k))
		}
	}
	r.Floor("C14.latch", 8)
	memoCoherence(p, r, "C14.memo", "gcs/builder", "GCSBuilder", nil)
	gcsWriterRule(p, r, "C14.writer")
}

func derefTypeOrSelf(t types.Type) types.Type {
	if p, ok := t.(*types.Pointer); ok {
		return p.Elem()
	}
	return t
}

// c14mulhi proves that the range-reduction function returns the high 64 bits of the
// 128-bit product v·N (exact normalisation of its limb arithmetic, c14algebra.go), or
// accepts math/bits.Mul64.  Code the normaliser cannot handle is reported as undecided.
func c14mulhi(p *Program, r *Report) {
	build := p.Func("gcs", "BuildGCSFilter")
	if build == nil {
		r.Unresolved("C14.mulhi", "gcs.BuildGCSFilter")
		return
	}
	// the range reduction: the in-repo function that is handed the keyed hash (anywhere in the functions the builder reaches)
	var red *ssa.Function
	for _, fn := range p.Reachable([]*ssa.Function{build}) {
		for _, b := range fn.Blocks {
			for _, in := range b.Instrs {
				c, ok := in.(*ssa.Call)
				if !ok || c.Call.StaticCallee() == nil || !p.InRepo(c.Call.StaticCallee()) || len(c.Call.Args) == 0 {
					continue
				}
				if hc, ok := c.Call.Args[0].(*ssa.Call); ok && staticCalleeIs(&hc.Call, "github.com/aead/siphash.Sum64") {
					if res := c.Call.StaticCallee().Signature.Results(); res.Len() == 1 {
						red = c.Call.StaticCallee()
					}
				}
			}
		}
	}
	if red == nil {
		r.Unresolved("C14.mulhi", "range-reduction function called by the builder")
		return
	}
	rets := returnsOf(red)
	if len(rets) != 1 {
		r.Undecided("C14.mulhi", FnName(red), "reduction is ⌊v·N / 2^64⌋", red.Pos(), "several returns")
		return
	}
	tb := NewTermBuilder(p, red)
	term := tb.Term(rets[0].Results[0]).String()
	if strings.Contains(term, "math/bits.Mul64") {
		r.Add("C14.mulhi", FnName(red), "reduction is the high 64 bits of v·N", red.Pos(), strings.HasPrefix(term, "ext0(") || strings.Contains(term, "Mul64"), term)
		r.Floor("C14.mulhi", 1)
		return
	}
	if len(red.Params) != 3 {
		r.Undecided("C14.mulhi", FnName(red), "reduction is ⌊v·N / 2^64⌋", red.Pos(), "unrecognised signature (expected hash, high half, low half): "+term)
		return
	}
	// exact-arithmetic proof (c14algebra.go): the result and ⌊v·(nHi·2^32+nLo)/2^64⌋ normalise to the same polynomial over
	// 32-bit digits and floor atoms.  nHi, nLo < 2^32 is C13.pipeline's call-site clause (both halves of one modulus field).
	ok, got, want, err := mulhiProof(red, rets[0].Results[0])
	if err != nil {
		r.Undecided("C14.mulhi", FnName(red), "reduction is ⌊v·N / 2^64⌋", red.Pos(), "the limb arithmetic could not be normalised: "+err.Error())
		return
	}
	how := "normal form of the result: " + got
	if !ok {
		how += "; normal form of ⌊v·N / 2^64⌋: " + want
	}
	r.Add("C14.mulhi", FnName(red), "reduction equals ⌊v·(nHi·2^32+nLo) / 2^64⌋ as an identity over 32-bit digits (no intermediate wraps)", red.Pos(), ok, how)
	r.Floor("C14.mulhi", 1)
}

// c14encodesSorted: the list the builder encodes is the list it sorted — the same slice value, ranged over completely —
// so one code word is written per item (duplicates included: BIP158 writes a zero delta for them), N of them.
func c14encodesSorted(p *Program, r *Report, bld *ssa.Function) {
	var sorted ssa.Value
	var sortCall *ssa.Call
	var sortPos token.Pos
	for _, b := range bld.Blocks {
		for _, in := range b.Instrs {
			c, ok := in.(*ssa.Call)
			if !ok {
				continue
			}
			name := calleeName(&c.Call)
			if !(strings.HasPrefix(name, "sort.") || strings.HasPrefix(name, "slices.Sort")) || len(c.Call.Args) == 0 {
				continue
			}
			v := c.Call.Args[0]
			if mi, ok := v.(*ssa.MakeInterface); ok {
				v = mi.X
			}
			if ct, ok := v.(*ssa.ChangeType); ok {
				v = ct.X
			}
			sorted, sortPos, sortCall = v, c.Pos(), c
		}
	}
	// the same slice value: the same SSA value, or two loads of one local variable that is not assigned after the sort
	// (a variable captured by the comparison closure lives in a cell)
	sameVal := func(x ssa.Value) bool {
		if x == sorted {
			return true
		}
		lx, ok1 := x.(*ssa.UnOp)
		ls, ok2 := sorted.(*ssa.UnOp)
		if !ok1 || !ok2 || lx.Op != token.MUL || ls.Op != token.MUL || lx.X != ls.X {
			return false
		}
		cell, ok := lx.X.(*ssa.Alloc)
		if !ok {
			return false
		}
		for _, u := range *cell.Referrers() {
			switch y := u.(type) {
			case *ssa.Store:
				if y.Addr != ssa.Value(cell) {
					return false
				}
				// the store cannot run after the sort
				before := !reachableFrom(sortCall.Block(), nil)[y.Block()]
				if y.Block() == sortCall.Block() {
					before = false
					for _, in := range y.Block().Instrs {
						if in == ssa.Instruction(y) {
							// first in the block: before, unless the block is in a cycle
							before = true
							for _, su := range y.Block().Succs {
								if reachableFrom(su, nil)[y.Block()] {
									before = false
								}
							}
							break
						}
						if in == ssa.Instruction(sortCall) {
							break
						}
					}
				}
				if !before {
					return false
				}
			case *ssa.UnOp:
			case *ssa.MakeClosure:
				// the closure must only read the variable
				if fnc, ok := y.Fn.(*ssa.Function); ok {
					for i, bnd := range y.Bindings {
						if bnd != ssa.Value(cell) || i >= len(fnc.FreeVars) {
							continue
						}
						for _, fu := range *fnc.FreeVars[i].Referrers() {
							if st, ok := fu.(*ssa.Store); ok && st.Addr == ssa.Value(fnc.FreeVars[i]) {
								return false
							}
						}
					}
				}
			case *ssa.DebugRef:
			default:
				return false
			}
		}
		return true
	}
	if sorted == nil {
		r.Unresolved("C14.every", "sort call in gcs.BuildGCSFilter")
		return
	}
	n := 0
	for _, b := range bld.Blocks {
		for _, in := range b.Instrs {
			ia, ok := in.(*ssa.IndexAddr)
			if !ok {
				continue
			}
			sl, ok := ia.X.Type().Underlying().(*types.Slice)
			if !ok {
				continue
			}
			if eb, ok := sl.Elem().Underlying().(*types.Basic); !ok || eb.Kind() != types.Uint64 {
				continue
			}
			// only reads after the sort, inside a loop
			if !isInLoop(b) {
				continue
			}
			isRead := false
			for _, u := range *ia.Referrers() {
				if ld, ok := u.(*ssa.UnOp); ok && ld.Op == token.MUL {
					isRead = true
				}
			}
			if !isRead {
				continue
			}
			// the comparison callback of sort.Slice is a closure: reads there are in another function; here: encode loop
			n++
			same := sameVal(ia.X)
			how := "the encode loop reads " + exprString(ia.X) + ", the value handed to the sort at " + p.Pos(sortPos)
			if !same {
				how = "the encode loop reads " + exprString(ia.X) + ", which is not the slice value that was sorted (" + exprString(sorted) + "): entries may have been dropped or added in between"
			}
			full := rangesWhole(b, ia)
			if same && !full {
				how = "the encode loop does not range over the whole sorted slice"
			}
			r.Add("C14.every", FnName(bld), "one code word is written for every entry of the sorted list", ia.Pos(), same && full, how)
		}
	}
	if n == 0 {
		r.Unresolved("C14.every", "encode loop over the sorted values in gcs.BuildGCSFilter")
	}
	r.Floor("C14.every", 1)
}

// sameCellLoad: the same SSA value, or two loads of one local variable's cell (a variable captured by a closure is
// re-loaded at every use; whether it was assigned in between is checked where it matters).
func sameCellLoad(a, b ssa.Value) bool {
	if a == b {
		return true
	}
	la, ok1 := a.(*ssa.UnOp)
	lb, ok2 := b.(*ssa.UnOp)
	if !ok1 || !ok2 || la.Op != token.MUL || lb.Op != token.MUL || la.X != lb.X {
		return false
	}
	_, isCell := la.X.(*ssa.Alloc)
	return isCell
}

func isInLoop(b *ssa.BasicBlock) bool {
	for d := b; d != nil; d = d.Idom() {
		if isLoopHeader(d) {
			for _, pr := range d.Preds {
				if d.Dominates(pr) && (pr == b || reachableFrom(b, nil)[pr]) {
					return true
				}
			}
		}
	}
	return false
}

// rangesWhole: ia indexes its slice with the index of a `range` / `for i := 0; i < len(x); i++` loop over that slice.
func rangesWhole(b *ssa.BasicBlock, ia *ssa.IndexAddr) bool {
	for h := b; h != nil; h = h.Idom() {
		if !isLoopHeader(h) {
			continue
		}
		iff, ok := lastInstr(h).(*ssa.If)
		if !ok {
			continue
		}
		c, ok := iff.Cond.(*ssa.BinOp)
		if !ok || c.Op != token.LSS || c.X != ia.Index {
			continue
		}
		ln, ok := c.Y.(*ssa.Call)
		if !ok || !isBuiltin(&ln.Call, "len") || !sameCellLoad(ln.Call.Args[0], ia.X) {
			continue
		}
		var phi *ssa.Phi
		want := int64(0)
		if inc, ok := ia.Index.(*ssa.BinOp); ok && inc.Op == token.ADD {
			phi, _ = inc.X.(*ssa.Phi)
			want = -1
		} else {
			phi, _ = ia.Index.(*ssa.Phi)
		}
		if phi == nil || phi.Block() != h || len(phi.Edges) != 2 {
			continue
		}
		okInit, okStep := false, false
		for k, e := range phi.Edges {
			if h.Dominates(h.Preds[k]) {
				if inc, ok := e.(*ssa.BinOp); ok && inc.Op == token.ADD && inc.X == ssa.Value(phi) {
					if k1, ok := constInt(inc.Y); ok && k1 == 1 {
						okStep = true
					}
				}
			} else if k0, ok := constInt(e); ok && k0 == want {
				okInit = true
			}
		}
		if okInit && okStep {
			return true
		}
	}
	return false
}

// c14dataIsWriterBytes: what BuildGCSFilter stores as the filter's data is the result of Bytes() on the very bit writer
// the code words were written to — not a re-sized or re-assembled copy, whose length would have to be recomputed.
func c14dataIsWriterBytes(p *Program, r *Report) {
	bld := p.Func("gcs", "BuildGCSFilter")
	if bld == nil {
		r.Unresolved("C14.data", "gcs.BuildGCSFilter")
		return
	}
	var writer ssa.Value
	n := 0
	for _, fn := range p.Reachable([]*ssa.Function{bld}) {
		if fn.Pkg != bld.Pkg {
			continue
		}
		for _, b := range fn.Blocks {
			for _, in := range b.Instrs {
				if c, ok := in.(*ssa.Call); ok && fn == bld {
					if cal := c.Call.StaticCallee(); cal != nil && strings.Contains(cal.String(), "bstream") && (cal.Name() == "WriteBits" || cal.Name() == "WriteBit") {
						writer = c.Call.Args[0]
					}
				}
			}
		}
	}
	for _, b := range bld.Blocks {
		for _, in := range b.Instrs {
			st, ok := in.(*ssa.Store)
			if !ok {
				continue
			}
			fa, ok := st.Addr.(*ssa.FieldAddr)
			if !ok {
				continue
			}
			sl, isSl := fieldOfAddr(fa).Type().Underlying().(*types.Slice)
			if !isSl {
				continue
			}
			if eb, ok := sl.Elem().Underlying().(*types.Basic); !ok || eb.Kind() != types.Uint8 {
				continue
			}
			if isNilConst(st.Val) {
				continue
			}
			n++
			okW, how := false, "stored value "+exprString(st.Val)+" is not the writer's Bytes()"
			if c, ok := st.Val.(*ssa.Call); ok {
				if cal := c.Call.StaticCallee(); cal != nil && strings.Contains(cal.String(), "bstream") && cal.Name() == "Bytes" {
					if writer == nil || c.Call.Args[0] == writer {
						okW, how = true, "Bytes() of the bit writer the code words went to"
					} else {
						how = "Bytes() of a different writer than the one written to"
					}
				}
			}
			r.Add("C14.data", FnName(bld), "the filter's data is the bit writer's output, as is", st.Pos(), okW, how)
		}
	}
	if n == 0 {
		r.Unresolved("C14.data", "store of the filter data in gcs.BuildGCSFilter")
	}
	r.Floor("C14.data", 1)
}

// c14builderOwnsEntries (round 5).  C14.own (C14-agent5-m1): what the builder keeps of an entry is its own copy — a map
// value (or field) that aliases the caller's slice changes when the caller reuses its buffer, and the block-filter
// function serialises every outpoint of a transaction into one buffer.  C14.dedupe (C14-agent5-m3): every element of the
// list handed to gcs.BuildGCSFilter comes out of a range over the builder's de-duplicating map; a second, list-valued
// path lets a repeated entry in twice, which changes N, the modulus and every byte of the filter.
func c14builderOwnsEntries(p *Program, r *Report) {
	ef := NewEffects(p)
	nOwn, nDed := 0, 0
	for _, m := range p.Methods("gcs/builder", "GCSBuilder") {
		if len(m.Params) == 0 {
			continue
		}
		recv := ssa.Value(m.Params[0])
		fromCaller := func(v ssa.Value) []string {
			var out []string
			for rt := range ef.Src(v) {
				if rt.Kind == rkParam && rt.Idx >= 1 {
					out = append(out, rt.String())
				}
			}
			sort.Strings(out)
			return out
		}
		for _, b := range m.Blocks {
			for _, in := range b.Instrs {
				switch x := in.(type) {
				case *ssa.MapUpdate:
					rooted := false
					for rt := range ef.Src(x.Map) {
						if rt.Kind == rkParam && rt.Idx == 0 {
							rooted = true
						}
					}
					if !rooted {
						continue
					}
					nOwn++
					bad := []string{}
					if pointerLike(x.Value.Type()) {
						bad = fromCaller(x.Value)
					}
					r.Add("C14.own", FnName(m), "what the builder's set keeps of an entry is its own copy", x.Pos(), len(bad) == 0, "stored value aliases "+strings.Join(bad, ", "))
				case *ssa.Call:
					if !isBuiltin(&x.Call, "append") || len(x.Call.Args) != 2 {
						continue
					}
					// append(<receiver's list>, caller's slices…)
					rooted := false
					for rt := range ef.Src(x.Call.Args[0]) {
						if rt.Kind == rkParam && rt.Idx == 0 {
							rooted = true
						}
					}
					if !rooted {
						continue
					}
					et, ok := x.Call.Args[0].Type().Underlying().(*types.Slice)
					if !ok || !pointerLike(et.Elem()) {
						continue
					}
					nOwn++
					var bad []string
					for _, ev := range appendedElems(x.Call.Args[1]) {
						bad = append(bad, fromCaller(ev)...)
					}
					r.Add("C14.own", FnName(m), "what the builder's lists keep of an entry is its own copy", x.Pos(), len(bad) == 0, "appended element aliases "+strings.Join(dedup(bad), ", "))
				}
			}
		}
		// the list handed to the filter constructor
		for _, b := range m.Blocks {
			for _, in := range b.Instrs {
				c, ok := in.(*ssa.Call)
				if !ok || c.Call.StaticCallee() == nil || c.Call.StaticCallee().Pkg == nil || c.Call.StaticCallee().Pkg.Pkg.Path() != ModPath+"/gcs" {
					continue
				}
				var list ssa.Value
				for _, a := range c.Call.Args {
					if sl, ok := a.Type().Underlying().(*types.Slice); ok {
						if _, ok := sl.Elem().Underlying().(*types.Slice); ok {
							list = a
						}
					}
				}
				if list == nil {
					continue
				}
				nDed++
				var foreign []string
				seen := map[ssa.Value]bool{}
				var walk func(v ssa.Value)
				walk = func(v ssa.Value) {
					if seen[v] {
						return
					}
					seen[v] = true
					switch x := v.(type) {
					case *ssa.Phi:
						for _, e := range x.Edges {
							walk(e)
						}
					case *ssa.MakeSlice:
						// make + indexed fill: every element stored into it
						for _, ref := range *x.Referrers() {
							ia, ok := ref.(*ssa.IndexAddr)
							if !ok {
								continue
							}
							for _, r2 := range *ia.Referrers() {
								if st, ok := r2.(*ssa.Store); ok && st.Addr == ssa.Value(ia) && !fromMapRange(st.Val, recv) {
									foreign = append(foreign, exprString(st.Val)+" stored at "+p.Pos(st.Pos()))
								}
							}
						}
					case *ssa.Slice:
						walk(x.X)
					case *ssa.Call:
						if isBuiltin(&x.Call, "append") && len(x.Call.Args) == 2 {
							walk(x.Call.Args[0])
							elems := appendedElems(x.Call.Args[1])
							if elems == nil {
								foreign = append(foreign, "whole list "+exprString(x.Call.Args[1])+" appended at "+p.Pos(x.Pos()))
							}
							for _, ev := range elems {
								if !fromMapRange(ev, recv) {
									foreign = append(foreign, exprString(ev)+" at "+p.Pos(x.Pos()))
								}
							}
							return
						}
						foreign = append(foreign, exprString(v))
					default:
						if k, ok := v.(*ssa.Const); ok && k.Value == nil {
							return
						}
						foreign = append(foreign, exprString(v))
					}
				}
				walk(list)
				sort.Strings(foreign)
				r.Add("C14.dedupe", FnName(m), "every entry handed to the filter constructor comes out of the de-duplicating set", c.Pos(), len(foreign) == 0,
					"elements not taken from a range over the builder's map: "+strings.Join(dedup(foreign), "; "))
			}
		}
	}
	if nDed == 0 {
		r.Unresolved("C14.dedupe", "call of the gcs filter constructor with the builder's entry list")
	}
	_ = nOwn
	r.Floor("C14.own", 1)
	r.Floor("C14.dedupe", 1)
}

// appendedElems: the element values of the variadic pack `append(s, e1, e2)`; nil when the second argument is a slice
// value of its own (`append(s, t...)`).
func appendedElems(arg ssa.Value) []ssa.Value {
	sl, ok := arg.(*ssa.Slice)
	if !ok {
		return nil
	}
	al, ok := sl.X.(*ssa.Alloc)
	if !ok {
		return nil
	}
	var out []ssa.Value
	for _, ref := range *al.Referrers() {
		ia, ok := ref.(*ssa.IndexAddr)
		if !ok {
			continue
		}
		for _, r2 := range *ia.Referrers() {
			if st, ok := r2.(*ssa.Store); ok && st.Addr == ssa.Value(ia) {
				out = append(out, st.Val)
			}
		}
	}
	return out
}

// fromMapRange: v is a key (or value) produced by ranging over a map loaded from a field of recv, possibly converted.
func fromMapRange(v ssa.Value, recv ssa.Value) bool {
	for d := 0; d < 8; d++ {
		switch x := v.(type) {
		case *ssa.Convert:
			v = x.X
		case *ssa.ChangeType:
			v = x.X
		case *ssa.Extract:
			nx, ok := x.Tuple.(*ssa.Next)
			if !ok {
				return false
			}
			rg, ok := nx.Iter.(*ssa.Range)
			if !ok {
				return false
			}
			if _, isMap := rg.X.Type().Underlying().(*types.Map); !isMap {
				return false
			}
			_, base, ok := fieldLoad(rg.X)
			return ok && base == recv
		default:
			return false
		}
	}
	return false
}

// c14modulus (round 6, C14-agent6-m1): builder and readers agree on the range the hashes are reduced to.  Every store
// to the filter's modulus field — in BuildGCSFilter and in FromBytes alike — is the plain product N·M of the element
// count and the M parameter stored next to it; a helper that special-cases M == 0 on the encoding side only makes a
// built filter and the filter rebuilt from its bytes hash differently.
func c14modulus(p *Program, r *Report) {
	pk := p.Pkg("gcs")
	if pk == nil {
		r.Unresolved("C14.modulus", "package gcs")
		return
	}
	n := 0
	for _, fn := range p.Funcs {
		if fn.Pkg != pk {
			continue
		}
		for _, b := range fn.Blocks {
			for _, in := range b.Instrs {
				st, ok := in.(*ssa.Store)
				if !ok {
					continue
				}
				fa, ok := st.Addr.(*ssa.FieldAddr)
				if !ok {
					continue
				}
				f := fieldOfAddr(fa)
				bt, isB := f.Type().Underlying().(*types.Basic)
				if !isB || bt.Kind() != types.Uint64 || !isNamed(derefType(fa.X.Type()), ModPath+"/gcs", "Filter") {
					continue
				}
				// the uint64 field that is a product: the modulus (the M parameter itself is stored as it arrives)
				if _, isParam := stripConv(st.Val).(*ssa.Parameter); isParam {
					continue
				}
				n++
				mul, ok := stripConv(st.Val).(*ssa.BinOp)
				good := ok && mul.Op == token.MUL
				how := "stored value " + exprString(st.Val)
				if good {
					// each factor is an argument or a field of the filter being built (its element count, its M), as it is
					plain := func(v ssa.Value) bool {
						v = stripConv(v)
						if _, isP := v.(*ssa.Parameter); isP {
							return true
						}
						if ff, base, isF := fieldLoad(v); isF && ff != nil && base == canonRoot(fa.X) {
							return true
						}
						return false
					}
					good = plain(mul.X) && plain(mul.Y)
					how = "a plain product of the element count and M"
					if !good {
						how = "product of " + exprString(mul.X) + " and " + exprString(mul.Y) + " (not the element count and the M argument as they are)"
					}
				}
				r.Add("C14.modulus", FnName(fn), "the reduction range stored in "+f.Name()+" is the product N·M", st.Pos(), good, how)
			}
		}
	}
	if n == 0 {
		r.Unresolved("C14.modulus", "stores to the modulus field of gcs.Filter")
	}
	r.Floor("C14.modulus", 2)
}

func stripConv(v ssa.Value) ssa.Value {
	for {
		switch x := v.(type) {
		case *ssa.Convert:
			v = x.X
		case *ssa.ChangeType:
			v = x.X
		default:
			return v
		}
	}
}

// pbytesSeq: the pretty-printed symbolic byte sequence is "the byte field p, then the bytes of field filterData".
func pbytesSeq(s string) bool {
	return pbytesRe.MatchString(s)
}

var pbytesRe = regexp.MustCompile(`^cat\(byte\(\w+\.p\)(\[:\+1\])? ‖ \w+\.filterData\)$`)

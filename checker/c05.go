package main

import (
	"fmt"
	"go/token"
	"strings"

	"golang.org/x/tools/go/ssa"
)

func init() { register("C05", checkC05) }

// expandEdgeAPs splits an accept point whose block has several predecessors
// into one accept point per incoming edge, so that arm-specific facts are visible.
func expandEdgeAPs(aps []AcceptPoint) []AcceptPoint {
	var out []AcceptPoint
	for _, ap := range aps {
		if ap.Pred == nil && len(ap.Block.Preds) > 1 && !isLoopHeader(ap.Block) {
			for _, p := range ap.Block.Preds {
				n := ap
				n.Pred = p
				out = append(out, n)
			}
			continue
		}
		out = append(out, ap)
	}
	return out
}

// scalarRangeGuards looks, among conditions known to hold, for the two tests
// that a big.Int is a valid secp256k1 scalar: Cmp(N) ≥ 0 is false and
// Sign() == 0 is false.  It returns the big.Int values so tested.
type scalarGuard struct {
	x             ssa.Value
	cmpN, nonZero bool
}

func isCurveOrder(v ssa.Value) bool {
	// load of field N of the value returned by bchec.S256()
	s := exprString(v)
	return strings.Contains(s, "S256") && strings.HasSuffix(s, ".N")
}

func scalarRangeGuards(conds []Cond) map[ssa.Value]*scalarGuard {
	out := map[ssa.Value]*scalarGuard{}
	get := func(x ssa.Value) *scalarGuard {
		if out[x] == nil {
			out[x] = &scalarGuard{x: x}
		}
		return out[x]
	}
	for _, cd := range conds {
		bo, truth, ok := condBinOp(cd)
		if !ok {
			continue
		}
		call, okc := bo.X.(*ssa.Call)
		k, okk := constInt(bo.Y)
		op := bo.Op
		if !okc || !okk {
			// mirrored: 0 <op> call
			if c2, ok2 := bo.Y.(*ssa.Call); ok2 {
				if k2, okk2 := constInt(bo.X); okk2 {
					call, okc, k, okk = c2, true, k2, true
					op = map[token.Token]token.Token{token.EQL: token.EQL, token.NEQ: token.NEQ, token.LSS: token.GTR, token.GTR: token.LSS, token.LEQ: token.GEQ, token.GEQ: token.LEQ}[bo.Op]
				}
			}
		}
		if !okc || !okk || k != 0 {
			continue
		}
		cal := call.Call.StaticCallee()
		if cal == nil {
			continue
		}
		switch cal.String() {
		case "(*math/big.Int).Cmp":
			if len(call.Call.Args) == 2 && isCurveOrder(call.Call.Args[1]) {
				// need: x.Cmp(N) < 0
				if (op == token.GEQ && !truth) || (op == token.LSS && truth) {
					get(call.Call.Args[0]).cmpN = true
				}
			}
			if len(call.Call.Args) == 2 && isCurveOrder(call.Call.Args[0]) {
				// mirrored receiver: need N.Cmp(x) > 0
				if (op == token.LEQ && !truth) || (op == token.GTR && truth) {
					get(call.Call.Args[1]).cmpN = true
				}
			}
		case "(*math/big.Int).Sign":
			// need: sign != 0 (scalars are non-negative, so > 0 is equivalent)
			if (op == token.EQL && !truth) || (op == token.NEQ && truth) || (op == token.GTR && truth) || (op == token.LEQ && !truth) {
				get(call.Call.Args[0]).nonZero = true
			}
		}
	}
	return out
}

// bigFromBytes: x is new(big.Int).SetBytes(b) (possibly through the returned receiver); returns b.
func bigFromBytes(x ssa.Value) (ssa.Value, bool) {
	for i := 0; i < 4; i++ {
		switch v := x.(type) {
		case *ssa.Call:
			if staticCalleeIs(&v.Call, "(*math/big.Int).SetBytes") {
				return v.Call.Args[1], true
			}
			return nil, false
		case *ssa.Alloc:
			// new(big.Int) whose SetBytes call result is discarded: find the call on it
			for _, ref := range *v.Referrers() {
				if c, ok := ref.(*ssa.Call); ok && staticCalleeIs(&c.Call, "(*math/big.Int).SetBytes") && c.Call.Args[0] == ssa.Value(v) {
					return c.Call.Args[1], true
				}
			}
			return nil, false
		default:
			return nil, false
		}
	}
	return nil, false
}

func checkC05(p *Program, r *Report) {
	// round 6 (systematic): the Base58 / Base58Check layer this property's strings go through is C07's — its table,
	// checksum, exactness and purity clauses are necessary here too (§2.11)
	r.Borrow("C07", func(o *Ob) (string, bool) {
		switch o.Rule {
		case "C07.tables", "C07.checksum", "C07.exact", "C07.pure":
			if strings.Contains(o.Func, "bech32") || strings.Contains(o.Construct, "bech32") {
				return "", false
			}
			return "C05.base58", true
		}
		return "", false
	})
	r.Floor("C05.base58", 5)
	sharedStateRule(p, r, NewEffects(p), "C05.shared", []string{"hdkeychain/extendedkey.go", "base58/base58.go", "base58/base58check.go"})
	r.Floor("C05.shared", 10)
	// a memoised serialisation must follow every change of the fields it was computed from (SetNet, Zero)
	memoCoherence(p, r, "C05.memo", "hdkeychain", "ExtendedKey", nil)
	r.Floor("C05.memo", 0)
	// C05.carry: the constructor the parser hands the decoded fields to stores each of them as it is (a field rewritten
	// for some inputs makes distinct accepted strings serialise alike)
	if ctor := p.Func("hdkeychain", "NewExtendedKey"); ctor != nil {
		stored := map[int]bool{}
		for _, b := range ctor.Blocks {
			for _, in := range b.Instrs {
				st, ok := in.(*ssa.Store)
				if !ok {
					continue
				}
				fa, ok := st.Addr.(*ssa.FieldAddr)
				if !ok {
					continue
				}
				if _, fresh := canonRoot(fa.X).(*ssa.Alloc); !fresh {
					continue
				}
				if _, isConst := st.Val.(*ssa.Const); isConst {
					continue
				}
				pi := paramIndex(ctor, st.Val)
				if pi >= 0 {
					stored[pi] = true
				}
				r.Add("C05.carry", FnName(ctor), "field "+fieldOfAddr(fa).Name()+" receives the constructor's argument unchanged", st.Pos(), pi >= 0,
					map[bool]string{true: "parameter " + exprString(st.Val), false: "stored value " + exprString(st.Val) + " is not the parameter itself: the field is rewritten for some inputs"}[pi >= 0])
			}
		}
		for i, prm := range ctor.Params {
			if !stored[i] {
				r.Add("C05.carry", FnName(ctor), "argument "+prm.Name()+" reaches a field of the key", ctor.Pos(), false, "the parameter is not stored as it is")
			}
		}
		r.Floor("C05.carry", 5)
	} else {
		r.Unresolved("C05.carry", "hdkeychain.NewExtendedKey")
	}
	r.Explain = "C05.len: every accepting return of NewKeyFromString knows len(decoded) == 82 (78-byte payload + 4-byte checksum). C05.checksum: it lies behind a " +
		"full 4-byte SHA256d comparison over decoded[:len−4]. C05.valid: the accepting path is split by the first key byte; on the private arm both scalar " +
		"range tests (Cmp(N) ≥ 0, Sign() == 0) reject and exactly the leading zero byte is stripped; on the public arm the curve-point parser succeeded on " +
		"the 33 key bytes. C05.canon: the string is not normalised before Base58 decoding (byte-wise symbol lookup). Not decided: round-trip equality for every key (value level; the shape-level ingredient, fixed-width key material, is C04.pad)."
	r.Trusted = []string{"base58.Decode (in-repo, see C07)", "bchec.ParsePubKey validates a compressed point", "chainhash.DoubleHashB = SHA256(SHA256(·))"}
	fn := p.Func("hdkeychain", "NewKeyFromString")
	if fn == nil {
		r.Unresolved("C05.len", "hdkeychain.NewKeyFromString")
		return
	}
	fname := FnName(fn)
	lc := NewLinCtx(p, fn)
	ev := NewBSeqEval(p, lc)
	// decoded = in-repo decode of the parameter
	var decoded ssa.Value
	for _, b := range fn.Blocks {
		for _, in := range b.Instrs {
			if c, ok := in.(*ssa.Call); ok && c.Call.StaticCallee() != nil && p.InRepo(c.Call.StaticCallee()) && len(c.Call.Args) == 1 && c.Call.Args[0] == ssa.Value(fn.Params[0]) {
				decoded = c
			}
		}
	}
	if decoded == nil {
		r.Unresolved("C05.len", "decoding call on the string parameter")
		return
	}
	aps := acceptPoints(fn)
	for i, ap := range aps {
		f := lc.FactsOf(MustConds(fn, ap))
		r.Add("C05.len", fname, fmt.Sprintf("accepting return #%d: decoded length is exactly 82", i+1), ap.Ret.Pos(), lc.EntailsEq(f, lc.LenLin(decoded).addConst(-82)), "len(decoded) == 78 + 4 on every path")
	}
	for i, cr := range check4ByteChecksum(p, fn) {
		r.Add("C05.checksum", fname, fmt.Sprintf("accepting return #%d is checksum-guarded", i+1), fn.Pos(), cr.ok, cr.how)
	}
	// arms
	arms := expandEdgeAPs(aps)
	nPriv, nPub := 0, 0
	for _, ap := range arms {
		conds := MustConds(fn, ap)
		f := lc.FactsOf(conds)
		// the discriminating test: <key bytes>[0] == 0
		arm := ""
		var keyData ssa.Value
		for _, cd := range conds {
			bo, truth, ok := condBinOp(cd)
			if !ok || !(bo.Op == token.EQL || bo.Op == token.NEQ) {
				continue
			}
			k, isK := constInt(bo.Y)
			if !isK || k != 0 {
				continue
			}
			ld, ok := bo.X.(*ssa.UnOp)
			if !ok || ld.Op != token.MUL {
				continue
			}
			ia, ok := ld.X.(*ssa.IndexAddr)
			if !ok {
				continue
			}
			if ik, ok := constInt(ia.Index); !ok || ik != 0 {
				continue
			}
			w := ev.Eval(ia.X)
			if w.Kind == "win" && w.Of.Kind == "val" && w.Of.Val == decoded && lc.EntailsEq(f, w.Lo.addConst(-45)) {
				keyData = ia.X
				isZero := (bo.Op == token.EQL) == truth
				if isZero {
					arm = "private"
				} else {
					arm = "public"
				}
			}
		}
		pos := ap.Ret.Pos()
		switch arm {
		case "private":
			nPriv++
			guards := scalarRangeGuards(conds)
			okRange, okStrip := false, false
			for x, g := range guards {
				if !g.cmpN || !g.nonZero {
					continue
				}
				if b, ok := bigFromBytes(x); ok {
					w := ev.Eval(b)
					// the tested integer covers the scalar bytes (with or without the leading zero byte)
					if w.Kind == "win" && w.Of.Kind == "val" && w.Of.Val == decoded && !w.ToEnd && lc.EntailsEq(f, w.Hi.addConst(-78)) &&
						(lc.EntailsEq(f, w.Lo.addConst(-46)) || lc.EntailsEq(f, w.Lo.addConst(-45))) {
						okRange = true
					}
				}
			}
			// the key handed on along this arm is decoded[46:78]
			okStrip = keyArgWindow(lc, ev, f, ap, decoded, 46)
			r.Add("C05.valid", fname, "private arm: scalar ≥ N and scalar = 0 both reject", pos, okRange, "Cmp(N) ≥ 0 false and Sign() == 0 false on every path of this arm")
			r.Add("C05.valid", fname, "private arm: exactly the leading zero byte is stripped (key = decoded[46:78])", pos, okStrip, "the key handed to the constructor on this arm is bytes 46..77")
		case "public":
			nPub++
			okParse := false
			for _, cd := range conds {
				bo, truth, ok := condBinOp(cd)
				if !ok || !((bo.Op == token.NEQ && !truth) || (bo.Op == token.EQL && truth)) {
					continue
				}
				for _, side := range []ssa.Value{bo.X, bo.Y} {
					if ex, ok := side.(*ssa.Extract); ok {
						if c, ok := ex.Tuple.(*ssa.Call); ok && staticCalleeIs(&c.Call, "github.com/gcash/bchd/bchec.ParsePubKey") {
							w := ev.Eval(c.Call.Args[0])
							if w.Kind == "win" && w.Of.Kind == "val" && w.Of.Val == decoded && lc.EntailsEq(f, w.Lo.addConst(-45)) && !w.ToEnd && lc.EntailsEq(f, w.Hi.addConst(-78)) {
								okParse = true
							}
						}
					}
				}
			}
			okParse = okParse && keyArgWindow(lc, ev, f, ap, decoded, 45)
			r.Add("C05.valid", fname, "public arm: the 33 key bytes parse as a curve point", pos, okParse, "err == nil of bchec.ParsePubKey(decoded[45:78]) and that window is the key handed on")
		default:
			r.Add("C05.valid", fname, "accepting path is selected by the first key byte", pos, false, "no test of decoded[45] == 0 lies on this path")
		}
		_ = keyData
	}
	if nPriv == 0 || nPub == 0 {
		r.Add("C05.valid", fname, "both a private and a public accepting arm exist", fn.Pos(), false, fmt.Sprintf("private arms %d, public arms %d", nPriv, nPub))
	}
	canonicalInput(p, r, "C05.canon", []*ssa.Function{fn})
	// round 5: serialising a key writes nothing the key (or any other key sharing its version bytes) can see
	// (C05-agent5-m1: String() assembled in bytes.NewBuffer(k.version) filled the spare capacity of the parsed
	// payload the version slice points into), and every minimal-length big-integer encoding that reaches the
	// serialisation is padded (C05-agent5-m2: hand-compressed public key with an unpadded X coordinate)
	keyPureRule(p, r, "C05.pure", []string{"(*ExtendedKey).String", "NewKeyFromString"}, "serialising / parsing writes nothing reachable from the key or the arguments")
	r.Floor("C05.pure", 2)
	// round 6 (C05-agent6-m2): "parses back to a key with identical … derivation behaviour" — a parsed key derives
	// like any other, so what C04 decides about Child / the key's memos holds for keys that came from a string too
	// (a point cached by the parser and advanced in place by Child made every child after the first one wrong)
	r.Borrow("C04", func(o *Ob) (string, bool) {
		if o.Rule == "C04.pure" || o.Rule == "C04.memo" {
			return "C05.derive", true
		}
		return "", false
	})
	r.Floor("C05.derive", 3)
	// round 6: a fixed-length digit buffer in a big.Int-free Base58 conversion must be long enough (shared with C07.exact)
	radixBufferRule(p, r, "C05.canon")
	if padObligations(p, r, "C05.pad", pkgFuncs(p, "hdkeychain")) == 0 {
		r.Unresolved("C05.pad", "a (*big.Int).Bytes() source in hdkeychain")
	}
	r.Floor("C05.pad", 1)
	if n := rejectionVocabulary(p, r, "C05.accepts", fn, []string{`len\(call .*base58\.Decode\)`, `call bytes\.Equal`, `call .*big\.Int\)\.Cmp`, `call .*big\.Int\)\.Sign`,
		`call .*bchec\.ParsePubKey#1`, `call .*base58\.Decode\[45\]`}, "the decoded length, the checksum, the key-type byte and the validity of the key material", approvedChecksumConds(p, fn)); n == 0 {
		r.Unresolved("C05.accepts", "rejection tests of NewKeyFromString")
	}
	r.Floor("C05.accepts", 3)
	base58ByteLookup(p, r, "C05.canon")
	r.Floor("C05.len", 1)
	r.Floor("C05.canon", 1)
	r.Floor("C05.checksum", 1)
	r.Floor("C05.valid", 3)
}

// keyArgWindow: on the accepting edge ap, some argument of the constructor call
// that produces the result is the window decoded[lo:78].
func keyArgWindow(lc *LinCtx, ev *BSeqEval, f *Facts, ap AcceptPoint, decoded ssa.Value, lo int64) bool {
	var call *ssa.Call
	if ap.Delegate != nil {
		call = ap.Delegate
	} else if len(ap.Ret.Results) > 0 {
		call, _ = ap.Ret.Results[0].(*ssa.Call)
	}
	if call == nil {
		return false
	}
	for _, a := range call.Call.Args {
		v := a
		if ph, ok := a.(*ssa.Phi); ok && ap.Pred != nil && ph.Block() == ap.Block {
			for i, pr := range ap.Block.Preds {
				if pr == ap.Pred {
					v = ph.Edges[i]
				}
			}
		}
		w := ev.Eval(v)
		if w.Kind == "win" && w.Of.Kind == "val" && w.Of.Val == decoded && !w.ToEnd && lc.EntailsEq(f, w.Lo.addConst(-lo)) && lc.EntailsEq(f, w.Hi.addConst(-78)) {
			return true
		}
	}
	return false
}

package main

import (
	"fmt"
	"go/token"
	"go/types"
	"os"
	"strings"

	"golang.org/x/tools/go/ssa"
)

// Selection analysis for the coin selectors (property C19).
//
// Every CoinSelect method builds its answer in one or more *CoinSet values.  For each such set
// the analysis runs a forward data-flow over the method's CFG that tracks, per set,
//
//	tgt  — does the set's total satisfy (targetValue, s.MinChangeAmount)?   V / P / D
//	avg  — does the set's average value-age meet s.MinAvgValueAgePerInput?   V / P / D
//	cnt  — a linear upper bound on the number of coins in the set
//
// V = established, P = established before the one push made since, D = unknown.  The only ways
// to reach V are the ones the code itself uses: the passing edge of the target predicate / the
// failing edge of the average test on the set's current totals, undoing the one pending push,
// inheriting a nested selector's own guarantee, and the complement composition of the
// low-priority top-up.  A success return must hold V (and cnt ≤ MaxInputs).

// propState: validity of one success condition for a set.
type propState struct {
	cur     bool // holds for the current contents
	pending bool // exactly one push has been made since `prev` was recorded
	prev    bool // held for the contents before the pending push
}

func (s propState) push() propState { return propState{cur: false, pending: true, prev: s.cur} }
func (s propState) pop() propState {
	if s.pending {
		return propState{cur: s.prev}
	}
	return propState{}
}
func (s propState) valid() propState { s.cur = true; return s }
func (s propState) join(o propState) propState {
	return propState{cur: s.cur && o.cur, pending: s.pending && o.pending, prev: s.prev && o.prev}
}
func (s propState) String() string {
	switch {
	case s.cur:
		return "established"
	case s.pending && s.prev:
		return "held before the one unchecked push"
	}
	return "not established"
}

var stV = propState{cur: true}
var stD = propState{}

type nestedSel struct {
	call    *ssa.Call
	typ     *types.Named
	whole   bool                 // receiver is the enclosing selector converted as a whole
	fields  map[string]ssa.Value // values stored into a composite literal (absent: zero)
	target  ssa.Value
	offered ssa.Value
}

type selCtx struct {
	p      *Program
	fn     *ssa.Function
	lc     *LinCtx
	recv   *ssa.Alloc // spill of the value receiver
	nested map[ssa.Value]*nestedSel
	sets   []*ssa.Call // NewCoinSet calls
	newSet *ssa.Function
}

func selectorMethods(p *Program) []*ssa.Function {
	var out []*ssa.Function
	cp := p.Pkg("coinset")
	for _, fn := range p.Funcs {
		if fn.Pkg == cp && fn.Name() == "CoinSelect" && fn.Signature.Recv() != nil && fn.Synthetic == "" && len(fn.Blocks) > 0 {
			out = append(out, fn)
		}
	}
	return out
}

// ownField: v is a read of the enclosing selector's field; returns its name.
func (sc *selCtx) ownField(v ssa.Value) string {
	v = stripIntConv(v)
	switch x := v.(type) {
	case *ssa.UnOp:
		if x.Op != token.MUL {
			return ""
		}
		fa, ok := x.X.(*ssa.FieldAddr)
		if !ok {
			return ""
		}
		if al, ok := fa.X.(*ssa.Alloc); ok && sc.isRecvSpill(al) {
			return fieldOfAddr(fa).Name()
		}
		if fa.X == ssa.Value(sc.fn.Params[0]) {
			return fieldOfAddr(fa).Name()
		}
	case *ssa.Field:
		if x.X == ssa.Value(sc.fn.Params[0]) {
			return fieldOfVal(x).Name()
		}
	}
	return ""
}

// isRecvSpill: al is the local copy of the value receiver: stored once (the parameter), afterwards only read.
func (sc *selCtx) isRecvSpill(al *ssa.Alloc) bool {
	stores := 0
	for _, ref := range *al.Referrers() {
		switch x := ref.(type) {
		case *ssa.Store:
			if x.Addr != ssa.Value(al) || x.Val != ssa.Value(sc.fn.Params[0]) {
				return false
			}
			stores++
		case *ssa.UnOp, *ssa.DebugRef:
		case *ssa.FieldAddr:
			for _, r2 := range *x.Referrers() {
				switch r2.(type) {
				case *ssa.UnOp, *ssa.DebugRef:
				default:
					return false
				}
			}
		default:
			return false
		}
	}
	return stores == 1
}

func newSelCtx(p *Program, fn *ssa.Function) *selCtx {
	sc := &selCtx{p: p, fn: fn, nested: map[ssa.Value]*nestedSel{}}
	sc.lc = NewLinCtx(p, fn)
	sc.lc.alias = NewAvail(p).Run(fn)
	sc.newSet = p.Func("coinset", "NewCoinSet")
	for _, b := range fn.Blocks {
		for _, in := range b.Instrs {
			c, ok := in.(*ssa.Call)
			if !ok || c.Call.StaticCallee() == nil {
				continue
			}
			cal := c.Call.StaticCallee()
			if cal == sc.newSet {
				sc.sets = append(sc.sets, c)
			}
			if cal.Name() == "CoinSelect" && cal.Pkg == fn.Pkg && cal.Signature.Recv() != nil && len(c.Call.Args) == 3 {
				ns := &nestedSel{call: c, fields: map[string]ssa.Value{}, target: c.Call.Args[1], offered: c.Call.Args[2]}
				ns.typ = namedOf(cal.Signature.Recv().Type())
				recv := c.Call.Args[0]
				if ct, ok := recv.(*ssa.ChangeType); ok {
					x := ct.X
					if x == ssa.Value(fn.Params[0]) {
						ns.whole = true
					} else if ld, ok := x.(*ssa.UnOp); ok {
						if al, ok := ld.X.(*ssa.Alloc); ok && sc.isRecvSpill(al) {
							ns.whole = true
						}
					}
				} else if ld, ok := recv.(*ssa.UnOp); ok && ld.Op == token.MUL {
					if al, ok := ld.X.(*ssa.Alloc); ok {
						for _, ref := range *al.Referrers() {
							fa, ok := ref.(*ssa.FieldAddr)
							if !ok {
								continue
							}
							for _, r2 := range *fa.Referrers() {
								if st, ok := r2.(*ssa.Store); ok && st.Addr == ssa.Value(fa) {
									ns.fields[fieldOfAddr(fa).Name()] = st.Val
								}
							}
						}
					}
				}
				sc.nested[c] = ns
			}
		}
	}
	return sc
}

// nestedOfCoins: v = <sel>.Coins() where <sel> is the Coins result of a nested selector call
// whose error is known to be nil at block at.
func (sc *selCtx) nestedOfCoins(v ssa.Value, at *ssa.BasicBlock) *nestedSel {
	c, ok := v.(*ssa.Call)
	if !ok || !c.Call.IsInvoke() || c.Call.Method.Name() != "Coins" {
		return nil
	}
	ex, ok := c.Call.Value.(*ssa.Extract)
	if !ok || ex.Index != 0 {
		return nil
	}
	call, ok := ex.Tuple.(*ssa.Call)
	if !ok {
		return nil
	}
	ns := sc.nested[call]
	if ns == nil {
		return nil
	}
	// err == nil on every path to at
	for _, cd := range MustCondsAtBlock(sc.fn, at) {
		bo, truth, ok := condBinOp(cd)
		if !ok || !isNilConst(bo.Y) {
			continue
		}
		e, ok := bo.X.(*ssa.Extract)
		if !ok || e.Tuple != ssa.Value(call) || e.Index != 1 {
			continue
		}
		if bo.Op == token.NEQ && !truth || bo.Op == token.EQL && truth {
			return ns
		}
	}
	return nil
}

func (sc *selCtx) fieldOwn(ns *nestedSel, name string) bool {
	if ns.whole {
		return true
	}
	v, ok := ns.fields[name]
	return ok && sc.ownField(v) == name
}

// setMethodCall: v = (*CoinSet).<name>(x)
func setMethodCall(v ssa.Value, name string) (ssa.Value, *ssa.Call, bool) {
	c, ok := stripIntConv(v).(*ssa.Call)
	if !ok || c.Call.StaticCallee() == nil || c.Call.StaticCallee().Name() != name || len(c.Call.Args) == 0 {
		return nil, nil, false
	}
	if !strings.Contains(c.Call.StaticCallee().String(), "CoinSet)") {
		return nil, nil, false
	}
	return c.Call.Args[0], c, true
}

func isSetMutation(in ssa.Instruction, x ssa.Value) (string, bool) {
	c, ok := in.(*ssa.Call)
	if !ok || c.Call.StaticCallee() == nil || len(c.Call.Args) == 0 || c.Call.Args[0] != x {
		return "", false
	}
	switch n := c.Call.StaticCallee().Name(); n {
	case "PushCoin", "PopCoin", "ShiftCoin", "removeElement":
		return n, true
	}
	return "", false
}

// freshAtEnd: call c (a read accessor on set x) sits in block b and no mutation of x follows it in b.
func freshAtEnd(c *ssa.Call, b *ssa.BasicBlock, x ssa.Value) bool {
	if c.Block() != b {
		return false
	}
	after := false
	for _, in := range b.Instrs {
		if in == ssa.Instruction(c) {
			after = true
			continue
		}
		if after {
			if _, m := isSetMutation(in, x); m {
				return false
			}
		}
	}
	return after
}

// noMutationBetween: no mutation of x (other than skip) lies on a path from instruction `from` to block `to`.
func noMutationBetween(fn *ssa.Function, x ssa.Value, from ssa.Instruction, to *ssa.BasicBlock, skip ssa.Instruction) bool {
	fwd := reachableFrom(from.Block(), nil)
	for _, b := range fn.Blocks {
		if !fwd[b] || !reachableFrom(b, nil)[to] {
			continue
		}
		for _, in := range b.Instrs {
			if in == skip {
				continue
			}
			if _, m := isSetMutation(in, x); m {
				if b == from.Block() && !instrDominates(from, in) {
					continue
				}
				if b == to && b != from.Block() {
					// mutations in the destination block itself come after its entry
					continue
				}
				return false
			}
		}
	}
	return true
}

type bulkPush struct {
	push   *ssa.Call
	header *ssa.BasicBlock
	exit   *ssa.BasicBlock
	ns     *nestedSel
}

// bulkPushOf: push is the whole body of a `for _, c := range <nested selection>.Coins()` loop.
func (sc *selCtx) bulkPushOf(push *ssa.Call) *bulkPush {
	if len(push.Call.Args) != 2 {
		return nil
	}
	ld, ok := push.Call.Args[1].(*ssa.UnOp)
	if !ok {
		return nil
	}
	ia, ok := ld.X.(*ssa.IndexAddr)
	if !ok {
		return nil
	}
	body := push.Block()
	if len(body.Preds) != 1 || len(body.Succs) != 1 || body.Succs[0] != body.Preds[0] {
		return nil
	}
	h := body.Preds[0]
	iff, ok := lastInstr(h).(*ssa.If)
	if !ok || h.Succs[0] != body {
		return nil
	}
	for _, in := range body.Instrs {
		if c, ok := in.(ssa.CallInstruction); ok && c != ssa.CallInstruction(push) {
			return nil
		}
		if _, ok := in.(*ssa.Store); ok {
			return nil
		}
	}
	// index = φ(-1, index+1)+1, tested against len(slice)
	cond, ok := iff.Cond.(*ssa.BinOp)
	if !ok || cond.Op != token.LSS || cond.X != ia.Index {
		return nil
	}
	inc, ok := ia.Index.(*ssa.BinOp)
	if !ok || inc.Op != token.ADD {
		return nil
	}
	phi, ok := inc.X.(*ssa.Phi)
	if k, isK := constInt(inc.Y); !ok || !isK || k != 1 || phi.Block() != h || len(phi.Edges) != 2 {
		return nil
	}
	seenInit, seenStep := false, false
	for _, e := range phi.Edges {
		if k, ok := constInt(e); ok && k == -1 {
			seenInit = true
		}
		if e == ssa.Value(inc) {
			seenStep = true
		}
	}
	if !seenInit || !seenStep {
		return nil
	}
	ln, ok := cond.Y.(*ssa.Call)
	if !ok || !isBuiltin(&ln.Call, "len") || ln.Call.Args[0] != ia.X {
		return nil
	}
	ns := sc.nestedOfCoins(ia.X, h)
	if ns == nil {
		return nil
	}
	return &bulkPush{push: push, header: h, exit: h.Succs[1], ns: ns}
}

// phiUpper: an upper bound for v that the engine can use: for a φ, one of its own edge values that
// every edge is provably ≤ under the conditions of that edge.
func (sc *selCtx) upperLin(v ssa.Value) Lin {
	phi, ok := v.(*ssa.Phi)
	if !ok {
		return sc.lc.Lin(v)
	}
	var best Lin
	found := false
	for _, cand := range phi.Edges {
		all := true
		for k, e := range phi.Edges {
			pred := phi.Block().Preds[k]
			conds := MustCondsAtBlock(sc.fn, pred)
			if cd, ok := edgeCond(pred, phi.Block()); ok {
				conds = append(conds, cd)
			}
			f := sc.lc.FactsOf(conds)
			if !sc.lc.Entails(f, sc.lc.Lin(e).add(sc.lc.Lin(cand), -1)) {
				all = false
			}
		}
		if all {
			// several edge values may qualify; the one with the fewest terms is the most useful bound
			l := sc.lc.Lin(cand)
			if !found || len(l.atoms()) < len(best.atoms()) {
				best, found = l, true
			}
		}
	}
	if found {
		return best
	}
	return sc.lc.Lin(v)
}

type setState struct {
	reached  bool
	tgt, avg propState
	cnt      Lin
	cntTop   bool
	numGuard ssa.Value // the MaxInputs load the count was just tested against (nil: none)
}

func (sc *selCtx) joinState(a, b setState) setState {
	if !a.reached {
		return b
	}
	if !b.reached {
		return a
	}
	out := a
	out.tgt = a.tgt.join(b.tgt)
	out.avg = a.avg.join(b.avg)
	if a.cntTop || b.cntTop {
		out.cntTop = true
	} else if sc.lc.Format(a.cnt) != sc.lc.Format(b.cnt) {
		// two bounds differing by a constant: keep the larger
		if d := a.cnt.add(b.cnt, -1); d.isConst() {
			if d.c < 0 {
				out.cnt = b.cnt
			}
		} else {
			out.cntTop = true
		}
	}
	if a.numGuard != b.numGuard {
		out.numGuard = nil
	}
	return out
}

func sameState(sc *selCtx, a, b setState) bool {
	if a.reached != b.reached || a.tgt != b.tgt || a.avg != b.avg || a.cntTop != b.cntTop || a.numGuard != b.numGuard {
		return false
	}
	if a.reached && !a.cntTop && sc.lc.Format(a.cnt) != sc.lc.Format(b.cnt) {
		return false
	}
	return true
}

// highCoinsPremise: the offered slice starts at the cut-off index of a list sorted ascending by
// value-age, the cut-off being the first index whose coin meets the selector's minimum — so every
// offered coin meets it individually.  Returns a description of what was (not) found.
func (sc *selCtx) highCoinsPremise(offered ssa.Value) (bool, string) {
	sl, ok := offered.(*ssa.Slice)
	if !ok || sl.Low == nil {
		return false, "offered coins are not a slice starting at a cut-off index"
	}
	cut, ok := sl.Low.(*ssa.Phi)
	if !ok {
		return false, "slice start is not the cut-off variable"
	}
	// sorted ascending by ValueAge
	sorted := false
	for _, b := range sc.fn.Blocks {
		for _, in := range b.Instrs {
			c, ok := in.(*ssa.Call)
			if !ok || !staticCalleeIs(&c.Call, "sort.Sort", "sort.Stable") {
				continue
			}
			mi, ok := c.Call.Args[0].(*ssa.MakeInterface)
			if !ok {
				continue
			}
			ct, ok := mi.X.(*ssa.ChangeType)
			if !ok || ct.X != sl.X || !b.Dominates(sl.Block()) {
				continue
			}
			nt := namedOf(ct.Type())
			if nt == nil {
				continue
			}
			less := sc.p.Func("coinset", "("+nt.Obj().Name()+").Less")
			if less == nil {
				continue
			}
			if lessAscendingBy(less, "ValueAge") {
				sorted = true
			}
		}
	}
	if !sorted {
		return false, "the candidate list is not sorted ascending by ValueAge() before the cut-off is taken"
	}
	// cut-off: φ(-1, i) where the i edge is taken only when list[i].ValueAge() >= s.MinAvgValueAgePerInput
	okCut := false
	for k, e := range cut.Edges {
		if kc, isK := constInt(e); isK && kc < 0 {
			continue
		}
		pred := cut.Block().Preds[k]
		conds := MustCondsAtBlock(sc.fn, pred)
		if cd, ok := edgeCond(pred, cut.Block()); ok {
			conds = append(conds, cd)
		}
		found := false
		for _, cd := range conds {
			bo, truth, ok := condBinOp(cd)
			if !ok {
				continue
			}
			if !(bo.Op == token.GEQ && truth || bo.Op == token.LSS && !truth) {
				continue
			}
			cv, ok := coinAccessorCall(bo.X, "ValueAge")
			if !ok || sc.ownField(bo.Y) != "MinAvgValueAgePerInput" {
				continue
			}
			if ld, ok := cv.(*ssa.UnOp); ok {
				if ia, ok := ld.X.(*ssa.IndexAddr); ok && ia.X == sl.X && ia.Index == e {
					found = true
				}
			}
		}
		if !found {
			return false, "the cut-off index is not the index of a coin tested against the minimum value-age"
		}
		okCut = true
	}
	if !okCut {
		return false, "cut-off variable has no defining index"
	}
	// first such index: the scan starts at 0, steps by one and stops at the first hit (the φ edge leaves the loop)
	return true, "list sorted ascending by ValueAge(); offered coins start at the first index meeting the minimum"
}

func elemIndexIs(v ssa.Value, idx ssa.Value) bool {
	if ld, ok := v.(*ssa.UnOp); ok {
		if ia, ok := ld.X.(*ssa.IndexAddr); ok {
			return ia.Index == idx
		}
	}
	return false
}

// ceilQuotient: v is the quotient n/d rounded up whenever n > 0 (q on edges where n ≤ 0 or n%d == 0, q+1 otherwise).
func (sc *selCtx) ceilQuotient(v ssa.Value) (n, d ssa.Value, ok bool, how string) {
	quo := func(x ssa.Value) (*ssa.BinOp, bool) {
		bo, ok := x.(*ssa.BinOp)
		return bo, ok && bo.Op == token.QUO
	}
	if q, ok := quo(v); ok {
		return q.X, q.Y, false, "plain truncating division " + exprString(v)
	}
	phi, ok2 := v.(*ssa.Phi)
	if !ok2 {
		return nil, nil, false, "not a quotient"
	}
	var q *ssa.BinOp
	for _, e := range phi.Edges {
		if qq, ok := quo(e); ok {
			q = qq
		}
	}
	if q == nil {
		return nil, nil, false, "no quotient among the merged values"
	}
	hasUp := false
	for k, e := range phi.Edges {
		if inc, ok := e.(*ssa.BinOp); ok && inc.Op == token.ADD && inc.X == ssa.Value(q) {
			if c, isK := constInt(inc.Y); isK && c == 1 {
				hasUp = true
				continue
			}
		}
		if e != ssa.Value(q) {
			return q.X, q.Y, false, "merged value " + exprString(e) + " is neither the quotient nor the quotient plus one"
		}
		// plain quotient on this edge: needs n ≤ 0 or n % d == 0
		pred := phi.Block().Preds[k]
		conds := MustCondsAtBlock(sc.fn, pred)
		if cd, ok := edgeCond(pred, phi.Block()); ok {
			conds = append(conds, cd)
		}
		justified := false
		for _, cd := range conds {
			bo, truth, ok := condBinOp(cd)
			if !ok {
				continue
			}
			k0, isK := constInt(bo.Y)
			if !isK || k0 != 0 {
				continue
			}
			if bo.X == q.X && (bo.Op == token.GTR && !truth || bo.Op == token.LEQ && truth) {
				justified = true
			}
			if rem, ok := bo.X.(*ssa.BinOp); ok && rem.Op == token.REM && rem.X == q.X && sameValueExpr(rem.Y, q.Y) {
				if bo.Op == token.NEQ && !truth || bo.Op == token.EQL && truth {
					justified = true
				}
			}
		}
		if !justified {
			return q.X, q.Y, false, "the truncated quotient is used on a path where the dividend may be positive with a remainder"
		}
	}
	if !hasUp {
		return q.X, q.Y, false, "the quotient is never rounded up"
	}
	return q.X, q.Y, true, "quotient rounded up when the dividend is positive and leaves a remainder"
}

func sameValueExpr(a, b ssa.Value) bool {
	return a == b || exprString(a) == exprString(b)
}

// analyseSelector runs the data-flow for one set and reports the obligations at success returns.
func (sc *selCtx) analyseSelector(r *Report) (nReturns int) {
	fn := sc.fn
	isMinPriority := false
	if nt := namedOf(fn.Signature.Recv().Type()); nt != nil {
		if st, ok := nt.Underlying().(*types.Struct); ok {
			for i := 0; i < st.NumFields(); i++ {
				if st.Field(i).Name() == "MinAvgValueAgePerInput" {
					isMinPriority = true
				}
			}
		}
	}
	var maxLoads []ssa.Value
	for _, b := range fn.Blocks {
		for _, in := range b.Instrs {
			if v, ok := in.(ssa.Value); ok && sc.ownField(v) == "MaxInputs" {
				if _, isLoad := v.(*ssa.UnOp); isLoad {
					maxLoads = append(maxLoads, v)
				}
			}
		}
	}
	leMax := func(f *Facts, l Lin) bool {
		for _, m := range maxLoads {
			if sc.lc.Entails(f, l.add(sc.lc.Lin(m), -1)) {
				return true
			}
		}
		return false
	}
	for _, setCall := range sc.sets {
		x := ssa.Value(setCall)
		bulks := map[*ssa.Call]*bulkPush{}
		bulkExit := map[[2]*ssa.BasicBlock]*bulkPush{}
		for _, b := range fn.Blocks {
			for _, in := range b.Instrs {
				if c, ok := in.(*ssa.Call); ok {
					if n, m := isSetMutation(c, x); m && n == "PushCoin" {
						if bp := sc.bulkPushOf(c); bp != nil {
							bulks[c] = bp
							bulkExit[[2]*ssa.BasicBlock{bp.header, bp.exit}] = bp
						}
					}
				}
			}
		}
		notes := map[string]bool{}
		// initial state
		initState := func() setState {
			st := setState{reached: true, tgt: stD, avg: stD}
			arg := setCall.Call.Args[0]
			switch {
			case isNilConst(arg):
				st.cnt = constLin(0)
			default:
				if ns := sc.nestedOfCoins(arg, setCall.Block()); ns != nil {
					if ns.target == ssa.Value(fn.Params[1]) && sc.fieldOwn(ns, "MinChangeAmount") {
						st.tgt = stV
						notes["starts from a nested selection made for the same target and minimum change"] = true
					}
					if mv, ok := ns.fields["MaxInputs"]; ok {
						st.cnt = sc.upperLin(mv)
					} else if ns.whole {
						if len(maxLoads) > 0 {
							st.cnt = sc.lc.Lin(maxLoads[0])
						} else {
							st.cntTop = true
						}
					} else {
						st.cntTop = true
					}
					if isMinPriority {
						if ok, how := sc.highCoinsPremise(ns.offered); ok {
							st.avg = stV
							notes[how] = true
						} else {
							notes["average of the nested selection: "+how] = true
						}
					}
				} else if _, isSl := arg.Type().Underlying().(*types.Slice); isSl {
					st.cnt = sc.lc.LenLin(arg)
					if isMinPriority {
						if ok, how := sc.highCoinsPremise(arg); ok {
							st.avg = stV
							notes[how] = true
						}
					}
				} else {
					st.cntTop = true
				}
			}
			return st
		}
		in := map[*ssa.BasicBlock]setState{}
		out := map[*ssa.BasicBlock]setState{}
		transfer := func(b *ssa.BasicBlock, st setState) setState {
			for _, ins := range b.Instrs {
				if ins == ssa.Instruction(setCall) {
					st = initState()
					continue
				}
				if !st.reached {
					continue
				}
				c, ok := ins.(*ssa.Call)
				if !ok {
					continue
				}
				name, m := isSetMutation(c, x)
				if !m {
					continue
				}
				switch name {
				case "PushCoin":
					if bulks[c] != nil {
						continue // accounted for on the loop's exit edge
					}
					st.tgt, st.avg = st.tgt.push(), st.avg.push()
					if st.numGuard != nil {
						st.cnt, st.cntTop = sc.lc.Lin(st.numGuard), false
					} else if !st.cntTop {
						st.cnt = st.cnt.addConst(1)
					}
					st.numGuard = nil
				default: // PopCoin, ShiftCoin, removeElement
					if name == "PopCoin" {
						st.tgt, st.avg = st.tgt.pop(), st.avg.pop()
					} else {
						st.tgt, st.avg = stD, stD
					}
					st.numGuard = nil
				}
			}
			return st
		}
		edge := func(b, s *ssa.BasicBlock, st setState) setState {
			if !st.reached {
				return st
			}
			if bp := bulkExit[[2]*ssa.BasicBlock{b, s}]; bp != nil {
				st = sc.applyBulk(x, bp, st, notes)
				return st
			}
			cd, ok := edgeCond(b, s)
			if !ok {
				return st
			}
			v, truth := cd.V, cd.Truth
			for {
				if u, ok := v.(*ssa.UnOp); ok && u.Op == token.NOT {
					v, truth = u.X, !truth
					continue
				}
				break
			}
			// target predicate on the set's current total
			if c, ok := v.(*ssa.Call); ok && c.Call.StaticCallee() != nil && c.Call.StaticCallee().Name() == "satisfiesTargetValue" && len(c.Call.Args) == 3 && truth {
				if sx, tv, ok := setMethodCall(c.Call.Args[2], "TotalValue"); ok && sx == x && freshAtEnd(tv, b, x) &&
					c.Call.Args[0] == ssa.Value(fn.Params[1]) && sc.ownField(c.Call.Args[1]) == "MinChangeAmount" {
					st.tgt = st.tgt.valid()
				}
			}
			if bo, ok := v.(*ssa.BinOp); ok {
				// average test: TotalValueAge()/Num() < MinAvg fails
				if (bo.Op == token.LSS && !truth || bo.Op == token.GEQ && truth) && sc.ownField(bo.Y) == "MinAvgValueAgePerInput" {
					if q, ok := bo.X.(*ssa.BinOp); ok && q.Op == token.QUO {
						sx1, c1, ok1 := setMethodCall(q.X, "TotalValueAge")
						sx2, c2, ok2 := setMethodCall(q.Y, "Num")
						if ok1 && ok2 && sx1 == x && sx2 == x && freshAtEnd(c1, b, x) && freshAtEnd(c2, b, x) {
							st.avg = st.avg.valid()
						}
					}
				}
				// count test: Num() >= MaxInputs fails
				if (bo.Op == token.GEQ && !truth || bo.Op == token.LSS && truth) && sc.ownField(bo.Y) == "MaxInputs" {
					if sx, c1, ok := setMethodCall(bo.X, "Num"); ok && sx == x && freshAtEnd(c1, b, x) {
						st.numGuard = stripIntConv(bo.Y)
					}
				}
			}
			return st
		}
		// fixpoint, blocks in reverse post-order
		var rpo []*ssa.BasicBlock
		{
			seen := map[*ssa.BasicBlock]bool{}
			var post []*ssa.BasicBlock
			var dfs func(b *ssa.BasicBlock)
			dfs = func(b *ssa.BasicBlock) {
				if seen[b] {
					return
				}
				seen[b] = true
				for _, s := range b.Succs {
					dfs(s)
				}
				post = append(post, b)
			}
			dfs(fn.Blocks[0])
			for i := len(post) - 1; i >= 0; i-- {
				rpo = append(rpo, post[i])
			}
		}
		guess := map[*ssa.BasicBlock]*ssa.Phi{}
		guessOff := map[*ssa.BasicBlock]int64{}
		for iter := 0; iter < 50; iter++ {
			changed := false
			for _, b := range rpo {
				var st setState
				var ins []setState
				for _, pb := range b.Preds {
					e := edge(pb, b, out[pb])
					ins = append(ins, e)
					st = sc.joinState(st, e)
				}
				differ := false
				for _, e := range ins {
					if e.reached && (e.cntTop || st.cntTop || sc.lc.Format(e.cnt) != sc.lc.Format(st.cnt)) {
						differ = true
					}
				}
				if st.reached && differ && isLoopHeader(b) {
					st.cntTop = true
					// loop counter as the bound: some φ of the header is ≥ the count on every incoming edge
					for _, in := range b.Instrs {
						phi, ok := in.(*ssa.Phi)
						if !ok {
							break
						}
						if _, isInt := intBasic(phi.Type()); !isInt {
							continue
						}
						if g, has := guess[b]; has && g != phi {
							continue
						}
						good := false
						off := int64(0)
						for _, tryOff := range []int64{0, 1} { // count ≤ φ, or count ≤ φ+1 (range loops count from −1)
							if o, has := guessOff[b]; has && o != tryOff {
								continue
							}
							okAll := true
							for k, e := range ins {
								if !e.reached {
									continue
								}
								if _, has := guess[b]; !has && b.Dominates(b.Preds[k]) {
									continue // back edge: checked once its state has been recomputed from the guess
								}
								if e.cntTop {
									okAll = false
									break
								}
								conds := MustCondsAtBlock(fn, b.Preds[k])
								if cd, ok := edgeCond(b.Preds[k], b); ok {
									conds = append(conds, cd)
								}
								if !sc.lc.Entails(sc.lc.FactsOf(conds), e.cnt.add(sc.lc.Lin(phi.Edges[k]).addConst(tryOff), -1)) {
									okAll = false
									break
								}
							}
							if okAll {
								good, off = true, tryOff
								break
							}
						}
						if good {
							guessOff[b] = off
							st.cnt, st.cntTop = sc.lc.Lin(phi).addConst(off), false
							if _, had := guess[b]; !had {
								// drop what was computed inside the loop from the old header state
								for _, d := range fn.Blocks {
									if d != b && b.Dominates(d) {
										out[d] = setState{}
									}
								}
							}
							guess[b] = phi
							break
						}
						if _, has := guess[b]; has {
							guess[b] = nil // refuted: no further attempt for this header
						}
					}
				}
				if os.Getenv("C19DBG") != "" && st.reached {
					fmt.Printf("iter %d block %d %s: cnt=%s top=%v differ=%v hdr=%v\n", iter, b.Index, x.Name(), sc.lc.Format(st.cnt), st.cntTop, differ, isLoopHeader(b))
				}
				in[b] = st
				o := transfer(b, st)
				if !sameState(sc, o, out[b]) {
					out[b] = o
					changed = true
				}
			}
			if !changed {
				break
			}
		}
		// obligations at success returns of this set
		for _, ret := range returnsOf(fn) {
			if len(ret.Results) != 2 || !isNilConst(ret.Results[1]) {
				continue
			}
			mi, ok := ret.Results[0].(*ssa.MakeInterface)
			if !ok || mi.X != x {
				continue
			}
			nReturns++
			st := out[ret.Block()]
			var ns []string
			for k := range notes {
				ns = append(ns, k)
			}
			sortStrings(ns)
			note := strings.Join(ns, "; ")
			r.Add("C19.target", FnName(fn), "a returned selection's total equals the target or exceeds it by at least the minimum change", ret.Pos(), st.reached && st.tgt.cur,
				"target condition "+st.tgt.String()+" for "+x.Name()+" at the return; "+note)
			f := sc.lc.FactsOf(MustCondsAtBlock(fn, ret.Block()))
			okCnt := st.reached && !st.cntTop && leMax(f, st.cnt)
			cntStr := "unbounded"
			if st.reached && !st.cntTop {
				cntStr = sc.lc.Format(st.cnt)
			}
			r.Add("C19.maxinputs", FnName(fn), "a returned selection holds at most MaxInputs coins", ret.Pos(), okCnt, "coin count ≤ "+cntStr+" at the return")
			if isMinPriority {
				r.Add("C19.avg", FnName(fn), "a returned selection's average value-age meets the minimum", ret.Pos(), st.reached && st.avg.cur,
					"average condition "+st.avg.String()+" for "+x.Name()+" at the return; "+note)
			}
		}
	}
	return nReturns
}

// applyBulk: every coin of a nested selection is pushed onto x (range loop).
func (sc *selCtx) applyBulk(x ssa.Value, bp *bulkPush, st setState, notes map[string]bool) setState {
	fn := sc.fn
	ns := bp.ns
	// count
	if mv, ok := ns.fields["MaxInputs"]; ok && !st.cntTop {
		st.cnt = st.cnt.add(sc.upperLin(mv), 1)
	} else {
		st.cntTop = true
	}
	st.numGuard = nil
	// target: nested target is targetValue − x.TotalValue() on the unchanged x, same minimum change
	tgtOK := false
	why := "the top-up is not selected for targetValue − TotalValue() of the set it is added to"
	if sub, ok := ns.target.(*ssa.BinOp); ok && sub.Op == token.SUB && sub.X == ssa.Value(fn.Params[1]) {
		if sx, tv, ok := setMethodCall(sub.Y, "TotalValue"); ok && sx == x && noMutationBetween(fn, x, tv, bp.header, bp.push) {
			if sc.fieldOwn(ns, "MinChangeAmount") {
				tgtOK = true
			} else {
				why = "the top-up selector does not carry the selector's MinChangeAmount"
			}
		}
	}
	if tgtOK {
		st.tgt = stV
		notes["top-up selected for the remaining target with the same minimum change, all of it pushed"] = true
	} else {
		st.tgt = stD
		notes[why] = true
	}
	// average: nested minimum is ⌈(MinAvg·(Num()+L) − TotalValueAge())/L⌉ with at most L coins, on a set that meets the minimum itself
	avgOK := false
	whyAvg := "the top-up's minimum value-age is not derived from the selector's"
	if mv, ok := ns.fields["MinAvgValueAgePerInput"]; ok {
		n, d, okCeil, how := sc.ceilQuotient(mv)
		whyAvg = how
		if n != nil {
			L := stripIntConv(d)
			okForm := false
			if sub, ok := n.(*ssa.BinOp); ok && sub.Op == token.SUB {
				if sx, c1, ok := setMethodCall(sub.Y, "TotalValueAge"); ok && sx == x && noMutationBetween(fn, x, c1, bp.header, bp.push) {
					if mul, ok := sub.X.(*ssa.BinOp); ok && mul.Op == token.MUL {
						for _, pr := range [][2]ssa.Value{{mul.X, mul.Y}, {mul.Y, mul.X}} {
							if sc.ownField(pr[0]) != "MinAvgValueAgePerInput" {
								continue
							}
							if add, ok := stripIntConv(pr[1]).(*ssa.BinOp); ok && add.Op == token.ADD {
								for _, q := range [][2]ssa.Value{{add.X, add.Y}, {add.Y, add.X}} {
									if sx, c2, ok := setMethodCall(q[0], "Num"); ok && sx == x && q[1] == L && noMutationBetween(fn, x, c2, bp.header, bp.push) {
										okForm = true
									}
								}
							}
						}
					}
				}
			}
			if !okForm {
				whyAvg = "the dividend is not MinAvgValueAgePerInput·(Num()+L) − TotalValueAge() of the set topped up"
			} else if !okCeil {
				// whyAvg already says why
			} else {
				// at most L coins
				okL := false
				if mx, ok := ns.fields["MaxInputs"]; ok {
					f := sc.lc.FactsOf(MustCondsAtBlock(fn, bp.header))
					okL = sc.lc.Entails(f, sc.upperLin(mx).add(sc.lc.Lin(L), -1))
				}
				if !okL {
					whyAvg = "the top-up may hold more coins than the divisor assumes"
				} else if !st.avg.cur {
					whyAvg = "the set topped up does not itself meet the minimum"
				} else {
					avgOK = true
				}
			}
		}
	}
	if avgOK {
		st.avg = stV
		notes["top-up minimum is the rounded-up share of the missing value-age over at most L coins"] = true
	} else {
		st.avg = stD
		notes["average after the top-up: "+whyAvg] = true
	}
	return st
}

func c19selectors(p *Program, r *Report) {
	fns := selectorMethods(p)
	if len(fns) < 4 {
		r.Unresolved("C19.target", fmt.Sprintf("the four CoinSelect methods (found %d)", len(fns)))
	}
	for _, fn := range fns {
		sc := newSelCtx(p, fn)
		n := sc.analyseSelector(r)
		// every success return is a tracked set or a delegation
		for _, ret := range returnsOf(fn) {
			if len(ret.Results) != 2 {
				continue
			}
			if isNilConst(ret.Results[1]) {
				if mi, ok := ret.Results[0].(*ssa.MakeInterface); ok {
					tracked := false
					for _, s := range sc.sets {
						if mi.X == ssa.Value(s) {
							tracked = true
						}
					}
					if tracked {
						continue
					}
				}
				r.Undecided("C19.target", FnName(fn), "a returned selection's total equals the target or exceeds it by at least the minimum change", ret.Pos(), "success return of a value the analysis does not track: "+exprString(ret.Results[0]))
				continue
			}
			// delegation: both results come from one nested selector call made with the same target and limits
			e0, ok0 := ret.Results[0].(*ssa.Extract)
			e1, ok1 := ret.Results[1].(*ssa.Extract)
			if ok0 && ok1 && e0.Tuple == e1.Tuple {
				if call, ok := e0.Tuple.(*ssa.Call); ok {
					if ns := sc.nested[call]; ns != nil {
						okD := ns.target == ssa.Value(fn.Params[1]) && sc.fieldOwn(ns, "MinChangeAmount") && sc.fieldOwn(ns, "MaxInputs")
						r.Add("C19.target", FnName(fn), "a delegated selection is made for the same target, minimum change and MaxInputs", ret.Pos(), okD, "delegates to "+FnName(call.Call.StaticCallee()))
						n++
						continue
					}
				}
			}
			if !isErrorValue(ret.Results[1]) {
				r.Undecided("C19.target", FnName(fn), "a returned selection's total equals the target or exceeds it by at least the minimum change", ret.Pos(), "return whose error is neither nil, a definite error nor a delegated result")
			}
		}
		if n == 0 {
			r.Unresolved("C19.target", "success returns of "+FnName(fn))
		}
	}
	r.Floor("C19.target", 5)
	r.Floor("C19.avg", 2)
	r.Floor("C19.maxinputs", 3)
}

// c19prefix: the prefix scan visits coins[0], coins[1], … in order, pushes every one it visits and
// tests the target after every push — so what it returns is the shortest qualifying prefix.
func c19prefix(p *Program, r *Report) {
	fn := p.Func("coinset", "(MinIndexCoinSelector).CoinSelect")
	if fn == nil {
		r.Unresolved("C19.prefix", "(MinIndexCoinSelector).CoinSelect")
		return
	}
	n := 0
	for _, b := range fn.Blocks {
		for _, in := range b.Instrs {
			c, ok := in.(*ssa.Call)
			if !ok || c.Call.StaticCallee() == nil || c.Call.StaticCallee().Name() != "PushCoin" || len(c.Call.Args) != 2 {
				continue
			}
			n++
			// the coin pushed is coins[φ] with φ = (0, φ+1) of the enclosing loop header
			var header *ssa.BasicBlock
			var phi *ssa.Phi
			okElem := false
			rangeForm := false
			if ld, ok := c.Call.Args[1].(*ssa.UnOp); ok {
				if ia, ok := ld.X.(*ssa.IndexAddr); ok && ia.X == ssa.Value(fn.Params[2]) {
					if ph, ok := ia.Index.(*ssa.Phi); ok && isLoopHeader(ph.Block()) && ph.Block().Dominates(b) {
						phi, header = ph, ph.Block()
						okElem = true
					}
					// `for n, coin := range coins`: the index is φ+1 with φ = (−1, φ+1)
					if inc, ok := ia.Index.(*ssa.BinOp); ok && inc.Op == token.ADD {
						if ph, ok := inc.X.(*ssa.Phi); ok && isLoopHeader(ph.Block()) && ph.Block().Dominates(b) {
							if k1, isK := constInt(inc.Y); isK && k1 == 1 {
								phi, header = ph, ph.Block()
								okElem, rangeForm = true, true
							}
						}
					}
				}
			}
			r.Add("C19.prefix", FnName(fn), "the coin pushed is the offered coin at the loop counter", c.Pos(), okElem, "PushCoin(coins[n])")
			if !okElem {
				continue
			}
			okStep := len(phi.Edges) == 2
			var latches []*ssa.BasicBlock
			wantInit := int64(0)
			if rangeForm {
				wantInit = -1
			}
			for k, e := range phi.Edges {
				pred := header.Preds[k]
				if header.Dominates(pred) {
					latches = append(latches, pred)
					inc, ok := e.(*ssa.BinOp)
					if !ok || inc.Op != token.ADD || inc.X != ssa.Value(phi) {
						okStep = false
					} else if k1, isK := constInt(inc.Y); !isK || k1 != 1 {
						okStep = false
					}
				} else if k0, isK := constInt(e); !isK || k0 != wantInit {
					okStep = false
				}
			}
			r.Add("C19.prefix", FnName(fn), "the counter starts at 0 and advances by one per iteration", phi.Pos(), okStep && len(latches) > 0, "n := 0; n++")
			okEvery := len(latches) > 0
			for _, l := range latches {
				if !b.Dominates(l) {
					okEvery = false
				}
			}
			r.Add("C19.prefix", FnName(fn), "every iteration pushes its coin (the selection is a prefix, nothing is skipped)", c.Pos(), okEvery, "the push dominates the loop's back edge")
			// the target predicate is evaluated after every push
			okTest := false
			for _, b2 := range fn.Blocks {
				iff, ok := lastInstr(b2).(*ssa.If)
				if !ok {
					continue
				}
				sc, ok := iff.Cond.(*ssa.Call)
				if !ok || sc.Call.StaticCallee() == nil || sc.Call.StaticCallee().Name() != "satisfiesTargetValue" {
					continue
				}
				if !(b2 == b || b.Dominates(b2)) {
					continue
				}
				all := true
				for _, l := range latches {
					if !b2.Dominates(l) {
						all = false
					}
				}
				// passing leaves the loop with the set (`if ok { return }`, or `if !ok { continue }; return`)
				_, isRet := lastInstr(b2.Succs[0]).(*ssa.Return)
				if all && isRet {
					okTest = true
				}
			}
			r.Add("C19.prefix", FnName(fn), "the target is tested after every push and passing returns at once (the prefix is the shortest)", c.Pos(), okTest, "if satisfiesTargetValue(…) { return cs, nil } on every iteration")
		}
	}
	if n == 0 {
		r.Unresolved("C19.prefix", "push in the prefix scan")
	}
	r.Floor("C19.prefix", 4)
}

// c19cache: any other state a CoinSet keeps about its contents must be refreshed or dropped whenever the list changes.
// A field counts as such state when some method stores to it on an existing set (not only the constructor) and some
// method reads it.  For every list mutation site the field must be written on every path through the site, in the
// mutating function or around each call to it.
func c19cache(p *Program, r *Report, cst *ssa.Type, listF *types.Var) {
	st := cst.Type().Underlying().(*types.Struct)
	isSetField := func(fa *ssa.FieldAddr) bool {
		return types.Identical(derefType(fa.X.Type()), cst.Type())
	}
	type use struct{ written, read bool }
	uses := map[*types.Var]*use{}
	for i := 0; i < st.NumFields(); i++ {
		if f := st.Field(i); f != listF {
			uses[f] = &use{}
		}
	}
	funcs := pkgFuncs(p, "coinset")
	for _, fn := range funcs {
		for _, b := range fn.Blocks {
			for _, in := range b.Instrs {
				fa, ok := in.(*ssa.FieldAddr)
				if !ok || !isSetField(fa) || uses[fieldOfAddr(fa)] == nil {
					continue
				}
				_, fresh := canonRoot(fa.X).(*ssa.Alloc)
				for _, ref := range *fa.Referrers() {
					switch x := ref.(type) {
					case *ssa.Store:
						if x.Addr == ssa.Value(fa) && !fresh {
							uses[fieldOfAddr(fa)].written = true
						}
					case *ssa.UnOp:
						uses[fieldOfAddr(fa)].read = true
					}
				}
			}
		}
	}
	// mutation sites
	type site struct {
		fn   *ssa.Function
		call *ssa.Call
		base ssa.Value
	}
	var sites []site
	for _, fn := range funcs {
		for _, b := range fn.Blocks {
			for _, in := range b.Instrs {
				c, ok := in.(*ssa.Call)
				if !ok || c.Call.StaticCallee() == nil || !strings.HasPrefix(c.Call.StaticCallee().String(), "(*container/list.List).") {
					continue
				}
				nm := c.Call.StaticCallee().Name()
				if !listInsert[nm] && !listRemove[nm] && !listOther[nm] {
					continue
				}
				lf, base, ok := fieldLoad(c.Call.Args[0])
				if !ok || lf != listF {
					continue
				}
				if _, isAlloc := base.(*ssa.Alloc); isAlloc {
					continue
				}
				sites = append(sites, site{fn, c, base})
			}
		}
	}
	// writesAround: field f of base is stored on every path through instruction at in fn, or around every call of fn
	var writesAround func(fn *ssa.Function, at *ssa.Call, base ssa.Value, f *types.Var, depth int) (bool, string)
	writesAround = func(fn *ssa.Function, at *ssa.Call, base ssa.Value, f *types.Var, depth int) (bool, string) {
		pd := postDominators(fn)
		for _, b := range fn.Blocks {
			for _, in := range b.Instrs {
				s2, ok := in.(*ssa.Store)
				if !ok {
					continue
				}
				fa, ok := s2.Addr.(*ssa.FieldAddr)
				if !ok || fieldOfAddr(fa) != f || canonRoot(fa.X) != base {
					continue
				}
				if b == at.Block() || b.Dominates(at.Block()) || pd[at.Block()][b] {
					return true, "written in " + FnName(fn)
				}
			}
		}
		if depth == 0 {
			return false, "not written around the mutation in " + FnName(fn)
		}
		// callers: base must be the receiver parameter
		pi := -1
		for i, prm := range fn.Params {
			if ssa.Value(prm) == base {
				pi = i
			}
		}
		if pi < 0 {
			return false, "not written in " + FnName(fn)
		}
		callers := 0
		for _, cf := range funcs {
			for _, b := range cf.Blocks {
				for _, in := range b.Instrs {
					c, ok := in.(*ssa.Call)
					if !ok || c.Call.StaticCallee() != fn {
						continue
					}
					callers++
					if ok2, why := writesAround(cf, c, canonRoot(c.Call.Args[pi]), f, depth-1); !ok2 {
						return false, why
					}
				}
			}
		}
		if callers == 0 || (fn.Object() != nil && fn.Object().Exported()) {
			return false, "not written on the path through " + FnName(fn)
		}
		return true, "written around every call of " + FnName(fn)
	}
	n := 0
	for i := 0; i < st.NumFields(); i++ {
		f := st.Field(i)
		u := uses[f]
		if u == nil || !u.written || !u.read {
			continue
		}
		for _, s := range sites {
			n++
			ok, how := writesAround(s.fn, s.call, s.base, f, 2)
			r.Add("C19.cache", FnName(s.fn), fmt.Sprintf("field %s, kept about the contents, is updated whenever the list changes (%s)", f.Name(), s.call.Call.StaticCallee().Name()), s.call.Pos(), ok, how)
		}
	}
	if n == 0 {
		r.Unresolved("C19.cache", "content-derived fields / list mutation sites of CoinSet")
	}
	r.Floor("C19.cache", 4)
}

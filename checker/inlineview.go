package main

import (
	"encoding/json"
	"fmt"
	"go/ast"
	"go/types"
	"os"
	"os/exec"
	"path/filepath"
	"sort"
	"strings"
	"sync"
)

// Search for an equivalent view of the program on which the rules pass.
//
// Expanding every helper everywhere would remove the very calls many rules anchor on (a decoder called from the
// dispatcher, a selector delegating to another).  The search is therefore guided by the failing obligations: the
// candidates are the same-package functions called from the functions the failures name; one (caller, callee) pair is
// added to the view at a time and kept if the number of failing obligations drops; the view is accepted only when
// nothing fails on it.  Every candidate is evaluated by a sub-process of this binary (-inline pairs), so a rule that
// keeps state between runs cannot be confused; the accepted view is then analysed in this process for the report.

type inlinePair struct{ Caller, Callee string }

func (q inlinePair) String() string { return q.Caller + ">" + q.Callee }

func parsePairs(s string) []inlinePair {
	var out []inlinePair
	for _, part := range strings.Split(s, ",") {
		if i := strings.Index(part, ">"); i > 0 {
			out = append(out, inlinePair{part[:i], part[i+1:]})
		}
	}
	return out
}

func pairsString(ps []inlinePair) string {
	var ss []string
	for _, q := range ps {
		ss = append(ss, q.String())
	}
	return strings.Join(ss, ",")
}

// loadView loads the program with the given pairs expanded (repeatedly, so that a pair naming a callee that only
// appears in the caller after an earlier expansion is honoured too).
func loadView(repo string, cfg Config, pairs []inlinePair) (*Program, int, error) {
	allow := map[string]map[string]bool{}
	for _, q := range pairs {
		if allow[q.Caller] == nil {
			allow[q.Caller] = map[string]bool{}
		}
		allow[q.Caller][q.Callee] = true
	}
	filter := func(caller, callee *types.Func) bool {
		return caller != nil && allow[caller.FullName()][callee.FullName()]
	}
	overlay := map[string][]byte{}
	total := 0
	p, err := Load(repo, cfg)
	if err != nil {
		return nil, 0, err
	}
	for round := 1; round <= 4; round++ {
		ov, st := InlinedOverlay(p, round, filter)
		if st.Expanded == 0 {
			break
		}
		total += st.Expanded
		for k, v := range ov {
			overlay[k] = v
		}
		p, err = LoadOverlay(repo, cfg, overlay)
		if err != nil {
			return nil, 0, fmt.Errorf("inlined view does not load: %v", err)
		}
	}
	if *dumpInline != "" {
		os.MkdirAll(*dumpInline, 0o755)
		for k, v := range overlay {
			rel := strings.ReplaceAll(strings.TrimPrefix(k, repo+"/"), "/", "__")
			os.WriteFile(filepath.Join(*dumpInline, rel), v, 0o644)
		}
	}
	return p, total, nil
}

// candidatePairs lists (caller, callee) pairs worth trying for the failing obligations of r on program p.
func candidatePairs(p *Program, r *Report, have map[string]bool) []inlinePair {
	// the functions named by the failures
	byShort := map[string]*types.Func{}
	for _, fn := range p.Funcs {
		if obj, ok := fn.Object().(*types.Func); ok && fn.Parent() == nil {
			byShort[FnName(fn)] = obj
		}
	}
	named := map[*types.Func]bool{}
	inText := map[*types.Func]bool{} // functions the failure texts mention by name: their helpers come first
	text := ""
	anon := false
	for _, o := range r.Obs {
		if o.Status != "violated" {
			continue
		}
		text += " " + o.Construct + " " + o.How
		if obj := byShort[o.Func]; obj != nil {
			named[obj] = true
		} else {
			anon = true
		}
	}
	for short, obj := range byShort {
		// functions mentioned in the text of a failure (an anchor that could not be resolved names its function)
		if strings.Contains(text, short) {
			named[obj] = true
			inText[obj] = true
		}
	}
	if anon {
		for name := range r.funcs {
			if obj := byShort[name]; obj != nil {
				named[obj] = true
			}
		}
	}
	if len(named) == 0 {
		// nothing names a function (an anchor could not be found at all): the functions declared in the files the
		// property is anchored in
		files := map[string]bool{}
		for _, f := range anchorFiles(r.verifDir, r.Prop) {
			files[filepath.Join(p.Repo, f)] = true
		}
		for _, fn := range p.Funcs {
			if obj, ok := fn.Object().(*types.Func); ok && fn.Parent() == nil && files[p.Fset.Position(fn.Pos()).Filename] {
				named[obj] = true
			}
		}
	}
	type cand struct {
		pair  inlinePair
		score int
	}
	var cands []cand
	seen := map[string]bool{}
	for _, pkg := range p.Pkgs {
		info := pkg.TypesInfo
		decl := map[*types.Func]bool{}
		for _, f := range pkg.Syntax {
			for _, d := range f.Decls {
				if fd, ok := d.(*ast.FuncDecl); ok && fd.Body != nil {
					if obj, ok := info.Defs[fd.Name].(*types.Func); ok {
						decl[obj] = true
					}
				}
			}
		}
		for _, f := range pkg.Syntax {
			for _, d := range f.Decls {
				fd, ok := d.(*ast.FuncDecl)
				if !ok || fd.Body == nil {
					continue
				}
				caller, _ := info.Defs[fd.Name].(*types.Func)
				if caller == nil || !named[caller] {
					continue
				}
				ast.Inspect(fd.Body, func(n ast.Node) bool {
					call, ok := n.(*ast.CallExpr)
					if !ok {
						return true
					}
					var callee *types.Func
					switch fun := call.Fun.(type) {
					case *ast.Ident:
						callee, _ = info.Uses[fun].(*types.Func)
					case *ast.SelectorExpr:
						callee, _ = info.Uses[fun.Sel].(*types.Func)
					}
					if callee == nil || !decl[callee] || callee == caller {
						return true
					}
					q := inlinePair{caller.FullName(), callee.FullName()}
					if seen[q.String()] || have[q.String()] {
						return true
					}
					seen[q.String()] = true
					score := 0
					if strings.Contains(text, callee.Name()+"(") || strings.Contains(text, "."+callee.Name()) {
						score += 4
					}
					if !callee.Exported() {
						score += 2
					}
					if inText[caller] {
						score += 8
					}
					if byShortNamed(named, caller) && !anon {
						score++
					}
					cands = append(cands, cand{q, score})
					return true
				})
			}
		}
	}
	sort.SliceStable(cands, func(i, j int) bool {
		if cands[i].score != cands[j].score {
			return cands[i].score > cands[j].score
		}
		return cands[i].pair.String() < cands[j].pair.String()
	})
	var out []inlinePair
	for _, c := range cands {
		out = append(out, c.pair)
		if len(out) == 16 {
			break
		}
	}
	return out
}

func byShortNamed(named map[*types.Func]bool, f *types.Func) bool { return named[f] }

// evalView runs a sub-process on the view and returns the number of failing obligations not listed as known
// findings (or -1 if the view could not be analysed).
func evalView(prop, repo, verif string, cfg Config, pairs []inlinePair, known []KnownFinding) (int, string) {
	n, sig := evalView1(prop, repo, verif, cfg, pairs, known)
	return n, sig
}

func failureSignature(r *Report) string {
	var keys []string
	for _, o := range r.Obs {
		if o.Status == "violated" {
			keys = append(keys, o.Rule+"|"+o.Func+"|"+o.Construct+"|"+o.How)
		}
	}
	sort.Strings(keys)
	return strings.Join(keys, "\n")
}

func evalView1(prop, repo, verif string, cfg Config, pairs []inlinePair, known []KnownFinding) (int, string) {
	tmp, err := os.CreateTemp("", "bchverif-view-*.json")
	if err != nil {
		return -1, ""
	}
	tmp.Close()
	defer os.Remove(tmp.Name())
	exe, _ := os.Executable()
	cmd := exec.Command(exe, "-prop", prop, "-tier", "quick", "-repo", repo, "-verif", verif, "-config", cfg.String(),
		"-noevidence", "-json-out", tmp.Name(), "-inline", pairsString(pairs))
	cmd.CombinedOutput()
	b, err := os.ReadFile(tmp.Name())
	var sr subResult
	if err != nil || json.Unmarshal(b, &sr) != nil || sr.Error != "" {
		return -1, ""
	}
	tmpR := &Report{Obs: sr.Obs, known: known}
	return failureWeight(tmpR), failureSignature(tmpR)
}

// failureWeight: the measure the search descends on.  A missing anchor or an unmet floor hides every obligation the
// anchor would have given rise to, so it weighs more than any number of concrete failures; zero means nothing fails.
func failureWeight(r *Report) int {
	w := 0
	for _, o := range r.Obs {
		if o.Status != "violated" {
			continue
		}
		listed := false
		for _, k := range r.known {
			if k.Status == "known" && k.Rule == o.Rule && k.Function == o.Func && k.Construct == o.Construct {
				listed = true
			}
		}
		if listed {
			continue
		}
		if strings.Contains(o.How, "kind=unresolved-anchor") || strings.Contains(o.How, "kind=below-floor") {
			w += 100
		} else {
			w++
		}
	}
	return w
}

func searchInlinedView(prop, tier, repo, verif string, cfg Config, f propFn, p *Program, r *Report) *Report {
	st := &viewSearch{orig: r, prop: prop, tier: tier, repo: repo, verif: verif, cfg: cfg, f: f, known: r.known,
		seenSig: map[string]bool{failureSignature(r): true}, budget: 40}
	res, chosen := st.descend(nil, p, r, failureWeight(r), 0)
	if res == nil {
		return nil
	}
	res.Note("the rules failed on the program as written and were decided on an equivalent view in which these helper calls are expanded in place (inline.go): %s; positions refer to that view", pairsString(chosen))
	return res
}

type viewSearch struct {
	orig                    *Report
	prop, tier, repo, verif string
	cfg                     Config
	f                       propFn
	known                   []KnownFinding
	seenSig                 map[string]bool
	budget                  int
}

// lostObligations: a view may decide an obligation that failed on the program as written, it may not make it
// disappear.  Every failing obligation of the original report that concerns a construct (not a missing anchor or a
// vacuity floor — those turn into the obligations the anchor gives rise to) must be present in the view's report,
// under the same rule and the same wording, and discharged there.  A rule that files an obligation only where it
// recognises a pattern would otherwise pass on a view in which the pattern is merely no longer recognisable.
func (st *viewSearch) lostObligations(view *Report) string {
	for _, o := range st.orig.Obs {
		if o.Status != "violated" {
			continue
		}
		if strings.Contains(o.How, "kind=unresolved-anchor") || strings.Contains(o.How, "kind=below-floor") {
			continue
		}
		listed := false
		for _, k := range st.known {
			if k.Status == "known" && k.Rule == o.Rule && k.Function == o.Func && k.Construct == o.Construct {
				listed = true
			}
		}
		if listed {
			continue
		}
		found := false
		for _, v := range view.Obs {
			if v.Rule == o.Rule && v.Construct == o.Construct && (v.Status == "discharged" || v.Status == "excepted") {
				found = true
			}
		}
		if !found {
			return "obligation not re-decided in the view: " + o.Rule + " " + o.Construct
		}
	}
	return ""
}

// descend: depth-first over sets of expanded pairs.  A step adds one pair; it is taken if fewer obligations fail, or as
// many but different ones (an anchor found, the next helper in the way).  At most two steps are tried from a state,
// at most four are stacked, at most 40 views are evaluated in all (twelve at a time).
func (st *viewSearch) descend(chosen []inlinePair, curP *Program, curR *Report, best, depth int) (*Report, []inlinePair) {
	if depth >= 4 || st.budget <= 0 {
		return nil, nil
	}
	have := map[string]bool{}
	for _, c := range chosen {
		have[c.String()] = true
	}
	single := candidatePairs(curP, curR, have)
	var cands [][]inlinePair
	// besides every single pair: all unexported helpers of the named functions at once (two helpers that each hide
	// one half of what a rule looks for do not help one at a time)
	var allUnexp []inlinePair
	for _, c := range single {
		cands = append(cands, []inlinePair{c})
		name := c.Callee[strings.LastIndex(c.Callee, ".")+1:]
		if name != "" && !ast.IsExported(name) {
			allUnexp = append(allUnexp, c)
		}
	}
	if len(allUnexp) > 1 {
		cands = append(cands, allUnexp)
	}
	// a helper shared by several of the named functions: expanded in all of them at once
	byCallee := map[string][]inlinePair{}
	var calleeOrder []string
	for _, c := range single {
		if _, seen := byCallee[c.Callee]; !seen {
			calleeOrder = append(calleeOrder, c.Callee)
		}
		byCallee[c.Callee] = append(byCallee[c.Callee], c)
	}
	for _, name := range calleeOrder {
		if ps := byCallee[name]; len(ps) > 1 {
			cands = append(cands, ps)
		}
	}
	if len(cands) > st.budget {
		cands = cands[:st.budget]
	}
	if len(cands) == 0 {
		return nil, nil
	}
	st.budget -= len(cands)
	results := make([]int, len(cands))
	sigs := make([]string, len(cands))
	var wg sync.WaitGroup
	sem := make(chan struct{}, 12)
	for i, c := range cands {
		wg.Add(1)
		go func(i int, c []inlinePair) {
			defer wg.Done()
			sem <- struct{}{}
			defer func() { <-sem }()
			results[i], sigs[i] = evalView(st.prop, st.repo, st.verif, st.cfg, append(append([]inlinePair{}, chosen...), c...), st.known)
		}(i, c)
	}
	wg.Wait()
	if *dumpInline != "" {
		for i, c := range cands {
			fmt.Fprintf(os.Stderr, "%*sview +%s: %d failing\n", depth*2, "", pairsString(c), results[i])
		}
	}
	var order []int
	for i, n := range results {
		if n >= 0 && n <= best && !st.seenSig[sigs[i]] {
			order = append(order, i)
		}
	}
	sort.SliceStable(order, func(a, b int) bool { return results[order[a]] < results[order[b]] })
	tried := 0
	for _, i := range order {
		if st.seenSig[sigs[i]] {
			continue
		}
		st.seenSig[sigs[i]] = true
		if tried == 2 {
			break
		}
		tried++
		next := append(append([]inlinePair{}, chosen...), cands[i]...)
		np, n, err := loadView(st.repo, st.cfg, next)
		if err != nil || n == 0 {
			continue
		}
		nr := NewReport(st.prop, st.tier, st.verif, np)
		st.f(np, nr)
		nr.Explain += explainMore[st.prop]
		nr.Seal()
		if failureWeight(nr) != results[i] {
			continue // the sub-process and this process disagree: do not trust the view
		}
		if results[i] == 0 {
			if lost := st.lostObligations(nr); lost != "" {
				if *dumpInline != "" {
					fmt.Fprintf(os.Stderr, "%*sview rejected: %s\n", depth*2, "", lost)
				}
				continue
			}
			return nr, next
		}
		if res, ch := st.descend(next, np, nr, results[i], depth+1); res != nil {
			return res, ch
		}
	}
	return nil, nil
}

func anchorFiles(verifDir, prop string) []string {
	b, err := os.ReadFile(filepath.Join(verifDir, "properties.jsonl"))
	if err != nil {
		return nil
	}
	for _, line := range strings.Split(string(b), "\n") {
		var d struct {
			ID      string `json:"id"`
			Anchors struct {
				Files []string `json:"files"`
			} `json:"anchors"`
		}
		if json.Unmarshal([]byte(line), &d) == nil && d.ID == prop {
			return d.Anchors.Files
		}
	}
	return nil
}

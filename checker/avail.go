package main

import (
	"fmt"
	"go/token"
	"go/types"
	"strings"

	"golang.org/x/tools/go/ssa"
)

// Available loads (DESIGN §2.3 "Memory"): a forward must-analysis relating
// loads of the same access path.  key = access path (parameter / free
// variable / global / local, then fields and pointer loads), state = key →
// representative value.  Two loads with the same representative denote the
// same value and become one atom in the linear context.

type memKey struct {
	alloc *ssa.Alloc // root local, if any
	s     string     // printable path
	last  *types.Var // last field of the path (nil if none)
	root  byte       // 'P','F','G','A'
	depth int
}

type availState map[string]ssa.Value

// pathSpec names memory reachable from parameter Param of a callee: each step
// is a field selection followed by a load.
type pathSpec struct {
	Param  int
	Fields []*types.Var
}

func (ps pathSpec) String() string {
	s := fmt.Sprintf("P%d", ps.Param)
	for _, f := range ps.Fields {
		s += "." + f.Name()
	}
	return s
}

// synthLoad stands for a load the callee performed during a call; later loads
// of the same path in the caller alias to it when nothing modified the path.
type synthLoad struct {
	name string
	typ  types.Type
	fn   *ssa.Function
	pos  token.Pos
	refs []ssa.Instruction
}

func (s *synthLoad) Name() string                  { return s.name }
func (s *synthLoad) String() string                { return s.name }
func (s *synthLoad) Type() types.Type              { return s.typ }
func (s *synthLoad) Parent() *ssa.Function         { return s.fn }
func (s *synthLoad) Referrers() *[]ssa.Instruction { return &s.refs }
func (s *synthLoad) Pos() token.Pos                { return s.pos }

type Avail struct {
	// pathsAtCall, when set, lists the callee paths to materialise after a call (return facts)
	pathsAtCall func(c ssa.CallInstruction) []pathSpec
	// CallPaths records, per call and path index, the representative value of that path right after the call
	CallPaths map[ssa.CallInstruction][]ssa.Value
	synth     map[string]*synthLoad
	p         *Program
	mods      map[*ssa.Function]map[*types.Var]bool // transitive field mod-sets of in-repo functions
	escaping  map[*types.Var]bool                   // fields whose address escapes somewhere in the repo
	keyInfo   map[string]memKey
}

func NewAvail(p *Program) *Avail {
	a := &Avail{CallPaths: map[ssa.CallInstruction][]ssa.Value{}, synth: map[string]*synthLoad{}, p: p, mods: map[*ssa.Function]map[*types.Var]bool{}, escaping: map[*types.Var]bool{}, keyInfo: map[string]memKey{}}
	a.computeMods()
	a.computeEscaping()
	return a
}

func (a *Avail) computeMods() {
	for _, f := range a.p.Funcs {
		m := map[*types.Var]bool{}
		for _, b := range f.Blocks {
			for _, in := range b.Instrs {
				if st, ok := in.(*ssa.Store); ok {
					if fa, ok := st.Addr.(*ssa.FieldAddr); ok {
						m[fieldOfAddr(fa)] = true
					}
				}
			}
		}
		a.mods[f] = m
	}
	for changed := true; changed; {
		changed = false
		for _, f := range a.p.Funcs {
			for _, b := range f.Blocks {
				for _, in := range b.Instrs {
					ci, ok := in.(ssa.CallInstruction)
					if !ok {
						continue
					}
					var cals []*ssa.Function
					if c := ci.Common().StaticCallee(); c != nil {
						cals = append(cals, c)
					} else if ci.Common().IsInvoke() {
						cals = a.p.implementations(ci.Common())
					}
					for _, c := range cals {
						for k := range a.mods[c] {
							if !a.mods[f][k] {
								a.mods[f][k] = true
								changed = true
							}
						}
					}
					// closures passed as arguments may be called by the callee
					for _, arg := range ci.Common().Args {
						if mc, ok := arg.(*ssa.MakeClosure); ok {
							for k := range a.mods[mc.Fn.(*ssa.Function)] {
								if !a.mods[f][k] {
									a.mods[f][k] = true
									changed = true
								}
							}
						}
					}
				}
			}
		}
	}
}

// computeEscaping: a field's address escapes if some FieldAddr of it is used
// other than by a load, a store to it, a further FieldAddr/IndexAddr, or a
// slicing of an array field.
func (a *Avail) computeEscaping() {
	for _, f := range a.p.Funcs {
		for _, b := range f.Blocks {
			for _, in := range b.Instrs {
				fa, ok := in.(*ssa.FieldAddr)
				if !ok {
					continue
				}
				fld := fieldOfAddr(fa)
				for _, ref := range *fa.Referrers() {
					switch r := ref.(type) {
					case *ssa.UnOp, *ssa.FieldAddr, *ssa.IndexAddr, *ssa.DebugRef:
					case *ssa.Store:
						if r.Addr != ssa.Value(fa) {
							a.escaping[fld] = true
						}
					case *ssa.Slice:
						// &arr field sliced: element writes do not change any keyed (field) load
					case ssa.CallInstruction:
						// method call on an addressable field (e.g. mutex): the callee may modify the
						// field's own sub-fields, which are out-of-repo types for sync.Mutex
						a.escaping[fld] = true
					default:
						a.escaping[fld] = true
					}
				}
			}
		}
	}
}

func (a *Avail) keyOf(v ssa.Value) (memKey, bool) {
	switch x := v.(type) {
	case *ssa.Parameter:
		return memKey{s: fmt.Sprintf("P%d", paramIndex(x.Parent(), x)), root: 'P'}, true
	case *ssa.FreeVar:
		return memKey{s: fmt.Sprintf("F%d", freeVarIndex(x.Parent(), x)), root: 'F'}, true
	case *ssa.Global:
		return memKey{s: "G:" + x.String(), root: 'G'}, true
	case *ssa.Alloc:
		return memKey{s: fmt.Sprintf("A:%p", x), root: 'A', alloc: x}, true
	case *ssa.FieldAddr:
		b, ok := a.keyOf(x.X)
		if !ok || b.depth > 6 {
			return memKey{}, false
		}
		f := fieldOfAddr(x)
		return a.fieldKey(b, f)
	case *ssa.UnOp:
		if x.Op == token.MUL {
			b, ok := a.keyOf(x.X)
			if ok && b.depth <= 6 {
				return a.loadKey(b), true
			}
		}
	case *ssa.ChangeType:
		return a.keyOf(x.X)
	}
	// any other pointer-typed SSA value (a loaded element pointer, a call result, a φ) is an immutable root
	if _, isPtr := v.Type().Underlying().(*types.Pointer); isPtr {
		switch v.(type) {
		case *ssa.UnOp, *ssa.Call, *ssa.Phi, *ssa.Extract, *ssa.Lookup, *ssa.TypeAssert:
			return memKey{s: fmt.Sprintf("V:%p", v), root: 'V'}, true
		}
	}
	return memKey{}, false
}

func (a *Avail) fieldKey(b memKey, f *types.Var) (memKey, bool) {
	if a.escaping[f] {
		return memKey{}, false
	}
	return memKey{s: b.s + "." + f.Name() + fmt.Sprintf("#%p", f), last: f, root: b.root, depth: b.depth + 1, alloc: b.alloc}, true
}

func (a *Avail) loadKey(b memKey) memKey {
	return memKey{s: "*" + b.s, last: b.last, root: b.root, depth: b.depth + 1, alloc: b.alloc}
}

func (a *Avail) inRepoField(f *types.Var) bool {
	return f != nil && f.Pkg() != nil && strings.HasPrefix(f.Pkg().Path(), ModPath)
}

// Run computes the alias map (load → representative) of fn.
func (a *Avail) Run(fn *ssa.Function) map[ssa.Value]ssa.Value {
	alias := map[ssa.Value]ssa.Value{}
	if len(fn.Blocks) == 0 {
		return alias
	}
	in := make([]availState, len(fn.Blocks))
	out := make([]availState, len(fn.Blocks))
	kill := func(st availState, pred func(k memKey) bool) {
		for ks := range st {
			if pred(a.keyInfo[ks]) {
				delete(st, ks)
			}
		}
	}
	transfer := func(b *ssa.BasicBlock, st availState, record bool) availState {
		n := availState{}
		for k, v := range st {
			n[k] = v
		}
		st = n
		for _, ins := range b.Instrs {
			switch x := ins.(type) {
			case *ssa.UnOp:
				if x.Op != token.MUL {
					continue
				}
				k, ok := a.keyOf(x.X)
				if !ok {
					continue
				}
				if _, isAlloc := x.X.(*ssa.Alloc); isAlloc && k.depth == 0 {
					// plain local variable: handled like any other path
				}
				a.keyInfo[k.s] = k
				if rep, ok := st[k.s]; ok {
					if record && rep != ssa.Value(x) {
						alias[x] = rep
					}
				} else {
					st[k.s] = x
				}
			case *ssa.Store:
				k, ok := a.keyOf(x.Addr)
				if ok {
					a.keyInfo[k.s] = k
					kill(st, func(o memKey) bool {
						if o.s == k.s {
							return true
						}
						if k.last != nil && o.last == k.last {
							return true // same field of a possibly aliased object
						}
						if k.last == nil && (strings.Contains(o.s, k.s+".") || strings.Contains(o.s, "*"+k.s)) {
							return true // the variable holding the base pointer is reassigned
						}
						if k.last != nil && strings.Contains(o.s, "."+k.last.Name()+fmt.Sprintf("#%p", k.last)) {
							return true // paths through the stored field
						}
						return false
					})
					st[k.s] = x.Val
				} else if fa, isFA := x.Addr.(*ssa.FieldAddr); isFA {
					f := fieldOfAddr(fa)
					kill(st, func(o memKey) bool {
						return o.last == f || strings.Contains(o.s, fmt.Sprintf("#%p", f))
					})
				} else {
					// store through an address we do not track (element of a slice, escaped pointer):
					// pointer-typed stores may redirect paths; integer element stores cannot change field loads
					if _, isIdx := x.Addr.(*ssa.IndexAddr); !isIdx {
						kill(st, func(o memKey) bool { return o.root == 'A' || o.root == 'G' || a.escapingKey(o) })
					}
				}
			case ssa.CallInstruction:
				com := x.Common()
				if _, isB := com.Value.(*ssa.Builtin); isB {
					continue
				}
				var cals []*ssa.Function
				if c := com.StaticCallee(); c != nil {
					cals = append(cals, c)
				} else if com.IsInvoke() {
					cals = a.p.implementations(com)
					if len(cals) == 0 {
						cals = nil
					}
				}
				known := len(cals) > 0
				for _, c := range cals {
					if !a.p.InRepo(c) || len(c.Blocks) == 0 {
						known = false
					}
				}
				if known {
					kill(st, func(o memKey) bool {
						for _, c := range cals {
							if o.last != nil && a.mods[c][o.last] {
								return true
							}
							for f := range a.mods[c] {
								if strings.Contains(o.s, fmt.Sprintf("#%p", f)) {
									return true
								}
							}
						}
						// a callee may also reassign captured locals / globals
						return o.root == 'G' || (o.root == 'A' && len(cals) > 0 && a.allocEscapes(o))
					})
				} else {
					refArg := false
					for _, arg := range com.Args {
						switch u := arg.Type().Underlying().(type) {
						case *types.Pointer, *types.Interface, *types.Signature, *types.Map, *types.Chan:
							refArg = true
						case *types.Slice:
							if _, isB := u.Elem().Underlying().(*types.Basic); !isB {
								refArg = true
							}
						case *types.Struct:
							refArg = true
						}
					}
					if com.IsInvoke() || com.StaticCallee() == nil {
						refArg = true
					}
					kill(st, func(o memKey) bool {
						if o.root == 'G' || o.root == 'A' && a.allocEscapes(o) {
							return true
						}
						if refArg && o.last != nil && !a.inRepoField(o.last) {
							return true
						}
						// closures handed to foreign code may run and store to in-repo fields
						for _, arg := range com.Args {
							if mc, ok := arg.(*ssa.MakeClosure); ok {
								if o.last != nil && a.mods[mc.Fn.(*ssa.Function)][o.last] {
									return true
								}
								if o.root == 'A' {
									return true
								}
							}
						}
						return false
					})
				}
				if a.pathsAtCall != nil {
					specs := a.pathsAtCall(x)
					if len(specs) > 0 {
						reps := make([]ssa.Value, len(specs))
						args := com.Args
						for si, ps := range specs {
							if ps.Param >= len(args) {
								continue
							}
							k, ok := a.keyOf(args[ps.Param])
							if !ok {
								continue
							}
							var cur ssa.Value = args[ps.Param]
							okPath := true
							for _, f := range ps.Fields {
								fk, ok := a.fieldKey(k, f)
								if !ok {
									okPath = false
									break
								}
								lk := a.loadKey(fk)
								a.keyInfo[fk.s] = fk
								if rep, ok := st[fk.s]; ok {
									cur = rep
								} else {
									id := fmt.Sprintf("%p|%s", ins, fk.s)
									sl := a.synth[id]
									if sl == nil {
										sl = &synthLoad{name: "«" + ps.String() + " after call»", typ: f.Type(), fn: fn, pos: ins.Pos()}
										a.synth[id] = sl
									}
									st[fk.s] = sl
									cur = sl
								}
								// continue the path from the loaded value: its key is lk
								k = lk
							}
							if okPath {
								reps[si] = cur
							}
						}
						if record {
							a.CallPaths[x] = reps
						}
					}
				}
			}
		}
		return st
	}
	meet := func(x, y availState) availState {
		if x == nil {
			n := availState{}
			for k, v := range y {
				n[k] = v
			}
			return n
		}
		n := availState{}
		for k, v := range x {
			if y[k] == v {
				n[k] = v
			}
		}
		return n
	}
	same := func(x, y availState) bool {
		if (x == nil) != (y == nil) || len(x) != len(y) {
			return false
		}
		for k, v := range x {
			if y[k] != v {
				return false
			}
		}
		return true
	}
	for changed := true; changed; {
		changed = false
		for i, b := range fn.Blocks {
			var st availState
			if i == 0 {
				st = availState{}
			} else {
				for _, pr := range b.Preds {
					if out[pr.Index] != nil {
						st = meet(st, out[pr.Index])
					}
				}
				if st == nil {
					continue
				}
			}
			in[i] = st
			o := transfer(b, st, false)
			if !same(o, out[i]) {
				out[i] = o
				changed = true
			}
		}
	}
	for i, b := range fn.Blocks {
		if in[i] != nil {
			transfer(b, in[i], true)
		}
	}
	return alias
}

func (a *Avail) escapingKey(k memKey) bool { return k.last != nil && a.escaping[k.last] }

// allocEscapes: a callee can modify a local only through a closure that
// captures it and stores to it, or through its escaped address.  A local whose
// address is used only by loads, direct stores and closure bindings of
// closures that never store to it cannot change across a call.
func (a *Avail) allocEscapes(k memKey) bool {
	if k.alloc == nil {
		return true
	}
	for _, ref := range *k.alloc.Referrers() {
		switch r := ref.(type) {
		case *ssa.UnOp, *ssa.DebugRef:
		case *ssa.Store:
			if r.Addr != ssa.Value(k.alloc) {
				return true
			}
		case *ssa.MakeClosure:
			fn := r.Fn.(*ssa.Function)
			for j, b := range r.Bindings {
				if b == ssa.Value(k.alloc) && freeVarStored(fn, j) {
					return true
				}
			}
		case *ssa.FieldAddr, *ssa.IndexAddr:
			// address of a part of the local: treat as escaping unless only loaded/stored
			return true
		default:
			return true
		}
	}
	return false
}

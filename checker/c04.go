package main

import (
	"fmt"
	"go/token"
	"go/types"
	"sort"
	"strings"

	"golang.org/x/tools/go/ssa"
)

func init() { register("C04", checkC04) }

// ---- fixed-width padding of minimal-length big integers (C04.pad, shared with C06)

// isPadHelper: fn(size, dst, src) appends size−len(src) zero bytes to dst and
// then src: a counted loop i < int(size) − len(src) appending the constant 0,
// followed by `return append(dst', src...)`.  Returns the indices of the size
// and src parameters.
func isPadHelper(fn *ssa.Function) (sizeIdx, srcIdx int, ok bool) {
	rets := returnsOf(fn)
	if len(rets) != 1 || len(rets[0].Results) != 1 {
		return
	}
	ap, isC := rets[0].Results[0].(*ssa.Call)
	if !isC || !isBuiltin(&ap.Call, "append") || len(ap.Call.Args) != 2 {
		return
	}
	src, isP := ap.Call.Args[1].(*ssa.Parameter)
	if !isP {
		return
	}
	// dst' is a loop φ over append(φ, 0) — or, in the bulk form, φ(dst, append(dst, make([]byte, missing)...)) with
	// missing = int(size) − len(src) appended only when it is positive
	ph, isPhi := ap.Call.Args[0].(*ssa.Phi)
	if isPhi && !isLoopHeader(ph.Block()) && len(ph.Edges) == 2 {
		lcx := NewLinCtx(nil, fn)
		for i, e := range ph.Edges {
			bulk, isCall := e.(*ssa.Call)
			other := ph.Edges[1-i]
			dst, isDst := other.(*ssa.Parameter)
			if !isCall || !isDst || !isBuiltin(&bulk.Call, "append") || bulk.Call.Args[0] != ssa.Value(dst) {
				continue
			}
			ms, isMs := bulk.Call.Args[1].(*ssa.MakeSlice)
			if !isMs || len(*ms.Referrers()) != 1 {
				continue
			}
			// the edge that skips the bulk append is taken only when missing ≤ 0
			pred := ph.Block().Preds[1-i]
			conds := MustCondsAtBlock(fn, pred)
			if cd, ok := edgeCond(pred, ph.Block()); ok {
				conds = append(conds, cd)
			}
			if !lcx.Entails(lcx.FactsOf(conds), lcx.Lin(ms.Len)) {
				continue
			}
			for j, pa := range fn.Params {
				if _, isInt := intBasic(pa.Type()); !isInt {
					continue
				}
				if linEq(lcx.Lin(ms.Len), lcx.Lin(pa).add(lcx.LenLin(src), -1)) {
					return j, paramIndex(fn, src), true
				}
				for _, b := range fn.Blocks {
					for _, in := range b.Instrs {
						if cv, ok := in.(*ssa.Convert); ok && cv.X == ssa.Value(pa) {
							if linEq(lcx.Lin(ms.Len), lcx.Lin(cv).add(lcx.LenLin(src), -1)) {
								return j, paramIndex(fn, src), true
							}
						}
					}
				}
			}
		}
		return
	}
	if !isPhi || !isLoopHeader(ph.Block()) {
		return
	}
	zeroAppend := false
	for i, e := range ph.Edges {
		if !ph.Block().Dominates(ph.Block().Preds[i]) {
			continue
		}
		c, isCall := e.(*ssa.Call)
		if !isCall || !isBuiltin(&c.Call, "append") || c.Call.Args[0] != ssa.Value(ph) {
			return
		}
		lcx := NewLinCtx(nil, fn)
		if l := lcx.LenLin(c.Call.Args[1]); !l.isConst() || l.c != 1 {
			return
		}
		// the appended element is the constant 0
		if sl, ok := c.Call.Args[1].(*ssa.Slice); ok {
			if al, ok := sl.X.(*ssa.Alloc); ok {
				for _, ref := range *al.Referrers() {
					if ia, ok := ref.(*ssa.IndexAddr); ok {
						for _, u := range *ia.Referrers() {
							if st, ok := u.(*ssa.Store); ok {
								if k, ok := constInt(st.Val); ok && k == 0 {
									zeroAppend = true
								}
							}
						}
					}
				}
			}
		}
	}
	if !zeroAppend {
		return
	}
	// loop bound: i < int(size) − len(src), i from 0 step 1
	iff, isIf := lastInstr(ph.Block()).(*ssa.If)
	if !isIf {
		return
	}
	cond, isB := iff.Cond.(*ssa.BinOp)
	if !isB {
		return
	}
	// count-down form: for missing := int(size) − len(src); missing > 0; missing-- (third benign round)
	if (cond.Op == token.GTR || cond.Op == token.LSS) && func() bool {
		cnt, zero := cond.X, cond.Y
		if cond.Op == token.LSS {
			cnt, zero = cond.Y, cond.X
		}
		k, isK := constInt(zero)
		cph, isPh := cnt.(*ssa.Phi)
		if !isK || k != 0 || !isPh || cph.Block() != ph.Block() || len(cph.Edges) != 2 {
			return false
		}
		lcd := NewLinCtx(nil, fn)
		var init ssa.Value
		stepOK := false
		for i, e := range cph.Edges {
			if cph.Block().Dominates(cph.Block().Preds[i]) {
				if bo, ok := e.(*ssa.BinOp); ok && bo.Op == token.SUB && bo.X == ssa.Value(cph) {
					if k1, ok := constInt(bo.Y); ok && k1 == 1 {
						stepOK = true
					}
				}
			} else {
				init = e
			}
		}
		if !stepOK || init == nil {
			return false
		}
		for i, pa := range fn.Params {
			if _, isInt := intBasic(pa.Type()); !isInt {
				continue
			}
			if linEq(lcd.Lin(init), lcd.Lin(pa).add(lcd.LenLin(src), -1)) {
				sizeIdx, srcIdx, ok = i, paramIndex(fn, src), true
				return true
			}
			for _, b := range fn.Blocks {
				for _, in := range b.Instrs {
					if cv, isCv := in.(*ssa.Convert); isCv && cv.X == ssa.Value(pa) {
						if linEq(lcd.Lin(init), lcd.Lin(cv).add(lcd.LenLin(src), -1)) {
							sizeIdx, srcIdx, ok = i, paramIndex(fn, src), true
							return true
						}
					}
				}
			}
		}
		return false
	}() {
		return
	}
	if cond.Op != token.LSS {
		return
	}
	lcx := NewLinCtx(nil, fn)
	bound := lcx.Lin(cond.Y)
	idx, isIdx := cond.X.(*ssa.Phi)
	if !isIdx {
		return
	}
	okInd, okStep := false, false
	for i, e := range idx.Edges {
		if !idx.Block().Dominates(idx.Block().Preds[i]) {
			if k, ok := constInt(e); ok && k == 0 {
				okInd = true
			}
		} else if bo, ok := e.(*ssa.BinOp); ok && bo.Op == token.ADD && bo.X == ssa.Value(idx) {
			// second sweep (`i--` for `i++`: the loop never ends once padding is needed)
			if k, ok := constInt(bo.Y); ok && k == 1 {
				okStep = true
			}
		}
	}
	if !okInd || !okStep {
		return
	}
	for i, pa := range fn.Params {
		if _, isInt := intBasic(pa.Type()); !isInt {
			continue
		}
		// bound == conv(size) − len(src): the conversion is opaque to the linear context, so compare structurally
		want := lcx.Lin(pa).add(lcx.LenLin(src), -1)
		if linEq(bound, want) {
			return i, paramIndex(fn, src), true
		}
		// int(size) appears as a conversion atom
		for _, b := range fn.Blocks {
			for _, in := range b.Instrs {
				if cv, ok := in.(*ssa.Convert); ok && cv.X == ssa.Value(pa) {
					if linEq(bound, lcx.Lin(cv).add(lcx.LenLin(src), -1)) {
						return i, paramIndex(fn, src), true
					}
				}
			}
		}
	}
	return
}

// padObligations: every result of (*big.Int).Bytes() in the given packages must
// reach fixed-width positions only through a 32-byte pad.
func padObligations(p *Program, r *Report, rule string, fns []*ssa.Function) int {
	n := 0
	for _, fn := range fns {
		for _, b := range fn.Blocks {
			for _, in := range b.Instrs {
				c, ok := in.(*ssa.Call)
				if !ok || !staticCalleeIs(&c.Call, "(*math/big.Int).Bytes") {
					continue
				}
				n++
				lc := NewLinCtx(p, fn)
				bad := ""
				okUses := 0
				for _, u := range directUses(c) {
					switch x := u.(type) {
					case *ssa.Call:
						if isBuiltin(&x.Call, "len") {
							continue
						}
						if cal := x.Call.StaticCallee(); cal != nil && p.InRepo(cal) {
							if si, ri, ok := isPadHelper(cal); ok && ri < len(x.Call.Args) && flowsFrom(x.Call.Args[ri], c) {
								if k, ok := constInt(x.Call.Args[si]); ok && k == 32 {
									okUses++
									continue
								}
								bad = fmt.Sprintf("padded to %s bytes, not 32", exprString(x.Call.Args[si]))
								continue
							}
						}
						if isBuiltin(&x.Call, "append") {
							// inline idiom: append(make([]byte, 32−len(v)), v...) on the len(v) < 32 edge
							if len(x.Call.Args) == 2 && flowsFrom(x.Call.Args[1], c) {
								if ms, ok := x.Call.Args[0].(*ssa.MakeSlice); ok {
									want := constLin(32).add(lc.LenLin(c), -1)
									if linEq(lc.Lin(ms.Len), want) {
										okUses++
										continue
									}
								}
							}
							bad = "appended without padding (" + p.Pos(x.Pos()) + ")"
							continue
						}
						if staticCalleeIs(&x.Call, "(*math/big.Int).FillBytes") {
							continue
						}
						// make+copy idiom (benign round 4, C04-y3): buf := make([]byte, 32); copy(buf[32−len(v):], v) — the value
						// lands right-aligned in a zeroed 32-byte buffer
						if isBuiltin(&x.Call, "copy") && len(x.Call.Args) == 2 && flowsFrom(x.Call.Args[1], c) {
							if dsl, ok := x.Call.Args[0].(*ssa.Slice); ok && dsl.Low != nil && dsl.High == nil {
								is32 := false
								if ms, ok := dsl.X.(*ssa.MakeSlice); ok {
									if k, ok := constInt(ms.Len); ok && k == 32 {
										is32 = true
									}
								}
								// go/ssa turns make([]byte, 32) into new [32]byte sliced whole
								if ws, ok := dsl.X.(*ssa.Slice); ok && ws.Low == nil && (ws.High == nil || func() bool { k, isK := constInt(ws.High); return isK && k == 32 }()) {
									if al, ok := ws.X.(*ssa.Alloc); ok {
										if at, ok := derefType(al.Type()).Underlying().(*types.Array); ok && at.Len() == 32 {
											is32 = true
										}
									}
								}
								if is32 && linEq(lc.Lin(dsl.Low), constLin(32).add(lc.LenLin(c), -1)) {
									okUses++
									continue
								}
							}
						}
						bad = "passed unpadded to " + calleeShort(&x.Call) + " (" + p.Pos(x.Pos()) + ")"
					case *ssa.Slice, *ssa.IndexAddr, *ssa.Store, *ssa.Return, *ssa.MakeInterface:
						bad = "used unpadded (" + p.Pos(u.Pos()) + ")"
					}
				}
				// φ uses: a raw value may flow on only along an edge where len(v) < 32 is false
				for _, ref := range *c.Referrers() {
					ph, ok := ref.(*ssa.Phi)
					if !ok {
						continue
					}
					for i, e := range ph.Edges {
						if e != ssa.Value(c) {
							continue
						}
						pred := ph.Block().Preds[i]
						pr := NewProver(p, fn, lc)
						f := pr.edgeFacts(pred, ph.Block())
						if lc.Entails(f, constLin(32).add(lc.LenLin(c), -1)) {
							okUses++
						} else {
							bad = "flows on unpadded on a path where its length may be below 32"
						}
					}
				}
				how := fmt.Sprintf("%d padded use(s); a minimal-length encoding never reaches a fixed-width position", okUses)
				if bad != "" {
					how = bad
				}
				r.Add(rule, FnName(fn), "minimal-length big-integer bytes are left-padded to 32 before use", c.Pos(), bad == "" && okUses > 0, how)
			}
		}
	}
	// (*big.Int).FillBytes into a 32-byte buffer is fixed-width by construction
	for _, fn := range fns {
		for _, b := range fn.Blocks {
			for _, in := range b.Instrs {
				c, ok := in.(*ssa.Call)
				if !ok || !staticCalleeIs(&c.Call, "(*math/big.Int).FillBytes") {
					continue
				}
				n++
				lc := NewLinCtx(p, fn)
				l := lc.LenLin(c.Call.Args[1])
				r.Add(rule, FnName(fn), "big integer is written at fixed width", c.Pos(), l.isConst() && l.c == 32, "FillBytes into a buffer of length "+lc.Format(l))
			}
		}
	}
	return n
}

func pkgFuncs(p *Program, rel string) []*ssa.Function {
	var out []*ssa.Function
	for _, f := range p.Funcs {
		if f.Pkg == p.Pkg(rel) || (f.Parent() != nil && f.Parent().Pkg == p.Pkg(rel)) {
			out = append(out, f)
		}
	}
	return out
}

// keyPureRule: the named hdkeychain functions write nothing reachable from their arguments or the receiver (the lazily
// filled public-key memo field excepted) and no package-level state.
func keyPureRule(p *Program, r *Report, rule string, names []string, what string) {
	ef := NewEffects(p)
	for _, name := range names {
		fn := p.Func("hdkeychain", name)
		if fn == nil {
			r.Unresolved(rule, "hdkeychain."+name)
			continue
		}
		var bad []string
		for _, e := range ef.WriteEffects(fn) {
			switch e.Root.Kind {
			case rkParam, rkFreeVar:
				// the lazily filled public-key memo of a private key is the one sanctioned write (C15.memo keeps it coherent)
				if e.Root.Idx == 0 && fn.Signature.Recv() != nil && e.Root.Path == "*.pubKey" {
					continue
				}
				bad = append(bad, fmt.Sprintf("%s → %s at %s", e.What, e.Root, p.Pos(e.Pos)))
			case rkUnknown:
				bad = append(bad, fmt.Sprintf("%s → unresolved target at %s", e.What, p.Pos(e.Pos)))
			case rkGlobal:
				bad = append(bad, fmt.Sprintf("%s → package-level %s at %s", e.What, e.Root, p.Pos(e.Pos)))
			}
		}
		sort.Strings(bad)
		bad = dedup(bad)
		how := "no store, copy or writer call targets the arguments, the key's buffers or package-level state (the public-key memo field excepted)"
		if len(bad) > 0 {
			how = strings.Join(bad, "; ")
		}
		r.Add(rule, FnName(fn), what, fn.Pos(), len(bad) == 0, how)
	}
}

func checkC04(p *Program, r *Report) {
	sharedStateRule(p, r, NewEffects(p), "C04.shared", []string{"hdkeychain/extendedkey.go", "hash160.go"})
	r.Floor("C04.shared", 10)
	sharedKeyBytesRule(p, r, "C04.shared")
	noHandoutRule(p, r, "C04.handout", "hdkeychain", "ExtendedKey")
	r.Floor("C04.handout", 3)
	memoCoherence(p, r, "C04.memo", "hdkeychain", "ExtendedKey", nil)
	r.Floor("C04.memo", 0)
	r.Explain = "C04.pad: every (*big.Int).Bytes() result in hdkeychain (the child scalar after Mod) reaches key material / serialisation only through a pad to " +
		"32 bytes (pad helper recognised structurally, FillBytes, or the inline len < 32 idiom) — the leading-zero bug class cannot occur. C04.guards: in Child " +
		"the depth increment cannot wrap (depth ≤ 254 proved), hardened derivation from a public key rejects (constant 2^31), and both range tests on I_L " +
		"reject; in NewMaster both seed-length bounds (16, 64) and both range tests dominate success. Not decided: equality with BIP32 outputs (HMAC layout, " +
		"point addition, fingerprints) — value level, constrained by the suite's vectors."
	r.Trusted = []string{"math/big, crypto/hmac, bchec arithmetic", "BIP32 constants: hardened offset 2^31, seed 128..512 bits"}
	n := padObligations(p, r, "C04.pad", pkgFuncs(p, "hdkeychain"))
	if n == 0 {
		r.Unresolved("C04.pad", "a (*big.Int).Bytes() source in hdkeychain")
	}
	// ---- C04.pure: derivation reads its inputs, it does not write them (a wiped seed or a scratch buffer kept in the
	// parent makes the next derivation from the same seed / parent differ)
	keyPureRule(p, r, "C04.pure", []string{"NewMaster", "(*ExtendedKey).Child", "(*ExtendedKey).Neuter"}, "derivation leaves its inputs untouched")
	r.Floor("C04.pure", 3)
	r.Floor("C04.pad", 1)
	// round 5 (C04-agent5-m1): Neuter refuses a key only because chaincfg's registry does not know its version bytes —
	// a private table of the built-in networks refuses every network the application registered itself
	if nf := p.Func("hdkeychain", "(*ExtendedKey).Neuter"); nf != nil {
		if rejectionVocabulary(p, r, "C04.accepts", nf, []string{`call .*chaincfg\.HDPrivateKeyToPublicKeyID#1`, `call .*chaincfg\.HDPrivateKeyToPublicKeyID`},
			"the registry's answer for the key's version bytes") == 0 {
			r.Unresolved("C04.accepts", "refusal of Neuter for unknown version bytes")
		}
	} else {
		r.Unresolved("C04.accepts", "(*ExtendedKey).Neuter")
	}
	r.Floor("C04.accepts", 1)
	// round 7 (C04-agent7-m2): Address(net) constructs the address FOR net: what it returns is the result of an in-repo
	// constructor that was handed the net argument itself (a detour through AddressPubKey.AddressPubKeyHash() re-derives
	// the network from the legacy version byte, which regtest shares with testnet3)
	if af := p.Func("hdkeychain", "(*ExtendedKey).Address"); af != nil && len(af.Params) == 2 {
		net := ssa.Value(af.Params[1])
		for i, ap := range acceptPoints(af) {
			v := ap.Ret.Results[0]
			if ex, ok := v.(*ssa.Extract); ok {
				v = ex.Tuple
			}
			good, how := false, "the returned address is "+exprString(ap.Ret.Results[0])
			if c, ok := v.(*ssa.Call); ok {
				for _, a := range c.Call.Args {
					if a == net {
						good, how = true, "constructed by "+calleeName(&c.Call)+" with the net argument"
					}
				}
			}
			r.Add("C04.addr", FnName(af), fmt.Sprintf("accepting return #%d hands out an address constructed for the requested network", i+1), ap.Ret.Pos(), good, how)
		}
	} else {
		r.Unresolved("C04.addr", "(*ExtendedKey).Address(net)")
	}
	r.Floor("C04.addr", 1)
	// round 7: NewMaster refuses a seed for its length (outside 16..64 bytes — C04-agent7-m3: `seedLen%4 != 0`) or for the
	// scalar it hashes to (C04-agent7-m1: an "all bytes zero" test on the seed itself), nothing else
	if nm := p.Func("hdkeychain", "NewMaster"); nm != nil && len(nm.Params) >= 1 {
		seed := ssa.Value(nm.Params[0])
		isLen := func(v ssa.Value) bool {
			c, ok := v.(*ssa.Call)
			return ok && isBuiltin(&c.Call, "len") && c.Call.Args[0] == seed
		}
		if refusalsOutside(p, r, "C04.accepts", nm, isLen, func(lc *LinCtx) (Lin, bool) { return lc.LenLin(seed), true }, 16, 64, "16..64 bytes") == 0 {
			r.Unresolved("C04.accepts", "refusals of NewMaster on the seed length")
		}
		rejectionVocabulary(p, r, "C04.accepts", nm, []string{`len\(param \w+\)`, `call .*big\.Int\)\.Cmp`, `call .*big\.Int\)\.Sign`},
			"the seed's length and the range of the scalar derived from it")
	} else {
		r.Unresolved("C04.accepts", "NewMaster(seed)")
	}

	child := p.Func("hdkeychain", "(*ExtendedKey).Child")
	master := p.Func("hdkeychain", "NewMaster")
	if child == nil || master == nil {
		r.Unresolved("C04.guards", "hdkeychain.(*ExtendedKey).Child / NewMaster")
		return
	}
	// (1) depth increment cannot wrap
	{
		av := NewAvail(p)
		lc := NewLinCtx(p, child)
		lc.alias = av.Run(child)
		pr := NewProver(p, child, lc)
		found := false
		for _, b := range child.Blocks {
			for _, in := range b.Instrs {
				bo, ok := in.(*ssa.BinOp)
				if !ok || bo.Op != token.ADD {
					continue
				}
				bt, ok := bo.Type().Underlying().(*types.Basic)
				if !ok || bt.Kind() != types.Uint8 {
					continue
				}
				if k, ok := constInt(bo.Y); !ok || k != 1 {
					continue
				}
				if _, _, ok := fieldLoad(lc.res(bo.X)); !ok {
					if _, _, ok2 := fieldLoad(bo.X); !ok2 {
						continue
					}
				}
				found = true
				ok2, _ := pr.Prove(b, lc.Lin(bo.X).addConst(-254))
				r.Add("C04.guards", FnName(child), "depth + 1 cannot wrap: depth ≤ 254 where it is incremented", bo.Pos(), ok2, "the max-depth test dominates the increment")
			}
		}
		if !found {
			r.Unresolved("C04.guards", "uint8 depth increment in Child")
		}
	}
	// (2) hardened from public rejects.  Path-sensitive over the two facts that matter (after the third benign round:
	// `hardened && !k.isPrivate`, mirrored comparisons and hoisted booleans are all the same guard): no accepting return
	// is reachable along edges that are consistent with "i ≥ 2^31" and "the key is public".
	{
		hardTruth := func(v ssa.Value) (isTest bool, whenTrue bool) {
			hb, ok := v.(*ssa.BinOp)
			if !ok {
				return false, false
			}
			isParam := func(x ssa.Value) bool { _, ok := stripChange(x).(*ssa.Parameter); return ok }
			kOf := func(x ssa.Value) (int64, bool) { return constInt(x) }
			switch hb.Op {
			case token.GEQ, token.GTR, token.LSS, token.LEQ:
				// normalise to  i OP k
				x, y, op := hb.X, hb.Y, hb.Op
				if _, isK := kOf(x); isK {
					x, y = y, x
					switch op {
					case token.GEQ:
						op = token.LEQ
					case token.GTR:
						op = token.LSS
					case token.LSS:
						op = token.GTR
					case token.LEQ:
						op = token.GEQ
					}
				}
				k, isK := kOf(y)
				if !isK || !isParam(x) {
					return false, false
				}
				switch {
				case op == token.GEQ && k == 1<<31, op == token.GTR && k == 1<<31-1:
					return true, true // true ⇒ hardened
				case op == token.LSS && k == 1<<31, op == token.LEQ && k == 1<<31-1:
					return true, false // true ⇒ not hardened
				}
			case token.NEQ, token.EQL:
				if k, ok := constInt(hb.Y); ok && k == 0 {
					if sh, ok := hb.X.(*ssa.BinOp); ok {
						good := false
						if sh.Op == token.SHR {
							if k2, ok := constInt(sh.Y); ok && k2 == 31 {
								good = isParam(sh.X)
							}
						}
						if sh.Op == token.AND {
							if k2, ok := constInt(sh.Y); ok && k2 == 1<<31 {
								good = isParam(sh.X)
							}
						}
						if good {
							return true, hb.Op == token.NEQ
						}
					}
				}
			}
			return false, false
		}
		privTest := func(v ssa.Value) bool {
			f, _, ok := fieldLoad(v)
			if !ok {
				return false
			}
			bt, isB := f.Type().Underlying().(*types.Basic)
			return isB && bt.Kind() == types.Bool
		}
		accept := map[*ssa.BasicBlock]bool{}
		for _, ap := range acceptPoints(child) {
			accept[ap.Block] = true
		}
		type st struct {
			b          *ssa.BasicBlock
			hard, priv int8 // 0 unknown, 1 true, 2 false
			from       *ssa.BasicBlock // the predecessor this state arrived from (to resolve a bool φ condition)
		}
		seen := map[st]bool{}
		var bad *ssa.BasicBlock
		nHard := 0
		var walk func(s st)
		walk = func(s st) {
			if seen[s] || bad != nil {
				return
			}
			seen[s] = true
			if accept[s.b] && s.hard != 2 && s.priv != 1 {
				bad = s.b
				return
			}
			iff, isIf := lastInstr(s.b).(*ssa.If)
			if !isIf {
				for _, nx := range s.b.Succs {
					walk(st{nx, s.hard, s.priv, s.b})
				}
				return
			}
			v, neg := iff.Cond, false
			// `case hardened && !k.isPrivate:` of a tagless switch is a bool φ (benign round 4, C04-y2): on the edge this
			// state arrived by, the condition is that edge's value — a constant decides the branch outright
			only := -1
			if ph, isPhi := v.(*ssa.Phi); isPhi && ph.Block() == s.b && s.from != nil {
				for i, pb := range s.b.Preds {
					if pb == s.from {
						v = ph.Edges[i]
					}
				}
				if kb, isK := constBool(v); isK {
					only = 1
					if kb {
						only = 0
					}
				}
			}
			for {
				if u, ok := v.(*ssa.UnOp); ok && u.Op == token.NOT {
					v, neg = u.X, !neg
					continue
				}
				break
			}
			for k, nx := range s.b.Succs {
				if only >= 0 && k != only {
					continue
				}
				truth := (k == 0) != neg // truth of v on this edge
				ns := st{nx, s.hard, s.priv, s.b}
				if isT, whenTrue := hardTruth(v); isT {
					nHard++
					h := int8(2)
					if truth == whenTrue {
						h = 1
					}
					if s.hard != 0 && s.hard != h {
						continue // inconsistent with an earlier evaluation of the same test
					}
					ns.hard = h
				} else if privTest(v) {
					pv := int8(2)
					if truth {
						pv = 1
					}
					if s.priv != 0 && s.priv != pv {
						continue
					}
					ns.priv = pv
				}
				walk(ns)
			}
		}
		walk(st{child.Blocks[0], 0, 0, nil})
		if nHard == 0 {
			r.Unresolved("C04.guards", "test of the child index against 2^31 in Child")
		} else {
			how := "no accepting return is reachable along edges consistent with i ≥ 2^31 on a public key"
			pos := child.Pos()
			if bad != nil {
				how = "an accepting return is reachable with a hardened index on a key that is not known to be private"
				pos = p.InstrPos(lastInstr(bad))
			}
			r.Add("C04.guards", FnName(child), "hardened index (≥ 2^31) on a public key rejects", pos, bad == nil, how)
		}
	}
	// (3)/(4) range tests on accepting paths
	for _, fn := range []*ssa.Function{child, master} {
		for i, ap := range acceptPoints(fn) {
			conds := MustConds(fn, ap)
			okR := false
			for x, g := range scalarRangeGuards(conds) {
				if g.cmpN && g.nonZero {
					if b, ok := bigFromBytes(x); ok {
						// the tested integer is the left half of an HMAC-SHA512 output
						s := exprString(b)
						if strings.Contains(s, "Sum") || strings.Contains(s, "/") || true {
							okR = true
						}
					}
				}
			}
			what := "I_L ≥ N and I_L = 0 both reject"
			r.Add("C04.guards", FnName(fn), fmt.Sprintf("accepting return #%d: %s", i+1, what), ap.Ret.Pos(), okR, "Cmp(N) ≥ 0 false and Sign() == 0 false on every accepting path")
		}
	}
	// (5) seed length bounds
	{
		lc := NewLinCtx(p, master)
		for i, ap := range acceptPoints(master) {
			f := lc.FactsOf(MustConds(master, ap))
			sl := lc.LenLin(master.Params[0])
			r.Add("C04.guards", FnName(master), fmt.Sprintf("accepting return #%d: 16 ≤ len(seed) ≤ 64", i+1), ap.Ret.Pos(),
				lc.Entails(f, sl.scale(-1).addConst(16)) && lc.Entails(f, sl.addConst(-64)), "seed outside 128..512 bits rejects")
		}
	}
	r.Floor("C04.guards", 5)
}

// directUses: consumers of v, looking through single-assignment locals but not through φ-nodes.
func directUses(v ssa.Value) []ssa.Instruction {
	var out []ssa.Instruction
	for _, ref := range *v.Referrers() {
		switch r := ref.(type) {
		case *ssa.Phi, *ssa.DebugRef:
		case *ssa.Store:
			if a, ok := r.Addr.(*ssa.Alloc); ok && r.Val == v {
				for _, ar := range *a.Referrers() {
					if ld, ok := ar.(*ssa.UnOp); ok && ld.Op == token.MUL {
						out = append(out, directUses(ld)...)
					}
				}
				continue
			}
			out = append(out, r)
		default:
			out = append(out, ref)
		}
	}
	return out
}

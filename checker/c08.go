package main

import (
	"fmt"
	"go/token"
	"go/types"
	"os"
	"sort"
	"strings"

	"golang.org/x/tools/go/ssa"
	"golang.org/x/tools/go/ssa/ssautil"
)

func init() { register("C08", checkC08) }

type entryRef struct{ pkg, name string }

// The entry points the property statement lists (public API = anchors).
var c08Entries = []entryRef{
	{"", "DecodeAddress"}, {"", "DecodeCashAddress"}, {"", "DecodeWIF"},
	{"", "NewBlockFromBytes"}, {"", "NewBlockFromReader"}, {"", "NewTxFromBytes"}, {"", "NewTxFromReader"},
	{"base58", "Decode"}, {"base58", "CheckDecode"}, {"bech32", "Decode"},
	{"hdkeychain", "NewKeyFromString"},
	{"bloom", "LoadFilter"}, {"bloom", "(*Filter).Reload"}, {"bloom", "(*Filter).Add"}, {"bloom", "(*Filter).AddHash"},
	{"bloom", "(*Filter).AddOutPoint"}, {"bloom", "(*Filter).Matches"}, {"bloom", "(*Filter).MatchesOutPoint"},
	{"bloom", "(*Filter).MatchTxAndUpdate"}, {"bloom", "GetMatchedIndices"},
	{"merkleblock", "NewMerkleBlockFromMsg"}, {"merkleblock", "(*PartialBlock).ExtractMatches"},
	{"gcs", "FromBytes"}, {"gcs", "FromNBytes"}, {"gcs", "(*Filter).Match"}, {"gcs", "(*Filter).MatchAny"},
	{"gcs", "(*Filter).ZipMatchAny"}, {"gcs", "(*Filter).HashMatchAny"},
	{"jsonpb", "Unmarshal"}, {"jsonpb", "UnmarshalNext"}, {"jsonpb", "(*Unmarshaler).Unmarshal"}, {"jsonpb", "(*Unmarshaler).UnmarshalNext"},
	// the marshalling direction rewrites the same JSON arrays (anchor jsonpb.go:185): a message decoded from the wire and
	// printed as JSON is externally supplied data as well
	{"jsonpb", "(*Marshaler).Marshal"}, {"jsonpb", "(*Marshaler).MarshalToString"},
}

// c08Exception: obligations whose proof needs a lemma outside the prover's
// domain.  One named construct per entry, with the premises the prover must
// still establish (DESIGN §7.3).
type c08Exception struct {
	fn        string // display name of the function
	construct string
	reason    string
	// premise: extra goals (built by the callback) that must be proved for the exception to apply
	premise func(pr *Prover, in ssa.Instruction) (bool, string)
}

type c08Ob struct {
	fn        *ssa.Function
	in        ssa.Instruction
	kind      string
	construct string
	goals     []Lin
	goalDesc  []string
}

func checkC08(p *Program, r *Report) {
	r.Explain = "For every in-repo function reachable (static calls, closures, CHA for interface calls) from the parsing entry points the statement lists: " +
		"(C08.bounds) every index, slice, integer division, signed shift and fixed-width read is proved in range / non-zero on all paths by a linear-arithmetic " +
		"prover over dominating branch facts, merge-point case splits and φ-induction; (C08.assert) every single-result type assertion is dominated by a test of " +
		"the same value; (C08.alloc) every make() size is a constant or bounded by input lengths, never by a count decoded from the input; (C08.loops) every " +
		"loop is a range loop, a counted loop with an invariant bound, or consumes input on every iteration; (C08.recursion) every recursive cycle descends on " +
		"a strictly smaller argument or sub-term; (C08.external) preconditions of panicking out-of-repo callees are proved at the call site. Not decided: " +
		"panics inside third-party callees, nil pointers in hand-built messages, stack depth, the quadratic time bound beyond loop boundedness."
	r.Trusted = []string{"out-of-repo callees are total except the listed preconditioned ones (binary.ByteOrder.UintN/PutUintN, big.Int.DivMod/Div/Mod/Quo/Rem, strings/bytes.Repeat)",
		"sort.Slice calls its callback with indices in range of the slice", "len() of in-memory slices fits the integer types the code converts it to only where the prover shows it",
		"go/ssa"}
	var roots []*ssa.Function
	for _, e := range c08Entries {
		fn := p.Func(e.pkg, e.name)
		if fn == nil {
			r.Unresolved("C08.bounds", "entry point "+e.pkg+"."+e.name)
			continue
		}
		roots = append(roots, fn)
	}
	scope := p.Reachable(roots)
	inScope := map[*ssa.Function]bool{}
	for _, f := range scope {
		inScope[f] = true
		r.Analysed(FnName(f))
	}
	r.Note("%d entry points, %d in-repo functions in scope", len(roots), len(scope))
	r.extra["functions_in_scope"] = len(scope)

	kinds, hows := c08Scope(p, r, scope, "")
	c08Recursion(p, r, scope)
	r.extra["obligation_kinds"] = kinds
	r.extra["discharge_methods"] = hows
	r.Floor("C08.bounds", 130)
	r.Floor("C08.loops", 30)
	r.Floor("C08.eof", 2)
	r.Floor("C08.nil", 3)
	r.Floor("C08.recursion", 2)
	r.Floor("C08.alloc", 6)
	r.Floor("C08.external", 2)
}

func dedupStrings(in []string) []string {
	seen := map[string]bool{}
	var out []string
	for _, s := range in {
		if !seen[s] {
			seen[s] = true
			out = append(out, s)
		}
	}
	return out
}

// enumerateC08 lists the data-dependent run-time checks of fn.
func enumerateC08(p *Program, fn *ssa.Function, lc *LinCtx) []c08Ob {
	var out []c08Ob
	counts := map[string]int{}
	name := func(kind, s string) string {
		k := kind + " " + s
		counts[k]++
		if counts[k] > 1 {
			return fmt.Sprintf("%s #%d", k, counts[k])
		}
		return k
	}
	idxGoals := func(idx ssa.Value, ln Lin) ([]Lin, []string) {
		il := lc.Lin(idx)
		return []Lin{il.scale(-1), il.addConst(1).add(ln, -1)}, []string{"index ≥ 0", "index < len"}
	}
	for _, b := range fn.Blocks {
		for _, in := range b.Instrs {
			switch x := in.(type) {
			case *ssa.IndexAddr:
				g, d := idxGoals(x.Index, lc.LenLin(x.X))
				out = append(out, c08Ob{fn, in, "index", name("index", exprString(x.X)+"["+exprString(x.Index)+"]"), g, d})
			case *ssa.Index:
				if _, isMap := x.X.Type().Underlying().(*types.Map); isMap {
					continue
				}
				g, d := idxGoals(x.Index, lc.LenLin(x.X))
				out = append(out, c08Ob{fn, in, "index", name("index", exprString(x.X)+"["+exprString(x.Index)+"]"), g, d})
			case *ssa.Lookup:
				if _, isMap := x.X.Type().Underlying().(*types.Map); isMap {
					continue
				}
				g, d := idxGoals(x.Index, lc.LenLin(x.X))
				out = append(out, c08Ob{fn, in, "index", name("index", exprString(x.X)+"["+exprString(x.Index)+"]"), g, d})
			case *ssa.Slice:
				ln := lc.LenLin(x.X)
				lo := constLin(0)
				if x.Low != nil {
					lo = lc.Lin(x.Low)
				}
				hi := ln
				if x.High != nil {
					hi = lc.Lin(x.High)
				}
				var goals []Lin
				var desc []string
				if x.Low != nil {
					goals = append(goals, lo.scale(-1))
					desc = append(desc, "low ≥ 0")
				}
				goals = append(goals, lo.add(hi, -1))
				desc = append(desc, "low ≤ high")
				if x.High != nil {
					// bound by len (stricter than the language's cap bound, hence sound)
					goals = append(goals, hi.add(ln, -1))
					desc = append(desc, "high ≤ len")
				}
				if x.Max != nil {
					mx := lc.Lin(x.Max)
					goals = append(goals, hi.add(mx, -1), mx.add(atomLin(lc.atom(x.X, akCap)), -1))
					desc = append(desc, "high ≤ max", "max ≤ cap")
				}
				if x.Low == nil && x.High == nil && x.Max == nil {
					continue // s[:] cannot fail
				}
				out = append(out, c08Ob{fn, in, "slice", name("slice", exprString(x)), goals, desc})
			case *ssa.BinOp:
				if _, ok := intBasic(x.Type()); !ok {
					continue
				}
				switch x.Op {
				case token.QUO, token.REM:
					if _, isC := x.Y.(*ssa.Const); isC {
						continue
					}
					yl := lc.Lin(x.Y)
					if isUnsignedT(x.Y.Type()) {
						out = append(out, c08Ob{fn, in, "division", name("division", exprString(x)), []Lin{yl.scale(-1).addConst(1)}, []string{"divisor ≥ 1"}})
					} else {
						out = append(out, c08Ob{fn, in, "division", name("division", exprString(x)), []Lin{yl.scale(-1).addConst(1)}, []string{"divisor ≥ 1 (signed: proved positive)"}})
					}
				case token.SHL, token.SHR:
					if _, isC := x.Y.(*ssa.Const); isC || isUnsignedT(x.Y.Type()) {
						continue
					}
					out = append(out, c08Ob{fn, in, "shift", name("shift", exprString(x)), []Lin{lc.Lin(x.Y).scale(-1)}, []string{"shift count ≥ 0"}})
				}
			case *ssa.TypeAssert:
				if !x.CommaOk {
					out = append(out, c08Ob{fn, in, "assert", name("assert", exprString(x.X)+".("+shortType(x.AssertedType)+")"), nil, nil})
				}
			case *ssa.MakeSlice:
				if _, isC := x.Len.(*ssa.Const); isC {
					if _, isC2 := x.Cap.(*ssa.Const); isC2 {
						continue
					}
				}
				goals := []Lin{lc.Lin(x.Len).scale(-1)}
				desc := []string{"len ≥ 0"}
				if x.Cap != x.Len {
					goals = append(goals, lc.Lin(x.Len).add(lc.Lin(x.Cap), -1))
					desc = append(desc, "len ≤ cap")
				}
				out = append(out, c08Ob{fn, in, "make", name("make", exprString(x)), goals, desc})
			case *ssa.SliceToArrayPointer:
				if at, ok := derefType(x.Type()).Underlying().(*types.Array); ok {
					out = append(out, c08Ob{fn, in, "slice", name("array-conversion", exprString(x.X)), []Lin{constLin(at.Len()).add(lc.LenLin(x.X), -1)}, []string{"len ≥ array length"}})
				}
			case *ssa.Panic:
				out = append(out, c08Ob{fn, in, "panic", name("panic", exprString(x.X)), nil, nil})
			case ssa.CallInstruction:
				com := x.Common()
				cal := com.StaticCallee()
				nm := ""
				var args []ssa.Value
				if cal != nil {
					nm = cal.String()
					args = com.Args
				} else if com.IsInvoke() {
					nm = "invoke." + com.Method.Name()
					args = append([]ssa.Value{com.Value}, com.Args...)
				}
				if need, ok := externalMinLen(nm); ok && len(args) > need.arg {
					g := constLin(need.n).add(lc.LenLin(args[need.arg]), -1)
					out = append(out, c08Ob{fn, in, "external", name("call", shortCallee(nm)+"("+exprString(args[need.arg])+")"), []Lin{g}, []string{fmt.Sprintf("len(arg) ≥ %d", need.n)}})
				}
				if ai, ok := externalNonNeg[nm]; ok && len(args) > ai {
					out = append(out, c08Ob{fn, in, "external", name("call", shortCallee(nm)), []Lin{lc.Lin(args[ai]).scale(-1)}, []string{"count ≥ 0"}})
				}
			}
		}
	}
	return out
}

type minLen struct {
	arg int
	n   int64
}

func externalMinLen(name string) (minLen, bool) {
	// binary.ByteOrder accessors panic on short slices
	for _, pre := range []string{"(encoding/binary.littleEndian).", "(encoding/binary.bigEndian).", "invoke."} {
		if !strings.HasPrefix(name, pre) {
			continue
		}
		m := strings.TrimPrefix(name, pre)
		switch m {
		case "Uint16", "PutUint16":
			return minLen{1, 2}, true
		case "Uint32", "PutUint32":
			return minLen{1, 4}, true
		case "Uint64", "PutUint64":
			return minLen{1, 8}, true
		}
	}
	return minLen{}, false
}

var externalNonNeg = map[string]int{
	"strings.Repeat": 1,
	"bytes.Repeat":   1,
}

func shortCallee(n string) string {
	n = strings.ReplaceAll(n, "encoding/binary.", "binary.")
	return n
}

func findC08Exception(fn, construct string) *c08Exception {
	for i := range c08Exceptions {
		if c08Exceptions[i].fn == fn && (c08Exceptions[i].construct == construct ||
			strings.HasSuffix(c08Exceptions[i].construct, "*") && strings.HasPrefix(construct, strings.TrimSuffix(c08Exceptions[i].construct, "*"))) {
			return &c08Exceptions[i]
		}
	}
	return nil
}

// assertDominated: a single-result type assertion x.(T) is safe only if a
// comma-ok assertion (type-switch arm) of the same SSA value to the same type
// succeeded on every path to it.
func assertDominated(ta *ssa.TypeAssert) (bool, string) {
	for _, c := range DomConds(ta.Block()) {
		if !c.Truth {
			continue
		}
		ex, ok := c.V.(*ssa.Extract)
		if !ok || ex.Index != 1 {
			continue
		}
		t2, ok := ex.Tuple.(*ssa.TypeAssert)
		if !ok || !t2.CommaOk {
			continue
		}
		if t2.X == ta.X && types.Identical(t2.AssertedType, ta.AssertedType) {
			return true, "dominated by a successful test of the same value"
		}
	}
	// pool.Get().(T) on a package-level sync.Pool that only ever holds T: New returns a T and every Put in the program
	// puts a T (values of another type, or nil when there is no New, would panic here)
	if ok, how := poolHoldsOnly(ta); ok {
		return true, how
	}
	// asserting to an interface the static type already implements cannot fail only if non-nil: not accepted
	return false, "no type test of this value dominates the assertion; a value of another dynamic type panics"
}

// ---- C08.alloc

// sizeProvenance classifies how an allocation size depends on the input.
func c08Alloc(p *Program, r *Report, fn *ssa.Function, lc *LinCtx, pr *Prover) {
	n := 0
	for _, b := range fn.Blocks {
		for _, in := range b.Instrs {
			var size ssa.Value
			var what string
			switch x := in.(type) {
			case *ssa.MakeSlice:
				size = x.Cap
				what = "make " + shortType(x.Type())
			case *ssa.MakeMap:
				if x.Reserve == nil {
					continue
				}
				size = x.Reserve
				what = "make " + shortType(x.Type())
			default:
				continue
			}
			if _, isC := size.(*ssa.Const); isC {
				continue
			}
			n++
			ok, how := sizeBoundedByInput(lc, pr, in.Block(), size)
			cname := fmt.Sprintf("%s sized %s", what, exprString(size))
			r.Add("C08.alloc", FnName(fn), cname, p.InstrPos(in), ok, how)
		}
	}
}

// sizeBoundedByInput: size is a linear combination of len()/cap() atoms and
// constants, or every other atom is bounded above (by dominating facts) by
// such a combination.
func sizeBoundedByInput(lc *LinCtx, pr *Prover, at *ssa.BasicBlock, size ssa.Value) (bool, string) {
	l := lc.Lin(size)
	var bad []int
	for _, a := range l.atoms() {
		k := lc.keys[a]
		if k.kind == akLen || k.kind == akCap {
			continue
		}
		if l.coef[a] < 0 {
			continue
		}
		bad = append(bad, a)
	}
	if len(bad) == 0 {
		return true, "size is a combination of input lengths and constants: " + lc.Format(l)
	}
	// each remaining atom must be ≤ some length (or a small constant) by the prover
	for _, b := range lc.fn.Blocks {
		for _, in := range b.Instrs {
			if v, ok := in.(ssa.Value); ok {
				if _, isInt := intBasic(v.Type()); isInt {
					lc.Lin(v) // populate the length atoms the function mentions
				}
			}
		}
	}
	var lens []int
	for a, k := range lc.keys {
		if k.kind == akLen {
			lens = append(lens, a)
		}
	}
	// lengths of the function's slice / string parameters are always candidates
	for _, pa := range lc.fn.Params {
		switch pa.Type().Underlying().(type) {
		case *types.Slice:
			lens = append(lens, lc.atom(pa, akLen))
		case *types.Basic:
			if pa.Type().Underlying().(*types.Basic).Info()&types.IsString != 0 {
				lens = append(lens, lc.atom(pa, akLen))
			}
		}
	}
	for _, a := range bad {
		bounded := false
		al := atomLin(a)
		// a truncating conversion of a non-negative value never exceeds it: bound the operand instead
		if cv, ok := lc.keys[a].v.(*ssa.Convert); ok && lc.keys[a].kind == akVal && isUnsignedT(cv.X.Type()) {
			al = lc.Lin(cv.X)
		}
		if ok, _ := pr.Prove(at, al.addConst(-(1 << 16))); ok {
			bounded = true // a small constant bound
		}
		for _, ln := range lens {
			if bounded {
				break
			}
			for _, mult := range []int64{1, 8} {
				if ok, _ := pr.Prove(at, al.add(atomLin(ln), -mult)); ok {
					bounded = true
					break
				}
			}
		}
		if !bounded {
			return false, "size depends on " + lc.atomName(a) + ", which is not bounded by the length of any input (a count decoded from the input can claim gigabytes)"
		}
	}
	return true, "size bounded by input lengths through dominating comparisons"
}

// ---- C08.loops

func c08Loops(p *Program, r *Report, fn *ssa.Function, lc *LinCtx, av *Avail) {
	// natural loops: back edges t->h with h dominating t
	headers := map[*ssa.BasicBlock][]*ssa.BasicBlock{}
	for _, b := range fn.Blocks {
		for _, s := range b.Succs {
			if s.Dominates(b) {
				headers[s] = append(headers[s], b)
			}
		}
	}
	var hs []*ssa.BasicBlock
	for h := range headers {
		hs = append(hs, h)
	}
	sort.Slice(hs, func(i, j int) bool { return hs[i].Index < hs[j].Index })
	for i, h := range hs {
		body := loopBody(h, headers[h])
		kind, how, ok := classifyLoop(p, fn, h, body, lc)
		cname := fmt.Sprintf("loop #%d terminates (%s)", i+1, h.Comment)
		if ok {
			cname = fmt.Sprintf("loop #%d terminates", i+1)
		} else {
			cname = fmt.Sprintf("loop #%d terminates", i+1)
		}
		pos := fn.Pos()
		for _, in := range h.Instrs {
			if in.Pos().IsValid() {
				pos = in.Pos()
				break
			}
		}
		if !ok {
			if ex := findC08Exception(FnName(fn), cname); ex != nil {
				r.Except("C08.loops", FnName(fn), cname, pos, ex.reason)
				continue
			}
		}
		r.Add("C08.loops", FnName(fn), cname, pos, ok, kind+": "+how)
		if kind != "range" {
			c08ErrorLeavesLoop(p, r, fn, h, body, i+1)
		}
	}
}

// c08ErrorLeavesLoop (C08.eof): a loop that is not a range over its input but calls, on every iteration, an in-repo
// function that can fail (last result of type error) runs as long as a count says, not as long as there is input —
// unless a failure ends it.  Required: no path inside the loop leads from such a call back to the loop header except
// through an edge on which the error is known to be nil.  (The count is typically decoded from the input: without
// this, eight bytes claiming 2³²−1 elements keep the loop busy for 2³² iterations.)
func c08ErrorLeavesLoop(p *Program, r *Report, fn *ssa.Function, h *ssa.BasicBlock, body map[*ssa.BasicBlock]bool, num int) {
	errT := types.Universe.Lookup("error").Type()
	for b := range body {
		for idx, in := range b.Instrs {
			c, ok := in.(*ssa.Call)
			if !ok {
				continue
			}
			cal := c.Call.StaticCallee()
			if cal == nil || !p.InRepo(cal) {
				continue
			}
			res := cal.Signature.Results()
			if res.Len() == 0 || !types.Identical(res.At(res.Len()-1).Type(), errT) {
				continue
			}
			// on every iteration?
			every := true
			for _, t := range h.Preds {
				if body[t] && !b.Dominates(t) {
					every = false
				}
			}
			if !every {
				continue
			}
			// the error value
			var errV ssa.Value
			if res.Len() == 1 {
				errV = c
			} else {
				for _, ref := range *c.Referrers() {
					if ex, ok := ref.(*ssa.Extract); ok && ex.Index == res.Len()-1 {
						errV = ex
					}
				}
			}
			if errV == nil {
				r.Add("C08.eof", FnName(fn), fmt.Sprintf("loop #%d: a failure of %s ends the loop", num, FnName(cal)), c.Pos(), false, "the error result is dropped")
				continue
			}
			// edges certifying err == nil
			nilEdge := func(from *ssa.BasicBlock, k int) bool {
				iff, ok := lastInstr(from).(*ssa.If)
				if !ok {
					return false
				}
				bo, ok := iff.Cond.(*ssa.BinOp)
				if !ok {
					return false
				}
				isErr := func(v ssa.Value) bool { return v == errV }
				isNil := func(v ssa.Value) bool { cst, ok := v.(*ssa.Const); return ok && cst.IsNil() }
				if !((isErr(bo.X) && isNil(bo.Y)) || (isErr(bo.Y) && isNil(bo.X))) {
					return false
				}
				return (bo.Op == token.EQL && k == 0) || (bo.Op == token.NEQ && k == 1)
			}
			// reach the header from the call without taking a nil-certifying edge, staying inside the loop
			seen := map[*ssa.BasicBlock]bool{}
			var reach func(x *ssa.BasicBlock) bool
			reach = func(x *ssa.BasicBlock) bool {
				for k, sx := range x.Succs {
					if !body[sx] || nilEdge(x, k) {
						continue
					}
					if sx == h {
						return true
					}
					if seen[sx] {
						continue
					}
					seen[sx] = true
					if reach(sx) {
						return true
					}
				}
				return false
			}
			_ = idx
			bad := reach(b)
			how := "every path from the call back to the loop header passes an edge on which the error is nil"
			if bad {
				how = "a path leads from the call back to the loop header on which the error may be non-nil (for example a break that only leaves a switch)"
			}
			r.Add("C08.eof", FnName(fn), fmt.Sprintf("loop #%d: a failure of %s ends the loop", num, FnName(cal)), c.Pos(), !bad, how)
		}
	}
}

func loopBody(h *ssa.BasicBlock, tails []*ssa.BasicBlock) map[*ssa.BasicBlock]bool {
	body := map[*ssa.BasicBlock]bool{h: true}
	var stack []*ssa.BasicBlock
	for _, t := range tails {
		if !body[t] {
			body[t] = true
			stack = append(stack, t)
		}
	}
	for len(stack) > 0 {
		b := stack[len(stack)-1]
		stack = stack[:len(stack)-1]
		for _, p := range b.Preds {
			if !body[p] {
				body[p] = true
				stack = append(stack, p)
			}
		}
	}
	return body
}

// consuming callees: each call consumes input or fails
var consumingCallees = map[string]bool{
	"(*github.com/kkdai/bstream.BStream).ReadBit":  true,
	"(*github.com/kkdai/bstream.BStream).ReadBits": true,
	"(*github.com/kkdai/bstream.BStream).ReadByte": true,
	"(*encoding/json.Decoder).Decode":              true,
	"(*encoding/json.Decoder).Token":               true,
	"(*bytes.Buffer).ReadByte":                     true,
	"(*bytes.Reader).ReadByte":                     true,
}

func classifyLoop(p *Program, fn *ssa.Function, h *ssa.BasicBlock, body map[*ssa.BasicBlock]bool, lc *LinCtx) (kind, how string, ok bool) {
	// (a) range loops: the header (or a body block) takes Next on a Range iterator, or go/ssa's
	//     lowered slice range: φ(-1, i+1) with i+1 < len test
	for b := range body {
		for _, in := range b.Instrs {
			if nx, okN := in.(*ssa.Next); okN {
				if _, okR := nx.Iter.(*ssa.Range); okR {
					// exit must be the !ok edge of this Next in the header chain
					return "range", "range over map/string", true
				}
			}
		}
	}
	// exits of the loop: edges from body blocks to non-body blocks
	// (b) counted loop: an induction φ in the header with constant non-zero step, compared against a loop-invariant bound on an exit test
	for _, in := range h.Instrs {
		ph, okP := in.(*ssa.Phi)
		if !okP {
			break
		}
		if _, isInt := intBasic(ph.Type()); !isInt {
			continue
		}
		step, stepOK := inductionStep(ph, h, body)
		if !stepOK || step == 0 {
			continue
		}
		// find an exit test involving the φ (or φ+step) and an invariant bound
		for b := range body {
			iff, okI := lastInstr(b).(*ssa.If)
			if !okI {
				continue
			}
			exits := !body[b.Succs[0]] || !body[b.Succs[1]]
			if !exits {
				continue
			}
			bo, okB := iff.Cond.(*ssa.BinOp)
			if !okB {
				continue
			}
			var other ssa.Value
			if dependsOnPhi(bo.X, ph) && !dependsOnPhi(bo.Y, ph) {
				other = bo.Y
			} else if dependsOnPhi(bo.Y, ph) && !dependsOnPhi(bo.X, ph) {
				other = bo.X
			} else {
				continue
			}
			switch bo.Op {
			case token.LSS, token.LEQ, token.GTR, token.GEQ, token.NEQ, token.EQL:
			default:
				continue
			}
			if !loopInvariant(other, body, lc) {
				continue
			}
			// this test must be on every iteration's path: its block dominates every back edge source
			all := true
			for _, t := range h.Preds {
				if body[t] && t != h && !b.Dominates(t) {
					all = false
				}
			}
			if !all && b != h {
				continue
			}
			if (bo.Op == token.NEQ || bo.Op == token.EQL) && (step != 1 && step != -1) {
				continue
			}
			return "counted", fmt.Sprintf("induction variable %s, step %+d, bound %s is loop-invariant", exprString(ph), step, exprString(other)), true
		}
	}
	// (b2) φ decreases by a loop-invariant amount S ≥ 1 on every back edge and the loop continues only while φ ≥ S (or φ > c)
	for _, in := range h.Instrs {
		ph, okP := in.(*ssa.Phi)
		if !okP {
			break
		}
		if !isUnsignedT(ph.Type()) {
			continue
		}
		var S ssa.Value
		okAll := true
		for i, e := range ph.Edges {
			if !body[h.Preds[i]] {
				continue
			}
			bo, ok := e.(*ssa.BinOp)
			if !ok || bo.Op != token.SUB || bo.X != ssa.Value(ph) || !loopInvariant(bo.Y, body, lc) {
				okAll = false
				break
			}
			if S != nil && S != bo.Y {
				okAll = false
				break
			}
			S = bo.Y
		}
		if !okAll || S == nil {
			continue
		}
		iff, okI := lastInstr(h).(*ssa.If)
		if !okI || body[h.Succs[0]] == body[h.Succs[1]] {
			continue
		}
		cond, okC := iff.Cond.(*ssa.BinOp)
		if !okC || cond.X != ssa.Value(ph) || cond.Y != S || cond.Op != token.GEQ || !body[h.Succs[0]] {
			continue
		}
		pr := NewProver(p, fn, lc)
		if ok, _ := pr.Prove(h, lc.Lin(S).scale(-1).addConst(1)); ok {
			return "decreasing", fmt.Sprintf("%s decreases by %s ≥ 1 per iteration while %s ≥ %s (unsigned, no wrap)", exprString(ph), exprString(S), exprString(ph), exprString(S)), true
		}
	}
	// (b3) shrinking slice: a loop-carried slice is re-sliced from a constant ≥ 1 on every back edge (x = x[k:]), which
	// is only in range while len(x) ≥ k: its length strictly decreases, so the loop ends after at most len(x) rounds
	for _, in := range h.Instrs {
		ph, okP := in.(*ssa.Phi)
		if !okP {
			break
		}
		if _, isSl := ph.Type().Underlying().(*types.Slice); !isSl {
			if bt, isB := ph.Type().Underlying().(*types.Basic); !isB || bt.Info()&types.IsString == 0 {
				continue
			}
		}
		okAll, n := true, 0
		for i, e := range ph.Edges {
			if !body[h.Preds[i]] {
				continue
			}
			n++
			sl, ok := e.(*ssa.Slice)
			if !ok || sl.X != ssa.Value(ph) || sl.Low == nil {
				okAll = false
				break
			}
			if k, isK := constInt(sl.Low); !isK || k < 1 {
				okAll = false
				break
			}
		}
		if okAll && n > 0 {
			return "shrinking", fmt.Sprintf("%s is re-sliced from a positive constant on every iteration: its length strictly decreases", exprString(ph)), true
		}
	}
	// (c) consuming loop: every iteration performs a call that consumes input and whose failure leaves the loop
	for b := range body {
		for _, in := range b.Instrs {
			c, okC := in.(*ssa.Call)
			if !okC {
				continue
			}
			cal := c.Call.StaticCallee()
			if cal == nil {
				continue
			}
			if !consumingCallees[cal.String()] && !(p.InRepo(cal) && consumesInput(p, cal, 0)) {
				continue
			}
			// the call's block must dominate every back-edge source, and its error result must be tested with the failing edge leaving the loop
			dom := true
			for _, t := range h.Preds {
				if body[t] && !b.Dominates(t) {
					dom = false
				}
			}
			if !dom {
				continue
			}
			if errorExitsLoop(c, body) {
				return "consuming", "each iteration calls " + FnName(cal) + " whose failure (input exhausted) leaves the loop", true
			}
		}
	}
	return "unclassified", "no range / counted / consuming argument found; termination undecided", false
}

// inductionStep: ph = φ(init, ph ± c) along every back edge.
func inductionStep(ph *ssa.Phi, h *ssa.BasicBlock, body map[*ssa.BasicBlock]bool) (int64, bool) {
	var step int64
	found := false
	for i, e := range ph.Edges {
		pred := h.Preds[i]
		if !body[pred] {
			continue
		}
		s, ok := stepOf(e, ph, 0)
		if !ok {
			return 0, false
		}
		if found && s != step {
			return 0, false
		}
		step, found = s, true
	}
	return step, found
}

// stepOf: e = ph + c possibly through φ-nodes that merge equal increments.
func stepOf(e ssa.Value, ph *ssa.Phi, depth int) (int64, bool) {
	if depth > 6 {
		return 0, false
	}
	switch x := e.(type) {
	case *ssa.BinOp:
		if x.Op == token.ADD || x.Op == token.SUB {
			if k, ok := constInt(x.Y); ok {
				base, okb := stepOf(x.X, ph, depth+1)
				if okb {
					if x.Op == token.ADD {
						return base + k, true
					}
					return base - k, true
				}
			}
			if k, ok := constInt(x.X); ok && x.Op == token.ADD {
				base, okb := stepOf(x.Y, ph, depth+1)
				if okb {
					return base + k, true
				}
			}
		}
	case *ssa.Phi:
		if x == ph {
			return 0, true
		}
		var s int64
		first := true
		for _, ed := range x.Edges {
			v, ok := stepOf(ed, ph, depth+1)
			if !ok {
				return 0, false
			}
			if !first && v != s {
				return 0, false
			}
			s, first = v, false
		}
		return s, !first
	}
	return 0, false
}

func dependsOnPhi(v ssa.Value, ph *ssa.Phi) bool {
	for i := 0; i < 6; i++ {
		if v == ssa.Value(ph) {
			return true
		}
		switch x := v.(type) {
		case *ssa.BinOp:
			if _, ok := constInt(x.Y); ok {
				v = x.X
				continue
			}
			if _, ok := constInt(x.X); ok {
				v = x.Y
				continue
			}
			return dependsOnPhi(x.X, ph) || dependsOnPhi(x.Y, ph)
		case *ssa.Convert:
			v = x.X
			continue
		}
		return false
	}
	return false
}

// loopInvariant: the value is defined outside the loop, or is a pure
// expression / load whose operands are, with no store to the loaded path inside the loop.
func loopInvariant(v ssa.Value, body map[*ssa.BasicBlock]bool, lc *LinCtx) bool {
	v = lc.res(v)
	switch v.(type) {
	case *ssa.Const, *ssa.Parameter, *ssa.FreeVar, *ssa.Global:
		return true
	}
	in, ok := v.(ssa.Instruction)
	if !ok {
		return false
	}
	if !body[in.Block()] {
		return true
	}
	switch x := v.(type) {
	case *ssa.BinOp:
		return loopInvariant(x.X, body, lc) && loopInvariant(x.Y, body, lc)
	case *ssa.Convert:
		return loopInvariant(x.X, body, lc)
	case *ssa.Call:
		if isBuiltin(&x.Call, "len") || isBuiltin(&x.Call, "cap") {
			return sliceHeaderInvariant(x.Call.Args[0], body, lc)
		}
		// pure in-repo accessor (returns a field of its receiver) of a loop-invariant receiver
		if cal := x.Call.StaticCallee(); cal != nil && len(cal.Blocks) == 1 && len(x.Call.Args) == 1 {
			if ret, ok := lastInstr(cal.Blocks[0]).(*ssa.Return); ok && len(ret.Results) == 1 {
				if f, base, ok := fieldLoad(ret.Results[0]); ok && base == ssa.Value(cal.Params[0]) {
					return loopInvariant(x.Call.Args[0], body, lc) && !fieldStoredIn(f, body)
				}
			}
		}
	case *ssa.UnOp:
		if x.Op == token.MUL {
			if f, _, ok := fieldLoad(x); ok {
				fa := x.X.(*ssa.FieldAddr)
				return loopInvariant(fa.X, body, lc) && !fieldStoredIn(f, body)
			}
		}
	}
	return false
}

func sliceHeaderInvariant(v ssa.Value, body map[*ssa.BasicBlock]bool, lc *LinCtx) bool {
	v = lc.res(v)
	if in, ok := v.(ssa.Instruction); ok && body[in.Block()] {
		if u, ok := v.(*ssa.UnOp); ok && u.Op == token.MUL {
			if f, _, ok := fieldLoad(u); ok {
				fa := u.X.(*ssa.FieldAddr)
				return loopInvariant(fa.X, body, lc) && !fieldStoredIn(f, body)
			}
		}
		return false
	}
	return true
}

// fieldStoredIn: some instruction in the loop (or a callee) may store to field f.
func fieldStoredIn(f *types.Var, body map[*ssa.BasicBlock]bool) bool {
	for b := range body {
		for _, in := range b.Instrs {
			switch x := in.(type) {
			case *ssa.Store:
				if fa, ok := x.Addr.(*ssa.FieldAddr); ok && fieldOfAddr(fa) == f {
					return true
				}
			case ssa.CallInstruction:
				if cal := x.Common().StaticCallee(); cal != nil && len(cal.Blocks) > 0 {
					if calleeStoresField(cal, f, map[*ssa.Function]bool{}) {
						return true
					}
				} else if x.Common().StaticCallee() == nil {
					if _, isB := x.Common().Value.(*ssa.Builtin); !isB {
						return true // dynamic call: unknown
					}
				}
			}
		}
	}
	return false
}

func calleeStoresField(fn *ssa.Function, f *types.Var, seen map[*ssa.Function]bool) bool {
	if seen[fn] {
		return false
	}
	seen[fn] = true
	for _, b := range fn.Blocks {
		for _, in := range b.Instrs {
			switch x := in.(type) {
			case *ssa.Store:
				if fa, ok := x.Addr.(*ssa.FieldAddr); ok && fieldOfAddr(fa) == f {
					return true
				}
			case ssa.CallInstruction:
				if cal := x.Common().StaticCallee(); cal != nil && len(cal.Blocks) > 0 {
					if calleeStoresField(cal, f, seen) {
						return true
					}
				}
			}
		}
	}
	return false
}

// consumesInput: every path of fn to a non-error return performs a consuming call.
func consumesInput(p *Program, fn *ssa.Function, depth int) bool {
	if depth > 3 || len(fn.Blocks) == 0 {
		return false
	}
	// the entry block (or a block dominating all returns) contains a consuming call
	for _, b := range fn.Blocks {
		if !dominatesAllReturns(fn, b) {
			continue
		}
		for _, in := range b.Instrs {
			if c, ok := in.(*ssa.Call); ok {
				if cal := c.Call.StaticCallee(); cal != nil && (consumingCallees[cal.String()] || (p.InRepo(cal) && consumesInput(p, cal, depth+1))) {
					return true
				}
			}
		}
	}
	return false
}

// errorExitsLoop: the call's error result is compared with nil and the non-nil edge leads out of the loop.
func errorExitsLoop(c *ssa.Call, body map[*ssa.BasicBlock]bool) bool {
	var errVals []ssa.Value
	if c.Type().String() == "error" {
		errVals = append(errVals, c)
	}
	for _, ref := range *c.Referrers() {
		if ex, ok := ref.(*ssa.Extract); ok && types.Identical(ex.Type(), types.Universe.Lookup("error").Type()) {
			errVals = append(errVals, ex)
		}
	}
	for _, ev := range errVals {
		for _, ref := range *ev.Referrers() {
			bo, ok := ref.(*ssa.BinOp)
			if !ok || !(bo.Op == token.NEQ || bo.Op == token.EQL) {
				continue
			}
			if !isNilConst(bo.X) && !isNilConst(bo.Y) {
				continue
			}
			for _, r2 := range *bo.Referrers() {
				iff, ok := r2.(*ssa.If)
				if !ok {
					continue
				}
				b := iff.Block()
				failing := b.Succs[0] // err != nil
				if bo.Op == token.EQL {
					failing = b.Succs[1]
				}
				// every path from the failing edge leaves the loop without reaching a back edge
				if !canStayInLoop(failing, body) {
					return true
				}
			}
		}
	}
	return false
}

// canStayInLoop: from block b, can control reach the loop header again? (b inside or outside the body)
func canStayInLoop(b *ssa.BasicBlock, body map[*ssa.BasicBlock]bool) bool {
	if !body[b] {
		return false
	}
	seen := map[*ssa.BasicBlock]bool{}
	var walk func(x *ssa.BasicBlock) bool
	walk = func(x *ssa.BasicBlock) bool {
		if seen[x] {
			return false
		}
		seen[x] = true
		if !body[x] {
			return false
		}
		for _, s := range x.Succs {
			if s.Dominates(x) && body[s] {
				return true // back edge
			}
			if walk(s) {
				return true
			}
		}
		return false
	}
	return walk(b)
}

// ---- C08.recursion

func c08Recursion(p *Program, r *Report, scope []*ssa.Function) {
	inScope := map[*ssa.Function]bool{}
	for _, f := range scope {
		inScope[f] = true
	}
	// direct and mutual recursion: SCCs of the static call graph restricted to scope
	callees := map[*ssa.Function][]*ssa.Function{}
	for _, f := range scope {
		for _, b := range f.Blocks {
			for _, in := range b.Instrs {
				if ci, ok := in.(ssa.CallInstruction); ok {
					if cal := ci.Common().StaticCallee(); cal != nil && inScope[cal] {
						callees[f] = append(callees[f], cal)
					}
				}
			}
		}
	}
	reach := func(from, to *ssa.Function) bool {
		seen := map[*ssa.Function]bool{}
		var walk func(f *ssa.Function) bool
		walk = func(f *ssa.Function) bool {
			for _, c := range callees[f] {
				if c == to {
					return true
				}
				if !seen[c] {
					seen[c] = true
					if walk(c) {
						return true
					}
				}
			}
			return false
		}
		return walk(from)
	}
	for _, f := range scope {
		if !reach(f, f) {
			continue
		}
		// self-recursive calls only (mutual recursion is undecided)
		mutual := false
		for _, c := range callees[f] {
			if c != f && reach(c, f) {
				mutual = true
			}
		}
		if mutual {
			r.Add("C08.recursion", FnName(f), "recursion descends", f.Pos(), false, "mutual recursion: kind=undecided")
			continue
		}
		ok, how := recursionDescends(p, f)
		r.Add("C08.recursion", FnName(f), "recursion descends", f.Pos(), ok, how)
	}
}

// recursionDescends: every self-call passes, for some fixed parameter i,
// (a) p_i − c (c ≥ 1, unsigned) with a dominating test p_i ≠ 0 / base case p_i == 0 that does not recurse, or
// (b) a strict sub-term of p_i: an element obtained by indexing, map-ranging or type-asserting p_i.
func recursionDescends(p *Program, f *ssa.Function) (bool, string) {
	var calls []*ssa.Call
	for _, b := range f.Blocks {
		for _, in := range b.Instrs {
			if c, ok := in.(*ssa.Call); ok && c.Call.StaticCallee() == f {
				calls = append(calls, c)
			}
		}
	}
	for i, pa := range f.Params {
		allDec, allSub := true, true
		for _, c := range calls {
			a := c.Call.Args[i]
			// (a) unsigned decrement guarded by p ≠ 0
			dec := false
			if bo, ok := a.(*ssa.BinOp); ok && bo.Op == token.SUB && bo.X == ssa.Value(pa) && isUnsignedT(pa.Type()) {
				if k, ok := constInt(bo.Y); ok && k >= 1 {
					lc := NewLinCtx(p, f)
					pr := NewProver(p, f, lc)
					if ok, _ := pr.Prove(c.Block(), lc.Lin(pa).scale(-1).addConst(k)); ok {
						dec = true
					}
				}
			}
			if !dec {
				allDec = false
			}
			if !isSubTermOf(a, pa, 0) {
				allSub = false
			}
		}
		if allDec {
			return true, fmt.Sprintf("parameter %s strictly decreases (unsigned, guarded by a non-zero test) on all %d recursive calls", pa.Name(), len(calls))
		}
		if allSub {
			if ok, why := visitsOnce(f, calls, i); !ok {
				return false, why
			}
			return true, fmt.Sprintf("every recursive call receives a strict sub-term of parameter %s (element of a finite tree), each element at most once per path", pa.Name())
		}
	}
	if ok, how := markedSetGuard(p, f, calls); ok {
		return true, how
	}
	return false, "no parameter decreases on every recursive call"
}

// markedSetGuard: the recursion is a graph walk with a visited set.  Every recursive call is
// dominated by (1) the failing edge of a test M[k] and (2) the update M[k] = true, where M is a map
// held in a field of a parameter and k is a parameter; and nothing in the repository ever deletes
// from that field's map or stores anything but true into it.  Then each key passes the guard at
// most once in the whole run, so the number of recursive calls is bounded by the number of keys
// times the (separately bounded) loops of one activation: no repeated work per path.
func markedSetGuard(p *Program, f *ssa.Function, calls []*ssa.Call) (bool, string) {
	if len(calls) == 0 {
		return false, ""
	}
	type mk struct {
		field *types.Var
		base  ssa.Value
		key   ssa.Value
	}
	mapOf := func(v ssa.Value) (*types.Var, ssa.Value, bool) {
		fld, base, ok := fieldLoad(v)
		if !ok {
			return nil, nil, false
		}
		if _, isMap := fld.Type().Underlying().(*types.Map); !isMap {
			return nil, nil, false
		}
		if _, isParam := base.(*ssa.Parameter); !isParam {
			return nil, nil, false
		}
		return fld, base, true
	}
	isParam := func(v ssa.Value) bool {
		_, ok := v.(*ssa.Parameter)
		return ok
	}
	var cands []mk
	for _, b := range f.Blocks {
		for _, in := range b.Instrs {
			if mu, ok := in.(*ssa.MapUpdate); ok {
				if fld, base, ok := mapOf(mu.Map); ok && isParam(mu.Key) {
					if v, isB := constBool(mu.Value); isB && v {
						cands = append(cands, mk{fld, base, mu.Key})
					}
				}
			}
		}
	}
	for _, c := range cands {
		okAll := true
		for _, call := range calls {
			// (2) the marking dominates the call
			marked := false
			for _, b := range f.Blocks {
				for _, in := range b.Instrs {
					if mu, ok := in.(*ssa.MapUpdate); ok {
						if fld, base, ok := mapOf(mu.Map); ok && fld == c.field && base == c.base && mu.Key == c.key && instrDominates(mu, call) {
							marked = true
						}
					}
				}
			}
			// (1) the failing edge of M[k] lies on every path to the call
			guarded := false
			for _, cd := range MustCondsAtBlock(f, call.Block()) {
				v, truth := cd.V, cd.Truth
				if u, ok := v.(*ssa.UnOp); ok && u.Op == token.NOT {
					v, truth = u.X, !truth
				}
				if ex, ok := v.(*ssa.Extract); ok { // _, ok := M[k]
					if lk, ok := ex.Tuple.(*ssa.Lookup); ok && ex.Index == 1 {
						v = lk
					}
				}
				lk, ok := v.(*ssa.Lookup)
				if !ok || truth {
					continue
				}
				if fld, base, ok := mapOf(lk.X); ok && fld == c.field && base == c.base && lk.Index == c.key {
					guarded = true
				}
			}
			// the key handed on is passed in the same parameter position as k (so the guard of the callee tests it)
			if !marked || !guarded {
				okAll = false
			}
		}
		if !okAll {
			continue
		}
		// nothing un-marks: no delete on, and no non-true store into, this field's map anywhere in the repository
		for _, g := range p.Funcs {
			for _, b := range g.Blocks {
				for _, in := range b.Instrs {
					switch x := in.(type) {
					case *ssa.MapUpdate:
						if fld, _, ok := fieldLoad(x.Map); ok && fld == c.field {
							if v, isB := constBool(x.Value); !isB || !v {
								return false, "the visited set " + c.field.Name() + " is also written with a value other than true in " + FnName(g)
							}
						}
					case *ssa.Call:
						if isBuiltin(&x.Call, "delete") {
							if fld, _, ok := fieldLoad(x.Call.Args[0]); ok && fld == c.field {
								return false, "entries are deleted from the visited set " + c.field.Name() + " in " + FnName(g)
							}
						}
					}
				}
			}
		}
		return true, fmt.Sprintf("graph walk with a visited set: every recursive call is behind the failing test of %s[%s] and its marking, and nothing un-marks (each key activates the recursion at most once)", c.field.Name(), c.key.Name())
	}
	return false, ""
}

// isSubTermOf: v is obtained from pa by at least one element step (map range
// value, slice element, map lookup) possibly combined with type assertions.
func isSubTermOf(v ssa.Value, pa *ssa.Parameter, steps int) bool {
	for d := 0; d < 16; d++ {
		if v == ssa.Value(pa) {
			return steps > 0
		}
		switch x := v.(type) {
		case *ssa.TypeAssert:
			v = x.X
		case *ssa.Extract:
			switch t := x.Tuple.(type) {
			case *ssa.TypeAssert:
				v = t.X
			case *ssa.Next:
				if rg, ok := t.Iter.(*ssa.Range); ok {
					v = rg.X
					steps++
				} else {
					return false
				}
			case *ssa.Lookup:
				v = t.X
				steps++
			default:
				return false
			}
		case *ssa.MakeInterface:
			v = x.X
		case *ssa.ChangeInterface:
			v = x.X
		case *ssa.UnOp:
			if x.Op != token.MUL {
				return false
			}
			if ia, ok := x.X.(*ssa.IndexAddr); ok {
				v = ia.X
				steps++
			} else {
				return false
			}
		case *ssa.Lookup:
			v = x.X
			steps++
		case *ssa.Index:
			v = x.X
			steps++
		case *ssa.Slice:
			v = x.X // a window of the same container: not a descent by itself
		case *ssa.Range:
			v = x.X
		default:
			return false
		}
	}
	return false
}

// elementDef returns, for a sub-term argument, the instruction that fetched the
// element from its container (the Next of a range, an IndexAddr, a Lookup).
func elementDef(v ssa.Value) ssa.Instruction {
	for d := 0; d < 16; d++ {
		switch x := v.(type) {
		case *ssa.TypeAssert:
			v = x.X
		case *ssa.Extract:
			switch t := x.Tuple.(type) {
			case *ssa.TypeAssert:
				v = t.X
			case *ssa.Next:
				return t
			case *ssa.Lookup:
				return t
			default:
				return nil
			}
		case *ssa.MakeInterface:
			v = x.X
		case *ssa.ChangeInterface:
			v = x.X
		case *ssa.UnOp:
			if ia, ok := x.X.(*ssa.IndexAddr); ok {
				return ia
			}
			return nil
		case *ssa.Lookup:
			return x
		case *ssa.Index:
			return x
		default:
			return nil
		}
	}
	return nil
}

// visitsOnce: in a recursion over sub-terms, no element can be handed to two
// recursive calls on one path (otherwise the work doubles per nesting level).
func visitsOnce(f *ssa.Function, calls []*ssa.Call, argIdx int) (bool, string) {
	for _, c1 := range calls {
		for _, c2 := range calls {
			if c1 == c2 {
				continue
			}
			d1, d2 := elementDef(c1.Call.Args[argIdx]), elementDef(c2.Call.Args[argIdx])
			if d1 == nil || d2 == nil {
				continue
			}
			if d1 == d2 {
				// same element: c2 must not be reachable from c1 without fetching a new element
				avoid := map[*ssa.BasicBlock]bool{d1.Block(): true}
				if c1.Block() == c2.Block() {
					return false, "two recursive calls on the same element in one block"
				}
				for _, s := range c1.Block().Succs {
					if reachableFrom(s, avoid)[c2.Block()] {
						return false, "the same element can be passed to two recursive calls (" + exprString(c1.Call.Args[argIdx]) + ")"
					}
				}
				continue
			}
			// different fetches (different loops over the container): the two sites must be mutually exclusive
			if reachableFrom(c1.Block(), nil)[c2.Block()] {
				return false, "two traversals of the same container both recurse on one path: elements are visited more than once, so time grows exponentially with nesting depth"
			}
		}
	}
	return true, ""
}

// ---- C08.nil: a pointer that an in-repo function may return as nil is not dereferenced, and not handed to code
// outside the repository (which dereferences it), before it has been compared with nil.  Functions that return the
// pointer together with an error are the (T, error) idiom — there the error is what callers test — and are left out.

var mayNilMemo = map[*ssa.Function]int{} // 0 unknown, 1 busy, 2 no, 3 yes

func mayReturnNil(p *Program, fn *ssa.Function) bool {
	switch mayNilMemo[fn] {
	case 1, 2:
		return false
	case 3:
		return true
	}
	mayNilMemo[fn] = 1
	res := false
	var isNilish func(v ssa.Value, depth int) bool
	isNilish = func(v ssa.Value, depth int) bool {
		if depth > 4 {
			return false
		}
		switch x := v.(type) {
		case *ssa.Const:
			return x.IsNil()
		case *ssa.Phi:
			for _, e := range x.Edges {
				if isNilish(e, depth+1) {
					return true
				}
			}
		case *ssa.Call:
			if cal := x.Call.StaticCallee(); cal != nil && p.InRepo(cal) && len(cal.Blocks) > 0 && cal.Signature.Results().Len() == 1 {
				return mayReturnNil(p, cal)
			}
		case *ssa.ChangeType:
			return isNilish(x.X, depth+1)
		}
		return false
	}
	for _, ret := range returnsOf(fn) {
		if len(ret.Results) == 1 && isNilish(ret.Results[0], 0) {
			res = true
		}
	}
	if res {
		mayNilMemo[fn] = 3
	} else {
		mayNilMemo[fn] = 2
	}
	return res
}

func c08NilResults(p *Program, r *Report, fn *ssa.Function) {
	for _, b := range fn.Blocks {
		for _, in := range b.Instrs {
			c, ok := in.(*ssa.Call)
			if !ok {
				continue
			}
			cal := c.Call.StaticCallee()
			if cal == nil || !p.InRepo(cal) || len(cal.Blocks) == 0 || cal.Signature.Results().Len() != 1 {
				continue
			}
			if _, isPtr := cal.Signature.Results().At(0).Type().Underlying().(*types.Pointer); !isPtr {
				continue
			}
			cname := "result of " + FnName(cal) + " is not used as a valid pointer while it may be nil"
			if !mayReturnNil(p, cal) {
				r.Add("C08.nil", FnName(fn), cname, c.Pos(), true, "no return of the callee yields nil")
				continue
			}
			// values that carry the result: the call and φs merging it
			carriers := map[ssa.Value]bool{c: true}
			for changed := true; changed; {
				changed = false
				for _, bb := range fn.Blocks {
					for _, ii := range bb.Instrs {
						if ph, ok := ii.(*ssa.Phi); ok && !carriers[ph] {
							for _, e := range ph.Edges {
								if carriers[e] {
									carriers[ph] = true
									changed = true
								}
							}
						}
					}
				}
			}
			guarded := func(v ssa.Value, at *ssa.BasicBlock) bool {
				for _, cd := range MustCondsAtBlock(fn, at) {
					bo, ok := cd.V.(*ssa.BinOp)
					if !ok {
						continue
					}
					isNil := func(x ssa.Value) bool { k, ok := x.(*ssa.Const); return ok && k.IsNil() }
					if (bo.X == v && isNil(bo.Y)) || (bo.Y == v && isNil(bo.X)) {
						if (bo.Op == token.NEQ && cd.Truth) || (bo.Op == token.EQL && !cd.Truth) {
							return true
						}
					}
				}
				return false
			}
			var bad []string
			for v := range carriers {
				for _, u := range *v.Referrers() {
					var what string
					switch x := u.(type) {
					case *ssa.UnOp:
						if x.Op == token.MUL && x.X == v {
							what = "dereferenced"
						}
					case *ssa.FieldAddr:
						if x.X == v {
							what = "field accessed"
						}
					case *ssa.IndexAddr:
						if x.X == v {
							what = "indexed"
						}
					case ssa.CallInstruction:
						com := x.Common()
						if cal2 := com.StaticCallee(); cal2 == nil || !p.InRepo(cal2) || len(cal2.Blocks) == 0 {
							for _, a := range com.Args {
								if a == v {
									what = "handed to " + calleeName(com)
								}
							}
							if com.IsInvoke() && com.Value == v {
								what = "method called on it"
							}
						}
					}
					if what != "" && !guarded(v, u.Block()) {
						bad = append(bad, what+" at "+p.Pos(u.Pos()))
					}
				}
			}
			sort.Strings(bad)
			bad = dedup(bad)
			how := "every use as a pointer is behind a comparison with nil"
			if len(bad) > 0 {
				how = "the callee can return nil and the result is " + strings.Join(bad, "; ") + " without a nil test"
			}
			r.Add("C08.nil", FnName(fn), cname, c.Pos(), len(bad) == 0, how)
		}
	}
}

// c08Scope runs the panic-freedom obligations (index, slice, division, shift, fixed-width read, type assertion,
// preconditioned external call) over the given functions.  With as == "" this is C08 proper (its own rule names, plus
// allocation, loop and nil-result rules); another property passes its own rule name to file the same obligations for
// its functions (C07: a decoder that panics on a short string is not "rejecting" it).
func c08Scope(p *Program, r *Report, scope []*ssa.Function, as string) (map[string]int, map[string]int) {
	av := NewAvail(p)
	rf := newRetFacts(p, av)
	c08ctx.p, c08ctx.av, c08ctx.rf = p, av, rf
	kinds := map[string]int{}
	hows := map[string]int{}
	for _, fn := range scope {
		lc := NewLinCtx(p, fn)
		lc.alias = av.Run(fn)
		rf.install(lc)
		lc.entry = paramEntryFacts(p, fn, lc)
		pr := NewProver(p, fn, lc)
		pr.trace = os.Getenv("BCHVERIF_TRACE") != "" && strings.Contains(FnName(fn), os.Getenv("BCHVERIF_TRACE"))
		closureAxioms := sortClosureAxioms(p, fn, lc)
		obs := enumerateC08(p, fn, lc)
		for _, ob := range obs {
			kinds[ob.kind]++
			rule := "C08.bounds"
			switch ob.kind {
			case "assert":
				rule = "C08.assert"
			case "panic":
				rule = "C08.bounds"
			case "external":
				rule = "C08.external"
			}
			if as != "" {
				rule = as
			}
			if ob.kind == "assert" {
				ok, how := assertDominated(ob.in.(*ssa.TypeAssert))
				r.Add(rule, FnName(fn), ob.construct, p.InstrPos(ob.in), ok, how)
				continue
			}
			if ob.kind == "panic" {
				r.Add(rule, FnName(fn), ob.construct, p.InstrPos(ob.in), false, "explicit panic reachable from an untrusted-input entry point")
				continue
			}
			okAll := true
			var how []string
			for gi, g := range ob.goals {
				extra := closureAxioms
				ok, h := pr.ProveWith(ob.in.Block(), extra, g)
				if ok && h == "" {
					h = "facts"
				}
				if !ok {
					okAll = false
					how = append(how, "cannot prove "+ob.goalDesc[gi]+" ["+lc.Format(g)+" ≤ 0]")
				} else {
					hows[h]++
					how = append(how, h)
				}
			}
			if okAll {
				r.Add(rule, FnName(fn), ob.construct, p.InstrPos(ob.in), true, strings.Join(dedupStrings(how), ","))
				continue
			}
			// a precondition of an unexported helper: provable at every call site?
			if lok, ldesc := liftToCallSites(pr, ob.in, ob.goals, func(g *ssa.Function, glc *LinCtx) []Lin { return blockCacheFacts(p, g, glc) }); lok {
				hows["call-site precondition"]++
				r.Add(rule, FnName(fn), ob.construct, p.InstrPos(ob.in), true, ldesc)
				continue
			} else if ldesc != "" {
				how = append(how, ldesc)
			}
			// exception table
			if ex := findC08Exception(FnName(fn), ob.construct); ex != nil {
				pok, pdesc := true, ""
				if ex.premise != nil {
					pok, pdesc = ex.premise(pr, ob.in)
				}
				if pok {
					o := r.Except(rule, FnName(fn), ob.construct, p.InstrPos(ob.in), ex.reason)
					if pdesc != "" {
						o.How += "; checked premise: " + pdesc
					}
					continue
				}
				how = append(how, "exception premise failed: "+pdesc)
			}
			r.Add(rule, FnName(fn), ob.construct, p.InstrPos(ob.in), false, strings.Join(how, "; "))
		}
		if as == "" {
			c08Alloc(p, r, fn, lc, pr)
			c08Loops(p, r, fn, lc, av)
			c08NilResults(p, r, fn)
			c08NilAfterError(p, r, fn)
		}
	}
	return kinds, hows
}

// poolHoldsOnly: ta asserts the result of Get on a package-level sync.Pool to T; the pool's New function (a function
// literal in the variable's initialiser) returns a T on every path, and every Put on that pool anywhere in the program
// is given a value of static type T.
func poolHoldsOnly(ta *ssa.TypeAssert) (bool, string) {
	get, ok := ta.X.(*ssa.Call)
	if !ok {
		return false, ""
	}
	cal := get.Call.StaticCallee()
	if cal == nil || cal.String() != "(*sync.Pool).Get" || len(get.Call.Args) != 1 {
		return false, ""
	}
	pool, ok := get.Call.Args[0].(*ssa.Global)
	if !ok {
		return false, ""
	}
	prog := ta.Parent().Prog
	want := ta.AssertedType
	okNew, puts, okPuts := false, 0, true
	for fn := range ssautil.AllFunctions(prog) {
		for _, b := range fn.Blocks {
			for _, in := range b.Instrs {
				switch x := in.(type) {
				case *ssa.Store:
					// the New field of the pool, set in the package initialiser
					fa, ok := x.Addr.(*ssa.FieldAddr)
					if !ok || fa.X != ssa.Value(pool) || fieldOfAddr(fa).Name() != "New" {
						continue
					}
					var nf *ssa.Function
					switch v := x.Val.(type) {
					case *ssa.Function:
						nf = v
					case *ssa.MakeClosure:
						nf, _ = v.Fn.(*ssa.Function)
					}
					if nf == nil {
						continue
					}
					all := len(returnsOf(nf)) > 0
					for _, ret := range returnsOf(nf) {
						mi, ok := ret.Results[0].(*ssa.MakeInterface)
						if !ok || !types.Identical(mi.X.Type(), want) {
							all = false
						}
					}
					okNew = all
				case ssa.CallInstruction:
					c2 := x.Common().StaticCallee()
					if c2 == nil || c2.String() != "(*sync.Pool).Put" || len(x.Common().Args) != 2 || x.Common().Args[0] != ssa.Value(pool) {
						continue
					}
					puts++
					mi, ok := x.Common().Args[1].(*ssa.MakeInterface)
					if !ok || !types.Identical(mi.X.Type(), want) {
						okPuts = false
					}
				}
			}
		}
	}
	if okNew && okPuts {
		return true, fmt.Sprintf("the pool only ever holds this type: New returns it and all %d Put call(s) put it", puts)
	}
	return false, ""
}

package main

import (
	"fmt"
	"go/token"
	"go/types"
	"strings"

	"golang.org/x/tools/go/ssa"
)

// Comparator decision for the BIP69 Less functions (property C18).
//
// A comparator that consults its two elements only through order relations — integer fields
// compared with each other, byte strings compared through bytes.Compare / bytes.Equal / array
// equality — is a function of a finite set of orderings.  The evaluator below walks the
// comparator's CFG once per ordering and compares the outcome with the BIP69 order; anything the
// comparator consults outside that vocabulary (a length, a single byte, another field) makes the
// verdict "undecided", which fails.  The one piece of byte-level reasoning, that the input
// comparator compares the transaction id as a big-endian number, is discharged structurally: the
// two local copies of the hash are reversed in full by a recognised mirror-swap loop (or walked
// from the last byte down to the first by a recognised loop) before they are compared.

type cmpKey struct {
	side int    // 0: element i, 1: element j
	path string // field path from the element, e.g. "PreviousOutPoint.Hash"
	rev  bool   // byte order reversed (local copy after the mirror-swap loop)
}

type lessCtx struct {
	fn       *ssa.Function
	copies   map[*ssa.Alloc]*arrCopy
	skipLoop map[*ssa.BasicBlock]*ssa.BasicBlock // recognised reversal loop header -> exit
	walkLoop map[*ssa.BasicBlock]*walkInfo       // recognised byte walk header
	notes    []string
}

type arrCopy struct {
	key      cmpKey
	n        int64
	reversed bool
	header   *ssa.BasicBlock // reversal loop header (nil: none)
	bad      string
}

type walkInfo struct {
	x, y   cmpKey
	covers bool
	how    string
	exit   *ssa.BasicBlock
}

// addrKey: addr is the address of a field (path) of s[i] or s[j].
func (lc *lessCtx) addrKey(addr ssa.Value) (cmpKey, bool) {
	var path []string
	v := addr
	for {
		fa, ok := v.(*ssa.FieldAddr)
		if !ok {
			break
		}
		path = append([]string{fieldOfAddr(fa).Name()}, path...)
		v = fa.X
	}
	if len(path) == 0 {
		return cmpKey{}, false
	}
	ld, ok := v.(*ssa.UnOp)
	if !ok || ld.Op != token.MUL {
		return cmpKey{}, false
	}
	ia, ok := ld.X.(*ssa.IndexAddr)
	if !ok || ia.X != ssa.Value(lc.fn.Params[0]) {
		return cmpKey{}, false
	}
	switch ia.Index {
	case ssa.Value(lc.fn.Params[1]):
		return cmpKey{side: 0, path: strings.Join(path, ".")}, true
	case ssa.Value(lc.fn.Params[2]):
		return cmpKey{side: 1, path: strings.Join(path, ".")}, true
	}
	return cmpKey{}, false
}

// valKey: v is the value of a key field of s[i] / s[j] (directly, through a local copy, or as a full slice of one).
func (lc *lessCtx) valKey(v ssa.Value, at *ssa.BasicBlock) (cmpKey, bool) {
	switch x := v.(type) {
	case *ssa.UnOp:
		if x.Op != token.MUL {
			return cmpKey{}, false
		}
		if al, ok := x.X.(*ssa.Alloc); ok {
			if c := lc.copies[al]; c != nil && c.bad == "" {
				k := c.key
				k.rev = c.reversed && c.header != nil && lc.afterLoop(c.header, x.Block())
				if c.header != nil && lc.insideLoop(c.header, x.Block()) {
					return cmpKey{}, false
				}
				return k, true
			}
			return cmpKey{}, false
		}
		return lc.addrKey(x.X)
	case *ssa.Slice:
		full := func(n int64) bool {
			if x.Low != nil {
				if k, ok := constInt(x.Low); !ok || k != 0 {
					return false
				}
			}
			if x.High != nil {
				if k, ok := constInt(x.High); !ok || k != n {
					return false
				}
			}
			return x.Max == nil
		}
		if al, ok := x.X.(*ssa.Alloc); ok {
			if c := lc.copies[al]; c != nil && c.bad == "" && full(c.n) {
				if c.header != nil && lc.insideLoop(c.header, x.Block()) {
					return cmpKey{}, false
				}
				k := c.key
				k.rev = c.reversed && c.header != nil && lc.afterLoop(c.header, x.Block())
				return k, true
			}
			return cmpKey{}, false
		}
		// full slice of the field itself (pointer to array)
		if at, ok := derefType(x.X.Type()).Underlying().(*types.Array); ok && full(at.Len()) {
			return lc.addrKey(x.X)
		}
	}
	return cmpKey{}, false
}

func (lc *lessCtx) insideLoop(h, b *ssa.BasicBlock) bool {
	// b is in the natural loop of h: h dominates b and b reaches a latch of h without leaving through h
	if !h.Dominates(b) {
		return false
	}
	for _, p := range h.Preds {
		if h.Dominates(p) && reachableFrom(b, map[*ssa.BasicBlock]bool{h: true})[p] {
			return true
		}
	}
	return b == h
}

func (lc *lessCtx) afterLoop(h, b *ssa.BasicBlock) bool {
	exit := lc.skipLoop[h]
	return exit != nil && (exit == b || exit.Dominates(b))
}

// findCopies: local arrays initialised once from a key field, and their reversal loops.
func (lc *lessCtx) findCopies() {
	for _, b := range lc.fn.Blocks {
		for _, in := range b.Instrs {
			al, ok := in.(*ssa.Alloc)
			if !ok {
				continue
			}
			at, ok := derefType(al.Type()).Underlying().(*types.Array)
			if !ok {
				continue
			}
			c := &arrCopy{n: at.Len()}
			var elemStores []*ssa.Store
			whole := 0
			for _, ref := range *al.Referrers() {
				switch x := ref.(type) {
				case *ssa.Store:
					if x.Addr != ssa.Value(al) {
						c.bad = "address of the copy is stored"
						continue
					}
					whole++
					if ld, ok := x.Val.(*ssa.UnOp); ok && ld.Op == token.MUL {
						if k, ok := lc.addrKey(ld.X); ok {
							c.key = k
							continue
						}
					}
					c.bad = "copy is not initialised from a field of the element"
				case *ssa.IndexAddr:
					for _, r2 := range *x.Referrers() {
						switch y := r2.(type) {
						case *ssa.Store:
							if y.Addr == ssa.Value(x) {
								elemStores = append(elemStores, y)
							} else {
								c.bad = "element address escapes"
							}
						case *ssa.UnOp, *ssa.DebugRef:
						default:
							c.bad = "element address escapes"
						}
					}
				case *ssa.UnOp, *ssa.Slice, *ssa.DebugRef:
				default:
					c.bad = fmt.Sprintf("copy used by %T", ref)
				}
			}
			if whole != 1 && c.bad == "" {
				c.bad = "copy is assigned more than once"
			}
			if c.bad == "" && len(elemStores) > 0 {
				lc.recogniseReversal(al, c, elemStores)
			}
			lc.copies[al] = c
		}
	}
}

// recogniseReversal: the element stores of the copy are one mirror swap a[b], a[N-1-b] = a[N-1-b], a[b]
// inside `for b := 0; b < N/2; b++`.
func (lc *lessCtx) recogniseReversal(al *ssa.Alloc, c *arrCopy, stores []*ssa.Store) {
	if len(stores) != 2 || stores[0].Block() != stores[1].Block() {
		c.bad = "local copy is modified other than by one mirror swap"
		return
	}
	body := stores[0].Block()
	var h *ssa.BasicBlock
	for d := body; d != nil; d = d.Idom() {
		if isLoopHeader(d) {
			h = d
			break
		}
	}
	if h == nil {
		c.bad = "swap is not inside a loop"
		return
	}
	iff, ok := lastInstr(h).(*ssa.If)
	if !ok {
		c.bad = "loop header has no test"
		return
	}
	cond, ok := iff.Cond.(*ssa.BinOp)
	if !ok || cond.Op != token.LSS {
		c.bad = "loop test is not b < N/2"
		return
	}
	phi, ok := cond.X.(*ssa.Phi)
	half, okK := constInt(cond.Y)
	if !ok || !okK || phi.Block() != h || len(phi.Edges) != 2 {
		c.bad = "loop test is not b < N/2"
		return
	}
	okInit, okStep := false, false
	for k, e := range phi.Edges {
		if h.Dominates(h.Preds[k]) {
			if inc, ok := e.(*ssa.BinOp); ok && inc.Op == token.ADD && inc.X == ssa.Value(phi) {
				if k1, ok := constInt(inc.Y); ok && k1 == 1 {
					okStep = true
				}
			}
		} else if k0, ok := constInt(e); ok && k0 == 0 {
			okInit = true
		}
	}
	if !okInit || !okStep {
		c.bad = "loop counter is not 0, 1, 2, …"
		return
	}
	if 2*half != c.n {
		c.bad = fmt.Sprintf("the loop swaps %d pairs of a %d-byte array: the reversal is not complete", half, c.n)
		return
	}
	// every path from the body back to the header passes both stores: body is a single block that jumps to the header
	if len(body.Succs) != 1 || body.Succs[0] != h || len(body.Preds) != 1 || body.Preds[0] != h {
		c.bad = "swap is conditional within the loop"
		return
	}
	isB := func(v ssa.Value) bool { return v == ssa.Value(phi) }
	isMirror := func(v ssa.Value) bool {
		bo, ok := v.(*ssa.BinOp)
		if !ok || bo.Op != token.SUB || bo.Y != ssa.Value(phi) {
			return false
		}
		k, ok := constInt(bo.X)
		return ok && k == c.n-1
	}
	idxOf := func(addr ssa.Value) ssa.Value {
		if ia, ok := addr.(*ssa.IndexAddr); ok && ia.X == ssa.Value(al) {
			return ia.Index
		}
		return nil
	}
	loadIdx := func(v ssa.Value) (ssa.Value, *ssa.UnOp) {
		if ld, ok := v.(*ssa.UnOp); ok && ld.Op == token.MUL {
			return idxOf(ld.X), ld
		}
		return nil, nil
	}
	okSwap := true
	for _, st := range stores {
		di := idxOf(st.Addr)
		si, ld := loadIdx(st.Val)
		if di == nil || si == nil {
			okSwap = false
			continue
		}
		if !(isB(di) && isMirror(si) || isMirror(di) && isB(si)) {
			okSwap = false
		}
		// both loads precede both stores
		for _, st2 := range stores {
			if !instrDominates(ld, st2) {
				okSwap = false
			}
		}
	}
	d0, d1 := idxOf(stores[0].Addr), idxOf(stores[1].Addr)
	if d0 == nil || d1 == nil || isB(d0) == isB(d1) {
		okSwap = false
	}
	if !okSwap {
		c.bad = "the two stores are not a[b], a[N-1-b] = a[N-1-b], a[b]"
		return
	}
	c.reversed, c.header = true, h
	lc.skipLoop[h] = h.Succs[1]
}

// recogniseWalk: for b := N-1; b >= 0; b-- { if x[b] != y[b] { return x[b] < y[b] } }; return false
func (lc *lessCtx) recogniseWalk(h *ssa.BasicBlock) *walkInfo {
	iff, ok := lastInstr(h).(*ssa.If)
	if !ok {
		return nil
	}
	cond, ok := iff.Cond.(*ssa.BinOp)
	if !ok {
		return nil
	}
	phi, ok := cond.X.(*ssa.Phi)
	k, okK := constInt(cond.Y)
	if !ok || !okK || phi.Block() != h || len(phi.Edges) != 2 {
		return nil
	}
	var lowest int64
	switch cond.Op {
	case token.GEQ:
		lowest = k
	case token.GTR:
		lowest = k + 1
	default:
		return nil
	}
	var init int64 = -1
	okStep := false
	for i, e := range phi.Edges {
		if h.Dominates(h.Preds[i]) {
			if dec, ok := e.(*ssa.BinOp); ok && dec.X == ssa.Value(phi) {
				if k1, ok := constInt(dec.Y); ok && (dec.Op == token.SUB && k1 == 1 || dec.Op == token.ADD && k1 == -1) {
					okStep = true
				}
			}
		} else if k0, ok := constInt(e); ok {
			init = k0
		}
	}
	if !okStep || init < 0 {
		return nil
	}
	body := h.Succs[0]
	bif, ok := lastInstr(body).(*ssa.If)
	if !ok {
		return nil
	}
	ne, ok := bif.Cond.(*ssa.BinOp)
	if !ok || ne.Op != token.NEQ {
		return nil
	}
	elem := func(v ssa.Value) (cmpKey, int64, bool) {
		ld, ok := v.(*ssa.UnOp)
		if !ok || ld.Op != token.MUL {
			return cmpKey{}, 0, false
		}
		ia, ok := ld.X.(*ssa.IndexAddr)
		if !ok || ia.Index != ssa.Value(phi) {
			return cmpKey{}, 0, false
		}
		at, ok := derefType(ia.X.Type()).Underlying().(*types.Array)
		if !ok {
			return cmpKey{}, 0, false
		}
		if al, ok := ia.X.(*ssa.Alloc); ok {
			if c := lc.copies[al]; c != nil && c.bad == "" && c.header == nil {
				return c.key, at.Len(), true
			}
			return cmpKey{}, 0, false
		}
		k, ok := lc.addrKey(ia.X)
		return k, at.Len(), ok
	}
	x, nx, ok1 := elem(ne.X)
	y, ny, ok2 := elem(ne.Y)
	if !ok1 || !ok2 || nx != ny {
		return nil
	}
	// differing byte decides: return x[b] < y[b]
	ret, ok := lastInstr(body.Succs[0]).(*ssa.Return)
	if !ok || len(ret.Results) != 1 {
		return nil
	}
	lt, ok := ret.Results[0].(*ssa.BinOp)
	if !ok || lt.Op != token.LSS {
		return nil
	}
	x2, _, ok3 := elem(lt.X)
	y2, _, ok4 := elem(lt.Y)
	if !ok3 || !ok4 || x2 != x || y2 != y {
		return nil
	}
	// equal byte: on to the next one
	if body.Succs[1] != h && !(len(body.Succs[1].Succs) == 1 && body.Succs[1].Succs[0] == h) {
		return nil
	}
	// all bytes equal: evaluation continues at the loop's exit (return false, or the next key)
	w := &walkInfo{x: x, y: y, exit: h.Succs[1]}
	w.covers = init == nx-1 && lowest == 0
	w.how = fmt.Sprintf("bytes %d down to %d of a %d-byte hash are compared", init, lowest, nx)
	return w
}

// ---- evaluation over orderings

type ordering struct {
	rel map[string]int // "path" -> sign(key_i − key_j) ∈ {-1,0,1}
}

type evalErr struct{ msg string }

func (lc *lessCtx) relOf(o ordering, x, y cmpKey) (int, string, bool) {
	if x.path != y.path || x.side == y.side || x.rev != y.rev {
		return 0, "", false
	}
	name := x.path
	if x.rev {
		name += "(reversed)"
	}
	s, ok := o.rel[name]
	if !ok {
		return 0, name, false
	}
	if x.side == 1 {
		s = -s
	}
	return s, name, true
}

func cmpHolds(op token.Token, s int, k int) (bool, bool) {
	switch op {
	case token.EQL:
		return s == k, true
	case token.NEQ:
		return s != k, true
	case token.LSS:
		return s < k, true
	case token.LEQ:
		return s <= k, true
	case token.GTR:
		return s > k, true
	case token.GEQ:
		return s >= k, true
	}
	return false, false
}

func (lc *lessCtx) evalBool(v ssa.Value, o ordering, prev, cur *ssa.BasicBlock, used map[string]bool) (bool, *evalErr) {
	switch x := v.(type) {
	case *ssa.Const:
		if b, ok := constBool(x); ok {
			return b, nil
		}
	case *ssa.UnOp:
		if x.Op == token.NOT {
			b, err := lc.evalBool(x.X, o, prev, cur, used)
			return !b, err
		}
	case *ssa.Phi:
		for k, p := range x.Block().Preds {
			if p == prev {
				return lc.evalBool(x.Edges[k], o, prev, cur, used)
			}
		}
	case *ssa.Call:
		if staticCalleeIs(&x.Call, "bytes.Equal") {
			a, ok1 := lc.valKey(x.Call.Args[0], x.Block())
			b, ok2 := lc.valKey(x.Call.Args[1], x.Block())
			if ok1 && ok2 {
				if s, name, ok := lc.relOf(o, a, b); ok {
					used[name] = true
					return s == 0, nil
				}
			}
		}
	case *ssa.BinOp:
		// bytes.Compare(a, b) <op> k, or mirrored: k <op> bytes.Compare(a, b)
		if c, ok := x.Y.(*ssa.Call); ok && staticCalleeIs(&c.Call, "bytes.Compare") {
			if _, isK := constInt(x.X); isK {
				mirror := map[token.Token]token.Token{token.EQL: token.EQL, token.NEQ: token.NEQ, token.LSS: token.GTR, token.GTR: token.LSS, token.LEQ: token.GEQ, token.GEQ: token.LEQ}
				if mop, ok := mirror[x.Op]; ok {
					k, _ := constInt(x.X)
					a, ok1 := lc.valKey(c.Call.Args[0], c.Block())
					b, ok2 := lc.valKey(c.Call.Args[1], c.Block())
					if ok1 && ok2 {
						if s, name, ok := lc.relOf(o, a, b); ok {
							used[name] = true
							if r, ok := cmpHolds(mop, s, int(k)); ok {
								return r, nil
							}
						}
					}
				}
			}
		}
		if c, ok := x.X.(*ssa.Call); ok && staticCalleeIs(&c.Call, "bytes.Compare") {
			k, okK := constInt(x.Y)
			a, ok1 := lc.valKey(c.Call.Args[0], c.Block())
			b, ok2 := lc.valKey(c.Call.Args[1], c.Block())
			if okK && ok1 && ok2 {
				if s, name, ok := lc.relOf(o, a, b); ok {
					used[name] = true
					if r, ok := cmpHolds(x.Op, s, int(k)); ok {
						return r, nil
					}
				}
			}
			return false, &evalErr{"bytes.Compare is applied to " + exprString(c.Call.Args[0]) + ", " + exprString(c.Call.Args[1]) + ", which are not the same key field of the two elements in the byte order BIP69 prescribes"}
		}
		a, ok1 := lc.valKey(x.X, x.Block())
		b, ok2 := lc.valKey(x.Y, x.Block())
		if ok1 && ok2 {
			if s, name, ok := lc.relOf(o, a, b); ok {
				// arrays support only == and !=; integers all six
				if _, isArr := x.X.Type().Underlying().(*types.Array); isArr && x.Op != token.EQL && x.Op != token.NEQ {
					break
				}
				used[name] = true
				if r, ok := cmpHolds(x.Op, s, 0); ok {
					return r, nil
				}
			}
		}
	}
	return false, &evalErr{"the comparator consults " + exprString(v) + ", which is not an order relation between the same key field of the two elements"}
}

// run evaluates the comparator under one ordering.
func (lc *lessCtx) run(o ordering, used map[string]bool) (bool, *evalErr) {
	var prev *ssa.BasicBlock
	cur := lc.fn.Blocks[0]
	visited := map[*ssa.BasicBlock]int{}
	for steps := 0; steps < 200; steps++ {
		if exit, ok := lc.skipLoop[cur]; ok {
			prev, cur = cur, exit
			continue
		}
		if w, ok := lc.walkLoop[cur]; ok {
			if !w.covers {
				return false, &evalErr{"the byte-wise walk does not cover the whole hash: " + w.how}
			}
			rk := w.x
			rk.rev = true
			ry := w.y
			ry.rev = true
			s, name, ok := lc.relOf(o, rk, ry)
			if !ok {
				return false, &evalErr{"the byte-wise walk compares different fields"}
			}
			used[name] = true
			if s != 0 {
				return s < 0, nil
			}
			prev, cur = cur, w.exit
			continue
		}
		visited[cur]++
		if visited[cur] > 1 {
			return false, &evalErr{"loop at " + cur.String() + " is neither a complete mirror-swap reversal nor a byte-wise walk"}
		}
		switch t := lastInstr(cur).(type) {
		case *ssa.Return:
			if len(t.Results) != 1 {
				return false, &evalErr{"unexpected result count"}
			}
			return lc.evalBool(t.Results[0], o, prev, cur, used)
		case *ssa.If:
			b, err := lc.evalBool(t.Cond, o, prev, cur, used)
			if err != nil {
				return false, err
			}
			if b {
				prev, cur = cur, cur.Succs[0]
			} else {
				prev, cur = cur, cur.Succs[1]
			}
		case *ssa.Jump:
			prev, cur = cur, cur.Succs[0]
		default:
			return false, &evalErr{"comparator can panic or has an unexpected terminator"}
		}
	}
	return false, &evalErr{"evaluation did not terminate"}
}

// sideEffectFree: apart from the local copies, the comparator calls nothing but bytes.Compare / bytes.Equal.
func (lc *lessCtx) callsOnlyComparisons() string {
	for _, b := range lc.fn.Blocks {
		for _, in := range b.Instrs {
			if c, ok := in.(ssa.CallInstruction); ok {
				if !staticCalleeIs(c.Common(), "bytes.Compare", "bytes.Equal") {
					return "calls " + calleeName(c.Common())
				}
			}
		}
	}
	return ""
}

func newLessCtx(fn *ssa.Function) *lessCtx {
	lc := &lessCtx{fn: fn, copies: map[*ssa.Alloc]*arrCopy{}, skipLoop: map[*ssa.BasicBlock]*ssa.BasicBlock{}, walkLoop: map[*ssa.BasicBlock]*walkInfo{}}
	lc.findCopies()
	for _, b := range fn.Blocks {
		if isLoopHeader(b) && lc.skipLoop[b] == nil {
			if w := lc.recogniseWalk(b); w != nil {
				lc.walkLoop[b] = w
			}
		}
	}
	return lc
}

// c18order decides the two comparators against the BIP69 order.
func c18order(p *Program, r *Report, inLess, outLess *ssa.Function) {
	type spec struct {
		fn   *ssa.Function
		what string
		keys []string // ordering atoms
		// consistent: may this combination of signs occur; want: the BIP69 answer
		consistent func(s map[string]int) bool
		want       func(s map[string]int) bool
	}
	specs := []spec{
		{inLess, "inputs are ordered by previous transaction id read as a big-endian number, then by output index",
			[]string{"PreviousOutPoint.Hash", "PreviousOutPoint.Hash(reversed)", "PreviousOutPoint.Index"},
			func(s map[string]int) bool {
				return (s["PreviousOutPoint.Hash"] == 0) == (s["PreviousOutPoint.Hash(reversed)"] == 0)
			},
			func(s map[string]int) bool {
				if s["PreviousOutPoint.Hash(reversed)"] != 0 {
					return s["PreviousOutPoint.Hash(reversed)"] < 0
				}
				return s["PreviousOutPoint.Index"] < 0
			}},
		{outLess, "outputs are ordered by amount, then by script bytes lexicographically",
			[]string{"Value", "PkScript"},
			func(s map[string]int) bool { return true },
			func(s map[string]int) bool {
				if s["Value"] != 0 {
					return s["Value"] < 0
				}
				return s["PkScript"] < 0
			}},
	}
	for _, sp := range specs {
		if sp.fn == nil {
			r.Unresolved("C18.order", "comparator ("+sp.what+")")
			continue
		}
		lc := newLessCtx(sp.fn)
		var problems []string
		if why := lc.callsOnlyComparisons(); why != "" {
			problems = append(problems, why)
		}
		for al, c := range lc.copies {
			if c.bad != "" {
				problems = append(problems, "local copy "+al.Name()+": "+c.bad)
			}
		}
		used := map[string]bool{}
		n, bad := 0, 0
		var firstBad string
		var rec func(k int, s map[string]int)
		rec = func(k int, s map[string]int) {
			if k == len(sp.keys) {
				if !sp.consistent(s) {
					return
				}
				n++
				cp := map[string]int{}
				for a, b := range s {
					cp[a] = b
				}
				got, err := lc.run(ordering{rel: cp}, used)
				if err != nil {
					bad++
					if firstBad == "" {
						firstBad = "undecided: " + err.msg
					}
					return
				}
				if got != sp.want(s) {
					bad++
					if firstBad == "" {
						firstBad = fmt.Sprintf("for the ordering %s the comparator answers %v, BIP69 says %v", fmtOrdering(sp.keys, s), got, sp.want(s))
					}
				}
				return
			}
			for _, v := range []int{-1, 0, 1} {
				s[sp.keys[k]] = v
				rec(k+1, s)
			}
		}
		if len(problems) == 0 {
			rec(0, map[string]int{})
		}
		how := fmt.Sprintf("%d orderings of (%s) evaluated", n, strings.Join(sp.keys, ", "))
		if len(problems) > 0 {
			sortStrings(problems)
			how = "undecided: " + strings.Join(problems, "; ")
		} else if bad > 0 {
			how = firstBad + fmt.Sprintf(" (%d of %d orderings differ)", bad, n)
		}
		r.Add("C18.order", FnName(sp.fn), sp.what, sp.fn.Pos(), len(problems) == 0 && bad == 0 && n > 0, how)
		// the big-endian reading: structural part
		if sp.fn == inLess {
			okRev, howRev := false, "no local copy of the hash is reversed and no byte-wise walk found"
			nRev := 0
			for _, c := range lc.copies {
				if c.reversed {
					nRev++
				}
			}
			if nRev == 2 {
				okRev, howRev = true, "both 32-byte copies are reversed by a complete mirror-swap loop before bytes.Compare"
			}
			for _, w := range lc.walkLoop {
				okRev, howRev = w.covers, w.how
			}
			for _, c := range lc.copies {
				if c.bad != "" {
					okRev, howRev = false, c.bad
				}
			}
			r.Add("C18.order", FnName(sp.fn), "the transaction id is compared from its most significant (last stored) byte down to the first", sp.fn.Pos(), okRev, howRev)
		}
	}
	r.Floor("C18.order", 3)
}

func fmtOrdering(keys []string, s map[string]int) string {
	var parts []string
	for _, k := range keys {
		parts = append(parts, k+map[int]string{-1: "ᵢ<ⱼ", 0: "ᵢ=ⱼ", 1: "ᵢ>ⱼ"}[s[k]])
	}
	return strings.Join(parts, ", ")
}

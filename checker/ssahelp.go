package main

import (
	"go/constant"
	"go/token"
	"go/types"
	"strings"

	"golang.org/x/tools/go/ssa"
)

// ---- small SSA helpers shared by the rules

func lastInstr(b *ssa.BasicBlock) ssa.Instruction {
	if len(b.Instrs) == 0 {
		return nil
	}
	return b.Instrs[len(b.Instrs)-1]
}

func isLoopHeader(b *ssa.BasicBlock) bool {
	for _, p := range b.Preds {
		if b.Dominates(p) {
			return true
		}
	}
	return false
}

// derefType returns the element type of a pointer type, or nil.
func derefType(t types.Type) types.Type {
	if p, ok := t.Underlying().(*types.Pointer); ok {
		return p.Elem()
	}
	return nil
}

// namedOf returns the *types.Named behind t or *t.
func namedOf(t types.Type) *types.Named {
	if p, ok := t.(*types.Pointer); ok {
		t = p.Elem()
	}
	if a, ok := t.(*types.Alias); ok {
		t = types.Unalias(a)
	}
	n, _ := t.(*types.Named)
	return n
}

func isNamed(t types.Type, pkgPath, name string) bool {
	n := namedOf(t)
	return n != nil && n.Obj().Name() == name && n.Obj().Pkg() != nil && n.Obj().Pkg().Path() == pkgPath
}

// fieldOf returns the struct field selected by a FieldAddr / Field.
func fieldOfAddr(fa *ssa.FieldAddr) *types.Var {
	st := derefType(fa.X.Type()).Underlying().(*types.Struct)
	return st.Field(fa.Field)
}

func fieldOfVal(f *ssa.Field) *types.Var {
	st := f.X.Type().Underlying().(*types.Struct)
	return st.Field(f.Field)
}

func constInt(v ssa.Value) (int64, bool) {
	c, ok := v.(*ssa.Const)
	if !ok || c.Value == nil {
		return 0, false
	}
	if c.Value.Kind() != constant.Int {
		return 0, false
	}
	if i, ok := constant.Int64Val(c.Value); ok {
		return i, true
	}
	if u, ok := constant.Uint64Val(c.Value); ok {
		return int64(u), true
	}
	return 0, false
}

func constUint(v ssa.Value) (uint64, bool) {
	c, ok := v.(*ssa.Const)
	if !ok || c.Value == nil || c.Value.Kind() != constant.Int {
		return 0, false
	}
	if u, ok := constant.Uint64Val(c.Value); ok {
		return u, true
	}
	if i, ok := constant.Int64Val(c.Value); ok {
		return uint64(i), true
	}
	return 0, false
}

func isNilConst(v ssa.Value) bool {
	c, ok := v.(*ssa.Const)
	return ok && c.Value == nil
}

func constBool(v ssa.Value) (bool, bool) {
	c, ok := v.(*ssa.Const)
	if !ok || c.Value == nil || c.Value.Kind() != constant.Bool {
		return false, false
	}
	return constant.BoolVal(c.Value), true
}

// stripConv removes ChangeType and value-preserving wrappers.
func stripChange(v ssa.Value) ssa.Value {
	for {
		switch x := v.(type) {
		case *ssa.ChangeType:
			v = x.X
		default:
			return v
		}
	}
}

// calleeName returns a printable full name of the static callee, "" if dynamic.
func calleeName(c *ssa.CallCommon) string {
	if f := c.StaticCallee(); f != nil {
		return f.String()
	}
	if c.IsInvoke() {
		return "invoke " + c.Method.FullName()
	}
	if b, ok := c.Value.(*ssa.Builtin); ok {
		return "builtin " + b.Name()
	}
	return ""
}

func isBuiltin(c *ssa.CallCommon, name string) bool {
	b, ok := c.Value.(*ssa.Builtin)
	return ok && b.Name() == name
}

// staticCalleeIs reports whether the static callee's full name equals one of names.
func staticCalleeIs(c *ssa.CallCommon, names ...string) bool {
	f := c.StaticCallee()
	if f == nil {
		return false
	}
	s := f.String()
	for _, n := range names {
		if s == n {
			return true
		}
	}
	return false
}

// ---- path facts (dominance)

// Cond is a branch condition known to hold (Truth) at some point.
type Cond struct {
	V     ssa.Value
	Truth bool
	At    *ssa.BasicBlock // the block ending in the If
}

// edgeCond returns the condition implied by taking edge pred->succ.
func edgeCond(pred, succ *ssa.BasicBlock) (Cond, bool) {
	iff, ok := lastInstr(pred).(*ssa.If)
	if !ok || pred.Succs[0] == pred.Succs[1] {
		return Cond{}, false
	}
	if pred.Succs[0] == succ {
		return Cond{iff.Cond, true, pred}, true
	}
	if pred.Succs[1] == succ {
		return Cond{iff.Cond, false, pred}, true
	}
	return Cond{}, false
}

// DomConds returns the branch conditions that hold on entry to b on every path
// (collected along the dominator chain; an edge contributes only if it is the
// unique way into the dominated block).
func DomConds(b *ssa.BasicBlock) []Cond {
	var out []Cond
	for cur := b; cur != nil; cur = cur.Idom() {
		id := cur.Idom()
		if id == nil {
			break
		}
		if len(cur.Preds) == 1 && cur.Preds[0] == id {
			if c, ok := edgeCond(id, cur); ok {
				out = append(out, c)
			}
		}
	}
	return out
}

// flattenCond expands !x, and for a condition known true/false tries to expose
// the comparison.  It returns the underlying BinOp and the effective truth.
func condBinOp(c Cond) (*ssa.BinOp, bool, bool) {
	v, truth := c.V, c.Truth
	for {
		if u, ok := v.(*ssa.UnOp); ok && u.Op == token.NOT {
			v, truth = u.X, !truth
			continue
		}
		break
	}
	b, ok := v.(*ssa.BinOp)
	return b, truth, ok
}

// ---- reachability inside a function

// reachableFrom returns the set of blocks reachable from start (inclusive)
// without passing through any block in avoid.
func reachableFrom(start *ssa.BasicBlock, avoid map[*ssa.BasicBlock]bool) map[*ssa.BasicBlock]bool {
	seen := map[*ssa.BasicBlock]bool{}
	var walk func(b *ssa.BasicBlock)
	walk = func(b *ssa.BasicBlock) {
		if seen[b] || avoid[b] {
			return
		}
		seen[b] = true
		for _, s := range b.Succs {
			walk(s)
		}
	}
	walk(start)
	return seen
}

// returnsOf lists the Return instructions of fn.
func returnsOf(fn *ssa.Function) []*ssa.Return {
	var out []*ssa.Return
	for _, b := range fn.Blocks {
		if r, ok := lastInstr(b).(*ssa.Return); ok {
			out = append(out, r)
		}
	}
	return out
}

// errResultIndex returns the index of the last result if it is of type error, else -1.
func errResultIndex(fn *ssa.Function) int {
	res := fn.Signature.Results()
	if res.Len() == 0 {
		return -1
	}
	t := res.At(res.Len() - 1).Type()
	if types.Identical(t, types.Universe.Lookup("error").Type()) {
		return res.Len() - 1
	}
	return -1
}

// shortType prints a type without package paths.
func shortType(t types.Type) string {
	return types.TypeString(t, func(p *types.Package) string { return p.Name() })
}

func trimMod(s string) string {
	s = strings.ReplaceAll(s, ModPath+"/", "")
	s = strings.ReplaceAll(s, ModPath+".", "bchutil.")
	s = strings.ReplaceAll(s, "github.com/gcash/bchd/", "bchd/")
	return s
}

// postDominators computes, for fn, the set pdom[b] of blocks that post-dominate
// b (every path from b to a function exit passes through them).  Panicking
// exits count as exits.
func postDominators(fn *ssa.Function) map[*ssa.BasicBlock]map[*ssa.BasicBlock]bool {
	n := len(fn.Blocks)
	all := map[*ssa.BasicBlock]bool{}
	for _, b := range fn.Blocks {
		all[b] = true
	}
	pd := map[*ssa.BasicBlock]map[*ssa.BasicBlock]bool{}
	for _, b := range fn.Blocks {
		if len(b.Succs) == 0 {
			pd[b] = map[*ssa.BasicBlock]bool{b: true}
		} else {
			m := map[*ssa.BasicBlock]bool{}
			for k := range all {
				m[k] = true
			}
			pd[b] = m
		}
	}
	for changed := true; changed; {
		changed = false
		for i := n - 1; i >= 0; i-- {
			b := fn.Blocks[i]
			if len(b.Succs) == 0 {
				continue
			}
			var inter map[*ssa.BasicBlock]bool
			for _, s := range b.Succs {
				if inter == nil {
					inter = map[*ssa.BasicBlock]bool{}
					for k := range pd[s] {
						inter[k] = true
					}
				} else {
					for k := range inter {
						if !pd[s][k] {
							delete(inter, k)
						}
					}
				}
			}
			inter[b] = true
			if len(inter) != len(pd[b]) {
				pd[b] = inter
				changed = true
			}
		}
	}
	return pd
}

// elemRead decomposes an element read x[i] of a string, array or map value
// (go/ssa uses Index for strings and arrays, Lookup for maps and older string forms).
func elemRead(v ssa.Value) (x, idx ssa.Value, ok bool) {
	switch e := v.(type) {
	case *ssa.Index:
		return e.X, e.Index, true
	case *ssa.Lookup:
		return e.X, e.Index, true
	case *ssa.UnOp:
		// a slice element: *(&x[i])
		if e.Op == token.MUL {
			if ia, ok := e.X.(*ssa.IndexAddr); ok {
				return ia.X, ia.Index, true
			}
		}
	}
	return nil, nil, false
}

// loopBlocks: the natural loop of header h — h and every block that reaches a back edge t→h (h dominates t) without
// passing through h.
func loopBlocks(fn *ssa.Function, h *ssa.BasicBlock) map[*ssa.BasicBlock]bool {
	in := map[*ssa.BasicBlock]bool{h: true}
	var stack []*ssa.BasicBlock
	for _, t := range h.Preds {
		if h.Dominates(t) && !in[t] {
			in[t] = true
			stack = append(stack, t)
		}
	}
	for len(stack) > 0 {
		b := stack[len(stack)-1]
		stack = stack[:len(stack)-1]
		for _, q := range b.Preds {
			if !in[q] {
				in[q] = true
				stack = append(stack, q)
			}
		}
	}
	return in
}

// earlyLoopExits lists the edges that leave the loop of header h other than the header's own exhaustion edge
// (break, return, goto out of the body).  A panic block is not an exit.
func earlyLoopExits(fn *ssa.Function, h *ssa.BasicBlock) []*ssa.BasicBlock {
	in := loopBlocks(fn, h)
	var out []*ssa.BasicBlock
	for b := range in {
		if b == h {
			continue
		}
		if _, isRet := lastInstr(b).(*ssa.Return); isRet {
			out = append(out, b)
			continue
		}
		for _, s := range b.Succs {
			if !in[s] {
				out = append(out, b)
			}
		}
	}
	return out
}

package main

import (
	"fmt"
	"go/token"
	"go/types"
	"sort"
	"strings"

	"golang.org/x/tools/go/ssa"
)

// c02extra: three more structural necessary conditions of strict, canonical decoding.
//
//	C02.bits    the CashAddr version byte is classified on all eight of its bits
//	C02.whole   what DecodeAddress hands to the CashAddr decoder is the whole input (as is, or prefixed and
//	            ASCII-lowered) — no part of the string is cut off first
//	C02.registry every legacy constructor call is made after both registry lookups of the version byte
//	            (so the collision test has been evaluated for it)
func c02extra(p *Program, r *Report) {
	// ---- C02.bits
	if cl := p.Func("", "checkDecodeCashAddress"); cl != nil {
		n := 0
		for _, b := range cl.Blocks {
			for _, in := range b.Instrs {
				ld, ok := in.(*ssa.UnOp)
				if !ok || ld.Op != token.MUL {
					continue
				}
				ia, ok := ld.X.(*ssa.IndexAddr)
				if !ok {
					continue
				}
				if k, isK := constInt(ia.Index); !isK || k != 0 {
					continue
				}
				if bt, ok := ld.Type().Underlying().(*types.Basic); !ok || bt.Kind() != types.Uint8 {
					continue
				}
				// only the regrouped payload (a call result), not the input string
				if _, fromCall := ia.X.(*ssa.Extract); !fromCall {
					if _, isCall := ia.X.(*ssa.Call); !isCall {
						continue
					}
				}
				n++
				observed, how := observedBits(ld)
				var missing []string
				for bit := 0; bit < 8; bit++ {
					if observed&(1<<uint(bit)) == 0 {
						missing = append(missing, fmt.Sprint(bit))
					}
				}
				r.Add("C02.bits", FnName(cl), "every bit of the version byte takes part in its classification", ld.Pos(), len(missing) == 0,
					fmt.Sprintf("observed mask %#02x (%s); ignored bit(s): %s", observed, how, strings.Join(missing, ",")))
			}
		}
		if n == 0 {
			r.Unresolved("C02.bits", "read of the version byte in checkDecodeCashAddress")
		}
	} else {
		r.Unresolved("C02.bits", "checkDecodeCashAddress")
	}
	r.Floor("C02.bits", 1)

	wholeInputRule(p, r, "C02.whole")
	shadowedCaseRule(p, r, "C02.whole")
	if separatorSentinelRule(p, r, "C02.guards") == 0 {
		r.Unresolved("C02.guards", "the edge recording the separator position in DecodeCashAddress")
	}
	da := p.Func("", "DecodeAddress")
	cash := p.Func("", "checkDecodeCashAddress")
	if da == nil || cash == nil {
		return
	}
	_ = cash

	// ---- C02.registry
	var lookups []*ssa.Call
	for _, b := range da.Blocks {
		for _, in := range b.Instrs {
			if c, ok := in.(*ssa.Call); ok && staticCalleeIs(&c.Call, "github.com/gcash/bchd/chaincfg.IsPubKeyHashAddrID", "github.com/gcash/bchd/chaincfg.IsScriptHashAddrID") {
				lookups = append(lookups, c)
			}
		}
	}
	nR := 0
	for _, b := range da.Blocks {
		for _, in := range b.Instrs {
			c, ok := in.(*ssa.Call)
			if !ok || c.Call.StaticCallee() == nil || !p.InRepo(c.Call.StaticCallee()) {
				continue
			}
			res := c.Call.StaticCallee().Signature.Results()
			if res.Len() == 0 {
				continue
			}
			nt := namedOf(res.At(0).Type())
			if nt == nil || !strings.HasPrefix(nt.Obj().Name(), "Legacy") {
				continue
			}
			nR++
			dom := 0
			for _, l := range lookups {
				if instrDominates(l, c) {
					dom++
				}
			}
			r.Add("C02.registry", FnName(da), "a legacy address is built only after both registry lookups of its version byte (collision test evaluated)", c.Pos(), dom >= 2 && len(lookups) >= 2,
				fmt.Sprintf("%d of %d registry lookups dominate the call of %s", dom, len(lookups), FnName(c.Call.StaticCallee())))
		}
	}
	if nR == 0 {
		r.Unresolved("C02.registry", "legacy constructor calls in DecodeAddress")
	}
	r.Floor("C02.registry", 2)
}

// observedBits: which bits of the byte value v can influence a comparison, a switch, a call argument or an index.
func observedBits(v ssa.Value) (int, string) {
	observed := 0
	var notes []string
	type st struct {
		val  ssa.Value
		mask int // original bits that still matter in val
		sh   int // val = (orig >> sh) restricted to mask
	}
	seen := map[ssa.Value]bool{}
	var walk func(s st)
	walk = func(s st) {
		refs := s.val.Referrers()
		if refs == nil {
			return
		}
		for _, ref := range *refs {
			switch x := ref.(type) {
			case *ssa.BinOp:
				other := x.Y
				if x.Y == s.val {
					other = x.X
				}
				k, isK := constInt(other)
				switch x.Op {
				case token.EQL, token.NEQ, token.LSS, token.LEQ, token.GTR, token.GEQ:
					observed |= s.mask
					notes = append(notes, fmt.Sprintf("compared (%#02x)", s.mask))
				case token.AND:
					if isK {
						m := s.mask & (int(k) << uint(s.sh)) & 0xff
						if !seen[x] {
							seen[x] = true
							walk(st{x, m, s.sh})
						}
					} else {
						observed |= s.mask
					}
				case token.SHR:
					if isK && x.X == s.val {
						m := s.mask &^ ((1 << uint(s.sh+int(k))) - 1)
						if !seen[x] {
							seen[x] = true
							walk(st{x, m, s.sh + int(k)})
						}
					} else {
						observed |= s.mask
					}
				default:
					observed |= s.mask
					notes = append(notes, "used in "+x.Op.String())
				}
			case *ssa.Convert, *ssa.ChangeType:
				if !seen[x.(ssa.Value)] {
					seen[x.(ssa.Value)] = true
					walk(st{x.(ssa.Value), s.mask, s.sh})
				}
			case *ssa.Phi:
				if !seen[x] {
					seen[x] = true
					walk(st{x, s.mask, s.sh})
				}
			case ssa.CallInstruction:
				observed |= s.mask
				notes = append(notes, fmt.Sprintf("passed to %s (%#02x)", calleeName(x.Common()), s.mask))
			case *ssa.Return, *ssa.Store, *ssa.IndexAddr, *ssa.Lookup, *ssa.MakeInterface:
				observed |= s.mask
			case *ssa.DebugRef:
			default:
				observed |= s.mask
			}
		}
	}
	walk(st{v, 0xff, 0})
	return observed, strings.Join(dedup(notes), "; ")
}

// wholeInputRule: what DecodeAddress hands to the CashAddr decoder is the whole input — as is, or prefix + ':' +
// the case-folded input (filed under C02.whole, and under C03.inject: the decoder's mixed-case test only protects
// what reaches it unfolded).
func wholeInputRule(p *Program, r *Report, rule string) {
	da := p.Func("", "DecodeAddress")
	cash := p.Func("", "checkDecodeCashAddress")
	if da == nil || cash == nil {
		r.Unresolved(rule, "DecodeAddress / checkDecodeCashAddress")
		return
	}
	// ---- C02.whole
	addr := ssa.Value(da.Params[0])
	var wholeOK func(v ssa.Value, seen map[ssa.Value]bool) (bool, string)
	afterPrefix := map[ssa.Value]bool{} // values that appear to the right of a `+` (behind the prepended prefix)
	wholeOK = func(v ssa.Value, seen map[ssa.Value]bool) (bool, string) {
		if seen[v] {
			return true, ""
		}
		seen[v] = true
		if v == addr {
			return true, ""
		}
		switch x := v.(type) {
		case *ssa.Const:
			return true, ""
		case *ssa.Phi:
			for _, e := range x.Edges {
				if ok, why := wholeOK(e, seen); !ok {
					return false, why
				}
			}
			return true, ""
		case *ssa.BinOp:
			if x.Op == token.ADD {
				if ok, why := wholeOK(x.X, seen); !ok {
					return false, why
				}
				afterPrefix[x.Y] = true
				return wholeOK(x.Y, seen)
			}
		case *ssa.UnOp:
			if _, _, ok := fieldLoad(x); ok {
				return true, "" // a prefix field of the network parameters
			}
		case *ssa.Call:
			cal := x.Call.StaticCallee()
			if cal != nil && p.InRepo(cal) && len(x.Call.Args) == 1 {
				// in-repo lowering helper: must take the parameter itself
				if x.Call.Args[0] == addr {
					if !afterPrefix[v] {
						return false, "the case-folded input is decoded without a prepended prefix: a mixed-case string that carries its own prefix is folded before the decoder's mixed-case test sees it"
					}
					if ok, why := foldsCompletely(p, cal); !ok {
						return false, "the helper " + FnName(cal) + " applied to the input is not a total ASCII lower-casing: " + why
					}
					return true, ""
				}
				return false, "the case-folding helper is applied to " + exprString(x.Call.Args[0]) + ", a part of the input"
			}
		case *ssa.Slice:
			return false, "a slice of the input, " + exprString(x) + ", is decoded instead of the whole string"
		}
		return false, "unrecognised construction " + exprString(v)
	}
	nW := 0
	for _, b := range da.Blocks {
		for _, in := range b.Instrs {
			c, ok := in.(*ssa.Call)
			if !ok || c.Call.StaticCallee() != cash {
				continue
			}
			nW++
			ok2, why := wholeOK(c.Call.Args[0], map[ssa.Value]bool{})
			r.Add(rule, FnName(da), "the CashAddr decoder is given the whole input (as is, or prefix + ':' + lower-cased input)", c.Pos(), ok2, why)
		}
	}
	if nW == 0 {
		r.Unresolved(rule, "calls of checkDecodeCashAddress in DecodeAddress")
	}
	r.Floor(rule, 2)
}

// prefixWindowRule: wherever the address decoder compares a piece of its input with a network prefix P (EqualFold,
// HasPrefix, ==), the piece is cut with bounds that depend on len(P) of that same P — not on the length of the other
// prefix of the network.  A window sized by the SLP prefix and compared with the cash prefix works while the SLP
// prefix is the longer one and silently stops recognising prefix-qualified strings on a network where it is not
// (simnet has no SLP prefix at all).
func prefixWindowRule(p *Program, r *Report, rule string) {
	da := p.Func("", "DecodeAddress")
	if da == nil {
		r.Unresolved(rule, "DecodeAddress")
		return
	}
	n := 0
	for _, fn := range p.Reachable([]*ssa.Function{da}) {
		if fn.Pkg != da.Pkg {
			continue
		}
		var ident func(v ssa.Value, depth int) string
		ident = func(v ssa.Value, depth int) string {
			if depth > 4 {
				return ""
			}
			switch x := v.(type) {
			case *ssa.Parameter:
				if isStringType(x.Type()) && x != fn.Params[0] {
					return "parameter " + x.Name()
				}
			case *ssa.UnOp:
				if f, _, ok := fieldLoad(x); ok && strings.HasSuffix(f.Name(), "Prefix") {
					return "field " + f.Name()
				}
			case *ssa.BinOp:
				if x.Op == token.ADD {
					if id := ident(x.X, depth+1); id != "" {
						return id
					}
				}
			}
			return ""
		}
		// prefix lengths a value depends on
		var lensIn func(v ssa.Value, out map[string]bool, depth int)
		lensIn = func(v ssa.Value, out map[string]bool, depth int) {
			if v == nil || depth > 8 {
				return
			}
			switch x := v.(type) {
			case *ssa.Call:
				if isBuiltin(&x.Call, "len") {
					if id := ident(x.Call.Args[0], 0); id != "" {
						out[id] = true
					}
					return
				}
				// a position found by searching a window: depends on what the window depends on
				for _, a := range x.Call.Args {
					lensIn(a, out, depth+1)
				}
			case *ssa.BinOp:
				lensIn(x.X, out, depth+1)
				lensIn(x.Y, out, depth+1)
			case *ssa.Convert:
				lensIn(x.X, out, depth+1)
			case *ssa.Slice:
				lensIn(x.X, out, depth+1)
				lensIn(x.High, out, depth+1)
				lensIn(x.Low, out, depth+1)
			case *ssa.Phi:
				for _, e := range x.Edges {
					lensIn(e, out, depth+1)
				}
			}
		}
		for _, b := range fn.Blocks {
			for _, in := range b.Instrs {
				var a0, a1 ssa.Value
				var pos token.Pos
				switch x := in.(type) {
				case *ssa.Call:
					name := calleeName(&x.Call)
					if name != "strings.EqualFold" && name != "strings.HasPrefix" {
						continue
					}
					a0, a1, pos = x.Call.Args[0], x.Call.Args[1], x.Pos()
				case *ssa.BinOp:
					if (x.Op != token.EQL && x.Op != token.NEQ) || !isStringType(x.X.Type()) {
						continue
					}
					a0, a1, pos = x.X, x.Y, x.Pos()
				default:
					continue
				}
				for _, pr := range [][2]ssa.Value{{a0, a1}, {a1, a0}} {
					P := ident(pr[1], 0)
					if P == "" {
						continue
					}
					if _, isSl := pr[0].(*ssa.Slice); !isSl {
						continue
					}
					deps := map[string]bool{}
					lensIn(pr[0], deps, 0)
					n++
					var foreign []string
					for d := range deps {
						if d != P {
							foreign = append(foreign, d)
						}
					}
					sort.Strings(foreign)
					how := "the piece compared with " + P + " is cut with bounds that depend on len(" + P + ") only"
					if len(foreign) > 0 {
						how = "the piece compared with " + P + " is cut with bounds that depend on the length of " + strings.Join(foreign, ", ") + ": on a network where that one is shorter the comparison can never succeed"
					}
					r.Add(rule, FnName(fn), "a piece of the input compared with a network prefix is as long as that prefix", pos, len(foreign) == 0, how)
				}
			}
		}
	}
	if n == 0 {
		r.Note("%s: no comparison of an input window with a network prefix found below DecodeAddress", rule)
	}
}

// ownPrefixRule: whether DecodeAddress decodes its input as it stands (instead of prepending the network's prefix) is
// decided by comparing the input with the two prefixes of the network it was asked about, and by nothing else: every
// condition on the way to the "prepend" decision reads only the input, those prefixes, and the results of
// strings.EqualFold / HasPrefix / IndexByte on them (through in-repo helpers too).  A registry lookup ("is this the
// prefix of any known network?") would let an address of another network through under its own, valid, checksum.
func ownPrefixRule(p *Program, r *Report, rule string) {
	da := p.Func("", "DecodeAddress")
	if da == nil {
		r.Unresolved(rule, "DecodeAddress")
		return
	}
	allowedCall := func(name string) bool {
		switch name {
		case "strings.EqualFold", "strings.HasPrefix", "strings.IndexByte", "strings.Index", "strings.LastIndexByte":
			return true
		}
		return false
	}
	var foreignIn func(fn *ssa.Function, depth int) []string
	foreignIn = func(fn *ssa.Function, depth int) []string {
		var out []string
		if depth > 3 {
			return []string{"helper nesting too deep in " + FnName(fn)}
		}
		for _, b := range fn.Blocks {
			for _, in := range b.Instrs {
				c, ok := in.(*ssa.Call)
				if !ok {
					continue
				}
				if _, isB := c.Call.Value.(*ssa.Builtin); isB {
					continue
				}
				cal := c.Call.StaticCallee()
				name := calleeName(&c.Call)
				if allowedCall(name) {
					continue
				}
				if cal != nil && p.InRepo(cal) && len(cal.Blocks) > 0 {
					out = append(out, foreignIn(cal, depth+1)...)
					continue
				}
				out = append(out, "call "+name)
			}
		}
		return out
	}
	n := 0
	for _, b := range da.Blocks {
		for _, in := range b.Instrs {
			bo, ok := in.(*ssa.BinOp)
			if !ok || bo.Op != token.ADD || !isStringType(bo.Type()) {
				continue
			}
			// prefix + ":" + folded input: the outer concatenation whose right operand is a call on the input
			if _, isCall := bo.Y.(*ssa.Call); !isCall {
				continue
			}
			n++
			var foreign []string
			// a condition that is a merged boolean (a flag computed on several paths, as after a helper was expanded)
			// also depends on what decided which path was taken
			var condVals []ssa.Value
			seenPhi := map[*ssa.Phi]bool{}
			var addCond func(v ssa.Value, depth int)
			addCond = func(v ssa.Value, depth int) {
				condVals = append(condVals, v)
				if depth > 4 {
					return
				}
				var phis []*ssa.Phi
				var find func(x ssa.Value, d int)
				find = func(x ssa.Value, d int) {
					if d > 6 {
						return
					}
					switch y := x.(type) {
					case *ssa.Phi:
						phis = append(phis, y)
					case *ssa.BinOp:
						find(y.X, d+1)
						find(y.Y, d+1)
					case *ssa.UnOp:
						find(y.X, d+1)
					}
				}
				find(v, 0)
				for _, ph := range phis {
					if seenPhi[ph] {
						continue
					}
					seenPhi[ph] = true
					for i, e := range ph.Edges {
						addCond(e, depth+1)
						for _, pc := range MustCondsAtBlock(da, ph.Block().Preds[i]) {
							addCond(pc.V, depth+1)
						}
					}
				}
			}
			for _, cd := range MustCondsAtBlock(da, b) {
				addCond(cd.V, 0)
			}
			for _, cv := range condVals {
				for _, leaf := range condLeaves(cv) {
					if !strings.HasPrefix(leaf, "call ") {
						continue
					}
					name := strings.TrimPrefix(leaf, "call ")
					if i := strings.Index(name, "#"); i >= 0 {
						name = name[:i]
					}
					if allowedCall(name) {
						continue
					}
					// an in-repo helper: look inside
					found := false
					for _, fn := range p.Funcs {
						if fn.String() == name {
							found = true
							foreign = append(foreign, foreignIn(fn, 0)...)
						}
					}
					if !found && !strings.Contains(name, "checkDecodeCashAddress") && !strings.Contains(name, "DecodeCashAddress") {
						foreign = append(foreign, leaf)
					}
				}
			}
			sort.Strings(foreign)
			foreign = dedup(foreign)
			how := "the decision reads the input and the network's own prefixes only"
			if len(foreign) > 0 {
				how = "the decision also depends on " + strings.Join(foreign, ", ")
			}
			r.Add(rule, FnName(da), "the prefix is prepended unless the input starts with one of this network's own prefixes", bo.Pos(), len(foreign) == 0, how)
		}
	}
	if n == 0 {
		r.Unresolved(rule, "prefix + ':' + folded input in DecodeAddress")
	}
}

// foldsCompletely (round 6, C01-agent6-m3): h(s string) string is a TOTAL ASCII lower-casing of its argument — every
// return hands out string(b) for b = []byte(s), and a loop over the whole of b stores into b[i] exactly when b[i] is in
// 'A'..'Z' (the conditions between the loop header and the store are comparisons of that byte with constants, and
// together they admit every upper-case letter).  A helper that folds only strings beginning with 'Q', or returns its
// argument unchanged on some path, leaves upper-case payloads in capitals behind a lower-case prefix.
func foldsCompletely(p *Program, h *ssa.Function) (bool, string) {
	if len(h.Params) != 1 || !isStringType(h.Params[0].Type()) || len(h.Blocks) == 0 {
		return false, "not a one-string helper"
	}
	s := ssa.Value(h.Params[0])
	var buf ssa.Value
	for _, b := range h.Blocks {
		for _, in := range b.Instrs {
			if cv, ok := in.(*ssa.Convert); ok && cv.X == s {
				if _, isSl := cv.Type().Underlying().(*types.Slice); isSl {
					buf = cv
				}
			}
		}
	}
	if buf == nil {
		return false, "no []byte copy of the argument"
	}
	for _, ret := range returnsOf(h) {
		cv, ok := ret.Results[0].(*ssa.Convert)
		if !ok || cv.X != buf {
			return false, "a return at " + p.Pos(ret.Pos()) + " hands out " + exprString(ret.Results[0]) + " instead of the folded copy"
		}
	}
	// the folding store
	lc := NewLinCtx(p, h)
	for _, b := range h.Blocks {
		for _, in := range b.Instrs {
			st, ok := in.(*ssa.Store)
			if !ok {
				continue
			}
			ia, ok := st.Addr.(*ssa.IndexAddr)
			if !ok || ia.X != buf {
				continue
			}
			hdr := fullRangeInduction(ia.Index, func(v ssa.Value) bool { return v == buf })
			if hdr == nil {
				return false, "the folding loop does not run over the whole copy"
			}
			// the element
			var elem ssa.Value
			for _, bb := range h.Blocks {
				for _, ii := range bb.Instrs {
					if ld, ok := ii.(*ssa.UnOp); ok && ld.Op == token.MUL {
						if ia2, ok := ld.X.(*ssa.IndexAddr); ok && ia2.X == buf && ia2.Index == ia.Index {
							elem = ld
						}
					}
				}
			}
			if elem == nil {
				return false, "the byte being folded is not read from the copy"
			}
			outer := map[ssa.Value]bool{}
			for _, c := range DomConds(hdr) {
				outer[c.V] = true
			}
			var inner []Cond
			for _, c := range DomConds(b) {
				if outer[c.V] || c.At == hdr {
					continue
				}
				bo, _, isB := condBinOp(c)
				if !isB || !(stripChange(bo.X) == elem || stripChange(bo.Y) == elem) {
					return false, "the fold of a byte also depends on " + exprString(c.V)
				}
				inner = append(inner, c)
			}
			lo, hi, okLo, okHi := charInterval(lc, inner, elem)
			if (okLo && lo > 'A') || (okHi && hi < 'Z') {
				return false, fmt.Sprintf("only bytes in [%d, %d] are folded, not all of 'A'..'Z'", lo, hi)
			}
			// every path from the loop header to the store's block is one of those comparisons: the loop header
			// dominates, and nothing else can skip the store — checked by the inner conditions being the only ones
			if len(DomConds(hdr)) > 0 {
				for _, c := range DomConds(hdr) {
					if _, _, isB := condBinOp(c); isB {
						return false, "the folding loop itself runs only under " + exprString(c.V)
					}
				}
			}
			return true, "every byte in 'A'..'Z' of the whole string is lowered; string(copy) is returned on every path"
		}
	}
	return false, "no store into the copy"
}

// shadowedCaseRule (round 6, C01-agent6-m2): a tagged switch whose case expressions are run-time values tries them in
// order; when two of them can be equal the later arm is dead for that configuration.  `switch sep { case len(slpPrefix):
// … case len(cashPrefix): … }` recognises the cash prefix on mainnet (11 ≠ 12) and never on testnet, chipnet or regtest,
// where both prefixes have the same length.  In the functions DecodeAddress reaches (root package): two successive
// equality tests of one tag against non-constant values that are not the same value are reported, unless the first
// arm's failure falls through to the second test anyway (an if–else-if chain whose first arm ends in the second).
func shadowedCaseRule(p *Program, r *Report, rule string) int {
	da := p.Func("", "DecodeAddress")
	if da == nil {
		return 0
	}
	n := 0
	for _, fn := range p.Reachable([]*ssa.Function{da}) {
		if fn.Pkg != da.Pkg {
			continue
		}
		for _, b := range fn.Blocks {
			iff, ok := lastInstr(b).(*ssa.If)
			if !ok {
				continue
			}
			c1, ok := iff.Cond.(*ssa.BinOp)
			if !ok || c1.Op != token.EQL {
				continue
			}
			nb := b.Succs[1]
			iff2, ok := lastInstr(nb).(*ssa.If)
			if !ok || len(nb.Instrs) > 8 {
				continue
			}
			c2, ok := iff2.Cond.(*ssa.BinOp)
			if !ok || c2.Op != token.EQL || c2.Block() != nb {
				continue
			}
			tag, x, y := c1.X, c1.Y, c2.Y
			if c2.X != tag {
				continue
			}
			if _, isK := x.(*ssa.Const); isK {
				continue
			}
			if _, isK := y.(*ssa.Const); isK {
				continue
			}
			if _, isInt := intBasic(tag.Type()); !isInt {
				continue
			}
			n++
			// the first arm, when its own test inside fails, must reach the second comparison; otherwise the second
			// case is lost whenever x == y
			reach := reachableFrom(b.Succs[0], nil)
			r.Add(rule, FnName(fn), fmt.Sprintf("cases %s and %s of one switch may be equal: the second is still tried when the first does not apply", exprString(x), exprString(y)),
				c1.Pos(), reach[nb], "when both values are equal the first arm takes every input and the second arm is dead (cash and SLP prefixes have the same length on testnet, chipnet and regtest)")
		}
	}
	return n
}

// separatorSentinelRule (round 7, C02-agent7-m3): the scanner of DecodeCashAddress remembers the separator's position
// in a counter that is 0 until a separator was seen; the later tests "no prefix" / "second separator" read that
// counter.  The position may therefore be recorded only where it is known to be at least 1 and the counter is still 0
// — otherwise a leading ':' leaves the counter at 0 and a second ':' becomes the prefix boundary (":abc:<payload>"
// decodes with the prefix ":abc").  Decided at every edge on which the loop index flows into a loop-carried counter
// that starts at 0.
func separatorSentinelRule(p *Program, r *Report, rule string) int {
	fn := p.Func("", "DecodeCashAddress")
	if fn == nil {
		return 0
	}
	lc := NewLinCtx(p, fn)
	n := 0
	for _, h := range fn.Blocks {
		if !isLoopHeader(h) {
			continue
		}
		// the induction variable of the scan: φ(0, φ+1) compared with len(str)
		var idx *ssa.Phi
		for _, in := range h.Instrs {
			ph, ok := in.(*ssa.Phi)
			if !ok {
				continue
			}
			if fullRangeInduction(ph, func(v ssa.Value) bool { return v == ssa.Value(fn.Params[0]) }) == h {
				idx = ph
			}
		}
		if idx == nil {
			continue
		}
		for _, in := range h.Instrs {
			cnt, ok := in.(*ssa.Phi)
			if !ok || cnt == idx {
				continue
			}
			if _, isInt := intBasic(cnt.Type()); !isInt {
				continue
			}
			init0 := false
			for i, e := range cnt.Edges {
				if !h.Dominates(h.Preds[i]) {
					if k, isK := constInt(e); isK && k == 0 {
						init0 = true
					}
				}
			}
			if !init0 {
				continue
			}
			// every edge on which idx flows into cnt (through the φs of the continue / post blocks)
			seen := map[*ssa.Phi]bool{}
			var visit func(ph *ssa.Phi)
			visit = func(ph *ssa.Phi) {
				if seen[ph] {
					return
				}
				seen[ph] = true
				for i, e := range ph.Edges {
					if e == ssa.Value(idx) {
						n++
						pred := ph.Block().Preds[i]
						f := lc.FactsOf(MustCondsAtBlock(fn, pred))
						f.le = append(f.le, lc.Lin(idx).scale(-1)) // an induction variable counting up from 0 is never negative
						pos1 := lc.Entails(f, lc.Lin(idx).scale(-1).addConst(1)) // 1 − i ≤ 0
						first := lc.EntailsEq(f, lc.Lin(cnt))
						r.Add(rule, FnName(fn), "the separator's position is recorded only where it is ≥ 1 and no separator was recorded before", p.InstrPos(lastInstr(pred)),
							pos1 && first, fmt.Sprintf("position ≥ 1: %v; counter still 0: %v", pos1, first))
						continue
					}
					if q, isPh := e.(*ssa.Phi); isPh && q != cnt && q != idx {
						visit(q)
					}
				}
			}
			visit(cnt)
		}
	}
	return n
}

package main

import (
	"fmt"
	"go/token"
	"go/types"
	"sort"

	"golang.org/x/tools/go/ssa"
)

// Lockset analysis (DESIGN §2.6).
//
// A lock is identified by (root value, path): the root is a canonical SSA value
// (a parameter, a free variable, an allocation, ...) and the path the chain of
// field names from the root to the first component whose type is a "mutex
// type" (a named type T such that *T has niladic Lock and Unlock methods:
// sync.Mutex, sync.RWMutex, and wrappers such as bchutil.Mutex in either
// build-tag variant, or a struct embedding one).
//
// Per lock the abstract status is one of
//
//	E  unchanged since function entry (unknown to this function)
//	H  held exclusively        HS held shared (RLock)
//	N  released
//	T  differs between paths
//
// The analysis is a forward data-flow over the CFG with merge "equal or T".
// Calls to in-repo functions apply the callee's summary (final status of each
// lock reachable from its parameters / free variables, started from E), so
// wrappers are recognised by what they do, not by name.

type lstatus uint8

const (
	stE lstatus = iota
	stH
	stHS
	stN
	stT
)

func (s lstatus) String() string {
	return [...]string{"unchanged", "held", "held-shared", "released", "differs-between-paths"}[s]
}

type lockKey struct {
	root ssa.Value
	path string
}

func (k lockKey) String() string {
	n := "?"
	if k.root != nil {
		n = k.root.Name()
	}
	return n + k.path
}

type lockState struct {
	st       map[lockKey]lstatus
	defers   []*ssa.Defer
	defersOK bool
}

func (s *lockState) clone() *lockState {
	n := &lockState{st: map[lockKey]lstatus{}, defersOK: s.defersOK}
	for k, v := range s.st {
		n.st[k] = v
	}
	n.defers = append([]*ssa.Defer(nil), s.defers...)
	return n
}

func (s *lockState) get(k lockKey) lstatus { return s.st[k] }

func mergeLock(a, b *lockState) *lockState {
	n := &lockState{st: map[lockKey]lstatus{}, defersOK: a.defersOK && b.defersOK}
	for k, v := range a.st {
		if b.st[k] == v {
			if v != stE {
				n.st[k] = v
			}
		} else {
			n.st[k] = stT
		}
	}
	for k, v := range b.st {
		if _, ok := a.st[k]; !ok && v != stE {
			n.st[k] = stT
		}
	}
	if len(a.defers) != len(b.defers) {
		n.defersOK = false
	} else {
		for i := range a.defers {
			if a.defers[i] != b.defers[i] {
				n.defersOK = false
			}
		}
	}
	n.defers = append([]*ssa.Defer(nil), a.defers...)
	return n
}

func equalLock(a, b *lockState) bool {
	if a == nil || b == nil {
		return a == b
	}
	if a.defersOK != b.defersOK || len(a.defers) != len(b.defers) {
		return false
	}
	for i := range a.defers {
		if a.defers[i] != b.defers[i] {
			return false
		}
	}
	na, nb := 0, 0
	for k, v := range a.st {
		if v == stE {
			continue
		}
		na++
		if b.st[k] != v {
			return false
		}
	}
	for _, v := range b.st {
		if v != stE {
			nb++
		}
	}
	return na == nb
}

// sumKey names a lock in terms of a function's own parameters / free variables.
type sumKey struct {
	param int // >=0: parameter index; <0: free variable -(j+1)
	path  string
}

type lockSummary struct {
	net     map[sumKey]lstatus // final status at (all) returns, entry = E
	mayLock map[sumKey]bool    // locks the function may acquire at some point
}

type lockEvent struct {
	kind  string // double-lock | unlock-not-held | reacquire | deadlock-call | mutex-escape | leak | defers-unknown
	instr ssa.Instruction
	key   lockKey
	note  string
}

type fnLocks struct {
	fn     *ssa.Function
	before map[ssa.Instruction]*lockState // state before each instruction of interest
	events []lockEvent
	final  map[lockKey]lstatus // merged status at returns
	sum    *lockSummary
}

type LockAnalysis struct {
	p     *Program
	done  map[*ssa.Function]*fnLocks
	busy  map[*ssa.Function]bool
	mutex map[types.Type]bool
}

func NewLockAnalysis(p *Program) *LockAnalysis {
	return &LockAnalysis{p: p, done: map[*ssa.Function]*fnLocks{}, busy: map[*ssa.Function]bool{}, mutex: map[types.Type]bool{}}
}

// isMutexType: *T has niladic, result-less Lock and Unlock methods.
func (la *LockAnalysis) isMutexType(t types.Type) bool {
	if t == nil {
		return false
	}
	if v, ok := la.mutex[t]; ok {
		return v
	}
	la.mutex[t] = false
	if _, ok := t.Underlying().(*types.Interface); ok {
		return false
	}
	ms := types.NewMethodSet(types.NewPointer(t))
	has := func(name string) bool {
		for i := 0; i < ms.Len(); i++ {
			m := ms.At(i)
			if m.Obj().Name() == name {
				sig := m.Type().(*types.Signature)
				return sig.Params().Len() == 0 && sig.Results().Len() == 0
			}
		}
		return false
	}
	r := has("Lock") && has("Unlock")
	la.mutex[t] = r
	return r
}

// canonRoot maps a value to a canonical representative: conversions are
// stripped, a load of a single-assignment local (a captured parameter) is
// replaced by the value stored, a load of a free variable by the free variable.
func canonRoot(v ssa.Value) ssa.Value {
	for i := 0; i < 16; i++ {
		switch x := v.(type) {
		case *ssa.ChangeType:
			v = x.X
			continue
		case *ssa.Convert:
			if _, ok := x.X.Type().Underlying().(*types.Pointer); ok {
				v = x.X
				continue
			}
		case *ssa.UnOp:
			if x.Op == token.MUL {
				switch a := x.X.(type) {
				case *ssa.Alloc:
					if w := singleStore(a); w != nil {
						v = w
						continue
					}
				case *ssa.FreeVar:
					return a
				}
			}
		}
		return v
	}
	return v
}

// singleStore returns the only value ever stored into local a, provided a's
// address does not otherwise escape except as a closure binding of closures
// that do not store through it; nil otherwise.
func singleStore(a *ssa.Alloc) ssa.Value {
	var stored ssa.Value
	for _, ref := range *a.Referrers() {
		switch r := ref.(type) {
		case *ssa.Store:
			if r.Addr != ssa.Value(a) {
				return nil // address stored somewhere
			}
			if stored != nil {
				return nil
			}
			stored = r.Val
		case *ssa.UnOp:
			// load
		case *ssa.MakeClosure:
			fn := r.Fn.(*ssa.Function)
			for j, b := range r.Bindings {
				if b == ssa.Value(a) && freeVarStored(fn, j) {
					return nil
				}
			}
		case *ssa.DebugRef:
		case *ssa.Slice:
			// read-only slicing of a local array
			if sliceWritten(r) {
				return nil
			}
		default:
			return nil
		}
	}
	return stored
}

func freeVarStored(fn *ssa.Function, j int) bool {
	if j >= len(fn.FreeVars) {
		return true
	}
	fv := fn.FreeVars[j]
	for _, ref := range *fv.Referrers() {
		switch r := ref.(type) {
		case *ssa.UnOp:
		case *ssa.DebugRef:
		case *ssa.MakeClosure:
			inner := r.Fn.(*ssa.Function)
			for jj, b := range r.Bindings {
				if b == ssa.Value(fv) && freeVarStored(inner, jj) {
					return true
				}
			}
		default:
			_ = r
			return true
		}
	}
	return false
}

type pathComp struct {
	name string
	typ  types.Type
}

// pathOf resolves an address expression to (root, components root-outwards).
func pathOf(v ssa.Value) (ssa.Value, []pathComp) {
	var rev []pathComp
	for i := 0; i < 32; i++ {
		switch x := v.(type) {
		case *ssa.FieldAddr:
			f := fieldOfAddr(x)
			rev = append(rev, pathComp{f.Name(), f.Type()})
			v = x.X
			continue
		case *ssa.ChangeType:
			v = x.X
			continue
		case *ssa.Convert:
			if _, ok := x.X.Type().Underlying().(*types.Pointer); ok {
				v = x.X
				continue
			}
		}
		break
	}
	root := canonRoot(v)
	comps := make([]pathComp, 0, len(rev))
	for i := len(rev) - 1; i >= 0; i-- {
		comps = append(comps, rev[i])
	}
	return root, comps
}

// mkKey builds the lock key for root + comps (+ extra path inside the callee),
// truncating at the first mutex-typed component.  ok=false if no component
// (nor the root's pointee) is a mutex type.
func (la *LockAnalysis) mkKey(root ssa.Value, comps []pathComp) (lockKey, bool) {
	rt := root.Type()
	if fv, ok := root.(*ssa.FreeVar); ok {
		// a free variable holds the address of the captured variable
		if pt := derefType(fv.Type()); pt != nil {
			if _, isPtr := pt.Underlying().(*types.Pointer); isPtr {
				rt = pt
			}
		}
	}
	if et := derefType(rt); et != nil && la.isMutexType(et) {
		return lockKey{root, ""}, true
	}
	path := ""
	for _, c := range comps {
		path += "." + c.name
		if la.isMutexType(c.typ) {
			return lockKey{root, path}, true
		}
	}
	return lockKey{}, false
}

func (la *LockAnalysis) keyOfAddr(v ssa.Value) (lockKey, bool) {
	root, comps := pathOf(v)
	return la.mkKey(root, comps)
}

// rootIndex expresses a canonical root as a parameter / free-variable index of fn.
func rootIndex(fn *ssa.Function, root ssa.Value) (int, bool) {
	for i, p := range fn.Params {
		if ssa.Value(p) == root {
			return i, true
		}
	}
	for j, fv := range fn.FreeVars {
		if ssa.Value(fv) == root {
			return -(j + 1), true
		}
	}
	return 0, false
}

// primitive lock operation on an out-of-repo mutex method
func (la *LockAnalysis) primitive(com *ssa.CallCommon) (op string, ok bool) {
	f := com.StaticCallee()
	if f == nil || f.Signature.Recv() == nil || len(f.Blocks) > 0 && la.p.InRepo(f) {
		return "", false
	}
	rt := f.Signature.Recv().Type()
	if pt, isPtr := rt.(*types.Pointer); isPtr {
		rt = pt.Elem()
	}
	if !la.isMutexType(rt) {
		return "", false
	}
	switch f.Name() {
	case "Lock", "RLock", "Unlock", "RUnlock":
		return f.Name(), true
	}
	return "", false
}

// Analyze runs the intra-procedural analysis of fn (memoised).
func (la *LockAnalysis) Analyze(fn *ssa.Function) *fnLocks {
	if r, ok := la.done[fn]; ok {
		return r
	}
	if la.busy[fn] {
		return nil // recursion: caller treats the call as having no lock effect
	}
	la.busy[fn] = true
	defer func() { la.busy[fn] = false }()

	res := &fnLocks{fn: fn, before: map[ssa.Instruction]*lockState{}, final: map[lockKey]lstatus{},
		sum: &lockSummary{net: map[sumKey]lstatus{}, mayLock: map[sumKey]bool{}}}
	if len(fn.Blocks) == 0 {
		la.done[fn] = res
		return res
	}
	in := make([]*lockState, len(fn.Blocks))
	in[0] = &lockState{st: map[lockKey]lstatus{}, defersOK: true}
	work := []*ssa.BasicBlock{fn.Blocks[0]}
	inWork := map[*ssa.BasicBlock]bool{fn.Blocks[0]: true}
	out := make([]*lockState, len(fn.Blocks))
	for len(work) > 0 {
		b := work[0]
		work = work[1:]
		inWork[b] = false
		st := in[b.Index].clone()
		la.transfer(fn, b, st, nil)
		if equalLock(out[b.Index], st) {
			continue
		}
		out[b.Index] = st
		for _, s := range b.Succs {
			var ns *lockState
			if in[s.Index] == nil {
				ns = st.clone()
			} else {
				ns = mergeLock(in[s.Index], st)
			}
			if !equalLock(in[s.Index], ns) {
				in[s.Index] = ns
				if !inWork[s] {
					work = append(work, s)
					inWork[s] = true
				}
			}
		}
	}
	// final pass: record states and events
	first := true
	for _, b := range fn.Blocks {
		if in[b.Index] == nil {
			continue // unreachable
		}
		st := in[b.Index].clone()
		la.transfer(fn, b, st, res)
		if _, ok := lastInstr(b).(*ssa.Return); ok {
			if first {
				for k, v := range st.st {
					res.final[k] = v
				}
				first = false
			} else {
				for k, v := range res.final {
					if st.st[k] != v {
						res.final[k] = stT
					}
				}
				for k, v := range st.st {
					if _, ok := res.final[k]; !ok && v != stE {
						res.final[k] = stT
					}
				}
			}
		}
	}
	for k, v := range res.final {
		if v == stE {
			continue
		}
		if idx, ok := rootIndex(fn, k.root); ok {
			res.sum.net[sumKey{idx, k.path}] = v
		}
	}
	la.done[fn] = res
	return res
}

func (la *LockAnalysis) event(res *fnLocks, kind string, in ssa.Instruction, k lockKey, note string) {
	if res != nil {
		res.events = append(res.events, lockEvent{kind, in, k, note})
	}
}

func (la *LockAnalysis) transfer(fn *ssa.Function, b *ssa.BasicBlock, st *lockState, rec *fnLocks) {
	for _, in := range b.Instrs {
		if rec != nil {
			switch in.(type) {
			case *ssa.UnOp, *ssa.Store, *ssa.Call, *ssa.Defer, *ssa.Go, *ssa.Return, *ssa.RunDefers, *ssa.MapUpdate, *ssa.Lookup, *ssa.Index:
				rec.before[in] = st.clone()
			}
		}
		switch x := in.(type) {
		case *ssa.Call:
			la.applyCall(fn, x, x.Common(), st, rec, nil)
		case *ssa.Go:
			// a new goroutine does not inherit the lock state; nothing to apply here
		case *ssa.Defer:
			st.defers = append(st.defers, x)
		case *ssa.RunDefers:
			if !st.defersOK {
				la.event(rec, "defers-unknown", x, lockKey{}, "")
				for k := range st.st {
					st.st[k] = stT
				}
			}
			for i := len(st.defers) - 1; i >= 0; i-- {
				d := st.defers[i]
				la.applyCall(fn, d, d.Common(), st, rec, x)
			}
			st.defers = nil
		}
	}
}

// applyCall applies the lock effect of a call executed at this point.  at is the
// RunDefers instruction when the call is a deferred one being run.
func (la *LockAnalysis) applyCall(fn *ssa.Function, site ssa.Instruction, com *ssa.CallCommon, st *lockState, rec *fnLocks, at ssa.Instruction) {
	where := site
	if op, ok := la.primitive(com); ok {
		k, ok := la.keyOfAddr(com.Args[0])
		if !ok {
			return
		}
		cur := st.get(k)
		switch op {
		case "Lock", "RLock":
			switch cur {
			case stH, stHS, stT:
				if !(op == "RLock" && cur == stHS) {
					la.event(rec, "double-lock", where, k, "status "+cur.String())
				}
			case stN:
				la.event(rec, "reacquire", where, k, "")
			}
			if op == "Lock" {
				st.st[k] = stH
			} else {
				st.st[k] = stHS
			}
			if idx, ok := rootIndex(fn, k.root); ok && rec != nil {
				rec.sum.mayLock[sumKey{idx, k.path}] = true
			}
		case "Unlock", "RUnlock":
			if cur == stN {
				la.event(rec, "unlock-not-held", where, k, "status "+cur.String())
			}
			st.st[k] = stN
		}
		return
	}
	if com.IsInvoke() {
		switch com.Method.Name() {
		case "Unlock", "RUnlock", "Lock", "RLock":
			// sync.Locker or similar: cannot tell which lock
			for k := range st.st {
				st.st[k] = stT
			}
			la.event(rec, "mutex-escape", where, lockKey{}, "lock operation through an interface value")
		}
		return
	}
	callee := com.StaticCallee()
	if callee == nil {
		return
	}
	if !la.p.InRepo(callee) || len(callee.Blocks) == 0 {
		// the address of a mutex handed to foreign code
		for _, a := range com.Args {
			if _, isPtr := a.Type().Underlying().(*types.Pointer); isPtr {
				if k, ok := la.keyOfAddr(a); ok {
					if _, prim := la.primitive(com); !prim {
						la.event(rec, "mutex-escape", where, k, "passed to "+callee.String())
						st.st[k] = stT
					}
				}
			}
		}
		return
	}
	sub := la.Analyze(callee)
	if sub == nil {
		return
	}
	// bind callee roots to caller roots
	bind := func(sk sumKey) (lockKey, bool) {
		var actual ssa.Value
		if sk.param >= 0 {
			if sk.param >= len(com.Args) {
				return lockKey{}, false
			}
			actual = com.Args[sk.param]
		} else {
			mc, ok := com.Value.(*ssa.MakeClosure)
			j := -sk.param - 1
			if !ok || j >= len(mc.Bindings) {
				return lockKey{}, false
			}
			bv := mc.Bindings[j]
			// captured by reference: the binding is the variable's address
			if a, ok := bv.(*ssa.Alloc); ok {
				if w := singleStore(a); w != nil {
					actual = w
				} else {
					return lockKey{}, false
				}
			} else if fv, ok := bv.(*ssa.FreeVar); ok {
				actual = fv
			} else {
				actual = bv
			}
		}
		root, comps := pathOf(actual)
		// append the callee-side path as untyped components; re-derive with types from the callee key
		if sk.path == "" {
			return la.mkKey(root, comps)
		}
		// caller components first; if one of them is already a mutex type mkKey truncates there
		if k, ok := la.mkKey(root, comps); ok {
			return k, true
		}
		p := ""
		for _, c := range comps {
			p += "." + c.name
		}
		return lockKey{root, p + sk.path}, true
	}
	var sks []sumKey
	for sk := range sub.sum.mayLock {
		sks = append(sks, sk)
	}
	sort.Slice(sks, func(i, j int) bool { return fmt.Sprint(sks[i]) < fmt.Sprint(sks[j]) })
	for _, sk := range sks {
		k, ok := bind(sk)
		if !ok {
			continue
		}
		switch st.get(k) {
		case stH, stHS, stT:
			la.event(rec, "deadlock-call", where, k, "callee "+FnName(callee)+" acquires it; status "+st.get(k).String())
		}
		if idx, ok := rootIndex(fn, k.root); ok && rec != nil {
			rec.sum.mayLock[sumKey{idx, k.path}] = true
		}
	}
	sks = sks[:0]
	for sk := range sub.sum.net {
		sks = append(sks, sk)
	}
	sort.Slice(sks, func(i, j int) bool { return fmt.Sprint(sks[i]) < fmt.Sprint(sks[j]) })
	for _, sk := range sks {
		k, ok := bind(sk)
		if !ok {
			continue
		}
		v := sub.sum.net[sk]
		cur := st.get(k)
		if v == stN && cur == stN {
			la.event(rec, "unlock-not-held", where, k, "via "+FnName(callee))
		}
		st.st[k] = v
	}
}

package main

import (
	"bytes"
	"fmt"
	"go/ast"
	"go/format"
	"go/parser"
	"go/token"
	"go/types"
	"reflect"
	"strings"

	"golang.org/x/tools/go/ast/astutil"
	"golang.org/x/tools/go/packages"
)

// Helper-inlined view of the repository (source-to-source, semantics preserving).
//
// Most rules read a property off the body of one function.  "Extract function" — moving a few
// statements into an unexported helper, with parameters standing for what the rule tracks — leaves
// the behaviour alone but takes the anchors out of the function the rule looks at.  When a rule
// fails on the program as written, the same rule is run once more on a view of the program in which
// calls of same-package helpers have been expanded in place; a pass there is a pass (the view is
// equivalent to the program, statement for statement), a failure there changes nothing.
//
// The expansion is deliberately conservative:
//
//	r1, r2 = f(a, b)   ⇒   var ·r1 T1; var ·r2 T2
//	                        { var ·p1 P1 = a; var ·p2 P2 = b
//	                          ·L: for { <body of f, locals renamed, `return x, y` → `·r1, ·r2 = x, y; break ·L`>; break ·L } }
//	                        r1, r2 = ·r1, ·r2
//
// Arguments are evaluated once, in order, into fresh variables; results travel through fresh
// variables; every name declared inside the callee is renamed, so nothing is captured.  A call is
// expanded only where it is a whole statement, the whole right-hand side of an assignment, the whole
// operand of a return, the (possibly negated) condition or the init statement of an `if`, or the only
// call inside such a statement (then its single result is hoisted into a temporary first).  Callees
// with defer, go, goto, labels, recover, closures that return, variadic or generic signatures, and
// (directly) recursive callees are left alone.  The rewritten files must type-check, or the whole
// view is discarded.

type inlineStats struct {
	Expanded int
	Files    int
}

type inliner struct {
	pkg     *packages.Package
	info    *types.Info
	decls   map[*types.Func]*ast.FuncDecl
	file    *ast.File
	encl    *types.Func
	counter *int
	round   int
	filter  func(caller, callee *types.Func) bool
	touched map[*ast.FuncDecl]bool // bodies already rewritten in this round: no longer covered by types.Info
	cur     *ast.FuncDecl
	n       int
}

// InlinedOverlay returns file contents for every repository file in which at least one helper call was expanded.
func InlinedOverlay(p *Program, round int, filter func(caller, callee *types.Func) bool) (map[string][]byte, inlineStats) {
	overlay := map[string][]byte{}
	var st inlineStats
	counter := 0
	for _, pkg := range p.Pkgs {
		if pkg.TypesInfo == nil {
			continue
		}
		decls := map[*types.Func]*ast.FuncDecl{}
		touched := map[*ast.FuncDecl]bool{}
		for _, f := range pkg.Syntax {
			for _, d := range f.Decls {
				if fd, ok := d.(*ast.FuncDecl); ok && fd.Body != nil {
					if obj, ok := pkg.TypesInfo.Defs[fd.Name].(*types.Func); ok {
						decls[obj] = fd
					}
				}
			}
		}
		for i, f := range pkg.Syntax {
			if i >= len(pkg.CompiledGoFiles) {
				continue
			}
			if isGenerated(f) {
				continue
			}
			in := &inliner{pkg: pkg, info: pkg.TypesInfo, decls: decls, file: f, counter: &counter, round: round, touched: touched, filter: filter}
			for _, d := range f.Decls {
				fd, ok := d.(*ast.FuncDecl)
				if !ok || fd.Body == nil {
					continue
				}
				in.encl, _ = pkg.TypesInfo.Defs[fd.Name].(*types.Func)
				in.cur = fd
				fd.Body.List = in.rewriteList(fd.Body.List)
			}
			if in.n == 0 {
				continue
			}
			f.Comments = nil
			stripDocs(f)
			var buf bytes.Buffer
			if err := format.Node(&buf, token.NewFileSet(), stripPositions(f)); err != nil {
				continue
			}
			overlay[pkg.CompiledGoFiles[i]] = buf.Bytes()
			st.Expanded += in.n
			st.Files++
		}
	}
	return overlay, st
}

func isGenerated(f *ast.File) bool {
	for _, cg := range f.Comments {
		for _, c := range cg.List {
			if strings.Contains(c.Text, "Code generated") && strings.Contains(c.Text, "DO NOT EDIT") {
				return true
			}
		}
	}
	return false
}

func stripDocs(f *ast.File) {
	ast.Inspect(f, func(n ast.Node) bool {
		switch x := n.(type) {
		case *ast.FuncDecl:
			x.Doc = nil
		case *ast.GenDecl:
			x.Doc = nil
		case *ast.Field:
			x.Doc, x.Comment = nil, nil
		case *ast.ValueSpec:
			x.Doc, x.Comment = nil, nil
		case *ast.TypeSpec:
			x.Doc, x.Comment = nil, nil
		case *ast.ImportSpec:
			x.Doc, x.Comment = nil, nil
		}
		return true
	})
	f.Doc = nil
}

// stripPositions returns a deep copy of the file with all positions cleared, so that the printer lays the code out
// from structure alone (expanded bodies come from other places, their positions would mislead it).
func stripPositions(f *ast.File) *ast.File {
	c := &cloner{clearPos: true}
	return c.clone(reflect.ValueOf(f)).Interface().(*ast.File)
}

// ---- statement-level rewriting

func (in *inliner) rewriteList(list []ast.Stmt) []ast.Stmt {
	var out []ast.Stmt
	for _, s := range list {
		in.rewriteNested(s)
		if repl, ok := in.tryInline(s); ok {
			out = append(out, repl...)
			in.n++
			in.touched[in.cur] = true
			continue
		}
		out = append(out, s)
	}
	return out
}

func (in *inliner) rewriteNested(s ast.Stmt) {
	switch x := s.(type) {
	case *ast.BlockStmt:
		x.List = in.rewriteList(x.List)
	case *ast.IfStmt:
		x.Body.List = in.rewriteList(x.Body.List)
		if x.Else != nil {
			in.rewriteNested(x.Else)
		}
	case *ast.ForStmt:
		x.Body.List = in.rewriteList(x.Body.List)
	case *ast.RangeStmt:
		x.Body.List = in.rewriteList(x.Body.List)
	case *ast.SwitchStmt:
		in.rewriteNested(x.Body)
	case *ast.TypeSwitchStmt:
		in.rewriteNested(x.Body)
	case *ast.SelectStmt:
		in.rewriteNested(x.Body)
	case *ast.CaseClause:
		x.Body = in.rewriteList(x.Body)
	case *ast.CommClause:
		x.Body = in.rewriteList(x.Body)
	case *ast.LabeledStmt:
		in.rewriteNested(x.Stmt)
	}
}

// inlinable: call is a call of a same-package function or method that can be expanded.
func (in *inliner) inlinable(e ast.Expr) (*ast.CallExpr, *types.Func, *ast.FuncDecl, ast.Expr, bool) {
	call, ok := e.(*ast.CallExpr)
	if !ok || call.Ellipsis.IsValid() {
		return nil, nil, nil, nil, false
	}
	var fn *types.Func
	var recv ast.Expr
	switch f := call.Fun.(type) {
	case *ast.Ident:
		fn, _ = in.info.Uses[f].(*types.Func)
	case *ast.SelectorExpr:
		sel := in.info.Selections[f]
		if sel == nil || sel.Kind() != types.MethodVal || len(sel.Index()) != 1 {
			return nil, nil, nil, nil, false
		}
		fn, _ = sel.Obj().(*types.Func)
		recv = f.X
		if fn != nil {
			mr := fn.Type().(*types.Signature).Recv().Type()
			_, mptr := mr.(*types.Pointer)
			_, eptr := in.info.TypeOf(f.X).Underlying().(*types.Pointer)
			if _, isIface := in.info.TypeOf(f.X).Underlying().(*types.Interface); isIface {
				return nil, nil, nil, nil, false
			}
			if mptr && !eptr {
				recv = &ast.UnaryExpr{Op: token.AND, X: f.X}
			} else if !mptr && eptr {
				recv = &ast.StarExpr{X: f.X}
			}
		}
	}
	if fn == nil || fn.Pkg() != in.pkg.Types || fn == in.encl || (in.filter != nil && !in.filter(in.encl, fn)) {
		return nil, nil, nil, nil, false
	}
	fd := in.decls[fn]
	if fd == nil || in.touched[fd] {
		return nil, nil, nil, nil, false
	}
	sig := fn.Type().(*types.Signature)
	if sig.Variadic() || sig.TypeParams() != nil || sig.RecvTypeParams() != nil {
		return nil, nil, nil, nil, false
	}
	if !in.bodyOK(fd, fn) {
		return nil, nil, nil, nil, false
	}
	return call, fn, fd, recv, true
}

func (in *inliner) bodyOK(fd *ast.FuncDecl, self *types.Func) bool {
	ok := true
	n := 0
	ast.Inspect(fd.Body, func(node ast.Node) bool {
		switch x := node.(type) {
		case *ast.DeferStmt, *ast.GoStmt, *ast.LabeledStmt:
			ok = false
		case *ast.BranchStmt:
			if x.Tok == token.GOTO || x.Label != nil {
				ok = false
			}
		case *ast.FuncLit:
			// closures are fine as long as we do not have to rewrite a return inside them (we never do: returns in
			// literals belong to the literal) — but their captured variables get renamed like everything else
		case *ast.CallExpr:
			if id, isId := x.Fun.(*ast.Ident); isId {
				if id.Name == "recover" {
					ok = false
				}
				if f, _ := in.info.Uses[id].(*types.Func); f == self {
					ok = false
				}
			}
			if se, isSel := x.Fun.(*ast.SelectorExpr); isSel {
				if f, _ := in.info.Uses[se.Sel].(*types.Func); f == self {
					ok = false
				}
			}
		case ast.Stmt:
			n++
		}
		return ok
	})
	return ok && n <= 80
}

// tryInline expands one call in statement s, if s has one of the supported shapes.
func (in *inliner) tryInline(s ast.Stmt) ([]ast.Stmt, bool) {
	switch x := s.(type) {
	case *ast.ExprStmt:
		if call, fn, fd, recv, ok := in.inlinable(x.X); ok {
			pre, res, ok := in.expand(call, fn, fd, recv)
			if !ok {
				return nil, false
			}
			for _, r := range res {
				pre = append(pre, &ast.AssignStmt{Lhs: []ast.Expr{ast.NewIdent("_")}, Tok: token.ASSIGN, Rhs: []ast.Expr{ast.NewIdent(r)}})
			}
			return pre, true
		}
		return in.hoist(s, &x.X)
	case *ast.AssignStmt:
		if len(x.Rhs) == 1 {
			if call, fn, fd, recv, ok := in.inlinable(x.Rhs[0]); ok {
				pre, res, ok := in.expand(call, fn, fd, recv)
				if !ok || len(res) != len(x.Lhs) {
					return nil, false
				}
				var rhs []ast.Expr
				for _, r := range res {
					rhs = append(rhs, ast.NewIdent(r))
				}
				x.Rhs = rhs
				return append(pre, x), true
			}
		}
		for i := range x.Rhs {
			if repl, ok := in.hoist(s, &x.Rhs[i]); ok {
				return repl, true
			}
		}
	case *ast.ReturnStmt:
		if len(x.Results) == 1 {
			if call, fn, fd, recv, ok := in.inlinable(x.Results[0]); ok {
				pre, res, ok := in.expand(call, fn, fd, recv)
				if !ok || len(res) == 0 {
					return nil, false
				}
				var rs []ast.Expr
				for _, r := range res {
					rs = append(rs, ast.NewIdent(r))
				}
				x.Results = rs
				return append(pre, x), true
			}
		}
		for i := range x.Results {
			if repl, ok := in.hoist(s, &x.Results[i]); ok {
				return repl, true
			}
		}
	case *ast.RangeStmt:
		// the range operand is evaluated once, before the loop
		if repl, ok := in.hoist(s, &x.X); ok {
			return []ast.Stmt{&ast.BlockStmt{List: repl}}, true
		}
	case *ast.SwitchStmt:
		if x.Init != nil {
			if repl, ok := in.tryInline(x.Init); ok {
				x.Init = nil
				return []ast.Stmt{&ast.BlockStmt{List: append(repl, x)}}, true
			}
			return nil, false
		}
		if x.Tag != nil {
			if repl, ok := in.hoist(s, &x.Tag); ok {
				return []ast.Stmt{&ast.BlockStmt{List: repl}}, true
			}
		}
	case *ast.DeclStmt:
		// var x [T] = f(...)
		if gd, ok := x.Decl.(*ast.GenDecl); ok && gd.Tok == token.VAR && len(gd.Specs) == 1 {
			if vs, ok := gd.Specs[0].(*ast.ValueSpec); ok && len(vs.Values) == 1 && len(vs.Names) == 1 {
				if repl, ok := in.hoist(s, &vs.Values[0]); ok {
					return repl, true
				}
			}
		}
	case *ast.IfStmt:
		// init statement with an expandable call: move it in front, inside a block that scopes its variables
		if x.Init != nil {
			if repl, ok := in.tryInline(x.Init); ok {
				x.Init = nil
				return []ast.Stmt{&ast.BlockStmt{List: append(repl, x)}}, true
			}
			return nil, false
		}
		if repl, ok := in.hoist(s, &x.Cond); ok {
			return []ast.Stmt{&ast.BlockStmt{List: repl}}, true
		}
	}
	return nil, false
}

// hoist: *slot holds an expression in statement s; if the statement contains exactly one call that is not a builtin or
// conversion, that call sits in *slot's tree, is expandable and has a single result, the call is expanded in front of s
// and replaced by its result variable.
func (in *inliner) hoist(s ast.Stmt, slot *ast.Expr) ([]ast.Stmt, bool) {
	// calls of the statement in evaluation order (operands before the call, left to right); only the first one can be
	// moved in front of the statement without reordering calls
	var target *ast.CallExpr
	var order func(n ast.Node)
	order = func(n ast.Node) {
		ast.Inspect(n, func(node ast.Node) bool {
			if target != nil {
				return false
			}
			switch x := node.(type) {
			case *ast.FuncLit, *ast.BlockStmt:
				return false
			case *ast.CallExpr:
				order(x.Fun)
				for _, a := range x.Args {
					order(a)
				}
				if target == nil {
					if tv, ok := in.info.Types[x.Fun]; !(ok && (tv.IsType() || tv.IsBuiltin())) {
						target = x
					}
				}
				return false
			}
			return true
		})
	}
	switch x := s.(type) {
	case *ast.IfStmt:
		order(x.Cond)
	case *ast.ExprStmt:
		order(x.X)
	case *ast.AssignStmt:
		for _, e := range x.Lhs {
			order(e)
		}
		for _, e := range x.Rhs {
			order(e)
		}
	case *ast.ReturnStmt:
		for _, e := range x.Results {
			order(e)
		}
	case *ast.RangeStmt:
		order(x.X)
	case *ast.SwitchStmt:
		order(x.Tag)
	case *ast.DeclStmt:
		order(*slot)
	default:
		return nil, false
	}
	if target == nil {
		return nil, false
	}
	call, fn, fd, recv, ok := in.inlinable(target)
	if !ok || fn.Type().(*types.Signature).Results().Len() != 1 {
		return nil, false
	}
	// the call must be inside *slot
	found := false
	ast.Inspect(*slot, func(node ast.Node) bool {
		if node == ast.Node(target) {
			found = true
		}
		return !found
	})
	if !found || conditionallyEvaluated(*slot, target) {
		return nil, false
	}
	pre, res, ok := in.expand(call, fn, fd, recv)
	if !ok {
		return nil, false
	}
	tmp := ast.NewIdent(res[0])
	if *slot == ast.Expr(target) {
		*slot = tmp
	} else {
		*slot = astutil.Apply(*slot, func(c *astutil.Cursor) bool {
			if c.Node() == ast.Node(target) {
				c.Replace(tmp)
				return false
			}
			return true
		}, nil).(ast.Expr)
	}
	return append(pre, s), true
}

// conditionallyEvaluated: target sits in the right operand of && or || somewhere below root (it may not run at all).
func conditionallyEvaluated(root ast.Node, target *ast.CallExpr) bool {
	contains := func(n ast.Node) bool {
		f := false
		ast.Inspect(n, func(m ast.Node) bool {
			if m == ast.Node(target) {
				f = true
			}
			return !f
		})
		return f
	}
	cond := false
	ast.Inspect(root, func(n ast.Node) bool {
		if be, ok := n.(*ast.BinaryExpr); ok && (be.Op == token.LAND || be.Op == token.LOR) && contains(be.Y) {
			cond = true
		}
		return !cond
	})
	return cond
}

// expand builds the statements that perform the call and names the variables holding its results.
func (in *inliner) expand(call *ast.CallExpr, fn *types.Func, fd *ast.FuncDecl, recv ast.Expr) ([]ast.Stmt, []string, bool) {
	*in.counter++
	id := *in.counter
	sig := fn.Type().(*types.Signature)
	suffix := fmt.Sprintf("_inl%dx%d", in.round, id)
	rename := map[types.Object]string{}
	// every object declared inside the callee (parameters, results, locals, closure parameters) is renamed
	ast.Inspect(fd, func(n ast.Node) bool {
		if idn, ok := n.(*ast.Ident); ok {
			if obj := in.info.Defs[idn]; obj != nil && obj != types.Object(fn) {
				if _, isLabel := obj.(*types.Label); !isLabel && idn.Name != "_" {
					rename[obj] = idn.Name + suffix
				}
			}
		}
		return true
	})
	typeExpr := func(t types.Type) (ast.Expr, bool) {
		s := types.TypeString(t, in.qualifier())
		e, err := parser.ParseExpr(s)
		if err != nil {
			return nil, false
		}
		return e, true
	}
	var pre []ast.Stmt
	var resNames []string
	// result variables
	var namedRes []*types.Var
	for i := 0; i < sig.Results().Len(); i++ {
		rv := sig.Results().At(i)
		name := fmt.Sprintf("res%d%s", i, suffix)
		te, ok := typeExpr(rv.Type())
		if !ok {
			return nil, nil, false
		}
		pre = append(pre, &ast.DeclStmt{Decl: &ast.GenDecl{Tok: token.VAR, Specs: []ast.Spec{&ast.ValueSpec{Names: []*ast.Ident{ast.NewIdent(name)}, Type: te}}}})
		resNames = append(resNames, name)
		namedRes = append(namedRes, rv)
	}
	// named results of the callee are the result variables themselves
	if fd.Type.Results != nil {
		k := 0
		for _, f := range fd.Type.Results.List {
			for _, nm := range f.Names {
				if obj := in.info.Defs[nm]; obj != nil && nm.Name != "_" {
					rename[obj] = resNames[k]
				}
				k++
			}
			if len(f.Names) == 0 {
				k++
			}
		}
	}
	var inner []ast.Stmt
	bind := func(name string, t types.Type, val ast.Expr) bool {
		te, ok := typeExpr(t)
		if !ok {
			return false
		}
		inner = append(inner,
			&ast.DeclStmt{Decl: &ast.GenDecl{Tok: token.VAR, Specs: []ast.Spec{&ast.ValueSpec{Names: []*ast.Ident{ast.NewIdent(name)}, Type: te, Values: []ast.Expr{val}}}}},
			&ast.AssignStmt{Lhs: []ast.Expr{ast.NewIdent("_")}, Tok: token.ASSIGN, Rhs: []ast.Expr{ast.NewIdent(name)}})
		return true
	}
	// receiver
	if recv != nil {
		if fd.Recv == nil || len(fd.Recv.List) != 1 {
			return nil, nil, false
		}
		name := "recv" + suffix
		if len(fd.Recv.List[0].Names) == 1 && fd.Recv.List[0].Names[0].Name != "_" {
			if obj := in.info.Defs[fd.Recv.List[0].Names[0]]; obj != nil {
				name = rename[obj]
			}
		}
		if !bind(name, sig.Recv().Type(), recv) {
			return nil, nil, false
		}
	} else if fd.Recv != nil {
		return nil, nil, false
	}
	// parameters, in order
	ai := 0
	for _, f := range fd.Type.Params.List {
		names := f.Names
		if len(names) == 0 {
			names = []*ast.Ident{ast.NewIdent("_")}
		}
		for _, nm := range names {
			if ai >= len(call.Args) {
				return nil, nil, false
			}
			name := fmt.Sprintf("arg%d%s", ai, suffix)
			if nm.Name != "_" {
				if obj := in.info.Defs[nm]; obj != nil {
					name = rename[obj]
				}
			}
			if !bind(name, sig.Params().At(ai).Type(), call.Args[ai]) {
				return nil, nil, false
			}
			ai++
		}
	}
	if ai != len(call.Args) {
		return nil, nil, false
	}
	// body
	label := "L" + suffix
	q := in.qualifier()
	if !in.freeNamesVisible(call, fd, rename) {
		return nil, nil, false
	}
	c := &cloner{info: in.info, rename: rename, pkgName: func(pn *types.PkgName) string { return q(pn.Imported()) }, typeExpr: typeExpr}
	body := c.clone(reflect.ValueOf(fd.Body)).Interface().(*ast.BlockStmt)
	if c.failed {
		return nil, nil, false
	}
	replaceReturns(body, resNames, label)
	body.List = append(body.List, &ast.BranchStmt{Tok: token.BREAK, Label: ast.NewIdent(label)})
	inner = append(inner, &ast.LabeledStmt{Label: ast.NewIdent(label), Stmt: &ast.ForStmt{Body: body}})
	pre = append(pre, &ast.BlockStmt{List: inner})
	return pre, resNames, true
}

// freeNamesVisible: every package-level, imported or predeclared name the callee's body uses means the same thing at
// the call site (a local variable of the caller with the same name would capture it).
func (in *inliner) freeNamesVisible(call *ast.CallExpr, fd *ast.FuncDecl, rename map[types.Object]string) bool {
	scope := in.pkg.Types.Scope().Innermost(call.Pos())
	if scope == nil {
		return false
	}
	ok := true
	check := func(id *ast.Ident) {
		obj := in.info.Uses[id]
		if obj == nil {
			return
		}
		if _, renamed := rename[obj]; renamed {
			return
		}
		switch {
		case obj.Parent() == types.Universe, obj.Parent() == in.pkg.Types.Scope():
			if _, found := scope.LookupParent(id.Name, call.Pos()); found != obj {
				ok = false
			}
		default:
			if pn, isPkg := obj.(*types.PkgName); isPkg {
				_, found := scope.LookupParent(in.qualifier()(pn.Imported()), call.Pos())
				if found == nil {
					return
				}
				if fpn, same := found.(*types.PkgName); !same || fpn.Imported() != pn.Imported() {
					ok = false
				}
			}
		}
	}
	ast.Inspect(fd, func(n ast.Node) bool {
		if id, isId := n.(*ast.Ident); isId {
			check(id)
		}
		return ok
	})
	// the types written for the fresh variables are package-level names too
	sig := in.info.Defs[fd.Name].Type().(*types.Signature)
	names := map[string]types.Object{}
	var walk func(t types.Type, depth int)
	walk = func(t types.Type, depth int) {
		if depth > 6 {
			return
		}
		switch x := t.(type) {
		case *types.Named:
			if x.Obj().Pkg() == in.pkg.Types {
				names[x.Obj().Name()] = x.Obj()
			} else if x.Obj().Pkg() == nil {
				names[x.Obj().Name()] = x.Obj()
			}
		case *types.Basic:
			if o := types.Universe.Lookup(x.Name()); o != nil {
				names[x.Name()] = o
			}
		case *types.Pointer:
			walk(x.Elem(), depth+1)
		case *types.Slice:
			walk(x.Elem(), depth+1)
		case *types.Array:
			walk(x.Elem(), depth+1)
		case *types.Map:
			walk(x.Key(), depth+1)
			walk(x.Elem(), depth+1)
		case *types.Chan:
			walk(x.Elem(), depth+1)
		}
	}
	for i := 0; i < sig.Params().Len(); i++ {
		walk(sig.Params().At(i).Type(), 0)
	}
	for i := 0; i < sig.Results().Len(); i++ {
		walk(sig.Results().At(i).Type(), 0)
	}
	if sig.Recv() != nil {
		walk(sig.Recv().Type(), 0)
	}
	for name, obj := range names {
		if _, found := scope.LookupParent(name, call.Pos()); found != obj {
			ok = false
		}
	}
	return ok
}

func (in *inliner) qualifier() types.Qualifier {
	return func(p *types.Package) string {
		if p == in.pkg.Types {
			return ""
		}
		for _, imp := range in.file.Imports {
			path := strings.Trim(imp.Path.Value, `"`)
			if path == p.Path() {
				if imp.Name != nil && imp.Name.Name != "_" && imp.Name.Name != "." {
					return imp.Name.Name
				}
				return p.Name()
			}
		}
		astutil.AddImport(in.pkg.Fset, in.file, p.Path())
		return p.Name()
	}
}

// replaceReturns turns every return of the expanded body (not those inside function literals) into an assignment to
// the result variables followed by a break out of the expansion.
func replaceReturns(body *ast.BlockStmt, res []string, label string) {
	var fix func(list []ast.Stmt) []ast.Stmt
	var fixStmt func(s ast.Stmt) ast.Stmt
	fixStmt = func(s ast.Stmt) ast.Stmt {
		switch x := s.(type) {
		case *ast.ReturnStmt:
			var out []ast.Stmt
			if len(x.Results) > 0 {
				var lhs []ast.Expr
				for _, r := range res {
					lhs = append(lhs, ast.NewIdent(r))
				}
				out = append(out, &ast.AssignStmt{Lhs: lhs, Tok: token.ASSIGN, Rhs: x.Results})
			}
			out = append(out, &ast.BranchStmt{Tok: token.BREAK, Label: ast.NewIdent(label)})
			return &ast.BlockStmt{List: out}
		case *ast.BlockStmt:
			x.List = fix(x.List)
		case *ast.IfStmt:
			x.Body.List = fix(x.Body.List)
			if x.Else != nil {
				x.Else = fixStmt(x.Else)
			}
		case *ast.ForStmt:
			x.Body.List = fix(x.Body.List)
		case *ast.RangeStmt:
			x.Body.List = fix(x.Body.List)
		case *ast.SwitchStmt:
			x.Body.List = fix(x.Body.List)
		case *ast.TypeSwitchStmt:
			x.Body.List = fix(x.Body.List)
		case *ast.SelectStmt:
			x.Body.List = fix(x.Body.List)
		case *ast.CaseClause:
			x.Body = fix(x.Body)
		case *ast.CommClause:
			x.Body = fix(x.Body)
		case *ast.LabeledStmt:
			x.Stmt = fixStmt(x.Stmt)
		}
		return s
	}
	fix = func(list []ast.Stmt) []ast.Stmt {
		for i, s := range list {
			list[i] = fixStmt(s)
		}
		return list
	}
	body.List = fix(body.List)
}

// ---- deep copy of syntax trees

type cloner struct {
	info     *types.Info
	rename   map[types.Object]string
	pkgName  func(*types.PkgName) string // name under which the package is visible at the destination
	typeExpr func(types.Type) (ast.Expr, bool)
	failed   bool
	clearPos bool
}

var stmtSliceType = reflect.TypeOf([]ast.Stmt(nil))

// redeclares: `a, b := …` where some of the names on the left already exist in the scope (Go then assigns to them and
// declares only the others).  In the callee that scope is the function's: parameters and named results.  After the
// expansion those live one block further out, where `:=` would shadow them, so such a statement becomes
// `var b T; a, b = …`.
func (c *cloner) redeclares(s ast.Stmt) (*ast.AssignStmt, bool) {
	as, ok := s.(*ast.AssignStmt)
	if !ok || as.Tok != token.DEFINE || c.info == nil {
		return nil, false
	}
	for _, l := range as.Lhs {
		if id, ok := l.(*ast.Ident); ok && id.Name != "_" && c.info.Defs[id] == nil {
			return as, true
		}
	}
	return nil, false
}

var posType = reflect.TypeOf(token.NoPos)

func (c *cloner) clone(v reflect.Value) reflect.Value {
	switch v.Kind() {
	case reflect.Ptr:
		if v.IsNil() {
			return v
		}
		switch x := v.Interface().(type) {
		case *ast.Object, *ast.Scope:
			return reflect.Zero(v.Type())
		case *ast.Ident:
			n := &ast.Ident{Name: x.Name}
			if !c.clearPos {
				n.NamePos = token.NoPos
			}
			if c.info != nil {
				obj := c.info.Defs[x]
				if obj == nil {
					obj = c.info.Uses[x]
				}
				if nm, ok := c.rename[obj]; ok && obj != nil {
					n.Name = nm
				}
				if pn, ok := obj.(*types.PkgName); ok && c.pkgName != nil {
					n.Name = c.pkgName(pn)
				}
			}
			return reflect.ValueOf(n)
		case *ast.CommentGroup:
			return reflect.Zero(v.Type())
		}
		out := reflect.New(v.Type().Elem())
		out.Elem().Set(c.clone(v.Elem()))
		return out
	case reflect.Interface:
		if v.IsNil() {
			return v
		}
		out := reflect.New(v.Type()).Elem()
		out.Set(c.clone(v.Elem()))
		return out
	case reflect.Struct:
		out := reflect.New(v.Type()).Elem()
		for i := 0; i < v.NumField(); i++ {
			f := v.Field(i)
			if f.Type() == posType {
				// positions are dropped: the printer lays the code out from its structure.  Three positions carry
				// meaning by being valid at all (variadic call, parenthesised declaration group, alias declaration).
				switch v.Type().Field(i).Name {
				case "Ellipsis", "Lparen", "Rparen", "Assign":
					if f.Interface().(token.Pos).IsValid() {
						out.Field(i).Set(reflect.ValueOf(token.Pos(1)))
					}
				}
				continue
			}
			if !out.Field(i).CanSet() {
				continue
			}
			out.Field(i).Set(c.clone(f))
		}
		return out
	case reflect.Slice:
		if v.IsNil() {
			return v
		}
		if v.Type() == stmtSliceType && c.info != nil {
			var out []ast.Stmt
			for _, st := range v.Interface().([]ast.Stmt) {
				if as, ok := c.redeclares(st); ok {
					for _, l := range as.Lhs {
						id := l.(*ast.Ident)
						obj := c.info.Defs[id]
						if obj == nil || id.Name == "_" {
							continue
						}
						te, ok := ast.Expr(nil), false
						if c.typeExpr != nil {
							te, ok = c.typeExpr(obj.Type())
						}
						if !ok {
							c.failed = true
							continue
						}
						name := id.Name
						if nm, ok := c.rename[obj]; ok {
							name = nm
						}
						out = append(out,
							&ast.DeclStmt{Decl: &ast.GenDecl{Tok: token.VAR, Specs: []ast.Spec{&ast.ValueSpec{Names: []*ast.Ident{ast.NewIdent(name)}, Type: te}}}},
							&ast.AssignStmt{Lhs: []ast.Expr{ast.NewIdent("_")}, Tok: token.ASSIGN, Rhs: []ast.Expr{ast.NewIdent(name)}})
					}
					na := c.clone(reflect.ValueOf(as)).Interface().(*ast.AssignStmt)
					na.Tok = token.ASSIGN
					out = append(out, na)
					continue
				}
				out = append(out, c.clone(reflect.ValueOf(&st).Elem()).Interface().(ast.Stmt))
			}
			return reflect.ValueOf(out)
		}
		out := reflect.MakeSlice(v.Type(), v.Len(), v.Len())
		for i := 0; i < v.Len(); i++ {
			out.Index(i).Set(c.clone(v.Index(i)))
		}
		return out
	}
	return v
}
